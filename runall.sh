#!/bin/bash
# usage: runall.sh [tier [ID ...]] — runs every registered check (or the listed ones) and prints one line per check
T=${1:-quick}
shift
ids="$@"
[ -z "$ids" ] && ids=$(ls checks.d | sed 's/.json//')
for id in $ids; do
  s=$(date +%s)
  out=$(./check $id --tier $T 2>&1)
  rc=$?
  e=$(date +%s)
  echo "$id rc=$rc wall=$((e-s))s $(echo "$out" | grep "tier=" | sed 's/.*evaluations=/evaluations=/' | cut -c1-110) known=$(echo "$out" | grep -c '^KNOWN-FINDING')"
  echo "$out" | grep "^VIOLATION\|ENGINE-ERROR\|BROKEN" | head -5
done
