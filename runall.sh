#!/bin/bash
# runs every registered check (tier $1, default quick) and prints one line per check
T=${1:-quick}
for f in checks.d/C??.json; do
  id=$(basename $f .json)
  s=$(date +%s)
  out=$(./check $id --tier $T 2>&1)
  rc=$?
  e=$(date +%s)
  echo "$id rc=$rc wall=$((e-s))s $(echo "$out" | grep "tier=" | sed 's/.*evaluations=/evaluations=/' | cut -c1-110) known=$(echo "$out" | grep -c '^KNOWN-FINDING')"
  echo "$out" | grep "^VIOLATION\|ENGINE-ERROR\|BROKEN" | head -5
done
