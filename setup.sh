#!/bin/bash
# Offline setup: warms the Go build cache for /repo and for every harness (compile only).
export GOFLAGS=-mod=mod GOPROXY=off GOSUMDB=off GOTOOLCHAIN=local GOWORK=off
cd /repo && go build ./pkg/... >/dev/null 2>&1
cd /verif && python3 - <<'PY'
import json,subprocess,os
import glob
reg={os.path.basename(f)[:-5] for f in glob.glob('/verif/checks.d/*.json')}
for pid in reg:
    r=subprocess.run(['/verif/check',pid,'--build-only'],capture_output=True,text=True)
    print(pid,'build','ok' if r.returncode==0 else 'FAILED')
PY
exit 0
