#!/bin/bash
# Runs the repository's own test suite (guard OFF, workspace mode as in /root/.vp/BASELINE.json) and
# verifies that every test of BASELINE.stable_pass still passes.  usage: baseline.sh [repo-dir]
R=${1:-/repo}
cd "$R" || exit 2
unset GOFLAGS
# the tree must build (packages without tests are otherwise invisible to the suite)
if ! go build ./pkg/... >/dev/null 2>/tmp/baseline-build.$$; then
  grep -v "warning\|note:" /tmp/baseline-build.$$ | grep "\.go:" | head -5
  echo "baseline: BUILD FAILED"
  rm -f /tmp/baseline-build.$$
  exit 1
fi
rm -f /tmp/baseline-build.$$
out=$(mktemp)
export GOPROXY=off GOSUMDB=off GOTOOLCHAIN=local
go test -json -vet=off -count=1 -timeout 25m ./... > "$out" 2>/dev/null
python3 - "$out" <<'PY'
import json,sys
base=json.load(open('/root/.vp/BASELINE.json'))
passed=set()
for l in open(sys.argv[1]):
    try: e=json.loads(l)
    except Exception: continue
    if e.get('Action')=='pass' and e.get('Test'):
        passed.add(e['Package']+'::'+e['Test'])
missing=[t for t in base['stable_pass'] if t not in passed]
# a test whose verdict depends on map iteration order (obiutils::TestSetString) is retried alone
import subprocess,os
still=[]
for m in missing:
    pkg,test=m.split('::')
    ok=False
    for _ in range(12):
        rel='./'+pkg.split('/obitools4/obitools4/')[1]
        r=subprocess.run(['go','test','-vet=off','-count=1','-run','^'+test.split('/')[0]+'$',rel],capture_output=True,text=True)
        if r.returncode==0: ok=True;break
    if ok: print("  (passed on retry: %s)"%m)
    else: still.append(m)
missing=still
print("baseline: %d/%d stable tests pass"%(len(base['stable_pass'])-len(missing),len(base['stable_pass'])))
for m in missing: print("  MISSING",m)
sys.exit(1 if missing else 0)
PY
rc=$?
rm -f "$out"
exit $rc
