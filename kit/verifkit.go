//go:build verif

// Package verifkit is injected into the obitools4 module by `go test -overlay` (it does not
// exist in /repo). It is the small runtime shared by every harness: tier/shard parameters, result
// accumulation (counts, distinct states, samples, violations keyed by failing site) and the
// JSON result file that /verif/check merges into evidence.
package verifkit

import (
	"encoding/json"
	"fmt"
	"hash/fnv"
	"os"
	"runtime"
	"sort"
	"strconv"
	"strings"
	"sync"
	"time"
)

type Violation struct {
	Key    string `json:"key"`
	Desc   string `json:"desc"`
	Replay any    `json:"replay,omitempty"`
}

type Result struct {
	mu sync.Mutex

	Property    string           `json:"property"`
	Tier        string           `json:"tier"`
	Shard       int              `json:"shard"`
	NShards     int              `json:"nshards"`
	Evaluations int64            `json:"evaluations"`
	Transitions int64            `json:"transitions"`
	Traces      int64            `json:"traces"`
	Replays     int64            `json:"replays_checked"`
	Counters    map[string]int64 `json:"counters"`
	Samples     []any            `json:"samples"`
	Violations  []Violation      `json:"violations"`
	ViolCount   map[string]int64 `json:"violation_counts"`
	Exhaustive  bool             `json:"exhaustive"`
	Bounds      map[string]any   `json:"bounds"`
	CapsHit     []string         `json:"caps_hit"`
	Notes       []string         `json:"notes"`
	StateHashes []uint64         `json:"state_hashes"`
	StatesOver  int64            `json:"states_overflow"`
	WallS       float64          `json:"wall_s"`
	Vacuous     []string         `json:"vacuous"`

	states   map[uint64]struct{}
	start    time.Time
	deadline time.Time
	replay   json.RawMessage
}

const maxStateHashes = 400000
const maxPerKey = 3

func Tier() string {
	t := os.Getenv("VERIF_TIER")
	if t == "" {
		return "quick"
	}
	return t
}

func Thorough() bool { return Tier() == "thorough" }

func Shard() (int, int) {
	i, _ := strconv.Atoi(os.Getenv("VERIF_SHARD"))
	n, _ := strconv.Atoi(os.Getenv("VERIF_NSHARDS"))
	if n <= 0 {
		n = 1
	}
	return i, n
}

func Seed() int64 {
	s, _ := strconv.ParseInt(os.Getenv("VERIF_SEED"), 10, 64)
	return s
}

// New creates the per-process result. Exhaustive starts true and is cleared by Cap().
func New(property string) *Result {
	i, n := Shard()
	r := &Result{Property: property, Tier: Tier(), Shard: i, NShards: n,
		Counters: map[string]int64{}, ViolCount: map[string]int64{}, Bounds: map[string]any{},
		Exhaustive: true, states: map[uint64]struct{}{}, start: time.Now()}
	if d := os.Getenv("VERIF_DEADLINE_S"); d != "" {
		if s, err := strconv.ParseFloat(d, 64); err == nil && s > 0 {
			r.deadline = r.start.Add(time.Duration(s * float64(time.Second)))
		}
	}
	if p := os.Getenv("VERIF_REPLAY"); p != "" {
		b, err := os.ReadFile(p)
		if err != nil {
			panic(err)
		}
		var w struct {
			Replay json.RawMessage `json:"replay"`
		}
		if err := json.Unmarshal(b, &w); err != nil {
			panic(err)
		}
		r.replay = w.Replay
	}
	return r
}

// Mine tells whether work item k belongs to this shard.
func (r *Result) Mine(k int) bool { return k%r.NShards == r.Shard }

// ReplayCase returns the raw case of a replay request (nil when exploring).
func (r *Result) ReplayCase() json.RawMessage { return r.replay }

// Expired reports that the internal deadline passed; the caller stops and the run is reported
// as not exhaustive (never as a violation).
func (r *Result) Expired() bool {
	if memoryGuard() {
		// a tree under test that leaks (writers never closed, goroutines never ended) must end as a short run
		// that still reports what it found, not as a process the kernel kills
		r.Cap(fmt.Sprintf("memory guard: more than %d MiB of live heap, the run stops here", memLimitMiB()))
		return true
	}
	if r.deadline.IsZero() {
		return false
	}
	if time.Now().After(r.deadline) {
		r.Cap("internal deadline reached")
		return true
	}
	return false
}

var (
	memMu      sync.Mutex
	memLast    time.Time
	memTripped bool
)

func memLimitMiB() uint64 {
	if v, err := strconv.Atoi(os.Getenv("VERIF_MEM_LIMIT_MB")); err == nil && v > 0 {
		return uint64(v)
	}
	return 2048
}

// memoryGuard samples the heap at most every 300 ms; once tripped it stays tripped.
func memoryGuard() bool {
	memMu.Lock()
	defer memMu.Unlock()
	if memTripped {
		return true
	}
	if time.Since(memLast) < 300*time.Millisecond {
		return false
	}
	memLast = time.Now()
	var ms runtime.MemStats
	runtime.ReadMemStats(&ms)
	if ms.HeapAlloc > memLimitMiB()<<20 {
		// garbage may account for it: collect once before deciding
		runtime.GC()
		runtime.ReadMemStats(&ms)
		if ms.HeapAlloc > memLimitMiB()<<20 {
			memTripped = true
		}
	}
	return memTripped
}

func (r *Result) Cap(what string) {
	r.mu.Lock()
	defer r.mu.Unlock()
	r.Exhaustive = false
	for _, c := range r.CapsHit {
		if c == what {
			return
		}
	}
	r.CapsHit = append(r.CapsHit, what)
}

func (r *Result) Eval(n int64) {
	r.mu.Lock()
	r.Evaluations += n
	r.mu.Unlock()
}

func (r *Result) Trans(n int64) {
	r.mu.Lock()
	r.Transitions += n
	r.mu.Unlock()
}

func (r *Result) Trace(n int64) {
	r.mu.Lock()
	r.Traces += n
	r.mu.Unlock()
}

func (r *Result) Replayed(n int64) {
	r.mu.Lock()
	r.Replays += n
	r.mu.Unlock()
}

func (r *Result) Count(name string, n int64) {
	r.mu.Lock()
	r.Counters[name] += n
	r.mu.Unlock()
}

func (r *Result) Bound(name string, v any) {
	r.mu.Lock()
	r.Bounds[name] = v
	r.mu.Unlock()
}

func (r *Result) Note(format string, a ...any) {
	r.mu.Lock()
	r.Notes = append(r.Notes, fmt.Sprintf(format, a...))
	r.mu.Unlock()
}

// State records a canonical end state / outcome; distinct states are counted across shards by hash.
func (r *Result) State(canon string) {
	h := fnv.New64a()
	h.Write([]byte(canon))
	r.StateH(h.Sum64())
}

func (r *Result) StateH(h uint64) {
	r.mu.Lock()
	if _, ok := r.states[h]; !ok {
		if len(r.states) < maxStateHashes {
			r.states[h] = struct{}{}
		} else {
			r.StatesOver++
		}
	}
	r.mu.Unlock()
}

func (r *Result) Sample(s any) {
	r.mu.Lock()
	if len(r.Samples) < 6 {
		r.Samples = append(r.Samples, s)
	}
	r.mu.Unlock()
}

// Violate records a violation. key identifies the failing site/input class (used by the
// known-findings filter); at most maxPerKey full records are kept per key, all are counted.
func (r *Result) Violate(key, desc string, replay any) {
	r.mu.Lock()
	r.ViolCount[key]++
	if r.ViolCount[key] <= maxPerKey {
		r.Violations = append(r.Violations, Violation{key, desc, replay})
	}
	r.mu.Unlock()
}

// RequireNonVacuous marks the run broken (exit 2, not a violation) when a counter that proves the
// interesting branch was exercised is zero. Only meaningful on shard 0 of single-shard runs or for
// counters that every shard must hit; the driver evaluates it on the merged counters.
func (r *Result) RequireNonVacuous(counter string) {
	r.mu.Lock()
	r.Vacuous = append(r.Vacuous, counter)
	r.mu.Unlock()
}

func (r *Result) Write() {
	r.mu.Lock()
	defer r.mu.Unlock()
	r.WallS = time.Since(r.start).Seconds()
	r.StateHashes = r.StateHashes[:0]
	for h := range r.states {
		r.StateHashes = append(r.StateHashes, h)
	}
	sort.Slice(r.StateHashes, func(i, j int) bool { return r.StateHashes[i] < r.StateHashes[j] })
	out := os.Getenv("VERIF_OUT")
	if out == "" {
		out = "/dev/stdout"
	}
	b, err := json.Marshal(r)
	if err != nil {
		panic(err)
	}
	if err := os.WriteFile(out, b, 0o644); err != nil {
		panic(err)
	}
}

// ---- small enumerators shared by harnesses ----

// Strings calls f for every string over alphabet with length in [minLen,maxLen], shortest first.
func Strings(alphabet string, minLen, maxLen int, f func(s string)) {
	buf := make([]byte, 0, maxLen)
	var rec func(l int)
	rec = func(l int) {
		if l == 0 {
			f(string(buf))
			return
		}
		for i := 0; i < len(alphabet); i++ {
			buf = append(buf, alphabet[i])
			rec(l - 1)
			buf = buf[:len(buf)-1]
		}
	}
	for l := minLen; l <= maxLen; l++ {
		rec(l)
	}
}

// AllStrings materialises Strings.
func AllStrings(alphabet string, minLen, maxLen int) []string {
	var out []string
	Strings(alphabet, minLen, maxLen, func(s string) { out = append(out, s) })
	return out
}

// Permutations calls f with every permutation of 0..n-1 (lexicographic order); f must not keep p.
func Permutations(n int, f func(p []int)) {
	p := make([]int, n)
	used := make([]bool, n)
	var rec func(k int)
	rec = func(k int) {
		if k == n {
			f(p)
			return
		}
		for i := 0; i < n; i++ {
			if !used[i] {
				used[i] = true
				p[k] = i
				rec(k + 1)
				used[i] = false
			}
		}
	}
	rec(0)
}

// Compositions calls f with every way of writing total as an ordered sum of n parts >= min.
func Compositions(total, n, min int, f func(parts []int)) {
	parts := make([]int, n)
	var rec func(k, left int)
	rec = func(k, left int) {
		if k == n-1 {
			if left >= min {
				parts[k] = left
				f(parts)
			}
			return
		}
		for v := min; v <= left; v++ {
			parts[k] = v
			rec(k+1, left-v)
		}
	}
	if n == 0 {
		if total == 0 {
			f(parts)
		}
		return
	}
	rec(0, total)
}

func JoinInts(p []int) string {
	s := make([]string, len(p))
	for i, v := range p {
		s[i] = strconv.Itoa(v)
	}
	return strings.Join(s, ",")
}
