#!/bin/bash
# usage: seedcheck.sh <seed-name> <property-id> [tier]   — validates an independently written property-breaking
# change kept in /tmp/seed/out-<seed-name>/ (patch.diff + demo) on a FRESH worktree of /repo HEAD, runs the
# registered check against it and stores everything under /verif/seeded/<seed-name>/.
set -u
S=$1; P=$2; TIER=${3:-quick}
OUT=/tmp/seed/out-$S
WT=/tmp/seedv-$S
export GOFLAGS=-mod=mod GOPROXY=off GOSUMDB=off GOTOOLCHAIN=local GOWORK=off
git -C /repo worktree remove --force $WT 2>/dev/null
git -C /repo worktree add -q $WT HEAD || exit 2
cd $WT
demo=$(ls $OUT | grep -v "patch.diff\|notes.md\|^\." | head -5 | tr '\n' ' ')
res_apply=ok; git apply $OUT/patch.diff || res_apply=FAILED
res_build=ok; go build ./pkg/... >/dev/null 2>&1 || res_build=FAILED
res_base=$(/verif/baseline.sh $WT 2>&1 | tail -1)
# demonstration: with the change, then without
pkgdir=$(git diff --name-only | head -1 | xargs dirname)
demo_with=skipped; demo_without=skipped
for f in $OUT/*_test.go; do
  [ -f "$f" ] || continue
  dpkg=$(grep -l "" $OUT/notes.md >/dev/null; grep -o "pkg/[a-z/]*/$(basename $f)" $OUT/notes.md | head -1 | xargs dirname 2>/dev/null)
  if [ -z "$dpkg" ]; then
    pn=$(grep -m1 "^package " $f | awk '{print $2}' | sed 's/_test$//')
    dpkg=$(find pkg -type d -name "$pn" | head -1)
  fi
  [ -z "$dpkg" ] && dpkg=$pkgdir
  cp $f $dpkg/
  (cd $WT && GOFLAGS= GOWORK= go test -vet=off -count=1 -run 'Demo|demo' ./$dpkg >/tmp/seedv-$S.with 2>&1) && demo_with=PASS || demo_with=FAIL
  git apply -R $OUT/patch.diff
  (cd $WT && GOFLAGS= GOWORK= go test -vet=off -count=1 -run 'Demo|demo' ./$dpkg >/tmp/seedv-$S.without 2>&1) && demo_without=PASS || demo_without=FAIL
  git apply $OUT/patch.diff
  rm -f $dpkg/$(basename $f)
done
cd /verif
chk=$(VERIF_REPO=$WT ./check $P --tier $TIER 2>&1)
rc=$(echo "$chk" | grep -c "^VIOLATION")
exh=$(echo "$chk" | grep "tier=" | sed 's/.*exhaustive=\([A-Za-z]*\).*/\1/' | tail -1)
eng=$(echo "$chk" | grep -c "ENGINE-ERROR\|BROKEN-HARNESS")
keys=$(echo "$chk" | grep -B1 "^VIOLATION" | grep "^  " | cut -c1-200)
mkdir -p /verif/seeded/$S
cp $OUT/patch.diff /verif/seeded/$S/; cp $OUT/notes.md /verif/seeded/$S/ 2>/dev/null; for f in $OUT/*_test.go $OUT/*.sh $OUT/*.py; do [ -f "$f" ] && cp $f /verif/seeded/$S/$(basename $f).txt; done
python3 - "$S" "$P" "$TIER" "$res_apply" "$res_build" "$res_base" "$demo_with" "$demo_without" "$rc" "$keys" "$exh" "$eng" <<'PY'
import json,sys
s,p,tier,ap,bu,ba,dw,dwo,rc,keys,exh,eng=sys.argv[1:]
notes=open('/tmp/seed/out-%s/notes.md'%s).read() if True else ''
meta={"seed":s,"property":p,"patch_applies_on_repo_HEAD":ap,"builds":bu,"repository_tests":ba,
 "demonstration_with_change":dw,"demonstration_without_change":dwo,
 "check_run":"VERIF_REPO=<fresh worktree with patch> ./check %s --tier %s"%(p,tier),
 "violations_reported":int(rc),"violation_keys":[k.strip() for k in keys.split('\n') if k.strip()],
 "detected":int(rc)>0,
 "check_run_exhaustive":exh, "check_run_engine_errors":int(eng or 0),
 "needs_to_manifest":"see notes.md (written by the independent agent)"}
json.dump(meta,open('/verif/seeded/%s/meta.json'%s,'w'),indent=1)
print(json.dumps(meta,indent=1))
PY
git -C /repo worktree remove --force $WT
rm -f /tmp/seedv-$S.with /tmp/seedv-$S.without
