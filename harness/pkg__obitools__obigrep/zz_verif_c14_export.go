//go:build verif

package obigrep

// C14 hook for the harness of package obiannotate (harness/pkg__obitools__obiannotate/zz_verif_c14_test.go):
// obiannotate takes its taxonomy and its selection options from this package, which keeps them in
// unexported package variables (the loaded taxonomy is cached for the life of the process). A harness that
// parses many command lines on many taxonomies in one process has to put them back to their start-up
// values. Injected by the overlay of /verif/check only; nothing of the implementation is changed.

// VerifC14ForgetTaxonomy drops the taxonomy cached by CLILoadSelectedTaxonomy.
func VerifC14ForgetTaxonomy() {
	_Taxonomy = nil
	_Taxdump = ""
}

// VerifC14ResetSelection puts the taxonomy selection options back to their start-up values (the option
// parser appends to the lists and takes the current value of a flag as its default).
func VerifC14ResetSelection() {
	_BelongTaxa = make([]string, 0)
	_NotBelongTaxa = make([]int, 0)
	_RequiredRanks = make([]string, 0)
	_InvertMatch = false
}
