//go:build verif

package obigrep

// C16 — obigrep / obiannotate / obidistribute / obimultiplex -u act on each record as their options say.
//
// Driver of the REAL binaries (built from the tree this harness is compiled from). Every option atom,
// every pair (quick) and every triple (thorough) of atoms is run through the binary on a 14-record input
// whose records sit on the boundaries of the option values, for --max-cpu {1,3} x --batch-size {1,5};
// paired inputs: every --paired-mode x the subsets of size <= 2. The outputs (stdout, --save-discarded
// file, _R1/_R2 files, obidistribute file set, obimultiplex -u file) are parsed back and compared with a
// reference interpreter of the options (three-valued: true / false / unconstrained).

import (
	"bytes"
	"context"
	"encoding/json"
	"fmt"
	"os"
	"os/exec"
	"path/filepath"
	"regexp"
	"sort"
	"strconv"
	"strings"
	"sync"
	"sync/atomic"
	"testing"
	"time"

	"git.metabarcoding.org/obitools/obitools4/obitools4/pkg/verifkit"
)

// ---------------------------------------------------------------- record model

type c16rec struct {
	ID  string
	Ann map[string]any // includes "definition"
	Seq string
}

func (r c16rec) clone() c16rec {
	a := make(map[string]any, len(r.Ann))
	for k, v := range r.Ann {
		a[k] = v
	}
	return c16rec{r.ID, a, r.Seq}
}

func (r c16rec) canon() string {
	a := r.Ann
	if a == nil {
		a = map[string]any{}
	}
	b, _ := json.Marshal(a)
	return r.ID + " " + string(b) + " " + r.Seq
}

func (r c16rec) count() int {
	if v, ok := r.Ann["count"]; ok {
		if f, ok := v.(float64); ok {
			return int(f)
		}
	}
	return 1
}

func (r c16rec) str(key string) (string, bool) {
	v, ok := r.Ann[key]
	if !ok {
		return "", false
	}
	switch x := v.(type) {
	case string:
		return x, true
	case float64:
		return strconv.FormatFloat(x, 'f', -1, 64), true
	}
	return fmt.Sprint(v), true
}

func c16mk(id, seq string, count int, k1, k2 string, k3, taxid int, def string) c16rec {
	a := map[string]any{}
	if count > 0 {
		a["count"] = float64(count)
	}
	if k1 != "" {
		a["k1"] = k1
	}
	if k2 != "" {
		a["k2"] = k2
	}
	if k3 > 0 {
		a["k3"] = float64(k3)
	}
	if taxid > 0 {
		a["taxid"] = float64(taxid)
	}
	if def != "" {
		a["definition"] = def
	}
	return c16rec{id, a, seq}
}

// The 14 records: lengths 4,5,9,10,11,12,16 (boundaries of -l/-L 9,10,11 and of --cut ..:5 / ..:11),
// counts absent,1,2,3,4 (boundaries of -c/-C 1,2,3), keys present/absent, one record without anything.
var c16input = []c16rec{
	c16mk("r01", "acgtacgtac", 1, "aa", "x1", 0, 3, "first def alpha"),
	c16mk("r02", "acgtacgtacg", 2, "ab", "", 0, 4, "second def beta"),
	c16mk("r03", "acgtacgta", 3, "", "x2", 0, 5, "third"),
	c16mk("r04", "ttttttttttgg", 0, "bb", "x1", 0, 2, "no count def"),
	c16mk("r05", "acgtnacgtac", 2, "", "", 0, 6, ""),
	c16mk("s06", "acgtacgtacgtacgt", 0, "", "", 0, 7, "nothing at all"),
	c16mk("s07", "ggca", 3, "aa", "", 5, 1, ""),
	c16mk("s08", "tgcat", 1, "ba", "x1", 0, 3, "def eight"),
	c16mk("s09", "acgtacgtan", 2, "aa", "x11", 0, 5, "gamma"),
	c16mk("r10", "cgtacgtac", 1, "ab", "x1", 7, 6, "tenth"),
	c16mk("t11", "ccgtacgtacg", 3, "", "x1", 0, 4, "eleven def"),
	c16mk("t12", "acgtacgtac", 0, "", "", 0, 0, ""),
	c16mk("t13", "acgtacgta", 2, "bb", "x2", 2, 2, "def"),
	c16mk("t14", "gcgtacgtacgt", 4, "aa", "x1", 0, 3, "last def omega"),
}

// mate i carries the properties of record (3i+5) mod 14, id suffixed ".2"
func c16mates() []c16rec {
	n := len(c16input)
	out := make([]c16rec, n)
	for i := range out {
		m := c16input[(3*i+5)%n].clone()
		m.ID += ".2"
		out[i] = m
	}
	return out
}

func c16fasta(recs []c16rec) []byte {
	var b bytes.Buffer
	for _, r := range recs {
		a := map[string]any{}
		def := ""
		for k, v := range r.Ann {
			if k == "definition" {
				def = v.(string)
			} else {
				a[k] = v
			}
		}
		b.WriteString(">" + r.ID)
		if len(a) > 0 {
			j, _ := json.Marshal(a)
			b.WriteString(" " + string(j))
		}
		if def != "" {
			b.WriteString(" " + def)
		}
		b.WriteString("\n" + r.Seq + "\n")
	}
	return b.Bytes()
}

func c16parse(data []byte) ([]c16rec, error) {
	var out []c16rec
	var seq strings.Builder
	flush := func() {
		if len(out) > 0 {
			out[len(out)-1].Seq = seq.String()
		}
		seq.Reset()
	}
	for _, line := range strings.Split(string(data), "\n") {
		line = strings.TrimRight(line, "\r")
		if line == "" {
			continue
		}
		if line[0] == '>' {
			flush()
			h := line[1:]
			id, rest := h, ""
			if i := strings.IndexAny(h, " \t"); i >= 0 {
				id, rest = h[:i], strings.TrimSpace(h[i+1:])
			}
			ann := map[string]any{}
			if strings.HasPrefix(rest, "{") {
				dec := json.NewDecoder(strings.NewReader(rest))
				if err := dec.Decode(&ann); err != nil {
					return nil, fmt.Errorf("header of %s: %v", id, err)
				}
				rest = strings.TrimSpace(rest[dec.InputOffset():])
			}
			if rest != "" {
				if _, ok := ann["definition"]; !ok {
					ann["definition"] = rest
				}
			}
			out = append(out, c16rec{ID: id, Ann: ann})
			continue
		}
		if len(out) == 0 {
			return nil, fmt.Errorf("sequence line before any header: %q", line)
		}
		seq.WriteString(strings.TrimSpace(line))
	}
	flush()
	return out, nil
}

// c16short abridges a record (the filler records of the multi-chunk input are > 1 MiB) for messages
func c16short(s string) string {
	if len(s) > 400 {
		return fmt.Sprintf("%s...[%d bytes]...%s", s[:200], len(s), s[len(s)-60:])
	}
	return s
}

// The multi-chunk input: the sequence readers cut a file into chunks of 1 MiB, one batch per chunk (the last
// record of the file apart), whatever --batch-size says: the 14 records travel as two batches of 13 and 1
// records until something re-batches them. Three copies of them (identifiers suffixed b, c) separated by two
// filler records of 1.1 MiB give a stream of four batches (14, 15, 14, 1 records) to the workers
// (--max-cpu) and classes that exceed --batch-size by two batches and more.
func c16bigInput() []c16rec {
	var out []c16rec
	filler := func(id string, unit string, k1 string) c16rec {
		return c16rec{ID: id, Ann: map[string]any{"count": float64(2), "k1": k1, "taxid": float64(7)}, Seq: strings.Repeat(unit, 1100*1024/len(unit))}
	}
	for copyNo, suffix := range []string{"", "b", "c"} {
		for _, r := range c16input {
			m := r.clone()
			m.ID += suffix
			out = append(out, m)
		}
		if copyNo == 0 {
			out = append(out, filler("big1", "acgt", "aa"))
		}
		if copyNo == 1 {
			out = append(out, filler("big2", "ttgca", "zz"))
		}
	}
	return out
}

// ---------------------------------------------------------------- three-valued logic

type c16tv int

const (
	c16F c16tv = 0
	c16T c16tv = 1
	c16U c16tv = 2 // unconstrained by the statement
)

func c16b(b bool) c16tv {
	if b {
		return c16T
	}
	return c16F
}

func c16not(a c16tv) c16tv {
	switch a {
	case c16T:
		return c16F
	case c16F:
		return c16T
	}
	return c16U
}

func c16and(a, b c16tv) c16tv {
	if a == c16F || b == c16F {
		return c16F
	}
	if a == c16U || b == c16U {
		return c16U
	}
	return c16T
}

func c16or(a, b c16tv) c16tv {
	if a == c16T || b == c16T {
		return c16T
	}
	if a == c16U || b == c16U {
		return c16U
	}
	return c16F
}

func c16lift(mode string, a, b c16tv) c16tv {
	f := func(x, y bool) bool {
		switch mode {
		case "forward":
			return x
		case "reverse":
			return y
		case "and":
			return x && y
		case "or":
			return x || y
		case "andnot":
			return x && !y
		case "xor":
			return x != y
		}
		panic("mode " + mode)
	}
	vals := func(t c16tv) []bool {
		switch t {
		case c16T:
			return []bool{true}
		case c16F:
			return []bool{false}
		}
		return []bool{true, false}
	}
	seenT, seenF := false, false
	for _, x := range vals(a) {
		for _, y := range vals(b) {
			if f(x, y) {
				seenT = true
			} else {
				seenF = true
			}
		}
	}
	if seenT && seenF {
		return c16U
	}
	return c16b(seenT)
}

// ---------------------------------------------------------------- synthetic taxonomy

// 1 root(no rank) ; 2 family<-1 ; 3 genus<-2 ; 5 species<-3 ; 4 species<-2 ; 6 genus<-1 ; 7 species<-6
var c16parent = map[int]int{1: 1, 2: 1, 3: 2, 5: 3, 4: 2, 6: 1, 7: 6}
var c16rank = map[int]string{1: "no rank", 2: "family", 3: "genus", 5: "species", 4: "species", 6: "genus", 7: "species"}

func c16inClade(taxid, clade int) bool {
	for {
		if taxid == clade {
			return true
		}
		p, ok := c16parent[taxid]
		if !ok || p == taxid {
			return false
		}
		taxid = p
	}
}

func c16hasRank(taxid int, rank string) bool {
	for {
		if c16rank[taxid] == rank {
			return true
		}
		p, ok := c16parent[taxid]
		if !ok || p == taxid {
			return false
		}
		taxid = p
	}
}

func c16taxid(r *c16rec) (int, bool) {
	v, ok := r.Ann["taxid"]
	if !ok {
		return 0, false
	}
	return int(v.(float64)), true
}

// ---------------------------------------------------------------- option atoms

type c16atom struct {
	name   string
	family string   // goes into violation keys
	slot   string   // atoms sharing a non-empty slot are never combined (same non-repeatable option)
	args   []string // {D} = data directory, {O} = per-run output directory
	pred   func(r *c16rec) c16tv
	edit   string // obiannotate edit group
	taxo   bool
	mod    string // "v" | "sd" | "apfwd" (--only-forward) | "aperr" (--pattern-error 1)
	vac    bool   // criterion that no record can fail (-c 1): the code treats it as "no criterion"
	orGrp  string // atoms of one group are alternatives (several -r: the taxon lies in ONE of the clades)
	approx string // --approx-pattern: evaluated by c16approx with the error budget / strand modifiers of the case
	rep    string // repeatable option this atom is an occurrence of (all occurrences together = a repeat case)
}

// c16reAtom: a regular-expression criterion. ci says what the option's OWN description (obigrep --help)
// states about the case of the pattern: T = "case insensitive", F = "case sensitive", U = says nothing. When
// the two readings differ on a record, the description decides; with no statement the record is unconstrained.
func c16reAtom(name, family, opt, pat string, get func(r *c16rec) (string, bool), ci c16tv) c16atom {
	reS := regexp.MustCompile(pat)
	reI := regexp.MustCompile("(?i)" + pat)
	return c16atom{name: name, family: family, args: []string{opt, pat}, pred: func(r *c16rec) c16tv {
		s, ok := get(r)
		if !ok {
			return c16F
		}
		ms, mi := reS.MatchString(s), reI.MatchString(s)
		if ms == mi {
			return c16b(ms)
		}
		switch ci {
		case c16T:
			return c16b(mi)
		case c16F:
			return c16b(ms)
		}
		return c16U
	}}
}

// c16helpCase reads, in the --help text of the binary, what the description of --<long> says about case.
func c16helpCase(help, long string) c16tv {
	for _, l := range strings.Split(help, "\n") {
		t := strings.TrimSpace(l)
		if !strings.HasPrefix(t, "--"+long+"|") && !strings.HasPrefix(t, "--"+long+" ") {
			continue
		}
		switch {
		case strings.Contains(t, "case insensitive"):
			return c16T
		case strings.Contains(t, "case sensitive"):
			return c16F
		}
		return c16U
	}
	return c16U
}

func c16rcIupac(s string) string {
	m := map[byte]byte{'a': 't', 'c': 'g', 'g': 'c', 't': 'a'}
	b := []byte(s)
	o := make([]byte, len(b))
	for i := range b {
		c, ok := m[b[len(b)-1-i]]
		if !ok {
			c = 'n'
		}
		o[i] = c
	}
	return string(o)
}

// c16approx: --approx-pattern (plain acgt pattern, substitutions only): true iff some window of the sequence
// (or, both strands, of its reverse complement) is within maxErr mismatches of the pattern. A window whose
// verdict depends on how an ambiguous base of the SEQUENCE is scored leaves the record unconstrained.
func c16approx(pat, seq string, maxErr int, both bool) c16tv {
	one := func(sq string) c16tv {
		res := c16F
		for i := 0; i+len(pat) <= len(sq); i++ {
			d, amb := 0, 0
			for j := 0; j < len(pat); j++ {
				c := sq[i+j]
				switch {
				case c != 'a' && c != 'c' && c != 'g' && c != 't':
					amb++
				case c != pat[j]:
					d++
				}
			}
			switch {
			case d+amb <= maxErr:
				return c16T
			case d <= maxErr:
				res = c16U
			}
		}
		return res
	}
	v := one(seq)
	if both {
		v = c16or(v, one(c16rcIupac(seq)))
	}
	return v
}

var c16idList = []string{"r01", " s06 ", "t12", "zz", "r03.2", "t13.2", "s07"}

// c16idFile: the --id-list file: the 7 entries above in the middle of 6000 identifiers that select nothing
func c16idFile() []byte {
	var b bytes.Buffer
	for i := 0; i < 3000; i++ {
		fmt.Fprintf(&b, "zz%05d\n", i)
	}
	b.WriteString(strings.Join(c16idList, "\n") + "\n")
	for i := 3000; i < 6000; i++ {
		fmt.Fprintf(&b, "r01%05d\n", i) // an entry that merely starts with a selected identifier selects nothing
	}
	return b.Bytes()
}

func c16grepAtoms(help string) []c16atom {
	var out []c16atom
	for _, n := range []int{9, 10, 11} {
		n := n
		out = append(out, c16atom{name: fmt.Sprintf("l%d", n), family: "min-length", slot: "l", args: []string{"-l", strconv.Itoa(n)},
			pred: func(r *c16rec) c16tv { return c16b(len(r.Seq) >= n) }})
		out = append(out, c16atom{name: fmt.Sprintf("L%d", n), family: "max-length", slot: "L", args: []string{"-L", strconv.Itoa(n)},
			pred: func(r *c16rec) c16tv { return c16b(len(r.Seq) <= n) }})
	}
	for _, n := range []int{1, 2, 3} {
		n := n
		out = append(out, c16atom{name: fmt.Sprintf("c%d", n), family: "min-count", slot: "c", args: []string{"-c", strconv.Itoa(n)}, vac: n <= 1,
			pred: func(r *c16rec) c16tv { return c16b(r.count() >= n) }})
		out = append(out, c16atom{name: fmt.Sprintf("C%d", n), family: "max-count", slot: "C", args: []string{"-C", strconv.Itoa(n)},
			pred: func(r *c16rec) c16tv { return c16b(r.count() <= n) }})
	}
	id := func(r *c16rec) (string, bool) { return r.ID, true }
	def := func(r *c16rec) (string, bool) { s, _ := r.str("definition"); return s, true }
	seq := func(r *c16rec) (string, bool) { return r.Seq, true }
	key := func(k string) func(r *c16rec) (string, bool) {
		return func(r *c16rec) (string, bool) { return r.str(k) }
	}
	ciI, ciD, ciS, ciA := c16helpCase(help, "identifier"), c16helpCase(help, "definition"), c16helpCase(help, "sequence"), c16helpCase(help, "attribute")
	rep := func(a c16atom, r string) c16atom { a.rep = r; return a }
	fam := func(a c16atom, f string) c16atom { a.family = f; return a }
	// every pattern option: 3 occurrences (the builders chain the 2nd, 3rd ... in a loop of their own); the
	// data is lower case, the "uc" atoms carry an upper-case pattern: what they select is what the option's
	// own description says about case
	out = append(out,
		rep(c16reAtom("I", "identifier", "-I", "^r", id, ciI), "I"),
		rep(c16reAtom("I2", "identifier", "-I", "1", id, ciI), "I"),
		rep(c16reAtom("I3", "identifier", "-I", "0", id, ciI), "I"),
		fam(c16reAtom("Iuc", "", "-I", "^R", id, ciI), "identifier(upper-case pattern)"),
		rep(c16reAtom("D", "definition", "-D", "def", def, ciD), "D"),
		rep(c16reAtom("D2", "definition", "-D", "a$", def, ciD), "D"),
		rep(c16reAtom("D3", "definition", "-D", "^[a-z]+ ", def, ciD), "D"),
		fam(c16reAtom("Duc", "", "-D", "DEF", def, ciD), "definition(upper-case pattern)"),
		rep(c16reAtom("s", "sequence", "-s", "^[acgt]+$", seq, ciS), "s"),
		rep(fam(c16reAtom("s2", "", "-s", "CGTAC$", seq, ciS), "sequence(upper-case pattern)"), "s"),
		rep(c16reAtom("s3", "sequence", "-s", "^a", seq, ciS), "s"),
	)
	attr := func(name, k, pat, family string) c16atom {
		a := c16reAtom(name, family, "-a", pat, key(k), ciA)
		a.args = []string{"-a", k + "=" + pat}
		return a
	}
	out = append(out,
		rep(attr("a1", "k1", "^a", "attribute"), "a"),
		rep(attr("a2", "k2", "x1", "attribute"), "a"),
		rep(attr("a3", "count", "^[23]$", "attribute"), "a"), // a numeric value, matched through its decimal form
		attr("auc", "k1", "^A", "attribute(upper-case pattern)"),
	)
	for i, k := range []string{"k1", "k2", "k3"} {
		k := k
		out = append(out, c16atom{name: fmt.Sprintf("A%d", i+1), family: "has-attribute", rep: "A", args: []string{"-A", k},
			pred: func(r *c16rec) c16tv { _, ok := r.Ann[k]; return c16b(ok) }})
	}
	ids := map[string]bool{}
	for _, s := range c16idList {
		ids[strings.TrimSpace(s)] = true
	}
	out = append(out, c16atom{name: "idlist", family: "id-list", slot: "idlist", args: []string{"--id-list", "{D}/ids.txt"},
		pred: func(r *c16rec) c16tv { return c16b(ids[r.ID]) }})
	out = append(out,
		c16atom{name: "p1", family: "predicate", rep: "p", args: []string{"-p", "sequence.Count() >= 2 || sequence.Len() < 6"},
			pred: func(r *c16rec) c16tv { return c16b(r.count() >= 2 || len(r.Seq) < 6) }},
		c16atom{name: "p2", family: "predicate", rep: "p", args: []string{"-p", `contains(annotations,"k2")`},
			pred: func(r *c16rec) c16tv { _, ok := r.Ann["k2"]; return c16b(ok) }},
		c16atom{name: "p3", family: "predicate", rep: "p", args: []string{"-p", "sequence.Len() != 9"},
			pred: func(r *c16rec) c16tv { return c16b(len(r.Seq) != 9) }},
	)
	// taxonomic options, 3 occurrences each: several -r = the taxon lies in ONE of the clades (orGrp), several
	// -i = in none of them, several --require-rank = every rank is defined
	for i, clade := range []int{2, 6, 7} {
		clade := clade
		out = append(out, c16atom{name: []string{"tr", "tr2", "tr3"}[i], family: "restrict-to-taxon", taxo: true, rep: "tr", orGrp: "tr",
			args: []string{"-r", strconv.Itoa(clade)},
			pred: func(r *c16rec) c16tv {
				t, ok := c16taxid(r)
				return c16b(ok && c16inClade(t, clade))
			}})
	}
	for i, clade := range []int{3, 6, 4} {
		clade := clade
		out = append(out, c16atom{name: []string{"ti", "ti2", "ti3"}[i], family: "ignore-taxon", taxo: true, rep: "ti",
			args: []string{"-i", strconv.Itoa(clade)},
			pred: func(r *c16rec) c16tv {
				t, ok := c16taxid(r)
				if !ok {
					return c16U // record without taxid under ignore-taxon: not constrained
				}
				return c16b(!c16inClade(t, clade))
			}})
	}
	for i, rank := range []string{"genus", "family", "species"} {
		rank := rank
		out = append(out, c16atom{name: []string{"trk", "trk2", "trk3"}[i], family: "require-rank", taxo: true, rep: "trk",
			args: []string{"--require-rank", rank},
			pred: func(r *c16rec) c16tv {
				t, ok := c16taxid(r)
				return c16b(ok && c16hasRank(t, rank))
			}})
	}
	// --approx-pattern (2 occurrences; the second one is found on the reverse strand only) and its modifiers
	out = append(out,
		c16atom{name: "ap1", family: "approx-pattern", rep: "ap", args: []string{"--approx-pattern", "tacgta"}, approx: "tacgta"},
		c16atom{name: "ap2", family: "approx-pattern", rep: "ap", args: []string{"--approx-pattern", "ccaa"}, approx: "ccaa"},
		c16atom{name: "apfwd", family: "only-forward", slot: "apfwd", args: []string{"--only-forward"}, mod: "apfwd"},
		c16atom{name: "aperr", family: "pattern-error", slot: "aperr", args: []string{"--pattern-error", "1"}, mod: "aperr"},
	)
	out = append(out,
		c16atom{name: "v", family: "inverse-match", slot: "v", args: []string{"-v"}, mod: "v"},
		c16atom{name: "sd", family: "save-discarded", slot: "sd", args: []string{"--save-discarded", "{O}/disc.fasta"}, mod: "sd"},
	)
	return out
}

const c16setIdExpr = `printf("%s_x%d",sequence.Id(),sequence.Len())`

func c16annotAtoms() []c16atom {
	return []c16atom{
		{name: "S1", family: "set-tag", rep: "S", args: []string{"-S", "n1=1"}, edit: "S1"},
		{name: "S2", family: "set-tag", rep: "S", args: []string{"-S", `n2="two"`}, edit: "S2"},
		{name: "S3", family: "set-tag", rep: "S", args: []string{"-S", "n3=sequence.Len()"}, edit: "S3"},
		{name: "S4", family: "set-tag", rep: "S", args: []string{"-S", `k1="zz"`}, edit: "S4"},
		{name: "del1", family: "delete-tag", rep: "del", args: []string{"--delete-tag", "k1"}, edit: "del:k1"},
		{name: "del2", family: "delete-tag", rep: "del", args: []string{"--delete-tag", "count"}, edit: "del:count"},
		{name: "del3", family: "delete-tag", rep: "del", args: []string{"--delete-tag", "k2"}, edit: "del:k2"},
		{name: "R1", family: "rename-tag", rep: "R", args: []string{"-R", "z1=k1"}, edit: "ren:z1=k1"},
		{name: "R2", family: "rename-tag", rep: "R", args: []string{"-R", "z2=k2"}, edit: "ren:z2=k2"},
		{name: "R3", family: "rename-tag", rep: "R", args: []string{"-R", "z3=k3"}, edit: "ren:z3=k3"},
		{name: "k1", family: "keep", rep: "k", args: []string{"-k", "k1"}, edit: "keep:k1"},
		{name: "k2", family: "keep", rep: "k", args: []string{"-k", "count"}, edit: "keep:count"},
		{name: "k3", family: "keep", rep: "k", args: []string{"-k", "k2"}, edit: "keep:k2"},
		{name: "clear", family: "clear", slot: "clear", args: []string{"--clear"}, edit: "clear"},
		{name: "setid", family: "set-identifier", slot: "setid", args: []string{"--set-identifier", c16setIdExpr}, edit: "setid"},
		{name: "length", family: "length", slot: "length", args: []string{"--length"}, edit: "length"},
		{name: "cut1", family: "cut", slot: "cut", args: []string{"--cut", "2:5"}, edit: "cut:2:5"},
		{name: "cut2", family: "cut", slot: "cut", args: []string{"--cut", "3:-2"}, edit: "cut:3:-2"},
		{name: "cut3", family: "cut", slot: "cut", args: []string{"--cut", "2:11"}, edit: "cut:2:11"},
		{name: "gl", family: "criterion", slot: "gl", args: []string{"-l", "10"},
			pred: func(r *c16rec) c16tv { return c16b(len(r.Seq) >= 10) }},
		{name: "gA", family: "criterion", slot: "gA", args: []string{"-A", "k1"},
			pred: func(r *c16rec) c16tv { _, ok := r.Ann["k1"]; return c16b(ok) }},
		{name: "gc", family: "criterion", slot: "gc", args: []string{"-c", "2"},
			pred: func(r *c16rec) c16tv { return c16b(r.count() >= 2) }},
		// -v: the edits go to the records that do NOT satisfy the criteria (no effect without a criterion)
		{name: "gv", family: "inverse-match", slot: "gv", args: []string{"-v"}, mod: "v"},
	}
}

func c16distAtoms() []c16atom {
	return []c16atom{
		{name: "ck1", family: "classifier", args: []string{"-c", "k1"}},
		{name: "ccount", family: "classifier", args: []string{"-c", "count"}},
		{name: "ck1dk2", family: "classifier+directory", args: []string{"-c", "k1", "-d", "k2"}},
		{name: "ck3", family: "classifier", args: []string{"-c", "k3"}}, // 11 of the 14 records in the NA class
		{name: "ck1na", family: "classifier+na-value", args: []string{"-c", "k1", "--na-value", "none"}},
		{name: "hash3", family: "hash", args: []string{"-H", "3"}},
		{name: "batches3", family: "batches", args: []string{"-n", "3"}},
	}
}

// ---------------------------------------------------------------- cases

type c16case struct {
	Tool   string   `json:"tool"`
	Atoms  []string `json:"atoms"`
	CPU    int      `json:"cpu"`
	Batch  int      `json:"batch"`
	Paired string   `json:"paired,omitempty"`
	Input  string   `json:"input,omitempty"` // "" = the 14 records, "big" = the multi-chunk input
}

func (c c16case) id() string {
	return fmt.Sprintf("%s|%s|%d|%d|%s|%s", c.Tool, strings.Join(c.Atoms, ","), c.CPU, c.Batch, c.Paired, c.Input)
}

type c16verdict struct {
	Class   string // "" = agrees with the reference
	Desc    string
	Skipped bool // outside what the statement constrains
	Ran     bool
	NonTriv bool
}

type c16entry struct {
	once sync.Once
	v    c16verdict
}

type c16env struct {
	r       *verifkit.Result
	bin     string
	data    string
	runs    string
	atoms   map[string]map[string]c16atom // tool -> name -> atom
	order   map[string][]string           // tool -> atom names in declaration order
	memo    sync.Map                      // case id -> *c16entry
	seq     int64
	mates   []c16rec
	procs   int64
	mxReads []c16rec
	mxMates []c16rec
	big     []c16rec
}

func (e *c16env) input(c c16case) []c16rec {
	if c.Input == "big" {
		return e.big
	}
	return c16input
}

// inFile: the input file of a case (ord 1 = records in reverse order)
func (e *c16env) inFile(c c16case, ord int) string {
	name := "in"
	if c.Input == "big" {
		name = "inbig"
	}
	if ord == 1 {
		name += "_rev"
	}
	return filepath.Join(e.data, name+".fasta")
}

func (e *c16env) subst(args []string, out string) []string {
	o := make([]string, len(args))
	for i, a := range args {
		a = strings.ReplaceAll(a, "{D}", e.data)
		a = strings.ReplaceAll(a, "{O}", out)
		o[i] = a
	}
	return o
}

type c16proc struct {
	stdout, stderr []byte
	err            error
	timedOut       bool
}

// exec runs the command; a crash (panic / signal, not a log.Fatal refusal) that does not reproduce on an
// immediate re-run is a scheduling-dependent failure outside the option semantics: it is retried, counted
// and noted (with its stack), the verdict is taken from the re-run.
func (e *c16env) exec(dir, tool string, args []string) c16proc {
	p := e.exec1(dir, tool, args)
	for try := 0; try < 2 && p.err != nil && !p.timedOut && bytes.Contains(p.stderr, []byte("goroutine ")); try++ {
		for _, f := range c16listFiles(dir) {
			os.Remove(filepath.Join(dir, f))
		}
		q := e.exec1(dir, tool, args)
		if q.err == nil {
			e.r.Count("sporadic_crashes_not_reproduced_on_rerun", 1)
			st := string(p.stderr)
			if i := strings.Index(st, "panic:"); i >= 0 {
				st = st[i:]
			}
			if len(st) > 1800 {
				st = st[:1800]
			}
			e.r.Note("sporadic crash (passed on re-run): %s %s: %s", tool, strings.Join(args, " "), st)
			return q
		}
		p = q
	}
	return p
}

func (e *c16env) exec1(dir, tool string, args []string) c16proc {
	atomic.AddInt64(&e.procs, 1)
	ctx, cancel := context.WithTimeout(context.Background(), 300*time.Second)
	defer cancel()
	cmd := exec.CommandContext(ctx, filepath.Join(e.bin, tool), args...)
	cmd.Dir = dir
	var env []string
	for _, kv := range os.Environ() {
		if strings.HasPrefix(kv, "OBI") {
			continue
		}
		env = append(env, kv)
	}
	cmd.Env = env
	var so, se bytes.Buffer
	cmd.Stdout, cmd.Stderr = &so, &se
	err := cmd.Run()
	return c16proc{so.Bytes(), se.Bytes(), err, ctx.Err() == context.DeadlineExceeded}
}

func c16errTail(b []byte) string {
	var keep []string
	for _, l := range strings.Split(string(b), "\n") {
		if l == "" || strings.Contains(l, "level=info") {
			continue
		}
		keep = append(keep, l)
	}
	if len(keep) > 6 {
		keep = keep[:6]
	}
	s := strings.Join(keep, " / ")
	if len(s) > 700 {
		s = s[:700]
	}
	return s
}

func (e *c16env) newRunDir() string {
	d := filepath.Join(e.runs, fmt.Sprintf("run%06d", atomic.AddInt64(&e.seq, 1)))
	os.MkdirAll(d, 0o755)
	return d
}

// eval runs (memoised) one case against the reference.
func (e *c16env) eval(c c16case) c16verdict {
	x, _ := e.memo.LoadOrStore(c.id(), &c16entry{})
	en := x.(*c16entry)
	en.once.Do(func() {
		// the comparison code reads what a binary of the tree under test wrote: whatever that is, judging it
		// must end in a verdict on the case, never in the death of the process
		defer func() {
			if p := recover(); p != nil {
				en.v = c16verdict{Ran: true, Class: "harness", Desc: fmt.Sprintf("%s: the comparison with the reference panicked on what the command wrote: %v", c.id(), p)}
			}
		}()
		switch c.Tool {
		case "obigrep":
			en.v = e.evalGrep(c)
		case "obiannotate":
			en.v = e.evalAnnot(c)
		case "obidistribute":
			en.v = e.evalDist(c)
		case "obimultiplex":
			en.v = e.evalMultiplex(c)
		default:
			en.v = c16verdict{Class: "harness", Desc: "unknown tool " + c.Tool}
		}
		if en.v.Ran {
			e.r.Eval(1)
		}
	})
	return en.v
}

func (e *c16env) getAtoms(c c16case) ([]c16atom, error) {
	var out []c16atom
	for _, n := range c.Atoms {
		a, ok := e.atoms[c.Tool][n]
		if !ok {
			return nil, fmt.Errorf("unknown atom %s/%s", c.Tool, n)
		}
		out = append(out, a)
	}
	return out, nil
}

func c16general(c c16case) []string {
	return []string{"--max-cpu", strconv.Itoa(c.CPU), "--batch-size", strconv.Itoa(c.Batch), "--no-progressbar"}
}

// ---------------------------------------------------------------- obigrep

func c16readRecs(path string) ([]c16rec, bool, error) {
	b, err := os.ReadFile(path)
	if err != nil {
		if os.IsNotExist(err) {
			return nil, false, nil
		}
		return nil, false, err
	}
	r, err := c16parse(b)
	return r, true, err
}

func (e *c16env) evalGrep(c c16case) c16verdict {
	atoms, err := e.getAtoms(c)
	if err != nil {
		return c16verdict{Class: "harness", Desc: err.Error()}
	}
	var crit []c16atom
	inv, sd, taxo := false, false, false
	apErr, apBoth := 0, true
	for _, a := range atoms {
		switch {
		case a.mod == "v":
			inv = true
		case a.mod == "sd":
			sd = true
		case a.mod == "apfwd":
			apBoth = false
		case a.mod == "aperr":
			apErr = 1
		default:
			crit = append(crit, a)
		}
		taxo = taxo || a.taxo
	}
	paired := c.Paired != ""
	effective := 0
	for _, a := range crit {
		if !a.vac {
			effective++
		}
	}
	if effective == 0 && (inv || c.Paired == "andnot" || c.Paired == "xor") {
		// -v / a pair mode that negates one side, without any criterion a record could fail: the
		// statement presupposes a criterion to invert or to oppose between mates
		return c16verdict{Skipped: true}
	}
	c16input := e.input(c) // (shadows the 14 records: the case may run on the multi-chunk input)
	n := len(c16input)
	want := make([]c16tv, n)
	alt := make([]c16tv, n) // -v applied to each read before the pair lifting (what the code does)
	evalCrit := func(r *c16rec) c16tv {
		v := c16T
		alt := map[string]c16tv{}
		for _, a := range crit {
			var x c16tv
			if a.approx != "" {
				x = c16approx(a.approx, r.Seq, apErr, apBoth)
			} else {
				x = a.pred(r)
			}
			if a.orGrp != "" {
				if y, ok := alt[a.orGrp]; ok {
					x = c16or(x, y)
				}
				alt[a.orGrp] = x
				continue
			}
			v = c16and(v, x)
		}
		for _, x := range alt {
			v = c16and(v, x)
		}
		return v
	}
	nT, nF := 0, 0
	for i := range c16input {
		f := evalCrit(&c16input[i])
		v := f
		av := c16not(f)
		if paired {
			m := evalCrit(&e.mates[i])
			v = c16lift(c.Paired, f, m)
			av = c16lift(c.Paired, c16not(f), c16not(m))
		}
		if inv {
			v = c16not(v) // "-v keeps exactly the others": the complement of the selection
		} else {
			av = v
		}
		want[i], alt[i] = v, av
		if v == c16T {
			nT++
		}
		if v == c16F {
			nF++
		}
	}

	dir := e.newRunDir()
	defer os.RemoveAll(dir)
	args := c16general(c)
	if taxo {
		args = append(args, "-t", filepath.Join(e.data, "taxdump"))
	}
	for _, a := range atoms {
		args = append(args, e.subst(a.args, dir)...)
	}
	if paired {
		args = append(args, "--paired-with", filepath.Join(e.data, "mate.fasta"), "--paired-mode", c.Paired,
			"-o", filepath.Join(dir, "out.fasta"))
	}
	args = append(args, e.inFile(c, 0))
	p := e.exec(dir, "obigrep", args)
	v := c16verdict{Ran: true, NonTriv: nT > 0 && nF > 0}
	cmdline := "obigrep " + strings.Join(args, " ")
	if p.timedOut {
		v.Class, v.Desc = "hang", cmdline+": no exit within 300 s"
		return v
	}
	if p.err != nil {
		v.Class, v.Desc = "exit-status", fmt.Sprintf("%s: %v: %s", cmdline, p.err, c16errTail(p.stderr))
		return v
	}
	var kept, keptM, disc, discM []c16rec
	discPresent := false
	outMissing := false // paired: neither out_R1 nor out_R2 exists (reported only if a record had to be there)
	if paired {
		var ok1, ok2 bool
		kept, ok1, err = c16readRecs(filepath.Join(dir, "out_R1.fasta"))
		if err == nil {
			keptM, ok2, err = c16readRecs(filepath.Join(dir, "out_R2.fasta"))
		}
		if err == nil && ok1 != ok2 {
			v.Class, v.Desc = "paired-sync", cmdline+": only one of out_R1.fasta / out_R2.fasta was written"
			return v
		}
		outMissing = err == nil && !ok1
	} else {
		kept, err = c16parse(p.stdout)
	}
	if err != nil {
		v.Class, v.Desc = "unparsable-output", cmdline+": "+err.Error()
		return v
	}
	if sd {
		if paired {
			var ok2 bool
			disc, discPresent, err = c16readRecs(filepath.Join(dir, "disc_R1.fasta"))
			if err == nil {
				discM, ok2, err = c16readRecs(filepath.Join(dir, "disc_R2.fasta"))
			}
			if err == nil && ok2 != discPresent {
				v.Class, v.Desc = "discarded-paired-sync", cmdline+": only one of disc_R1.fasta / disc_R2.fasta was written"
				return v
			}
		} else {
			disc, discPresent, err = c16readRecs(filepath.Join(dir, "disc.fasta"))
		}
		if err != nil {
			v.Class, v.Desc = "unparsable-output", cmdline+": discarded file: "+err.Error()
			return v
		}
	}
	_ = discPresent
	e.r.Trans(int64(n))

	index := map[string]int{}
	for i, r := range c16input {
		index[r.ID] = i
	}
	// content + occurrences
	occ := make([]int, n)
	occD := make([]int, n)
	chk := func(list, mates []c16rec, occ []int, what string) (string, string) {
		for j, r := range list {
			i, ok := index[r.ID]
			if !ok {
				return "content", fmt.Sprintf("%s holds a record %q that is not in the input", what, r.ID)
			}
			if r.canon() != c16input[i].canon() {
				return "content", fmt.Sprintf("%s: record altered: got %s want %s", what, c16short(r.canon()), c16short(c16input[i].canon()))
			}
			occ[i]++
			if paired {
				if j >= len(mates) {
					return "paired-sync", fmt.Sprintf("%s: forward file has %d records, reverse file %d", what, len(list), len(mates))
				}
				if mates[j].canon() != e.mates[i].canon() {
					return "paired-sync", fmt.Sprintf("%s: rank %d holds %s in the forward file but %s in the reverse file (mate is %s)",
						what, j, r.ID, mates[j].canon(), e.mates[i].canon())
				}
			}
		}
		if paired && len(mates) != len(list) {
			return "paired-sync", fmt.Sprintf("%s: forward file has %d records, reverse file %d", what, len(list), len(mates))
		}
		return "", ""
	}
	if cl, d := chk(kept, keptM, occ, "selected output"); cl != "" {
		v.Class, v.Desc = cl, cmdline+": "+d
		return v
	}
	if sd {
		if cl, d := chk(disc, discM, occD, "discarded file"); cl != "" {
			v.Class, v.Desc = "discarded-"+cl, cmdline+": "+d
			return v
		}
	}
	show := func(w []c16tv, t c16tv) string {
		var ids []string
		for i, x := range w {
			if x == t {
				ids = append(ids, c16input[i].ID)
			}
		}
		return strings.Join(ids, ",")
	}
	got := func(occ []int) string {
		var ids []string
		for i, x := range occ {
			for k := 0; k < x; k++ {
				ids = append(ids, c16input[i].ID)
			}
		}
		return strings.Join(ids, ",")
	}
	matches := func(w []c16tv) bool {
		for i := range w {
			switch w[i] {
			case c16T:
				if occ[i] != 1 {
					return false
				}
			case c16F:
				if occ[i] != 0 {
					return false
				}
			default:
				if occ[i] > 1 {
					return false
				}
			}
		}
		return true
	}
	if !matches(want) {
		v.Class = "kept-set"
		if paired && inv && matches(alt) {
			v.Class = "inverse-match-per-read"
		}
		if outMissing {
			v.Class = "paired-output-missing"
		}
		v.Desc = fmt.Sprintf("%s: selected {%s}, the options select {%s} (unconstrained {%s})", cmdline, got(occ), show(want, c16T), show(want, c16U))
		return v
	}
	if sd {
		for i := range want {
			bad := false
			switch want[i] {
			case c16T:
				bad = occD[i] != 0
			case c16F:
				bad = occD[i] != 1
			default:
				bad = occ[i]+occD[i] != 1
			}
			if bad {
				v.Class = "discarded-set"
				// the file stops early (possibly empty or absent) but what it holds is right: the
				// signature of a writer that was not waited for
				var comp []string
				for j := range want {
					if occ[j] == 0 {
						comp = append(comp, c16input[j].ID)
					}
				}
				if len(disc) < len(comp) {
					prefix := true
					for j := range disc {
						if disc[j].ID != comp[j] {
							prefix = false
						}
					}
					if prefix {
						v.Class = "discarded-truncated"
					}
				}
				v.Desc = fmt.Sprintf("%s: discarded file holds {%s}, selected output {%s}; the complement of the selection is {%s}",
					cmdline, got(occD), got(occ), show(want, c16F))
				return v
			}
		}
	}
	return v
}

// ---------------------------------------------------------------- obiannotate

type c16edit func(r *c16rec, sub bool) bool // false: record cannot be edited that way (unconstrained)

func c16cut(a, b int) c16edit {
	return func(r *c16rec, sub bool) bool {
		L := len(r.Seq)
		from, to := a, b
		if to < 0 {
			to = L + to + 1
		}
		if to > L {
			to = L
		}
		if from < 1 || from > to {
			return false
		}
		r.Seq = r.Seq[from-1 : to]
		if sub {
			r.ID = fmt.Sprintf("%s_sub[%d..%d]", r.ID, from, to)
		}
		return true
	}
}

// c16edits groups the requested edit atoms into the edits of the reference, in the order in which the
// code chains them (used first; every other order is accepted too).
func c16edits(atoms []c16atom) []c16edit {
	has := map[string]bool{}
	for _, a := range atoms {
		if a.edit != "" {
			has[a.edit] = true
		}
	}
	var out []c16edit
	simple := func(f func(r *c16rec)) c16edit { return func(r *c16rec, _ bool) bool { f(r); return true } }
	if has["clear"] {
		out = append(out, simple(func(r *c16rec) { r.Ann = map[string]any{} }))
	}
	if has["setid"] {
		out = append(out, simple(func(r *c16rec) { r.ID = fmt.Sprintf("%s_x%d", r.ID, len(r.Seq)) }))
	}
	for _, k := range []string{"k1", "count", "k2"} {
		k := k
		if has["del:"+k] {
			out = append(out, simple(func(r *c16rec) { delete(r.Ann, k) }))
		}
	}
	keep := map[string]bool{}
	for _, k := range []string{"k1", "count", "k2"} {
		if has["keep:"+k] {
			keep[k] = true
		}
	}
	if len(keep) > 0 {
		out = append(out, simple(func(r *c16rec) {
			for k := range r.Ann {
				if !keep[k] {
					delete(r.Ann, k)
				}
			}
		}))
	}
	for _, p := range [][2]string{{"z1", "k1"}, {"z2", "k2"}, {"z3", "k3"}} {
		p := p
		if has["ren:"+p[0]+"="+p[1]] {
			out = append(out, simple(func(r *c16rec) {
				if v, ok := r.Ann[p[1]]; ok {
					r.Ann[p[0]] = v
					delete(r.Ann, p[1])
				}
			}))
		}
	}
	if has["length"] {
		out = append(out, simple(func(r *c16rec) { r.Ann["seq_length"] = float64(len(r.Seq)) }))
	}
	if has["S1"] {
		out = append(out, simple(func(r *c16rec) { r.Ann["n1"] = float64(1) }))
	}
	if has["S2"] {
		out = append(out, simple(func(r *c16rec) { r.Ann["n2"] = "two" }))
	}
	if has["S3"] {
		out = append(out, simple(func(r *c16rec) { r.Ann["n3"] = float64(len(r.Seq)) }))
	}
	if has["S4"] {
		out = append(out, simple(func(r *c16rec) { r.Ann["k1"] = "zz" }))
	}
	for _, ab := range [][2]int{{2, 5}, {3, -2}, {2, 11}} {
		if has[fmt.Sprintf("cut:%d:%d", ab[0], ab[1])] {
			out = append(out, c16cut(ab[0], ab[1]))
		}
	}
	return out
}

func (e *c16env) evalAnnot(c c16case) c16verdict {
	atoms, err := e.getAtoms(c)
	if err != nil {
		return c16verdict{Class: "harness", Desc: err.Error()}
	}
	var crit []c16atom
	inv := false
	for _, a := range atoms {
		if a.pred != nil {
			crit = append(crit, a)
		}
		if a.mod == "v" {
			inv = true
		}
	}
	if inv && len(crit) == 0 {
		return c16verdict{Skipped: true} // -v without a criterion to invert
	}
	paired := c.Paired != ""
	edits := c16edits(atoms)
	c16input := e.input(c) // (shadows the 14 records: the case may run on the multi-chunk input)
	n := len(c16input)
	sel := make([]c16tv, n)
	for i := range c16input {
		v := c16T
		for _, a := range crit {
			v = c16and(v, a.pred(&c16input[i]))
		}
		if inv {
			v = c16not(v)
		}
		sel[i] = v
	}
	dir := e.newRunDir()
	defer os.RemoveAll(dir)
	args := c16general(c)
	for _, a := range atoms {
		args = append(args, e.subst(a.args, dir)...)
	}
	if paired {
		args = append(args, "--paired-with", filepath.Join(e.data, "mate.fasta"), "-o", filepath.Join(dir, "out.fasta"))
	}
	args = append(args, e.inFile(c, 0))
	p := e.exec(dir, "obiannotate", args)
	v := c16verdict{Ran: true, NonTriv: len(edits) > 0}
	cmdline := "obiannotate " + strings.Join(args, " ")
	if p.timedOut {
		v.Class, v.Desc = "hang", cmdline+": no exit within 300 s"
		return v
	}
	if p.err != nil {
		v.Class, v.Desc = "exit-status", fmt.Sprintf("%s: %v: %s", cmdline, p.err, c16errTail(p.stderr))
		return v
	}
	var out, outM []c16rec
	outMissing := false // paired: neither out_R1 nor out_R2 exists (reported only if a record had to be there)
	if paired {
		var ok1, ok2 bool
		out, ok1, err = c16readRecs(filepath.Join(dir, "out_R1.fasta"))
		if err == nil {
			outM, ok2, err = c16readRecs(filepath.Join(dir, "out_R2.fasta"))
		}
		if err == nil && ok1 != ok2 {
			v.Class, v.Desc = "paired-sync", cmdline+": only one of out_R1.fasta / out_R2.fasta was written"
			return v
		}
		outMissing = err == nil && !ok1
	} else {
		out, err = c16parse(p.stdout)
	}
	if err != nil {
		v.Class, v.Desc = "unparsable-output", cmdline+": "+err.Error()
		return v
	}
	e.r.Trans(int64(n))
	actual := make([]string, len(out))
	for i, r := range out {
		actual[i] = r.canon()
	}
	orig := make([]string, n)
	for i, r := range c16input {
		orig[i] = r.canon()
	}
	// every order of the requested edits x (cut renames the id | cut keeps the id)
	explained := false   // the (forward) records
	explainedM := false  // ... and the mates at the same ranks
	mateDetail := ""
	var firstForms []string
	var firstOK []bool
	nperm := 0
	verifkit.Permutations(len(edits), func(perm []int) {
		if explained && (explainedM || !paired) {
			return
		}
		for _, sub := range []bool{true, false} {
			nperm++
			forms := make([]string, n)
			okf := make([]bool, n)
			for i := range c16input {
				r := c16input[i].clone()
				ok := true
				for _, k := range perm {
					if !edits[k](&r, sub) {
						ok = false
						break
					}
				}
				okf[i] = ok
				forms[i] = r.canon()
			}
			if firstForms == nil {
				firstForms, firstOK = forms, okf
			}
			// match the actual records to input records
			used := make([]bool, n)
			assign := make([]int, len(actual))
			good := true
			for j, a := range actual {
				found := false
				for i := 0; i < n && !found; i++ {
					if used[i] {
						continue
					}
					if (okf[i] && a == forms[i]) || ((sel[i] != c16T || !okf[i]) && a == orig[i]) {
						used[i], found = true, true
						assign[j] = i
					}
				}
				if !found {
					good = false
					break
				}
			}
			if good {
				for i := 0; i < n; i++ {
					if sel[i] == c16T && okf[i] && !used[i] {
						good = false
					}
				}
			}
			if !good {
				continue
			}
			explained = true
			if !paired {
				return
			}
			// both mates kept or dropped together, at the same rank; the mate itself is unchanged or
			// received the same edits (the statement does not say which)
			goodM := len(outM) == len(out)
			if !goodM && mateDetail == "" {
				mateDetail = fmt.Sprintf("forward file has %d records, reverse file %d", len(out), len(outM))
			}
			for j := 0; goodM && j < len(out); j++ {
				i := assign[j]
				got := outM[j].canon()
				if got == e.mates[i].canon() {
					continue
				}
				m := e.mates[i].clone()
				ok := true
				for _, k := range perm {
					if !edits[k](&m, sub) {
						ok = false
						break
					}
				}
				if ok && got == m.canon() {
					continue
				}
				goodM = false
				if mateDetail == "" {
					mateDetail = fmt.Sprintf("rank %d holds %s in the forward file but %s in the reverse file (mate is %s)",
						j, out[j].ID, c16short(got), c16short(e.mates[i].canon()))
				}
			}
			if goodM {
				explainedM = true
				return
			}
		}
	})
	if explained && (explainedM || !paired) {
		return v
	}
	if explained {
		v.Class, v.Desc = "paired-sync", cmdline+": "+mateDetail
		return v
	}
	must := 0
	for i := range sel {
		if sel[i] == c16T && firstOK[i] {
			must++
		}
	}
	v.Class = "edit-wrong"
	if len(actual) < must {
		v.Class = "record-dropped"
	}
	if outMissing {
		v.Class = "paired-output-missing"
	}
	// describe the first record that differs from the reference in the code's own chaining order
	byForm := map[string]bool{}
	for _, a := range actual {
		byForm[a] = true
	}
	detail := ""
	for i := 0; i < n; i++ {
		if sel[i] == c16T && firstOK[i] && !byForm[firstForms[i]] {
			gotRec := "(absent)"
			for _, o := range out {
				if strings.HasPrefix(o.ID, c16input[i].ID) {
					gotRec = o.canon()
				}
			}
			detail = fmt.Sprintf("record %s: want %s got %s", c16input[i].ID, c16short(firstForms[i]), c16short(gotRec))
			break
		}
	}
	v.Desc = fmt.Sprintf("%s: %d records out for %d in; no order of the requested edits explains the output; %s", cmdline, len(actual), n, detail)
	return v
}

// ---------------------------------------------------------------- obidistribute

func c16listFiles(root string) []string {
	var out []string
	filepath.Walk(root, func(p string, info os.FileInfo, err error) error {
		if err == nil && !info.IsDir() {
			rel, _ := filepath.Rel(root, p)
			out = append(out, rel)
		}
		return nil
	})
	sort.Strings(out)
	return out
}

func (e *c16env) evalDist(c c16case) c16verdict {
	atoms, err := e.getAtoms(c)
	if err != nil || len(atoms) != 1 {
		return c16verdict{Class: "harness", Desc: fmt.Sprint("bad obidistribute case ", c.Atoms, err)}
	}
	a := atoms[0]
	v := c16verdict{Ran: true, NonTriv: true}
	c16input := e.input(c) // (shadows the 14 records: the case may run on the multi-chunk input)
	n := len(c16input)
	index := map[string]int{}
	for i, r := range c16input {
		index[r.ID] = i
	}
	var assign [2][]string
	for ord := 0; ord < 2; ord++ {
		dir := e.newRunDir()
		defer os.RemoveAll(dir)
		args := append(c16general(c), "-p", "o_%s.fasta")
		args = append(args, a.args...)
		args = append(args, e.inFile(c, ord))
		p := e.exec(dir, "obidistribute", args)
		cmdline := "obidistribute " + strings.Join(args, " ")
		if p.timedOut {
			v.Class, v.Desc = "hang", cmdline+": no exit within 300 s"
			return v
		}
		if p.err != nil {
			v.Class, v.Desc = "exit-status", fmt.Sprintf("%s: %v: %s", cmdline, p.err, c16errTail(p.stderr))
			return v
		}
		where := make([]string, n)
		for _, f := range c16listFiles(dir) {
			recs, _, err := c16readRecs(filepath.Join(dir, f))
			if err != nil {
				v.Class, v.Desc = "unparsable-output", cmdline+": "+f+": "+err.Error()
				return v
			}
			for _, r := range recs {
				i, ok := index[r.ID]
				if !ok {
					v.Class, v.Desc = "content", fmt.Sprintf("%s: file %s holds a record %q that is not in the input", cmdline, f, r.ID)
					return v
				}
				if r.canon() != c16input[i].canon() {
					v.Class, v.Desc = "content", fmt.Sprintf("%s: file %s: record altered: got %s want %s", cmdline, f, c16short(r.canon()), c16short(c16input[i].canon()))
					return v
				}
				if where[i] != "" {
					v.Class, v.Desc = "not-disjoint", fmt.Sprintf("%s: record %s written to %s and to %s", cmdline, r.ID, where[i], f)
					return v
				}
				where[i] = f
			}
		}
		e.r.Trans(int64(n))
		for i := range where {
			if where[i] == "" {
				v.Class, v.Desc = "record-lost", fmt.Sprintf("%s: record %s is in no output file (files: %v)", cmdline, c16input[i].ID, c16listFiles(dir))
				return v
			}
		}
		// file = function of the record
		na := "NA"
		if a.name == "ck1na" {
			na = "none"
		}
		val := func(r *c16rec, k string) string {
			if s, ok := r.str(k); ok {
				return s
			}
			return na
		}
		for i := range c16input {
			r := &c16input[i]
			want := ""
			switch a.name {
			case "ck1", "ck1na":
				want = "o_" + val(r, "k1") + ".fasta"
			case "ck3":
				want = "o_" + val(r, "k3") + ".fasta"
			case "ccount":
				want = "o_" + val(r, "count") + ".fasta"
			case "ck1dk2":
				want = filepath.Join(val(r, "k2"), "o_"+val(r, "k1")+".fasta")
			}
			if _, hasDir := r.Ann["k2"]; a.name == "ck1dk2" && !hasDir && where[i] == "o_"+val(r, "k1")+".fasta" {
				// record without the directory tag: directory <na-value> or no directory, both accepted
				e.r.Count("distribute_missing_directory_tag_written_without_directory", 1)
				continue
			}
			if want != "" && where[i] != want {
				v.Class, v.Desc = "wrong-file", fmt.Sprintf("%s: record %s written to %s, its classifier value designates %s", cmdline, r.ID, where[i], want)
				return v
			}
			if a.name == "hash3" {
				for j := 0; j < i; j++ {
					if c16input[j].Seq == r.Seq && where[j] != where[i] {
						v.Class, v.Desc = "not-a-function-of-the-record", fmt.Sprintf("%s: %s and %s have the same sequence but go to %s and %s",
							cmdline, c16input[j].ID, r.ID, where[j], where[i])
						return v
					}
				}
			}
		}
		assign[ord] = where
	}
	if a.name != "batches3" {
		for i := range assign[0] {
			if assign[0][i] != assign[1][i] {
				v.Class, v.Desc = "not-a-function-of-the-record", fmt.Sprintf("obidistribute %v: record %s goes to %s, to %s when the input is reversed",
					a.args, c16input[i].ID, assign[0][i], assign[1][i])
				return v
			}
		}
	}
	return v
}

// ---------------------------------------------------------------- obimultiplex -u

func c16rc(s string) string {
	b := []byte(s)
	m := map[byte]byte{'a': 't', 'c': 'g', 'g': 'c', 't': 'a'}
	for i, j := 0, len(b)-1; i <= j; i, j = i+1, j-1 {
		b[i], b[j] = m[b[j]], m[b[i]]
	}
	return string(b)
}

func c16mxReads() []c16rec {
	fp, rp := "ttagataccccactatgc", "tagaacaggctcctctag"
	t1, t2 := "aattaac", "gaagtag"
	bc := "ggatcgatcgatcgatgcatgcatgcta"
	amp := func(tf, b, tr string) string { return tf + fp + b + c16rc(rp) + c16rc(tr) }
	seqs := []string{
		amp(t1, bc, t1),
		amp(t2, bc+"a", t2),
		amp("ccccccc", bc, "ccccccc"),                  // unknown tags
		"acgtacgtacgtacgtacgtacgtacgtacgtacgtacgtacgt", // no primer
		c16rc(amp(t1, bc+"cc", t1)),                    // other strand
		amp(t1, bc, t2),                                // tags of two different samples
		amp(t2, bc+"gg", t2),
		t1 + fp + bc, // forward primer only
		amp(t1, bc+"t", t1),
		"ttttttttttttttttttttttttttttttttttttttt",
		c16rc(amp(t2, bc+"ac", t2)),
		amp("ggggggg", bc, t1),
	}
	out := make([]c16rec, len(seqs))
	for i, s := range seqs {
		out[i] = c16rec{ID: fmt.Sprintf("m%02d", i+1), Ann: map[string]any{"x": float64(i)}, Seq: s}
	}
	return out
}

const c16ngs = `@param,primer_mismatches,0
experiment,sample,sample_tag,forward_primer,reverse_primer
exp,s1,aattaac,TTAGATACCCCACTATGC,TAGAACAGGCTCCTCTAG
exp,s2,gaagtag,TTAGATACCCCACTATGC,TAGAACAGGCTCCTCTAG
`

var c16subRe = regexp.MustCompile(`_sub\[\d+\.\.\d+\]$`)

// mate k of the obimultiplex reads: the first 20 bases of the other strand, id suffixed ".2"
func c16mxMates(reads []c16rec) []c16rec {
	out := make([]c16rec, len(reads))
	for i, r := range reads {
		s := c16rc(r.Seq)
		if len(s) > 20 {
			s = s[:20]
		}
		out[i] = c16rec{ID: r.ID + ".2", Ann: map[string]any{"x": float64(100 + i)}, Seq: s}
	}
	return out
}

// obimultiplex: atoms = [] (-u file), ["keep"] (-u file --keep-errors: same routing); Paired != "" adds
// --paired-with / -o: stdout becomes out_R1/out_R2, the unidentified file unid_R1/unid_R2.
func (e *c16env) evalMultiplex(c c16case) c16verdict {
	v := c16verdict{Ran: true}
	index := map[string]int{}
	for i, r := range e.mxReads {
		index[r.ID] = i
	}
	n := len(e.mxReads)
	paired := c.Paired != ""
	var route [2][]string
	for ord := 0; ord < 2; ord++ {
		dir := e.newRunDir()
		defer os.RemoveAll(dir)
		args := append(c16general(c), "-t", filepath.Join(e.data, "ngs.csv"), "-u", filepath.Join(dir, "unid.fasta"))
		for _, a := range c.Atoms {
			if a != "keep" {
				return c16verdict{Class: "harness", Desc: "unknown obimultiplex atom " + a}
			}
			args = append(args, "--keep-errors")
		}
		if paired {
			args = append(args, "--paired-with", filepath.Join(e.data, []string{"mxmate.fasta", "mxmate_rev.fasta"}[ord]),
				"-o", filepath.Join(dir, "out.fasta"))
		}
		args = append(args, filepath.Join(e.data, []string{"mx.fasta", "mx_rev.fasta"}[ord]))
		p := e.exec(dir, "obimultiplex", args)
		cmdline := "obimultiplex " + strings.Join(args, " ")
		if p.timedOut {
			v.Class, v.Desc = "hang", cmdline+": no exit within 300 s"
			return v
		}
		if p.err != nil {
			v.Class, v.Desc = "exit-status", fmt.Sprintf("%s: %v: %s", cmdline, p.err, c16errTail(p.stderr))
			return v
		}
		var assigned, unid, assignedM, unidM []c16rec
		var err error
		outMissing := false // paired: a pair of output files does not exist (reported only if a read is lost)
		if paired {
			var ok1, ok2 bool
			assigned, ok1, err = c16readRecs(filepath.Join(dir, "out_R1.fasta"))
			if err == nil {
				assignedM, ok2, err = c16readRecs(filepath.Join(dir, "out_R2.fasta"))
			}
			if err == nil && ok1 != ok2 {
				v.Class, v.Desc = "paired-sync", cmdline+": only one of out_R1.fasta / out_R2.fasta was written"
				return v
			}
			outMissing = err == nil && !ok1
			if err == nil {
				unid, ok1, err = c16readRecs(filepath.Join(dir, "unid_R1.fasta"))
			}
			if err == nil {
				unidM, ok2, err = c16readRecs(filepath.Join(dir, "unid_R2.fasta"))
			}
			outMissing = outMissing || (err == nil && !ok1 && !ok2)
			if err == nil && ok1 != ok2 {
				v.Class, v.Desc = "paired-sync", cmdline+": only one of unid_R1.fasta / unid_R2.fasta was written"
				return v
			}
		} else {
			assigned, err = c16parse(p.stdout)
			if err == nil {
				unid, _, err = c16readRecs(filepath.Join(dir, "unid.fasta"))
			}
		}
		if err != nil {
			v.Class, v.Desc = "unparsable-output", cmdline+": "+err.Error()
			return v
		}
		where := make([]string, n)
		for k, list := range [][]c16rec{assigned, unid} {
			name := []string{"stdout", "unidentified"}[k]
			mates := [][]c16rec{assignedM, unidM}[k]
			if paired && len(mates) != len(list) {
				v.Class, v.Desc = "paired-sync", fmt.Sprintf("%s: %s: forward file has %d records, reverse file %d", cmdline, name, len(list), len(mates))
				return v
			}
			for j, r := range list {
				id := c16subRe.ReplaceAllString(r.ID, "")
				i, ok := index[id]
				if !ok {
					v.Class, v.Desc = "content", fmt.Sprintf("%s: %s holds a record %q that is not derived from an input read", cmdline, name, r.ID)
					return v
				}
				if where[i] != "" {
					v.Class, v.Desc = "not-disjoint", fmt.Sprintf("%s: read %s appears in %s and in %s", cmdline, id, where[i], name)
					return v
				}
				where[i] = name
				_, hasErr := r.Ann["obimultiplex_error"]
				if hasErr != (k == 1) {
					v.Class, v.Desc = "wrong-file", fmt.Sprintf("%s: read %s is in %s but obimultiplex_error present=%v", cmdline, id, name, hasErr)
					return v
				}
				if paired && (mates[j].ID != e.mxMates[i].ID || mates[j].Seq != e.mxMates[i].Seq) {
					v.Class, v.Desc = "paired-sync", fmt.Sprintf("%s: %s: rank %d holds %s in the forward file but %s in the reverse file",
						cmdline, name, j, r.ID, mates[j].ID)
					return v
				}
			}
		}
		e.r.Trans(int64(n))
		na, nu := 0, 0
		for i := range where {
			switch where[i] {
			case "":
				v.Class, v.Desc = "record-lost", fmt.Sprintf("%s: read %s is neither in stdout nor in the unidentified file", cmdline, e.mxReads[i].ID)
				if outMissing {
					v.Class = "paired-output-missing"
				}
				return v
			case "stdout":
				na++
			default:
				nu++
			}
		}
		v.NonTriv = na > 0 && nu > 0
		route[ord] = where
	}
	for i := range route[0] {
		if route[0][i] != route[1][i] {
			v.Class, v.Desc = "not-a-function-of-the-record", fmt.Sprintf("obimultiplex -u: read %s goes to %s, to %s when the input is reversed",
				e.mxReads[i].ID, route[0][i], route[1][i])
			return v
		}
	}
	return v
}

// ---------------------------------------------------------------- keys (minimal failing subset)

func (e *c16env) families(tool string, names []string) string {
	var f []string
	for _, n := range names {
		f = append(f, e.atoms[tool][n].family)
	}
	sort.Strings(f)
	return strings.Join(f, "+")
}

func c16subsets(s []string) [][]string {
	var out [][]string
	n := len(s)
	for m := 0; m < (1<<n)-1; m++ { // (the empty combination included: the tool without any option)
		t := []string{}
		for i := 0; i < n; i++ {
			if m&(1<<i) != 0 {
				t = append(t, s[i])
			}
		}
		out = append(out, t)
	}
	sort.SliceStable(out, func(i, j int) bool { return len(out[i]) < len(out[j]) })
	return out
}

// key attributes a failing case to the smallest failing sub-combination of its options (same
// configuration), and a failing paired case to the unpaired one when that fails too.
func (e *c16env) key(c c16case, v c16verdict) string {
	if c.Input != "" { // the multi-chunk input: attributed to the 14-record input when that fails too
		u := c
		u.Input = ""
		if uv := e.eval(u); uv.Class != "" {
			return e.key(u, uv)
		}
	}
	if c.Paired != "" {
		if c.Tool == "obigrep" && v.Class == "inverse-match-per-read" {
			return "obigrep/paired-mode=" + c.Paired + "/inverse-match-is-not-the-complement"
		}
		u := c
		u.Paired = ""
		if uv := e.eval(u); uv.Class != "" {
			return e.key(u, uv)
		}
	}
	if (c.Tool == "obigrep" || c.Tool == "obiannotate" || c.Tool == "obimultiplex") && !strings.HasPrefix(v.Class, "discarded-") {
		for _, t := range c16subsets(c.Atoms) {
			s := c
			s.Atoms = t
			if sv := e.eval(s); sv.Class != "" && sv.Class != "inverse-match-per-read" {
				return e.key(s, sv)
			}
		}
	}
	k := c.Tool + "/"
	if c.Input != "" {
		k += "multi-chunk-input/"
	}
	if c.Paired != "" {
		k += "paired/"
	}
	fam := e.families(c.Tool, c.Atoms)
	if fam == "" {
		fam = "no-option"
	}
	if strings.HasPrefix(v.Class, "discarded-") {
		fam = "save-discarded" // whatever the criteria
	}
	return k + v.Class + "/" + fam
}

// ---------------------------------------------------------------- setup

func c16repoRoot() (string, error) {
	wd, err := os.Getwd()
	if err != nil {
		return "", err
	}
	d := wd
	for i := 0; i < 6; i++ {
		if _, err := os.Stat(filepath.Join(d, "go.mod")); err == nil {
			if _, err := os.Stat(filepath.Join(d, "cmd", "obitools", "obigrep")); err == nil {
				return d, nil
			}
		}
		d = filepath.Dir(d)
	}
	return "", fmt.Errorf("repository root not found above %s", wd)
}

func c16setup(r *verifkit.Result) (*c16env, error) {
	root, err := c16repoRoot()
	if err != nil {
		return nil, err
	}
	work := os.Getenv("VERIF_WORKDIR")
	if work == "" {
		if work, err = os.MkdirTemp("", "c16-"); err != nil {
			return nil, err
		}
	}
	work = filepath.Join(work, fmt.Sprintf("c16-shard%d", r.Shard))
	os.RemoveAll(work)
	e := &c16env{r: r, bin: filepath.Join(work, "bin"), data: filepath.Join(work, "data"), runs: filepath.Join(work, "runs"),
		atoms: map[string]map[string]c16atom{}, order: map[string][]string{}, mates: c16mates(), mxReads: c16mxReads(), big: c16bigInput()}
	e.mxMates = c16mxMates(e.mxReads)
	for _, d := range []string{e.bin, e.data, e.runs, filepath.Join(e.data, "taxdump")} {
		if err := os.MkdirAll(d, 0o755); err != nil {
			return nil, err
		}
	}
	// the binaries of the current tree
	t0 := time.Now()
	cmd := exec.Command("go", "build", "-o", e.bin+string(os.PathSeparator),
		"./cmd/obitools/obigrep", "./cmd/obitools/obiannotate", "./cmd/obitools/obidistribute", "./cmd/obitools/obimultiplex")
	cmd.Dir = root
	cmd.Env = append(os.Environ(), "GOFLAGS=-mod=mod", "GOPROXY=off", "GOSUMDB=off", "GOTOOLCHAIN=local", "GOWORK=off")
	if out, err := cmd.CombinedOutput(); err != nil {
		tail := string(out)
		if len(tail) > 3000 {
			tail = tail[len(tail)-3000:]
		}
		return nil, fmt.Errorf("go build of the commands failed: %v\n%s", err, tail)
	}
	r.Bound("binaries_built_from", root)
	r.Count("build_binaries_s", int64(time.Since(t0).Seconds()))
	for _, b := range []string{"obigrep", "obiannotate", "obidistribute", "obimultiplex"} {
		if _, err := os.Stat(filepath.Join(e.bin, b)); err != nil {
			return nil, fmt.Errorf("binary %s missing after build", b)
		}
	}
	// data
	rev := func(x []c16rec) []c16rec {
		o := make([]c16rec, len(x))
		for i := range x {
			o[len(x)-1-i] = x[i]
		}
		return o
	}
	var nodes, names strings.Builder
	var ids []int
	for id := range c16parent {
		ids = append(ids, id)
	}
	sort.Ints(ids)
	for _, id := range ids {
		fmt.Fprintf(&nodes, "%d\t|\t%d\t|\t%s\t|\t\t|\t8\t|\t0\t|\t1\t|\t0\t|\t0\t|\t0\t|\t0\t|\t0\t|\t\t|\n", id, c16parent[id], c16rank[id])
		fmt.Fprintf(&names, "%d\t|\tTaxon %d\t|\t\t|\tscientific name\t|\n", id, id)
	}
	files := map[string][]byte{
		"in.fasta":           c16fasta(c16input),
		"in_rev.fasta":       c16fasta(rev(c16input)),
		"inbig.fasta":        c16fasta(e.big),
		"inbig_rev.fasta":    c16fasta(rev(e.big)),
		"mate.fasta":         c16fasta(e.mates),
		"mxmate.fasta":       c16fasta(e.mxMates),
		"mxmate_rev.fasta":   c16fasta(rev(e.mxMates)),
		"ids.txt":            c16idFile(),
		"taxdump/nodes.dmp":  []byte(nodes.String()),
		"taxdump/names.dmp":  []byte(names.String()),
		"taxdump/merged.dmp": []byte("9\t|\t7\t|\n"),
		"ngs.csv":            []byte(c16ngs),
		"mx.fasta":           c16fasta(e.mxReads),
		"mx_rev.fasta":       c16fasta(rev(e.mxReads)),
	}
	for fn, b := range files {
		if err := os.WriteFile(filepath.Join(e.data, fn), b, 0o644); err != nil {
			return nil, err
		}
	}
	// the harness's own reader must give back the input (sanity of the reference side)
	back, err := c16parse(files["in.fasta"])
	if err != nil || len(back) != len(c16input) {
		return nil, fmt.Errorf("harness parser cannot read its own input: %v", err)
	}
	for i := range back {
		if back[i].canon() != c16input[i].canon() {
			return nil, fmt.Errorf("harness parser: %s != %s", back[i].canon(), c16input[i].canon())
		}
	}
	// what the binary itself says about its options (case of the patterns)
	hp := e.exec1(e.runs, "obigrep", []string{"--help"})
	help := string(hp.stdout) + "\n" + string(hp.stderr)
	if !strings.Contains(help, "--identifier|-I") {
		// the control run of the binary of the tree under test: a verdict on the tree, not a harness failure.
		// The cases go on; what the help does not state about the case of a pattern stays unconstrained.
		what := "help-does-not-describe-the-identifier-option"
		if hp.timedOut {
			what = "help-does-not-exit"
		}
		r.Violate("obigrep/control-run/"+what, fmt.Sprintf("obigrep --help (err %v) does not describe --identifier|-I: %.300s", hp.err, help),
			c16case{Tool: "obigrep", CPU: 1, Batch: 1})
	}
	tvs := map[c16tv]string{c16T: "case insensitive", c16F: "case sensitive", c16U: "(not stated)"}
	for _, o := range []string{"identifier", "definition", "sequence", "attribute"} {
		r.Bound("help_says_pattern_of_--"+o, tvs[c16helpCase(help, o)])
	}
	mxAtoms := []c16atom{{name: "keep", family: "keep-errors", args: []string{"--keep-errors"}}}
	for tool, list := range map[string][]c16atom{"obigrep": c16grepAtoms(help), "obiannotate": c16annotAtoms(), "obidistribute": c16distAtoms(), "obimultiplex": mxAtoms} {
		e.atoms[tool] = map[string]c16atom{}
		for _, a := range list {
			e.atoms[tool][a.name] = a
			e.order[tool] = append(e.order[tool], a.name)
		}
	}
	return e, nil
}

// c16combos: every subset of size <= k of the atoms of a tool, never two atoms of the same slot
func (e *c16env) combos(tool string, k int) [][]string {
	names := e.order[tool]
	var out [][]string
	var rec func(start int, cur []string)
	rec = func(start int, cur []string) {
		out = append(out, append([]string{}, cur...))
		if len(cur) == k {
			return
		}
		for i := start; i < len(names); i++ {
			a := e.atoms[tool][names[i]]
			clash := false
			for _, c := range cur {
				if s := e.atoms[tool][c].slot; s != "" && s == a.slot {
					clash = true
				}
			}
			if !clash {
				rec(i+1, append(cur, names[i]))
			}
		}
	}
	rec(0, nil)
	sort.SliceStable(out, func(i, j int) bool { return len(out[i]) < len(out[j]) })
	return out
}

// repeats: for every repeatable option of the tool with >= 3 occurrences among the atoms: all its occurrences
// together (-S: the first three, and all four); withOthers: also each of these with every other atom.
func (e *c16env) repeats(tool string, withOthers bool) [][]string {
	fam := map[string][]string{}
	var famOrder []string
	for _, n := range e.order[tool] {
		a := e.atoms[tool][n]
		if a.rep == "" {
			continue
		}
		if _, ok := fam[a.rep]; !ok {
			famOrder = append(famOrder, a.rep)
		}
		fam[a.rep] = append(fam[a.rep], n)
	}
	var out [][]string
	for _, f := range famOrder {
		occ := fam[f]
		if len(occ) < 3 {
			continue
		}
		sets := [][]string{occ[:3]}
		if len(occ) > 3 {
			sets = append(sets, occ)
		}
		for _, set := range sets {
			out = append(out, append([]string{}, set...))
			if !withOthers {
				continue
			}
			for _, n := range e.order[tool] {
				if e.atoms[tool][n].rep == f {
					continue
				}
				out = append(out, append(append([]string{}, set...), n))
			}
		}
	}
	return out
}

// ---------------------------------------------------------------- test

func TestVerifC16(t *testing.T) {
	r := verifkit.New("C16")
	defer r.Write()
	e, err := c16setup(r)
	if err != nil {
		t.Fatal(err)
	}
	defer os.RemoveAll(filepath.Dir(e.bin))

	report := func(c c16case, v c16verdict) {
		if v.Class == "" {
			return
		}
		r.Violate(e.key(c, v), v.Desc, c)
	}

	if rc := r.ReplayCase(); rc != nil {
		var c c16case
		if err := json.Unmarshal(rc, &c); err != nil {
			t.Fatal(err)
		}
		v := e.eval(c)
		t.Logf("replay %s: class=%q skipped=%v %s", c.id(), v.Class, v.Skipped, v.Desc)
		report(c, v)
		return
	}

	thorough := verifkit.Thorough()
	depth := 2
	if thorough {
		depth = 3
	}
	type cfg struct{ cpu, batch int }
	grid := []cfg{{1, 1}, {1, 5}, {3, 1}, {3, 5}}
	modes := []string{"forward", "reverse", "and", "or", "andnot", "xor"}
	r.Bound("subset_depth", depth)
	r.Bound("max_cpu", []int{1, 3})
	r.Bound("batch_size", []int{1, 5})
	r.Bound("routing_and_multi_chunk_extra_configuration", "--max-cpu 2 --batch-size 2")
	r.Bound("records_multi_chunk_input", len(e.big))
	r.Bound("paired_modes", modes)
	r.Bound("records", len(c16input))
	for tool, names := range e.order {
		r.Bound("atoms_"+tool, names)
	}

	var cases []c16case
	for _, tool := range []string{"obigrep", "obiannotate"} {
		for _, s := range e.combos(tool, depth) {
			for _, g := range grid {
				cases = append(cases, c16case{Tool: tool, Atoms: s, CPU: g.cpu, Batch: g.batch})
			}
		}
		// every repeatable option given 3 times (-S: 3 and 4 times), alone and with every other atom
		for _, s := range e.repeats(tool, true) {
			for _, g := range grid {
				cases = append(cases, c16case{Tool: tool, Atoms: s, CPU: g.cpu, Batch: g.batch})
			}
		}
	}
	pgrid := []cfg{{3, 5}}
	if thorough {
		pgrid = grid
	}
	for _, s := range append(e.combos("obigrep", 2), e.repeats("obigrep", false)...) {
		for _, m := range modes {
			for _, g := range pgrid {
				cases = append(cases, c16case{Tool: "obigrep", Atoms: s, CPU: g.cpu, Batch: g.batch, Paired: m})
			}
		}
	}
	// obiannotate on paired files: every edit / criterion alone and every pair
	for _, s := range append(e.combos("obiannotate", 2), e.repeats("obiannotate", false)...) {
		for _, g := range pgrid {
			cases = append(cases, c16case{Tool: "obiannotate", Atoms: s, CPU: g.cpu, Batch: g.batch, Paired: "yes"})
		}
	}
	// routing tools: the 4 configurations + batch size 2 (classes of 4 and 5 records = 2 full batches, +1)
	rgrid := append(append([]cfg{}, grid...), cfg{2, 2})
	for _, a := range e.order["obidistribute"] {
		for _, g := range rgrid {
			cases = append(cases, c16case{Tool: "obidistribute", Atoms: []string{a}, CPU: g.cpu, Batch: g.batch})
		}
	}
	for _, atoms := range [][]string{{}, {"keep"}} {
		for _, g := range rgrid {
			for _, pm := range []string{"", "yes"} {
				cases = append(cases, c16case{Tool: "obimultiplex", Atoms: atoms, CPU: g.cpu, Batch: g.batch, Paired: pm})
			}
		}
	}
	// the multi-chunk input (batches of 14, 15, 14 and 1 records instead of 13 + 1 reach the workers; classes of
	// 12 to 35 records; two records > 1 MiB): every single atom x 2 configurations (thorough: the 5
	// configurations, and every pair in one), every classifier x the 5 configurations
	bgrid := []cfg{{3, 5}, {2, 2}}
	if thorough {
		bgrid = rgrid
	}
	for _, tool := range []string{"obigrep", "obiannotate"} {
		for _, s := range e.combos(tool, 1) {
			for _, g := range bgrid {
				cases = append(cases, c16case{Tool: tool, Atoms: s, CPU: g.cpu, Batch: g.batch, Input: "big"})
			}
		}
		if thorough {
			for _, s := range e.combos(tool, 2) {
				cases = append(cases, c16case{Tool: tool, Atoms: s, CPU: 3, Batch: 5, Input: "big"})
			}
		}
	}
	for _, a := range e.order["obidistribute"] {
		for _, g := range rgrid {
			cases = append(cases, c16case{Tool: "obidistribute", Atoms: []string{a}, CPU: g.cpu, Batch: g.batch, Input: "big"})
		}
	}
	{ // one case = one id
		seen := map[string]bool{}
		var uniq []c16case
		for _, c := range cases {
			if !seen[c.id()] {
				seen[c.id()] = true
				uniq = append(uniq, c)
			}
		}
		cases = uniq
	}
	// breadth first: every tool, every option alone, every pair mode, both inputs (the cases with at most one
	// atom) run before the pairs, triples and repeats, so that a run cut by its deadline has visited every class
	sort.SliceStable(cases, func(i, j int) bool { return len(cases[i].Atoms) <= 1 && len(cases[j].Atoms) > 1 })
	if f := os.Getenv("VERIF_C16_ONLY"); f != "" { // debugging aid: restrict to the cases whose id matches
		re := regexp.MustCompile(f)
		var sel []c16case
		for _, c := range cases {
			if re.MatchString(c.id()) {
				sel = append(sel, c)
			}
		}
		cases = sel
		r.Cap("VERIF_C16_ONLY=" + f)
	}
	r.Bound("cases_total", len(cases))

	par := 16
	if s := os.Getenv("VERIF_C16_PAR"); s != "" {
		if n, err := strconv.Atoi(s); err == nil && n > 0 {
			par = n
		}
	}
	var wg sync.WaitGroup
	ch := make(chan c16case)
	var stop int32
	for w := 0; w < par; w++ {
		wg.Add(1)
		go func() {
			defer wg.Done()
			for c := range ch {
				if atomic.LoadInt32(&stop) != 0 {
					continue
				}
				v := e.eval(c)
				if v.Skipped {
					r.Count("unconstrained_cases_skipped", 1)
					continue
				}
				r.State(c.Tool + "|" + strings.Join(c.Atoms, ",") + "|" + c.Paired)
				r.Count("cases_"+c.Tool, 1)
				if c.Paired != "" {
					r.Count("cases_paired", 1)
				}
				if v.NonTriv {
					r.Count("nontrivial", 1)
				}
				if v.Class != "" {
					r.Count("cases_disagreeing", 1)
				}
				report(c, v)
			}
		}()
	}
	k := 0
	for _, c := range cases {
		if r.Mine(k) {
			if r.Expired() {
				atomic.StoreInt32(&stop, 1)
				break
			}
			ch <- c
		}
		k++
	}
	close(ch)
	wg.Wait()
	r.Count("processes_run", atomic.LoadInt64(&e.procs))
	r.RequireNonVacuous("nontrivial")
	r.Sample(c16case{Tool: "obigrep", Atoms: []string{"C2", "l10"}, CPU: 3, Batch: 5})
	r.Sample(c16case{Tool: "obiannotate", Atoms: []string{"S1", "S2", "cut1"}, CPU: 1, Batch: 1})
	r.Sample(c16case{Tool: "obigrep", Atoms: []string{"a1", "v"}, CPU: 3, Batch: 5, Paired: "xor"})
}
