//go:build verif

package obigrep

// C14, part 2 — the taxonomy filters of obigrep as the command builds them:
// `-t DIR  -r TAXID|SLOT ...  -i TAXID ...  --require-rank RANK ...`
//
// For EVERY rooted labelled tree with n <= 4 nodes (thorough: n <= 5), written as a synthetic NCBI dump and
// loaded by the command's own CLILoadSelectedTaxonomy, EVERY combination of
//   restrict-to lists  (0, 1 or 2 distinct entries among taxids, merged-id aliases and a slot name),
//   ignore lists       (0, 1 or 2 distinct entries among taxids and aliases),
//   required-rank lists (0, 1 or 2 distinct ranks present in the taxonomy)
// is parsed by the real option parser (TaxonomySelectionOptionSet), CLITaxonomyFilterPredicate() is built and
// evaluated on a sequence of every taxid / alias / the unknown taxid (x every value of the slot when a slot
// is used). Oracle: ancestor sets computed from the parent array:
//   kept  <=>  every required rank is carried by an ancestor-or-self
//              AND (no restrict-to given OR the taxon lies in one of the restrict-to clades)
//              AND the taxon lies in none of the ignored clades.
// A sequence whose taxid is unknown to the taxonomy is constrained (must be dropped) only when a restrict-to
// or a required rank is given.

import (
	"encoding/json"
	"fmt"
	"io"
	"os"
	"path/filepath"
	"strconv"
	"strings"
	"testing"

	"git.metabarcoding.org/obitools/obitools4/obitools4/pkg/obiseq"
	"git.metabarcoding.org/obitools/obitools4/obitools4/pkg/verifkit"
	"github.com/DavidGamba/go-getoptions"
	log "github.com/sirupsen/logrus"
)

type c14cliCase struct {
	Scheme   int      `json:"scheme"`
	Parent   []int    `json:"parent"`
	Ranks    []string `json:"ranks"`
	Restrict []string `json:"restrict"` // taxids / aliases as decimal strings, or the slot name "clade"
	Ignore   []int    `json:"ignore"`
	Require  []string `json:"require"`
}

type c14cliFatal struct{}

var c14cliRanks = []string{"species", "genus", "family", "no rank"}

const c14cliSlot = "clade"

type c14cliModel struct {
	n       int
	parent  []int
	ranks   []string
	ids     []int
	alias   []int
	unknown int
	isAnc   [][]bool
	nodeOf  map[int]int
}

func c14cliNewModel(scheme int, parent []int, ranks []string) *c14cliModel {
	n := len(parent)
	m := &c14cliModel{n: n, parent: parent, ranks: ranks, nodeOf: map[int]int{}}
	m.ids = make([]int, n)
	m.alias = make([]int, n)
	for i := 0; i < n; i++ {
		if scheme == 0 {
			m.ids[i], m.alias[i], m.unknown = i+1, 10000+i, 9999
		} else {
			m.ids[i], m.alias[i], m.unknown = 100000-37*i, i+1, 50000
		}
		m.nodeOf[m.ids[i]] = i
		m.nodeOf[m.alias[i]] = i
	}
	m.isAnc = make([][]bool, n)
	for i := 0; i < n; i++ {
		m.isAnc[i] = make([]bool, n)
		x := i
		for {
			m.isAnc[i][x] = true
			if parent[x] == x {
				break
			}
			x = parent[x]
		}
	}
	return m
}

func (m *c14cliModel) inClade(taxid, clade int) bool {
	a, ok1 := m.nodeOf[taxid]
	b, ok2 := m.nodeOf[clade]
	return ok1 && ok2 && m.isAnc[a][b]
}

func (m *c14cliModel) hasRank(taxid int, rank string) bool {
	a, ok := m.nodeOf[taxid]
	if !ok {
		return false
	}
	for x := 0; x < m.n; x++ {
		if m.isAnc[a][x] && m.ranks[x] == rank {
			return true
		}
	}
	return false
}

func c14cliWriteDump(m *c14cliModel, dir string) error {
	var nodes, names, merged strings.Builder
	for i := 0; i < m.n; i++ {
		fmt.Fprintf(&nodes, "%d\t|\t%d\t|\t%s\t|\t\t|\t8\t|\t0\t|\t1\t|\t0\t|\t0\t|\t0\t|\t0\t|\t0\t|\t\t|\n",
			m.ids[i], m.ids[m.parent[i]], m.ranks[i])
		fmt.Fprintf(&names, "%d\t|\tTaxon %d\t|\t\t|\tscientific name\t|\n", m.ids[i], m.ids[i])
		fmt.Fprintf(&merged, "%d\t|\t%d\t|\n", m.alias[i], m.ids[i])
	}
	for fn, s := range map[string]string{"nodes.dmp": nodes.String(), "names.dmp": names.String(), "merged.dmp": merged.String()} {
		if err := os.WriteFile(filepath.Join(dir, fn), []byte(s), 0o644); err != nil {
			return err
		}
	}
	return nil
}

// the sequences a predicate is evaluated on
type c14cliSeq struct {
	taxid   int
	slot    int // value of the slot attribute, 0 = attribute absent
	seq     *obiseq.BioSequence
	useSlot bool
}

func c14cliTrees(n int, f func(parent []int)) {
	p := make([]int, n)
	var rec func(i, root int)
	valid := func(root int) bool {
		for i := 0; i < n; i++ {
			x, steps := i, 0
			for x != root {
				x = p[x]
				steps++
				if steps > n {
					return false
				}
			}
		}
		return true
	}
	rec = func(i, root int) {
		if i == n {
			if valid(root) {
				f(p)
			}
			return
		}
		if i == root {
			p[i] = i
			rec(i+1, root)
			return
		}
		for q := 0; q < n; q++ {
			if q != i {
				p[i] = q
				rec(i+1, root)
			}
		}
	}
	for root := 0; root < n; root++ {
		rec(0, root)
	}
}

// every list of 0, 1 or 2 distinct entries (unordered for 2)
func c14cliLists[T any](items []T) [][]T {
	out := [][]T{nil}
	for i := range items {
		out = append(out, []T{items[i]})
	}
	for i := range items {
		for j := i + 1; j < len(items); j++ {
			out = append(out, []T{items[i], items[j]})
		}
	}
	return out
}

// every list of 3 distinct entries in three rotations (each member is once first, middle and last),
// plus one list of 4: the options are repeatable without a stated limit
func c14cliLists3[T any](items []T) [][]T {
	var out [][]T
	for i := range items {
		for j := i + 1; j < len(items); j++ {
			for k := j + 1; k < len(items); k++ {
				a, b, c := items[i], items[j], items[k]
				out = append(out, []T{a, b, c}, []T{b, c, a}, []T{c, a, b})
			}
		}
	}
	if len(items) >= 4 {
		out = append(out, []T{items[0], items[1], items[2], items[3]}, []T{items[3], items[2], items[1], items[0]})
	}
	return out
}

type c14cliRun struct {
	r   *verifkit.Result
	dir string
}

// evalTaxonomy loads the dump of one tree through the command's loader and checks every option combination
// (or only `only` when replaying).
func (h *c14cliRun) evalTaxonomy(scheme int, parent []int, ranks []string, only *c14cliCase) {
	r := h.r
	m := c14cliNewModel(scheme, parent, ranks)
	if err := c14cliWriteDump(m, h.dir); err != nil {
		panic("c14 harness: cannot write dump: " + err.Error())
	}
	base := c14cliCase{Scheme: scheme, Parent: append([]int{}, parent...), Ranks: append([]string{}, ranks...)}
	guard := func(key string, c c14cliCase, f func()) (ok bool) {
		defer func() {
			if rec := recover(); rec != nil {
				ok = false
				if _, fatal := rec.(c14cliFatal); fatal {
					r.Violate(key+"/fatal", fmt.Sprintf("log.Fatal on valid options %+v", c), c)
				} else {
					r.Violate(key+"/panic", fmt.Sprintf("panic %v on %+v", rec, c), c)
				}
			}
		}()
		f()
		return true
	}

	_Taxdump = h.dir
	_Taxonomy = nil
	if !guard("CLILoadSelectedTaxonomy", base, func() { CLILoadSelectedTaxonomy() }) || _Taxonomy == nil {
		if _Taxonomy == nil {
			r.Violate("CLILoadSelectedTaxonomy/no-taxonomy", fmt.Sprintf("no taxonomy loaded for %+v", base), base)
		}
		return
	}
	r.Count("cli_taxonomies", 1)
	r.State(fmt.Sprintf("cli|%d|%v|%v", scheme, parent, ranks))

	known := append(append([]int{}, m.ids...), m.alias...)
	var rItems []string
	for _, x := range known {
		rItems = append(rItems, strconv.Itoa(x))
	}
	rItems = append(rItems, c14cliSlot)
	var kItems []string
	for _, rk := range c14cliRanks {
		for _, have := range ranks {
			if have == rk {
				kItems = append(kItems, rk)
				break
			}
		}
	}
	rLists, iLists, kLists := c14cliLists(rItems), c14cliLists(known), c14cliLists(kItems)
	// longer lists (3 and 4 entries) for one option at a time, the two others empty or single
	nShort := [3]int{len(rLists), len(iLists), len(kLists)}
	rLists = append(rLists, c14cliLists3(rItems)...)
	iLists = append(iLists, c14cliLists3(known)...)
	kLists = append(kLists, c14cliLists3(kItems)...)
	if only != nil {
		rLists, iLists, kLists = [][]string{only.Restrict}, [][]int{only.Ignore}, [][]string{only.Require}
		nShort = [3]int{1, 1, 1}
	}

	var seqs []c14cliSeq
	for _, S := range append(append([]int{}, known...), m.unknown) {
		for _, V := range append([]int{0, m.unknown}, known...) {
			s := obiseq.NewBioSequence("s", []byte("acgt"), "")
			s.SetAttribute("taxid", S)
			if V != 0 {
				if V%2 == 0 {
					s.SetAttribute(c14cliSlot, V)
				} else {
					s.SetAttribute(c14cliSlot, strconv.Itoa(V))
				}
			}
			seqs = append(seqs, c14cliSeq{taxid: S, slot: V, seq: s, useSlot: V != 0})
		}
	}

	for ri, R := range rLists {
		usesSlot := false
		for _, x := range R {
			if x == c14cliSlot {
				usesSlot = true
			}
		}
		for ii, I := range iLists {
			for ki, K := range kLists {
				long := 0
				for _, isLong := range []bool{ri >= nShort[0], ii >= nShort[1], ki >= nShort[2]} {
					if isLong {
						long++
					}
				}
				if long > 1 || (long == 1 && len(R)+len(I)+len(K) > 5) {
					continue // one long list at a time
				}
				c := base
				c.Restrict, c.Ignore, c.Require = R, I, K
				// the real option parser fills the option variables
				_BelongTaxa, _NotBelongTaxa, _RequiredRanks = make([]string, 0), make([]int, 0), make([]string, 0)
				args := []string{"-t", h.dir}
				for _, x := range R {
					args = append(args, "-r", x)
				}
				for _, x := range I {
					args = append(args, "--ignore-taxon", strconv.Itoa(x))
				}
				for _, x := range K {
					args = append(args, "--require-rank", x)
				}
				var perr error
				if !guard("TaxonomySelectionOptionSet", c, func() {
					opt := getoptions.New()
					TaxonomySelectionOptionSet(opt)
					_, perr = opt.Parse(args)
				}) {
					continue
				}
				if perr != nil {
					r.Violate("TaxonomySelectionOptionSet/parse-error", fmt.Sprintf("%v: %v", args, perr), c)
					continue
				}
				if len(_BelongTaxa) != len(R) || len(_NotBelongTaxa) != len(I) || len(_RequiredRanks) != len(K) {
					r.Violate("TaxonomySelectionOptionSet/options-lost", fmt.Sprintf("%v parsed as -r %v -i %v --require-rank %v", args, _BelongTaxa, _NotBelongTaxa, _RequiredRanks), c)
					continue
				}
				var pred obiseq.SequencePredicate
				if !guard("CLITaxonomyFilterPredicate", c, func() { pred = CLITaxonomyFilterPredicate() }) {
					continue
				}
				r.Count("cli_option_combinations", 1)
				if len(R) > 0 && len(I) > 0 && len(K) > 0 {
					r.Count("cli_option_combinations_all_three", 1)
				}
				for si := range seqs {
					sq := &seqs[si]
					if !usesSlot && sq.slot != 0 {
						continue // slot values matter only when a slot is named
					}
					_, sknown := m.nodeOf[sq.taxid]
					if !sknown && len(R) == 0 && len(K) == 0 {
						continue // unknown taxid with ignore-only options: not constrained
					}
					wantK, wantR, wantI := true, true, true
					for _, k := range K {
						wantK = wantK && m.hasRank(sq.taxid, k)
					}
					if len(R) > 0 {
						wantR = false
						for _, x := range R {
							if x == c14cliSlot {
								wantR = wantR || (sq.slot != 0 && m.inClade(sq.taxid, sq.slot))
							} else {
								v, _ := strconv.Atoi(x)
								wantR = wantR || m.inClade(sq.taxid, v)
							}
						}
					}
					for _, x := range I {
						wantI = wantI && !m.inClade(sq.taxid, x)
					}
					want := wantK && wantR && wantI
					got := true
					if !guard("CLITaxonomyFilterPredicate(seq)", c, func() {
						if pred != nil {
							got = pred(sq.seq)
						}
					}) {
						continue
					}
					r.Eval(1)
					r.Trans(1)
					if want {
						r.Count("cli_kept", 1)
					} else {
						r.Count("cli_dropped", 1)
					}
					if got != want {
						class := "kept-but-excluded-by-the-tree"
						if want {
							class = "dropped-but-selected-by-the-tree"
						}
						// attribute the disagreement to the option whose own predicate disagrees with the tree
						// (a sub-predicate of an unknown sequence taxid is constrained only as part of the whole)
						which := "composition"
						sub := func(name string, mk func() obiseq.SequencePredicate, wantSub bool) {
							if which != "composition" {
								return
							}
							guard(name, c, func() {
								if p := mk(); p != nil && p(sq.seq) != wantSub {
									which = name
								}
							})
						}
						if sknown {
							sub("require-rank", CLIHasRankDefinedPredicate, wantK)
							sub("restrict-to", CLIRestrictTaxonomyPredicate, wantR)
							sub("ignore", CLIAvoidTaxonomyPredicate, wantI)
						}
						// a list of 3 or more entries is named in the key: a defect of the repetition of an option
						// must not hide behind one of the option itself
						if n := map[string]int{"require-rank": len(K), "restrict-to": len(R), "ignore": len(I), "composition": 0}[which]; n >= 3 {
							which += "(3+-entries)"
						} else if which == "composition" && len(R)+len(I)+len(K) >= 3 && (len(R) >= 3 || len(I) >= 3 || len(K) >= 3) {
							which += "(3+-entries)"
						}
						r.Violate("obigrep.CLITaxonomyFilterPredicate/"+class+":"+which,
							fmt.Sprintf("-r %v -i %v --require-rank %v on sequence taxid=%d %s=%d: got %v want %v; tree parent=%v ids=%v alias=%v ranks=%q",
								R, I, K, sq.taxid, c14cliSlot, sq.slot, got, want, m.parent, m.ids, m.alias, m.ranks), c)
					}
				}
			}
		}
	}
}

func TestVerifC14CLI(t *testing.T) {
	log.SetOutput(io.Discard)
	log.StandardLogger().ExitFunc = func(int) { panic(c14cliFatal{}) }
	r := verifkit.New("C14")
	defer r.Write()

	base := ""
	if st, err := os.Stat("/dev/shm"); err == nil && st.IsDir() {
		base = "/dev/shm"
	}
	dir, err := os.MkdirTemp(base, "c14cli-")
	if err != nil && base != "" {
		dir, err = os.MkdirTemp("", "c14cli-")
	}
	if err != nil {
		t.Fatal(err)
	}
	defer os.RemoveAll(dir)
	h := &c14cliRun{r: r, dir: dir}

	if rc := r.ReplayCase(); rc != nil {
		var c c14cliCase
		if err := json.Unmarshal(rc, &c); err != nil {
			t.Fatal(err)
		}
		if len(c.Parent) == 0 || len(c.Ranks) != len(c.Parent) {
			t.Fatal("c14cli: malformed replay case")
		}
		h.evalTaxonomy(c.Scheme, c.Parent, c.Ranks, &c)
		r.Replayed(1)
		return
	}

	maxN := 4
	if verifkit.Thorough() {
		maxN = 5
	}
	r.Bound("cli_max_nodes", maxN)
	r.Bound("cli_variants", "2 taxid numberings x 2 rank vectors below the largest size, 1 x 1 at the largest size")
	r.Bound("cli_option_lists", "restrict-to, ignore, require-rank: every list of 0..2 distinct entries")
	k := 0
	for n := 1; n <= maxN; n++ {
		stop := false
		c14cliTrees(n, func(parent []int) {
			if stop {
				return
			}
			depth := make([]int, n)
			for i := range parent {
				for x := i; parent[x] != x; x = parent[x] {
					depth[i]++
				}
			}
			byDepth := []string{"no rank", "family", "genus", "species", "no rank"}
			rv1 := make([]string, n)
			rv2 := make([]string, n)
			for i := 0; i < n; i++ {
				rv1[i] = byDepth[depth[i]%len(byDepth)]
				rv2[i] = c14cliRanks[i%len(c14cliRanks)]
			}
			rvs := [][]string{rv1, rv2}
			schemes := []int{0, 1}
			if n == maxN { // largest size of the tier: one numbering, one rank vector (the option product is large)
				rvs = rvs[:1]
				schemes = []int{1}
			}
			for _, scheme := range schemes {
				for _, rv := range rvs {
					mine := r.Mine(k)
					k++
					if !mine {
						continue
					}
					h.evalTaxonomy(scheme, parent, rv, nil)
					if r.Expired() {
						stop = true
						return
					}
				}
			}
		})
	}
	r.RequireNonVacuous("cli_option_combinations_all_three")
	r.RequireNonVacuous("cli_kept")
	r.RequireNonVacuous("cli_dropped")
}
