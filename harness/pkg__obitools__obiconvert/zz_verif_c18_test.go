//go:build verif

package obiconvert

// C18 — output write failures are reported, never followed by a successful exit (binaries part).
//
// Binds the verdict of the in-process enumeration (pkg/obiformats) to the exit status of the real
// commands: obiconvert and obicsv are built from the tree under test and run on
//
//	-o /dev/full          every write(2) fails with ENOSPC, close(2) succeeds
//	> /dev/full           the same on the standard output path (Write...ToStdout)
//	-o <fifo>, fault@k    the harness reads exactly k bytes from a FIFO whose kernel buffer was
//	                      shrunk, waits until the FIFO is full (poll on a spare write end: no timing)
//	                      and closes the read end: since more than k+capacity bytes have to be
//	                      written, at least one write(2) of the command fails with EPIPE
//
// x {fasta, fastq, json, csv} x {plain, -Z} x three result sizes (smaller than the 4 KiB buffer,
// about three buffers, several hundred KiB in many batches). Oracle: a run in which a write is
// certain to have failed must end with a non-zero exit status. Every command is first run on a
// regular file: it must succeed with a non-empty result (otherwise the case proves nothing).
//
// Added by the audit: the command-level wrappers that no case drove (c18cliCase.Mode)
//
//	default          obiconvert without any --xxx-output: WriteSequencesToFile / WriteSequencesToStdout
//	                 (universal writer), FASTQ and FASTA input
//	paired-R1|R2     obiconvert --paired-with: CLIWriteBioSequences -> BuildPairedFileNames ->
//	                 WritePairedReadsTo; ONE of the two files fails (symlink to /dev/full or FIFO
//	                 placed at the derived name), the other is a regular file
//	distribute[-append]  obidistribute -c sample -p d_%s.fastq [-A]: WriterDispatcher +
//	                 Write{Sequences,Fasta,Fastq}ToFile; one of the three files fails
//	save-discarded   obigrep --save-discarded: second output written by a goroutine of its own
//	auto             obicsv --auto (auto-column mode)

import (
	"bytes"
	"encoding/json"
	"fmt"
	"os"
	"os/exec"
	"path/filepath"
	"strings"
	"syscall"
	"testing"
	"time"
	"unsafe"

	"git.metabarcoding.org/obitools/obitools4/obitools4/pkg/verifkit"
)

type c18cliCase struct {
	Tool   string `json:"tool"`   // obiconvert obicsv
	Format string `json:"format"` // fasta fastq json csv
	Gzip   bool   `json:"gzip"`
	Input  string `json:"input"`          // small medium large
	Dest   string `json:"dest"`           // devfull-file devfull-stdout fifo
	K      int    `json:"k"`              // fifo: bytes read before the read end is closed
	Mode   string `json:"mode,omitempty"` // "" default paired-R1 paired-R2 distribute distribute-append save-discarded auto
}

func (c c18cliCase) String() string {
	z := "plain"
	if c.Gzip {
		z = "gzip"
	}
	s := fmt.Sprintf("%s %s:%s input=%s dest=%s", c.Tool, c.Format, z, c.Input, c.Dest)
	if c.Mode != "" {
		s = fmt.Sprintf("%s[%s] %s:%s input=%s dest=%s", c.Tool, c.Mode, c.Format, z, c.Input, c.Dest)
	}
	if c.Dest == "fifo" {
		s += fmt.Sprintf("@%d", c.K)
	}
	return s
}

func c18cliRoot() string {
	d, err := os.Getwd()
	if err != nil {
		panic(err)
	}
	for {
		if _, err := os.Stat(filepath.Join(d, "go.mod")); err == nil {
			return d
		}
		p := filepath.Dir(d)
		if p == d {
			panic("c18: module root not found")
		}
		d = p
	}
}

func c18cliDNA(n int, seed uint32) []byte {
	out := make([]byte, n)
	x := seed*2654435761 + 12345
	for i := range out {
		x = x*1664525 + 1013904223
		out[i] = "acgt"[(x>>24)&3]
	}
	return out
}

// c18cliInput writes a FASTQ file of n reads of length l.
func c18cliInput(path string, n, l int) {
	var b bytes.Buffer
	for i := 0; i < n; i++ {
		fmt.Fprintf(&b, "@read%05d\n%s\n+\n%s\n", i+1, c18cliDNA(l, uint32(i+1)), strings.Repeat("I", l))
	}
	if err := os.WriteFile(path, b.Bytes(), 0o644); err != nil {
		panic(err)
	}
}

// c18cliInput2 writes, next to <base>.fastq, the files used by the added modes: <base>_s.fastq and
// <base>_s.fasta (same reads with a sample annotation A/B/C in turn) and <base>_r2.fastq (mates).
func c18cliInput2(base string, n, l int) {
	var fq, fa, r2 bytes.Buffer
	for i := 0; i < n; i++ {
		seq := c18cliDNA(l, uint32(i+1))
		fmt.Fprintf(&fq, "@read%05d {\"sample\":\"%c\"}\n%s\n+\n%s\n", i+1, "ABC"[i%3], seq, strings.Repeat("I", l))
		fmt.Fprintf(&fa, ">read%05d {\"sample\":\"%c\"}\n%s\n", i+1, "ABC"[i%3], seq)
		fmt.Fprintf(&r2, "@read%05d\n%s\n+\n%s\n", i+1, c18cliDNA(l, uint32(i+100001)), strings.Repeat("H", l))
	}
	for suf, b := range map[string]*bytes.Buffer{"_s.fastq": &fq, "_s.fasta": &fa, "_r2.fastq": &r2} {
		if err := os.WriteFile(base+suf, b.Bytes(), 0o644); err != nil {
			panic(err)
		}
	}
}

// c18cliPlan gives, for the cases with a Mode, the arguments of the command and the path of the
// output file that is made to fail (victim). in is the path of <input>.fastq, dir a scratch
// directory owned by the case.
func c18cliPlan(c c18cliCase, in, dir string) (args []string, victim string) {
	base := strings.TrimSuffix(in, ".fastq")
	ann := base + "_s.fastq"
	if c.Format == "default-fa" {
		ann = base + "_s.fasta"
	}
	common := []string{"--no-progressbar", "--batch-size", "50"}
	if c.Gzip {
		common = append(common, "-Z")
	}
	fmtopt := func() []string {
		if strings.HasPrefix(c.Format, "default") {
			return nil
		}
		return []string{"--" + c.Format + "-output"}
	}
	ext := map[string]string{"fasta": "fasta", "fastq": "fastq", "json": "json", "default-fq": "fastq", "default-fa": "fasta", "csv": "csv"}[c.Format]
	switch c.Mode {
	case "default":
		victim = filepath.Join(dir, "out."+ext)
		args = common
		if c.Dest != "devfull-stdout" {
			args = append(args, "-o", victim)
		}
		args = append(args, ann)
	case "paired-R1", "paired-R2":
		victim = filepath.Join(dir, "o_"+c.Mode[len("paired-"):]+"."+ext)
		args = append(append(fmtopt(), common...), "--paired-with", base+"_r2.fastq", "-o", filepath.Join(dir, "o."+ext), in)
	case "distribute", "distribute-append":
		victim = filepath.Join(dir, "d_B."+ext)
		if c.Gzip {
			victim += ".gz"
		}
		args = append(append(fmtopt(), common...), "-c", "sample", "-p", filepath.Join(dir, "d_%s."+ext))
		if c.Mode == "distribute-append" {
			args = append(args, "-A")
		}
		args = append(args, ann)
	case "save-discarded":
		victim = filepath.Join(dir, "discarded."+ext)
		args = append(append(fmtopt(), common...), "-p", `annotations.sample=="A"`, "--save-discarded", victim,
			"-o", filepath.Join(dir, "kept."+ext), ann)
	case "auto":
		victim = filepath.Join(dir, "out.csv") // control only: obicsv writes on its standard output
		args = append(common, "--auto", "-i", "-s", ann)
	default:
		panic("c18: unknown mode " + c.Mode)
	}
	return args, victim
}

func c18cliArgs(c c18cliCase, in, out string) []string {
	var a []string
	switch c.Tool {
	case "obiconvert":
		a = append(a, "--"+c.Format+"-output")
	case "obicsv":
		a = append(a, "-i", "-s", "-q")
	}
	a = append(a, "--no-progressbar", "--batch-size", "50")
	if c.Gzip {
		a = append(a, "-Z")
	}
	if out != "" {
		a = append(a, "-o", out)
	}
	return append(a, in)
}

type c18cliRes struct {
	status  int // exit status, -1 killed by a signal
	stderr  string
	timeout bool
}

func c18cliWait(cmd *exec.Cmd, errb *bytes.Buffer, limit time.Duration) c18cliRes {
	done := make(chan error, 1)
	go func() { done <- cmd.Wait() }()
	select {
	case err := <-done:
		res := c18cliRes{stderr: errb.String()}
		if err != nil {
			if ee, ok := err.(*exec.ExitError); ok {
				res.status = ee.ExitCode()
			} else {
				res.status = -2
			}
		}
		return res
	case <-time.After(limit):
		cmd.Process.Kill()
		<-done
		return c18cliRes{status: -3, timeout: true, stderr: errb.String()}
	}
}

func c18fcntl(fd int, cmd int, arg int) (int, error) {
	r, _, e := syscall.Syscall(syscall.SYS_FCNTL, uintptr(fd), uintptr(cmd), uintptr(arg))
	if e != 0 {
		return 0, e
	}
	return int(r), nil
}

type c18pollfd struct {
	fd      int32
	events  int16
	revents int16
}

func c18poll(fd int, events int16, timeoutMs int) (int16, error) {
	p := c18pollfd{fd: int32(fd), events: events}
	for {
		_, _, e := syscall.Syscall(syscall.SYS_POLL, uintptr(unsafe.Pointer(&p)), 1, uintptr(timeoutMs))
		if e == syscall.EINTR {
			continue
		}
		if e != 0 {
			return 0, e
		}
		return p.revents, nil
	}
}

const (
	c18FSetPipeSz = 1031
	c18FGetPipeSz = 1032
	c18PollIn     = 0x1
	c18PollOut    = 0x4
)

// c18cliFifo runs the command with -o <fifo>, consumes exactly k bytes, waits until the FIFO is
// full (or the command ended) and closes the read end. It returns the capacity of the FIFO and
// whether the FIFO was seen full (a write of the command was then pending or still to come).
func c18cliFifo(bin string, c c18cliCase, in, fifo string) (res c18cliRes, capacity int, full bool, err error) {
	return c18cliFifoArgs(bin, c18cliArgs(c, in, fifo), fifo, c.K)
}

func c18cliFifoArgs(bin string, args []string, fifo string, K int) (res c18cliRes, capacity int, full bool, err error) {
	os.Remove(fifo)
	if err = syscall.Mkfifo(fifo, 0o600); err != nil {
		return
	}
	defer os.Remove(fifo)
	rd, err := syscall.Open(fifo, syscall.O_RDONLY|syscall.O_NONBLOCK|syscall.O_CLOEXEC, 0)
	if err != nil {
		return
	}
	rdOpen := true
	defer func() {
		if rdOpen {
			syscall.Close(rd)
		}
	}()
	wr, err := syscall.Open(fifo, syscall.O_WRONLY|syscall.O_NONBLOCK|syscall.O_CLOEXEC, 0)
	if err != nil {
		return
	}
	defer syscall.Close(wr)
	c18fcntl(rd, c18FSetPipeSz, 4096)
	if capacity, err = c18fcntl(rd, c18FGetPipeSz, 0); err != nil {
		return
	}
	cmd := exec.Command(bin, args...)
	var errb bytes.Buffer
	cmd.Stderr = &errb
	cmd.Stdout = nil
	if err = cmd.Start(); err != nil {
		return
	}
	exited := make(chan struct{})
	var wres c18cliRes
	go func() {
		wres = c18cliWait(cmd, &errb, 120*time.Second)
		close(exited)
	}()
	alive := func() bool {
		select {
		case <-exited:
			return false
		default:
			return true
		}
	}
	// 1. consume exactly k bytes
	got := 0
	buf := make([]byte, 4096)
	for got < K {
		ev, _ := c18poll(rd, c18PollIn, 20)
		if ev&c18PollIn == 0 {
			if !alive() {
				break
			}
			continue
		}
		want := K - got
		if want > len(buf) {
			want = len(buf)
		}
		n, e := syscall.Read(rd, buf[:want])
		if n > 0 {
			got += n
		}
		if e != nil && e != syscall.EAGAIN && e != syscall.EINTR {
			break
		}
		if n == 0 && e == nil && !alive() {
			break
		}
	}
	// 2. wait until no more byte can be written into the FIFO
	for alive() {
		ev, _ := c18poll(wr, c18PollOut, 20)
		if ev&c18PollOut == 0 {
			// not writable now; confirm (the writer may have been between two writes)
			ev2, _ := c18poll(wr, c18PollOut, 0)
			if ev2&c18PollOut == 0 {
				full = true
				break
			}
		} else {
			time.Sleep(time.Millisecond)
		}
	}
	// 3. the consumer goes away
	syscall.Close(rd)
	rdOpen = false
	<-exited
	return wres, capacity, full, nil
}

func TestVerifC18CLI(t *testing.T) {
	r := verifkit.New("C18")
	defer r.Write()
	r.RequireNonVacuous("cli_runs_with_certain_write_failure")

	root := c18cliRoot()
	work := os.Getenv("VERIF_WORKDIR")
	if work == "" {
		var err error
		if work, err = os.MkdirTemp("", "c18cli"); err != nil {
			t.Fatal(err)
		}
		defer os.RemoveAll(work)
	}
	shard, _ := verifkit.Shard()
	work = filepath.Join(work, fmt.Sprintf("cli%d", shard))
	os.MkdirAll(filepath.Join(work, "bin"), 0o755)
	defer os.RemoveAll(work)

	bins := map[string]string{}
	for _, tool := range []string{"obiconvert", "obicsv", "obidistribute", "obigrep"} {
		out := filepath.Join(work, "bin", tool)
		cmd := exec.Command("go", "build", "-o", out, "./cmd/obitools/"+tool)
		cmd.Dir = root
		if b, err := cmd.CombinedOutput(); err != nil {
			if _, serr := os.Stat(out); serr != nil {
				t.Fatalf("c18: cannot build %s from %s: %v\n%s", tool, root, err, b)
			}
		}
		bins[tool] = out
	}

	inputs := map[string]string{}
	for name, nl := range map[string][2]int{"small": {3, 30}, "medium": {60, 80}, "large": {2500, 100}} {
		p := filepath.Join(work, name+".fastq")
		c18cliInput(p, nl[0], nl[1])
		c18cliInput2(strings.TrimSuffix(p, ".fastq"), nl[0], nl[1])
		inputs[name] = p
	}
	caseDir := filepath.Join(work, "case")
	freshDir := func() string {
		os.RemoveAll(caseDir)
		os.MkdirAll(caseDir, 0o755)
		return caseDir
	}
	defer os.RemoveAll(caseDir)
	runCmd := func(bin string, args []string, stdout *os.File) c18cliRes {
		cmd := exec.Command(bin, args...)
		var errb bytes.Buffer
		cmd.Stderr = &errb
		cmd.Stdout = stdout
		if err := cmd.Start(); err != nil {
			t.Fatal(err)
		}
		return c18cliWait(cmd, &errb, 120*time.Second)
	}
	r.Bound("cli_inputs", "FASTQ files of 3x30 bp, 60x80 bp, 2500x100 bp; --batch-size 50")
	r.Bound("cli_destinations", "-o /dev/full; stdout on /dev/full; -o FIFO closed by its reader after k bytes once the FIFO is full")

	// fault-free control runs: exit 0 and a non-empty result; memoised per (tool, format, gzip, input)
	type ctl struct {
		ok   bool
		size int
		why  string
	}
	controls := map[string]ctl{}
	control := func(c c18cliCase) ctl {
		key := fmt.Sprintf("%s/%s/%v/%s/%s", c.Tool, c.Format, c.Gzip, c.Input, c.Mode)
		if c.Mode == "default" && c.Dest == "devfull-stdout" {
			key += "/stdout"
		}
		if v, ok := controls[key]; ok {
			return v
		}
		if c.Mode != "" {
			// fault-free run of the same command line: exit 0 and a non-empty victim file
			dir := freshDir()
			args, victim := c18cliPlan(c, inputs[c.Input], dir)
			var f *os.File
			if c.Mode == "auto" || (c.Mode == "default" && c.Dest == "devfull-stdout") {
				var err error
				if f, err = os.Create(victim); err != nil {
					t.Fatal(err)
				}
			}
			res := runCmd(bins[c.Tool], args, f)
			if f != nil {
				f.Close()
			}
			v := ctl{}
			st, _ := os.Stat(victim)
			if res.status == 0 && st != nil && st.Size() > 0 {
				v = ctl{ok: true, size: int(st.Size())}
			} else {
				v.why = fmt.Sprintf("status %d, victim file %v, stderr %q", res.status, st != nil, res.stderr)
			}
			controls[key] = v
			r.Count("cli_control_runs", 1)
			return v
		}
		out := filepath.Join(work, "control.out")
		os.Remove(out)
		var cmd *exec.Cmd
		var errb bytes.Buffer
		if c.Tool == "obicsv" {
			f, err := os.Create(out)
			if err != nil {
				t.Fatal(err)
			}
			cmd = exec.Command(bins[c.Tool], c18cliArgs(c, inputs[c.Input], "")...)
			cmd.Stdout = f
			defer f.Close()
		} else {
			cmd = exec.Command(bins[c.Tool], c18cliArgs(c, inputs[c.Input], out)...)
		}
		cmd.Stderr = &errb
		v := ctl{}
		if err := cmd.Start(); err != nil {
			t.Fatal(err)
		}
		res := c18cliWait(cmd, &errb, 120*time.Second)
		st, _ := os.Stat(out)
		if res.status == 0 && st != nil && st.Size() > 0 {
			v = ctl{ok: true, size: int(st.Size())}
		} else {
			v.why = fmt.Sprintf("status %d, stderr %q", res.status, res.stderr)
		}
		controls[key] = v
		r.Count("cli_control_runs", 1)
		return v
	}

	eval := func(c c18cliCase) {
		ct := control(c)
		if !ct.ok {
			// a command that fails without any fault is a verdict on the tree under test, not a harness failure
			r.Violate(fmt.Sprintf("cli/%s/control-run/fault-free-run-misbehaves", c.Tool), fmt.Sprintf("fault-free run of %v: %s", c, ct.why), c)
			return
		}
		var res c18cliRes
		certain := false
		if c.Mode != "" {
			dir := freshDir()
			args, victim := c18cliPlan(c, inputs[c.Input], dir)
			switch c.Dest {
			case "devfull-file":
				// the victim is reached through its (possibly derived) name: a symlink to /dev/full
				if err := os.Symlink("/dev/full", victim); err != nil {
					t.Fatal(err)
				}
				res = runCmd(bins[c.Tool], args, nil)
				certain = true
			case "devfull-stdout":
				f, err := os.OpenFile("/dev/full", os.O_WRONLY, 0)
				if err != nil {
					t.Fatal(err)
				}
				res = runCmd(bins[c.Tool], args, f)
				f.Close()
				certain = true
			case "fifo":
				var capacity int
				var full bool
				var err error
				res, capacity, full, err = c18cliFifoArgs(bins[c.Tool], args, victim, c.K)
				if err != nil {
					t.Fatalf("c18: fifo set-up failed: %v", err)
				}
				certain = full && ct.size > c.K+capacity+4096
				if !certain {
					r.Count("cli_fifo_runs_without_certain_failure", 1)
				}
			}
			if certain {
				r.Count("cli_mode_"+c.Mode+"_certain_failures", 1)
			}
		} else {
			switch c.Dest {
			case "devfull-file":
				cmd := exec.Command(bins[c.Tool], c18cliArgs(c, inputs[c.Input], "/dev/full")...)
				var errb bytes.Buffer
				cmd.Stderr = &errb
				if err := cmd.Start(); err != nil {
					t.Fatal(err)
				}
				res = c18cliWait(cmd, &errb, 120*time.Second)
				certain = true
			case "devfull-stdout":
				f, err := os.OpenFile("/dev/full", os.O_WRONLY, 0)
				if err != nil {
					t.Fatal(err)
				}
				cmd := exec.Command(bins[c.Tool], c18cliArgs(c, inputs[c.Input], "")...)
				var errb bytes.Buffer
				cmd.Stderr = &errb
				cmd.Stdout = f
				if err := cmd.Start(); err != nil {
					t.Fatal(err)
				}
				res = c18cliWait(cmd, &errb, 120*time.Second)
				f.Close()
				certain = true
			case "fifo":
				var capacity int
				var full bool
				var err error
				res, capacity, full, err = c18cliFifo(bins[c.Tool], c, inputs[c.Input], filepath.Join(work, "out.fifo"))
				if err != nil {
					t.Fatalf("c18: fifo set-up failed: %v", err)
				}
				// a write is certain to have failed when the FIFO was seen full with bytes still to
				// come: at most k+capacity bytes were accepted, the result is larger
				certain = full && ct.size > c.K+capacity+4096
				if !certain {
					r.Count("cli_fifo_runs_without_certain_failure", 1)
				}
			}
		}
		r.Eval(1)
		r.Trans(1)
		r.State(fmt.Sprintf("%s|%d", c, res.status))
		site := c.Format
		if c.Mode != "" {
			site = c.Tool + "[" + c.Mode + "]/" + c.Format
		}
		if certain {
			// (vacuity guard: a fault the harness made certain, counted before the answer of the command is looked at)
			r.Count("cli_runs_with_certain_write_failure", 1)
		}
		if res.timeout {
			r.Violate(fmt.Sprintf("cli/%s:%s/hang", site, map[bool]string{false: "plain", true: "gzip"}[c.Gzip]),
				fmt.Sprintf("%s: the command did not end within 120 s", c), c)
			return
		}
		if !certain {
			return
		}
		if res.status != 0 {
			r.Count("cli_nonzero_exit", 1)
			return
		}
		z := "plain"
		if c.Gzip {
			z = "gzip"
		}
		r.Violate(fmt.Sprintf("cli/%s:%s/exit0", site, z),
			fmt.Sprintf("%s (result of %d bytes on a regular file): a write(2) of the command failed but the exit status is 0 (fatal/error message on stderr: %v)",
				c, ct.size, strings.Contains(res.stderr, "level=fatal") || strings.Contains(res.stderr, "level=error")), c)
	}

	if rc := r.ReplayCase(); rc != nil {
		var c c18cliCase
		if err := json.Unmarshal(rc, &c); err != nil {
			t.Fatal(err)
		}
		eval(c)
		return
	}

	type tf struct{ tool, format string }
	tfs := []tf{{"obiconvert", "fasta"}, {"obiconvert", "fastq"}, {"obiconvert", "json"}, {"obicsv", "csv"}}
	fifoK := []int{0, 4096, 20000}
	sizes := []string{"small", "large"}
	if verifkit.Thorough() {
		fifoK = []int{0, 1, 2, 100, 4095, 4096, 4097, 8191, 8192, 8193, 12288, 16384, 20000, 30000, 40000, 50000}
		sizes = []string{"small", "medium", "large"}
	}
	r.Bound("cli_fifo_offsets", fmt.Sprint(fifoK))
	k := 0
	for _, x := range tfs {
		for _, gz := range []bool{false, true} {
			for _, in := range sizes {
				for _, dest := range []string{"devfull-file", "devfull-stdout"} {
					if x.tool == "obicsv" && dest == "devfull-file" {
						continue // obicsv only writes to its standard output
					}
					if r.Mine(k) {
						eval(c18cliCase{Tool: x.tool, Format: x.format, Gzip: gz, Input: in, Dest: dest})
					}
					k++
				}
			}
			if x.tool == "obicsv" {
				continue // a FIFO on the standard output would end the command by SIGPIPE
			}
			for _, kk := range fifoK {
				if r.Mine(k) {
					eval(c18cliCase{Tool: x.tool, Format: x.format, Gzip: gz, Input: "large", Dest: "fifo", K: kk})
				}
				k++
				if r.Expired() {
					return
				}
			}
		}
	}
	// ---- command-level wrappers that the cases above do not reach
	thor := verifkit.Thorough()
	fifoK2 := []int{0, 20000}
	if thor {
		fifoK2 = []int{0, 1, 4095, 4096, 4097, 8192, 20000, 40000}
	}
	var extra []c18cliCase
	both := func(c c18cliCase, dests ...string) {
		for _, gz := range []bool{false, true} {
			for _, in := range sizes {
				for _, d := range dests {
					cc := c
					cc.Gzip, cc.Input, cc.Dest = gz, in, d
					extra = append(extra, cc)
				}
			}
			for _, kk := range fifoK2 {
				if c.Mode == "auto" {
					break // standard output only
				}
				cc := c
				cc.Gzip, cc.Input, cc.Dest, cc.K = gz, "large", "fifo", kk
				extra = append(extra, cc)
			}
		}
	}
	for _, f := range []string{"default-fq", "default-fa"} {
		both(c18cliCase{Tool: "obiconvert", Mode: "default", Format: f}, "devfull-file", "devfull-stdout")
	}
	for _, f := range []string{"fastq", "fasta", "json", "default-fq"} {
		for _, m := range []string{"paired-R1", "paired-R2"} {
			both(c18cliCase{Tool: "obiconvert", Mode: m, Format: f}, "devfull-file")
		}
	}
	for _, f := range []string{"default-fq", "default-fa", "fasta", "fastq"} {
		for _, m := range []string{"distribute", "distribute-append"} {
			both(c18cliCase{Tool: "obidistribute", Mode: m, Format: f}, "devfull-file")
		}
	}
	for _, f := range []string{"default-fq", "fasta"} {
		both(c18cliCase{Tool: "obigrep", Mode: "save-discarded", Format: f}, "devfull-file")
	}
	both(c18cliCase{Tool: "obicsv", Mode: "auto", Format: "csv"}, "devfull-stdout")
	r.Bound("cli_added_modes", fmt.Sprintf("%d runs: obiconvert default format (file, stdout), obiconvert --paired-with (R1 | R2 failing) x {fastq,fasta,json,default}, obidistribute [-A] (file of sample B failing) x {default,fasta,fastq}, obigrep --save-discarded, obicsv --auto; x {plain,-Z} x %v x {/dev/full through a symlink at the derived name, FIFO closed after k in %v}", len(extra), sizes, fifoK2))
	// armed only once this section is reached (a run stopped earlier by its deadline is "not exhaustive")
	for _, m := range []string{"default", "paired-R1", "paired-R2", "distribute", "distribute-append", "save-discarded", "auto"} {
		r.RequireNonVacuous("cli_mode_" + m + "_certain_failures")
	}
	for _, c := range extra {
		if r.Mine(k) {
			eval(c)
		}
		k++
		if r.Expired() {
			return
		}
	}
	// ---- observation only (never a violation): commands whose CSV / JSON result is NOT produced by one
	// of the four writers of the quantifier (fmt.Print on os.Stdout). Their exit status on a full
	// device is recorded as a counter and a note, so that the evidence shows what the check leaves out.
	for _, tool := range []string{"obicount", "obisummary"} {
		if r.Mine(k) {
			bin := filepath.Join(work, "bin", tool)
			cmd := exec.Command("go", "build", "-o", bin, "./cmd/obitools/"+tool)
			cmd.Dir = root
			if b, err := cmd.CombinedOutput(); err != nil {
				r.Note("observation skipped: cannot build %s: %v %s", tool, err, b)
			} else {
				ctlf, _ := os.Create(filepath.Join(work, "obs.out"))
				c0 := runCmd(bin, []string{inputs["small"]}, ctlf)
				ctlf.Close()
				st, _ := os.Stat(filepath.Join(work, "obs.out"))
				f, err := os.OpenFile("/dev/full", os.O_WRONLY, 0)
				if err != nil {
					t.Fatal(err)
				}
				res := runCmd(bin, []string{inputs["small"]}, f)
				f.Close()
				r.Count("cli_outside_quantifier_runs", 1)
				if c0.status == 0 && st != nil && st.Size() > 0 && res.status == 0 {
					r.Count("cli_outside_quantifier_exit0", 1)
					r.Note("outside the quantifier (not one of the four writers): `%s small.fastq > /dev/full` exits 0 although none of its %d result bytes was written", tool, st.Size())
				}
			}
		}
		k++
	}
	r.Sample(c18cliCase{Tool: "obiconvert", Format: "fasta", Input: "small", Dest: "devfull-file"})
}
