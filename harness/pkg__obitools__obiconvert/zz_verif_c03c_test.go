//go:build verif

package obiconvert

// C03 (engine A, command level) — the two wrappers every command is built on, CLIReadBioSequences and
// CLIWriteBioSequences, run unmodified on real (tiny) files under the controlled scheduler, composed as a
// record-wise command composes them:
//
//	CLIReadBioSequences(files...) -> MakeIWorker(annotate, w) [-> FilterOn(even, batch, w)] ->
//	CLIWriteBioSequences(terminal) -> WaitForLastPipe
//
// Enumerated: the input modes of the reader (one file; three files, the middle one empty, read in order;
// the same with --no-order, i.e. several concurrent file readers; --paired-with) x the output modes of the
// writer (-o file, standard output, the _R1/_R2 pair) x filter on/off x batch size 1/2 x every goroutine
// interleaving within the delay bound (chunk readers, title-line parsers, file readers, re-sequencers,
// workers, formatters, chunk writers, closers: all of them scheduled by the explorer).
//
// Oracle (absolute, not differential): the output file(s) hold exactly the records selected, each once,
// in input order (file after file in the order of the command line; with --no-order every file keeps its
// own order and the files may interleave), mates at the same rank of the _R2 file; the command ends
// (WaitForLastPipe returns, no deadlock, no panic, no exit).
//
// Not reachable under the scheduler: standard input (read by C code on descriptor 0) — covered by the
// command-line grid of C05 and by C01.

import (
	"encoding/json"
	"fmt"
	"io"
	"os"
	"path/filepath"
	"runtime"
	"runtime/debug"
	"strings"
	"testing"

	"git.metabarcoding.org/obitools/obitools4/obitools4/pkg/obiiter"
	"git.metabarcoding.org/obitools/obitools4/obitools4/pkg/obioptions"
	"git.metabarcoding.org/obitools/obitools4/obitools4/pkg/obiseq"
	"git.metabarcoding.org/obitools/obitools4/obitools4/pkg/verifkit"
	"git.metabarcoding.org/obitools/obitools4/obitools4/pkg/vsched"
	log "github.com/sirupsen/logrus"
)

type c03cParam struct {
	In        string   `json:"in"`      // one, three, three-noorder, paired
	Out       string   `json:"out"`     // file, stdout
	Guess     bool     `json:"guess"`   // false: --fasta (ReadFastaFromFile), true: format guessed from the content (ReadSequencesFromFile)
	Filter    bool     `json:"filter"`  // FilterOn(even) between the worker and the writer
	Batch     int      `json:"batch"`   // --batch-size
	Workers   int      `json:"workers"` // --max-cpu
	Mode      string   `json:"mode"`
	Bound     int      `json:"bound"`
	Policy    int      `json:"policy"`
	Choices   []int    `json:"choices,omitempty"`
	Conflicts []string `json:"conflicts,omitempty"` // racy-access sites that were scheduling points (replay)
}

var c03cDir string

// input files: ids <file letter><rank>; the number after the letter decides the fate in the filter
var c03cFiles = map[string][]string{
	"a.fasta": {"a0", "a1", "a2"},
	"b.fasta": {},
	"c.fasta": {"c0", "c1"},
	"m.fasta": {"m0", "m1", "m2"}, // the mates of a.fasta
}

func c03cPrepare() {
	var err error
	c03cDir, err = os.MkdirTemp("", "verif-c03c-")
	if err != nil {
		panic(err)
	}
	for name, ids := range c03cFiles {
		var sb strings.Builder
		for i, id := range ids {
			fmt.Fprintf(&sb, ">%s {\"rank\":%d}\n%s\n", id, i, strings.Repeat("acgt", 2+i))
		}
		if err := os.WriteFile(filepath.Join(c03cDir, name), []byte(sb.String()), 0644); err != nil {
			panic(err)
		}
	}
}

func c03cOutputs() []string {
	return []string{"out.fasta", "out_R1.fasta", "out_R2.fasta", "stdout.txt"}
}

// The explorer identifies shared locations by their address: an execution must not see an address
// twice for two objects. Every reader allocates a 1 MiB buffer, so the collector would run (and free
// addresses for re-use) in the middle of an execution: it is switched off and run between executions.
var c03cExecs int

func c03cReset(p c03cParam) func() {
	return func() {
		c03cExecs++
		if c03cExecs%8 == 0 {
			runtime.GC()
		}
		for _, f := range c03cOutputs() {
			os.Remove(filepath.Join(c03cDir, f))
		}
		obioptions.SetBatchSize(p.Batch)
		obioptions.SetMaxCPU(p.Workers)
		obioptions.SetWorkerPerCore(1)
		obioptions.SetStrictReadWorker(p.Workers)
		obioptions.SetStrictWriteWorker(p.Workers)
		obioptions.SetParallelFilesRead(0)
		__no_ordered_input__ = p.In == "three-noorder"
		__paired_file_name__ = ""
		if p.In == "paired" {
			__paired_file_name__ = filepath.Join(c03cDir, "m.fasta")
		}
		__output_file_name__ = "-"
		if p.Out == "file" {
			__output_file_name__ = filepath.Join(c03cDir, "out.fasta")
		}
		__no_progress_bar__ = true
		__input_fasta_format__ = !p.Guess
	}
}

func c03cEven(s *obiseq.BioSequence) bool {
	id := s.Id()
	return (id[len(id)-1]-'0')%2 == 0
}

func c03cInputs(p c03cParam) []string {
	switch p.In {
	case "one", "paired":
		return []string{"a.fasta"}
	}
	return []string{"a.fasta", "b.fasta", "c.fasta"}
}

func c03cIds(text string) []string {
	var ids []string
	for _, l := range strings.Split(text, "\n") {
		if strings.HasPrefix(l, ">") {
			f := strings.Fields(l[1:])
			if len(f) > 0 {
				ids = append(ids, f[0])
			} else {
				ids = append(ids, "")
			}
		}
	}
	return ids
}

// c03cBody is the main() of a record-wise command.
func c03cBody(p c03cParam) string {
	var files []string
	for _, f := range c03cInputs(p) {
		files = append(files, filepath.Join(c03cDir, f))
	}
	realStdout := os.Stdout
	if p.Out == "stdout" {
		f, err := os.Create(filepath.Join(c03cDir, "stdout.txt"))
		if err != nil {
			return "harness: " + err.Error()
		}
		os.Stdout = f
	}
	defer func() { os.Stdout = realStdout }()

	it, err := CLIReadBioSequences(files...)
	if err != nil {
		return "error: CLIReadBioSequences: " + err.Error()
	}
	w := func(s *obiseq.BioSequence) (obiseq.BioSequenceSlice, error) {
		s.SetAttribute("seen", true)
		return obiseq.BioSequenceSlice{s}, nil
	}
	it = it.MakeIWorker(w, false, obioptions.CLIParallelWorkers())
	if p.Filter {
		it = it.FilterOn(c03cEven, obioptions.CLIBatchSize(), obioptions.CLIParallelWorkers())
	}
	paired := it.IsPaired()
	if _, err = CLIWriteBioSequences(it, true); err != nil {
		return "error: CLIWriteBioSequences: " + err.Error()
	}
	obiiter.WaitForLastPipe()
	os.Stdout = realStdout

	var sb strings.Builder
	fmt.Fprintf(&sb, "paired=%v\n", paired)
	for _, f := range c03cOutputs() {
		b, err := os.ReadFile(filepath.Join(c03cDir, f))
		if err != nil {
			continue
		}
		fmt.Fprintf(&sb, "%s: %s\n", f, strings.Join(c03cIds(string(b)), " "))
	}
	return sb.String()
}

func c03cSelect(ids []string, filter bool) []string {
	out := []string{}
	for _, id := range ids {
		if !filter || (id[len(id)-1]-'0')%2 == 0 {
			out = append(out, id)
		}
	}
	return out
}

func c03cOracle(p c03cParam, got string) (string, string) {
	if strings.HasPrefix(got, "error") || strings.HasPrefix(got, "harness") {
		return "error", got
	}
	files := map[string][]string{}
	for _, l := range strings.Split(got, "\n") {
		if i := strings.Index(l, ": "); i >= 0 {
			files[l[:i]] = strings.Fields(l[i+2:])
		} else if strings.HasSuffix(l, ":") {
			files[l[:len(l)-1]] = nil
		}
	}
	var want []string
	for _, f := range c03cInputs(p) {
		want = append(want, c03cSelect(c03cFiles[f], p.Filter)...)
	}
	main := "out.fasta"
	switch {
	case p.Out == "stdout":
		main = "stdout.txt"
	case p.In == "paired":
		main = "out_R1.fasta"
	}
	expectFiles := []string{main}
	if p.In == "paired" {
		if !strings.Contains(got, "paired=true") {
			return "not-paired", "the stream handed to the writer is not marked as paired:\n" + got
		}
		if p.Out == "file" {
			expectFiles = append(expectFiles, "out_R2.fasta")
		}
	}
	for _, f := range expectFiles {
		if _, ok := files[f]; !ok {
			return "output-missing", fmt.Sprintf("output %s was not written:\n%s", f, got)
		}
	}
	for f := range files {
		ok := false
		for _, e := range expectFiles {
			ok = ok || e == f
		}
		if !ok {
			return "unexpected-output", fmt.Sprintf("unexpected output %s:\n%s", f, got)
		}
	}
	classify := func(g, w []string, ordered bool) string {
		cnt := map[string]int{}
		for _, x := range w {
			cnt[x]++
		}
		for _, x := range g {
			cnt[x]--
		}
		lost, dup := false, false
		for _, v := range cnt {
			lost = lost || v > 0
			dup = dup || v < 0
		}
		switch {
		case lost && dup:
			return "wrong"
		case lost:
			return "lost"
		case dup:
			return "duplicated"
		}
		if ordered && strings.Join(g, " ") != strings.Join(w, " ") {
			return "reordered"
		}
		return ""
	}
	g := files[main]
	if c := classify(g, want, p.In != "three-noorder"); c != "" {
		return c, fmt.Sprintf("%s holds %v, expected %v", main, g, want)
	}
	if p.In == "three-noorder" {
		// every file keeps its own order
		last := map[byte]byte{}
		for _, id := range g {
			if prev, ok := last[id[0]]; ok && id[len(id)-1] < prev {
				return "reordered", fmt.Sprintf("records of one file out of file order: %v", g)
			}
			last[id[0]] = id[len(id)-1]
		}
	}
	if p.In == "paired" && p.Out == "file" {
		var wm []string
		for _, id := range want {
			wm = append(wm, "m"+id[1:])
		}
		m := files["out_R2.fasta"]
		if c := classify(m, wm, true); c != "" {
			return "mates-" + c, fmt.Sprintf("out_R2.fasta holds %v, expected %v (out_R1.fasta: %v)", m, wm, g)
		}
	}
	return "", ""
}

// c03cExplore = vsched.Explore, except that a failure of the engine's self check "the same schedule run twice gives the same
// trace and the same verdict" (a panic of the engine; it never fails on the pinned tree) is returned instead of ending
// the shard: a tree whose behaviour depends on what earlier executions left behind (package-level state: a counter, a
// cache, a sync.Once) is reported as a violation (control-run/not-deterministic) and the job is given up.
func c03cExplore(cfg vsched.Config, body func(x *vsched.Exec)) (st *vsched.Stats, diverged string) {
	defer func() {
		if e := recover(); e != nil {
			if s, ok := e.(string); ok && strings.HasPrefix(s, "vsched: replay of a") {
				st, diverged = &vsched.Stats{Outcomes: map[string]int64{}, TraceHashes: map[uint64]struct{}{}}, s
				return
			}
			panic(e)
		}
	}()
	return vsched.Explore(cfg, body), ""
}

func TestVerifC03C(t *testing.T) {
	log.SetOutput(io.Discard)
	log.StandardLogger().ExitFunc = vsched.Exit
	r := verifkit.New("C03")
	defer r.Write()
	c03cPrepare()
	defer os.RemoveAll(c03cDir)
	defer debug.SetGCPercent(debug.SetGCPercent(-1))

	check := func(p c03cParam) func(x *vsched.Exec) string {
		return func(x *vsched.Exec) string {
			if x.Outcome() != "" {
				return x.Outcome() + "|" + x.Detail()
			}
			got, _ := x.Obs.(string)
			c, d := c03cOracle(p, got)
			if c == "" {
				return ""
			}
			return c + "|" + d
		}
	}

	if rc := r.ReplayCase(); rc != nil {
		var p c03cParam
		if err := json.Unmarshal(rc, &p); err != nil {
			t.Fatal(err)
		}
		x := vsched.RunOncePolicy(p.Policy, p.Choices, 40000, vsched.ConflictSet(p.Conflicts), c03cReset(p), func(x *vsched.Exec) { x.Obs = c03cBody(p) })
		msg := check(p)(x)
		r.Eval(1)
		if msg != "" {
			r.Violate("cli/replay", msg, p)
		}
		fmt.Println("replay:", msg)
		return
	}

	var jobs []c03cParam
	add := func(in, out string, filter bool, batch int, guess bool, policies ...int) {
		for _, pol := range policies {
			jobs = append(jobs, c03cParam{In: in, Out: out, Filter: filter, Batch: batch, Guess: guess, Workers: 2, Mode: "delay", Bound: 1, Policy: pol})
		}
	}
	if !verifkit.Thorough() {
		// quick: every input mode and every output mode once, without the filter stage (about 150 s of CPU,
		// the longest job about 25 s); the full grid is the thorough tier
		add("one", "file", false, 2, false, 0, 1)
		add("three", "file", false, 2, false, 0, 1)
		add("three-noorder", "file", false, 2, false, 0, 1)
		add("paired", "file", false, 2, false, 0, 1)
		add("one", "stdout", false, 2, false, 0)
	} else {
		for _, in := range []string{"one", "three", "three-noorder", "paired"} {
			for _, out := range []string{"file", "stdout"} {
				add(in, out, false, 2, false, 0, 1)
				for _, batch := range []int{1, 2} {
					add(in, out, true, batch, false, 0, 1)
				}
			}
		}
		// the format guessed from the content (ReadSequencesFromFile, the default of every command). One small
		// job only: OBIMimeTypeGuesser extends the global detector tree of the mimetype package at EVERY call,
		// so each guess is slower than the one before (quadratic over the executions of a process); the guess
		// is made before the goroutines of the reader start, it adds nothing to the schedule dimension
		add("one", "file", false, 2, true, 0)
	}
	if f := os.Getenv("VERIF_C03C_ONLY"); f != "" {
		var sel []c03cParam
		for _, j := range jobs {
			if strings.Contains(f, j.In) {
				sel = append(sel, j)
			}
		}
		jobs = sel
	}
	if os.Getenv("VERIF_C03C_DEBUG") != "" {
		// development aid (determinism probe, not part of the check): every one-deviation schedule of every job is
		// run four times with the conflict sites of a complete exploration; traces and outputs must agree
		for _, p := range jobs {
			var st0 *vsched.Stats
			for st0 == nil {
				func() {
					defer func() {
						if e := recover(); e != nil {
							fmt.Println("probe: Explore panicked:", e)
						}
					}()
					st0 = vsched.Explore(vsched.Config{Name: "probe", Preemptions: 1, DelayBounding: true, Policy: p.Policy, Horizon: 40000, MaxExec: 200000,
						Reset: c03cReset(p), Check: check(p)}, func(x *vsched.Exec) { x.Obs = c03cBody(p) })
				}()
			}
			conf := map[string]bool{}
			for _, s := range st0.ConflictSites {
				conf[s] = true
			}
			fmt.Printf("probe %+v: %d conflict sites %v\n", p, len(conf), st0.ConflictSites)
			run := func(prefix []int) *vsched.Exec {
				return vsched.RunOncePolicy(p.Policy, prefix, 40000, conf, c03cReset(p), func(x *vsched.Exec) { x.Obs = c03cBody(p) })
			}
			x0 := run(nil)
			c0 := x0.Choices()
			ndiv := 0
			var nEn []int
			for _, l := range strings.Split(x0.DebugPoints(), "\n") {
				var i, n int
				if k, _ := fmt.Sscanf(l, "%d: n=%d", &i, &n); k == 2 {
					nEn = append(nEn, n)
				}
			}
			for d := 0; d <= len(c0) && ndiv < 3; d++ {
				for alt := 1; alt < 12 && ndiv < 3 && (d == len(c0) || alt < nEn[d]); alt++ {
					prefix := append([]int{}, c0[:d]...)
					if d < len(c0) {
						prefix = append(prefix, alt)
					} else if alt > 1 {
						break
					}
					first := run(prefix)
					if strings.Contains(first.Outcome()+first.Detail(), "replay divergence") {
						break
					}
					for rep := 0; rep < 3; rep++ {
						x := run(prefix)
						if x.TraceHash() != first.TraceHash() || fmt.Sprint(x.Obs) != fmt.Sprint(first.Obs) {
							a, b := strings.Split(first.DebugPoints(), "\n"), strings.Split(x.DebugPoints(), "\n")
							for k := 0; k < len(a) && k < len(b); k++ {
								if a[k] != b[k] {
									fmt.Printf("DIVERGE %+v deviation at %d alt %d: point %d:\n  %s\n  %s\n", p, d, alt, k, a[k], b[k])
									break
								}
							}
							fmt.Printf("DIVERGE %+v deviation at %d alt %d: %d vs %d points, outcomes %q %q obs %v | %v\n", p, d, alt, len(a), len(b), first.Outcome(), x.Outcome(), first.Obs, x.Obs)
							ndiv++
							break
						}
					}
				}
			}
		}
		return
	}
	r.Bound("jobs", len(jobs))
	r.Bound("scenario", "cli-read-write")
	for k, p := range jobs {
		if !r.Mine(k) {
			continue
		}
		if r.Expired() {
			break
		}
		if k < 2 {
			r.Sample(p)
		}
		cfg := vsched.Config{Name: "cli-" + p.In, Preemptions: p.Bound, DelayBounding: true, Policy: p.Policy,
			Horizon: 40000, MaxExec: 200000, Expired: r.Expired, Reset: c03cReset(p), Check: check(p)}
		vsched.MapOrderChoices = true
		st, div := c03cExplore(cfg, func(x *vsched.Exec) { x.Obs = c03cBody(p) })
		vsched.MapOrderChoices = false
		if div != "" {
			r.Violate("cli/"+p.In+"->"+p.Out+"/control-run/not-deterministic", fmt.Sprintf("CLIReadBioSequences(%s) -> worker -> filter=%v -> CLIWriteBioSequences(%s) batch=%d workers=%d policy=%d: %s", p.In, p.Filter, p.Out, p.Batch, p.Workers, p.Policy, div), p)
			r.Cap(fmt.Sprintf("exploration of cli %s/%s given up: the same schedule does not give the same execution twice", p.In, p.Out))
			continue
		}
		r.Eval(st.Executions)
		r.Trace(st.Executions)
		r.Trans(st.Points)
		r.Replayed(st.ReplaysChecked)
		r.Count("hb_states", st.States)
		r.Count("jobs_"+p.Mode, 1)
		r.Count("schedules_executed", st.Executions)
		r.Count("cli_jobs_"+p.In+"_"+p.Out, 1)
		for o, n := range st.Outcomes {
			r.Count("outcome_"+o, n)
		}
		for h := range st.TraceHashes {
			r.StateH(h)
		}
		if os.Getenv("VERIF_C03_STATS") != "" {
			fmt.Printf("STATS cli %+v: rounds=%d conflicts=%v exec=%d states=%d pruned=%d points=%d maxpoints=%d threads=%d capped=%v outcomes=%v\n",
				p, st.Rounds, st.ConflictSites, st.Executions, st.States, st.Pruned, st.Points, st.MaxPoints, st.MaxThreads, st.Capped, st.Outcomes)
		}
		if st.Capped {
			r.Cap(fmt.Sprintf("execution cap / deadline reached for cli %s/%s", p.In, p.Out))
		}
		seen := map[string]bool{}
		for _, v := range st.Violations {
			parts := strings.SplitN(v.Desc, "|", 2)
			key := "cli/" + p.In + "->" + p.Out + "/" + parts[0]
			if seen[key] {
				continue
			}
			seen[key] = true
			q := p
			q.Choices = v.Choices
			q.Conflicts = v.Conflicts
			r.Violate(key, fmt.Sprintf("CLIReadBioSequences(%s) -> worker -> filter=%v -> CLIWriteBioSequences(%s) batch=%d workers=%d policy=%d: %s [schedule=%v]",
				p.In, p.Filter, p.Out, p.Batch, p.Workers, p.Policy, parts[1], v.Choices), q)
		}
	}
	r.RequireNonVacuous("schedules_executed") // what the harness did; how the executions ended is the tree's answer
}
