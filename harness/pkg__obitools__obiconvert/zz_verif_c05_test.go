//go:build verif

package obiconvert

// C05 (configuration grid over the REAL commands) — the bytes written by obiconvert, obigrep, obiannotate,
// obicomplement, obipairing, obimultiplex, obipcr, obicount, obisummary and obicsv for a given input and
// given functional options do not depend on --max-cpu / --batch-size (nor on how they are given) and are
// the same when the command is run again.
//
// The ten binaries are built from the tree this harness is compiled from (go build ./cmd/obitools/<cmd>)
// and run as processes: main(), the option parser (--max-cpu, --force-one-cpu, --batch-size, OBIMAXCPU,
// OBIBATCHSIZE, --no-order, --paired-with ...), obiconvert.CLIReadBioSequences (file, several files, stdin
// = kseq reader, paired files), the command core, obiconvert.CLIWriteBioSequences / obicsv.CLIWriteCSV
// (stdout, -o file, _R1/_R2 files, -u / --save-discarded files) all run unmodified.
//
// For every (command, functional option set) the grid
//
//	--max-cpu {1,2,3,4,8,32} + --force-one-cpu   x   --batch-size {1,2,3,7,n,5000}   (n = records of the input)
//	+ the same two parameters given through the environment (OBIMAXCPU / OBIBATCHSIZE)
//	+ the process confined to one core (taskset): its threads are time-sliced by the kernel
//
// is run completely, every cell `reps` times (2 quick, 12 thorough); stdout and every output file of every run must equal, byte
// for byte, those of the (--max-cpu 1, --batch-size 5000) run. Outputs whose record order is documented
// as undefined (several input files with --no-order) are compared as multisets of records.
//
// What is exhaustive here is the CONFIGURATION space; inside a process the goroutines are scheduled by
// the operating system (one sample per run). All interleavings (within a delay bound) of the command
// cores are the business of the engine-A part of this check (pkg/verifc05).

import (
	"bytes"
	"encoding/json"
	"fmt"
	"os"
	"os/exec"
	"path/filepath"
	"runtime"
	"sort"
	"strconv"
	"strings"
	"sync"
	"sync/atomic"
	"syscall"
	"testing"
	"time"

	"git.metabarcoding.org/obitools/obitools4/obitools4/pkg/verifkit"
)

// ------------------------------------------------------------------------------------------ inputs

func c05cliDNA(n int, seed uint32) []byte {
	out := make([]byte, n)
	x := seed*2654435761 + 12345
	for i := range out {
		x = x*1664525 + 1013904223
		out[i] = "acgt"[(x>>24)&3]
	}
	return out
}

func c05cliRC(s string) string {
	m := map[byte]byte{'a': 't', 'c': 'g', 'g': 'c', 't': 'a', 'n': 'n'}
	b := []byte(s)
	for i, j := 0, len(b)-1; i <= j; i, j = i+1, j-1 {
		b[i], b[j] = m[b[j]], m[b[i]]
	}
	return string(b)
}

const c05cliFwd = "ggatcacaggtc"
const c05cliRev = "ccattgaagcta"

func c05cliWrap(s string, w int) string {
	if w <= 0 {
		return s + "\n"
	}
	var b strings.Builder
	for len(s) > w {
		b.WriteString(s[:w])
		b.WriteByte('\n')
		s = s[w:]
	}
	b.WriteString(s)
	b.WriteByte('\n')
	return b.String()
}

// c05cliTitle: annotations of record i (JSON title line). Every 5th record has none, every 7th has a
// free-text definition after the JSON part.
func c05cliTitle(i int) string {
	if i%5 == 4 {
		return ""
	}
	t := fmt.Sprintf(` {"count":%d,"tag":"t%d","sample":"s%c","len_class":%d}`, i%3+1, i%2, 'A'+rune(i%3), i%4)
	if i%7 == 3 {
		t += fmt.Sprintf(" definition of record %d", i)
	}
	return t
}

// c05cliFasta: n records. Lengths cover: shorter than every length filter (8), longer than the 500-byte
// default-quality table, longer than the 1024-byte pool limit; records 1,3,8,13,... carry an amplicon
// (forward primer .. reverse-complemented reverse primer, one of them with a mismatch in the primer), two
// records are circular genomes linearised inside their forward priming site.
func c05cliFasta(prefix string, n int, seed uint32) []byte {
	lens := []int{20, 90, 8, 600, 1100, 30, 75, 120, 64, 33, 250, 45}
	var b bytes.Buffer
	for i := 0; i < n; i++ {
		l := lens[i%len(lens)] + i/len(lens)
		s := c05cliDNA(l, seed+uint32(i))
		if i%5 == 1 || i%5 == 3 {
			fw := []byte(c05cliFwd)
			if i%10 == 3 {
				fw[4] = 't' // one mismatch
			}
			amp := string(fw) + string(c05cliDNA(15+i, 7000+uint32(i))) + c05cliRC(c05cliRev)
			if len(amp)+3 <= len(s) {
				copy(s[3:], amp)
			}
		}
		if i == 9 || i == 14 {
			body := c05cliFwd[6:] + string(c05cliDNA(20+i, 500+uint32(i))) + c05cliRC(c05cliRev) + string(c05cliDNA(15, 600+uint32(i))) + c05cliFwd[:6]
			s = []byte(body)
		}
		w := 0
		if i%3 == 0 {
			w = 60
		}
		fmt.Fprintf(&b, ">%s%02d%s\n%s", prefix, i+1, c05cliTitle(i), c05cliWrap(string(s), w))
	}
	return b.Bytes()
}

func c05cliFastq(prefix string, n int, seed uint32) []byte {
	lens := []int{25, 150, 10, 80, 101, 36, 75, 60, 120, 44}
	var b bytes.Buffer
	for i := 0; i < n; i++ {
		l := lens[i%len(lens)] + i/len(lens)
		s := c05cliDNA(l, seed+uint32(i))
		q := make([]byte, l)
		for k := range q {
			q[k] = byte(33 + 2 + (k*7+i*3)%39)
		}
		fmt.Fprintf(&b, "@%s%02d%s\n%s\n+\n%s\n", prefix, i+1, c05cliTitle(i), s, q)
	}
	return b.Bytes()
}

// c05cliPairs: n read pairs. Fragment lengths make every relative position of the two reads appear:
// long overlaps, overlaps shorter than the default minimum (-> join mode), no overlap at all, reads
// longer than the fragment (overhanging ends); every 4th pair has sequencing errors of low quality in
// the overlap, every 6th an error of high quality.
func c05cliPairs(n int) (r1, r2 []byte) {
	var a, b bytes.Buffer
	for i := 0; i < n; i++ {
		fl := []int{80, 110, 150, 60, 95, 130, 170, 55, 100, 125}[i%10] + i
		la, lb := 70, 60+(i%4)*5
		frag := c05cliDNA(fl, 100+uint32(i))
		if la > fl {
			la = fl
		}
		if lb > fl {
			lb = fl
		}
		ra := append([]byte{}, frag[:la]...)
		rb := []byte(c05cliRC(string(frag[fl-lb:])))
		qa := bytes.Repeat([]byte{33 + 36}, la)
		qb := bytes.Repeat([]byte{33 + 30}, lb)
		for k := range qa {
			qa[k] -= byte(k % 11)
		}
		for k := range qb {
			qb[k] -= byte(k % 7)
		}
		if i%4 == 2 && fl-lb < la-3 {
			p := (fl - lb + la) / 2
			ra[p] = "acgt"[(strings.IndexByte("acgt", ra[p])+1)%4]
			qa[p] = 33 + 4
		}
		if i%6 == 5 && fl-lb < la-6 {
			p := fl - lb + 2
			ra[p] = "acgt"[(strings.IndexByte("acgt", ra[p])+2)%4]
		}
		fmt.Fprintf(&a, "@p%02d%s\n%s\n+\n%s\n", i+1, c05cliTitle(i), ra, qa)
		fmt.Fprintf(&b, "@p%02d%s\n%s\n+\n%s\n", i+1, c05cliTitle(i), rb, qb)
	}
	return a.Bytes(), b.Bytes()
}

// c05cliMultiplex: reads of a three-sample sheet (two primer pairs) in both orientations, reads with an
// undeclared tag pair, with a primer mismatch, without priming site, with an indel in the primer.
func c05cliMultiplex(n int) (reads, sheet []byte) {
	tags := []string{"aattaac", "gaagtag", "cccccct", "tgtgtgt"}
	fwd2, rev2 := "tagaacaggctcctctag", "ttagataccccactatgc"
	declared := [][4]string{ // forward tag, reverse tag, forward primer, reverse primer: the four samples of the sheet
		{"aattaac", "aattaac", c05cliFwd, c05cliRev},
		{"gaagtag", "aattaac", c05cliFwd, c05cliRev},
		{"cccccct", "gaagtag", fwd2, rev2},
		{"aattaac", "gaagtag", fwd2, rev2},
	}
	var b bytes.Buffer
	for i := 0; i < n; i++ {
		d := declared[i%4]
		tf, tr, fw, rv := d[0], d[1], d[2], d[3]
		if i%3 == 2 { // undeclared tag pair
			tf, tr = tags[(i+1)%4], tags[(i/4+2)%4]
		}
		if i%8 == 5 {
			x := []byte(fw)
			x[5] = "acgt"[(strings.IndexByte("acgt", x[5])+1)%4]
			fw = string(x)
		}
		if i%12 == 7 {
			fw = fw[:6] + fw[7:] // deletion in the primer
		}
		bc := string(c05cliDNA(18+i, 300+uint32(i)))
		read := tf + fw + bc + c05cliRC(rv) + c05cliRC(tr)
		if i%2 == 1 {
			read = c05cliRC(read)
		}
		if i%10 == 9 {
			read = string(c05cliDNA(70, 999+uint32(i)))
		}
		fmt.Fprintf(&b, ">read%02d%s\n%s\n", i+1, c05cliTitle(i), read)
	}
	sh := "exp  s1  aattaac:aattaac  " + c05cliFwd + "  " + c05cliRev + "  F  @\n" +
		"exp  s2  gaagtag:aattaac  " + c05cliFwd + "  " + c05cliRev + "  F  @\n" +
		"exp  s3  cccccct:gaagtag  " + fwd2 + "  " + rev2 + "  F  @\n" +
		"exp  s4  aattaac:gaagtag  " + fwd2 + "  " + rev2 + "  F  @\n"
	return b.Bytes(), []byte(sh)
}

// ------------------------------------------------------------------------------------------ scenarios

// A scenario = one command + one set of FUNCTIONAL options + one input transport + one output channel.
// In Args "@in/x" is replaced by the path of input x, "@out/x" by a file of the private directory of
// the run (collected after the run when listed in Outs).
type c05cliScn struct {
	Name  string   // key of the option set (part of the violation keys)
	Tool  string   //
	Args  []string //
	Stdin string   // input file fed on the standard input
	Outs  []string // output files collected besides stdout
	N     int      // records in the input (batch-size value "n")
	Units string   // how an output splits into records (to NAME a difference): fasta, fastq, lines
	Canon bool     // record order documented as undefined: outputs compared as multisets of records
}

const (
	c05cliNRec   = 24
	c05cliNPairs = 20
	c05cliNBig   = 30
)

func c05cliScenarios() []c05cliScn {
	pcr := []string{"--forward", c05cliFwd, "--reverse", c05cliRev}
	multi := []string{"@in/m1.fasta", "@in/m2.fasta", "@in/m3.fasta", "@in/m4.fasta"}
	S := func(name, tool, units string, n int, stdin string, outs []string, args ...string) c05cliScn {
		return c05cliScn{Name: name, Tool: tool, Args: args, Stdin: stdin, Outs: outs, N: n, Units: units}
	}
	l := []c05cliScn{
		// ---- obiconvert: every input transport x every writer
		S("fasta-file>stdout", "obiconvert", "fasta", c05cliNRec, "", nil, "@in/a.fasta"),
		S("fasta-stdin>stdout", "obiconvert", "fasta", c05cliNRec, "a.fasta", nil),
		S("fastq-stdin>-o", "obiconvert", "fastq", c05cliNRec, "b.fastq", []string{"o.fastq"}, "-o", "@out/o.fastq"),
		S("fastq-stdin>fasta-output,OBI-header", "obiconvert", "fasta", c05cliNRec, "b.fastq", nil, "--fasta-output", "--output-OBI-header"),
		S("fasta-stdin>json-output", "obiconvert", "lines", c05cliNRec, "a.fasta", nil, "--json-output"),
		S("4files>stdout", "obiconvert", "fasta", c05cliNRec, "", nil, multi...),
		S("4files,no-order>stdout", "obiconvert", "fasta", c05cliNRec, "", nil, append([]string{"--no-order"}, multi...)...),
		S("paired-with>-o_R1_R2", "obiconvert", "fastq", c05cliNPairs, "", []string{"o_R1.fastq", "o_R2.fastq"}, "--paired-with", "@in/r2.fastq", "-o", "@out/o.fastq", "@in/r1.fastq"),
		S("fastq-stdin>-Z-o", "obiconvert", "gzip", c05cliNRec, "b.fastq", []string{"o.fastq.gz"}, "-Z", "-o", "@out/o.fastq.gz"),
		S("3MiB-fasta-file>stdout", "obiconvert", "fasta", c05cliNBig, "", nil, "@in/big.fasta"),
		S("fastq-stdin,skip-empty,fastq-output", "obiconvert", "fastq", c05cliNRec, "b.fastq", nil, "--fastq", "--fastq-output", "--skip-empty"),
		// ---- obigrep
		S("-l30-L700,stdin", "obigrep", "fasta", c05cliNRec, "a.fasta", nil, "-l", "30", "-L", "700"),
		S("-c2-a-tag-v,file", "obigrep", "fasta", c05cliNRec, "", nil, "-c", "2", "-a", "tag=t1", "-v", "@in/a.fasta"),
		S("-p-expr,fastq-stdin", "obigrep", "fastq", c05cliNRec, "b.fastq", nil, "-p", "sequence.Len() > 50"),
		S("-s-pattern,save-discarded", "obigrep", "fasta", c05cliNRec, "a.fasta", []string{"d.fasta"}, "-s", "acg[at]", "--save-discarded", "@out/d.fasta"),
		S("approx-pattern-e1", "obigrep", "fasta", c05cliNRec, "a.fasta", nil, "--approx-pattern", c05cliFwd, "--pattern-error", "1"),
		S("paired,-l65,mode-or", "obigrep", "fastq", c05cliNPairs, "", []string{"o_R1.fastq", "o_R2.fastq"}, "-l", "65", "--paired-mode", "or", "--paired-with", "@in/r2.fastq", "-o", "@out/o.fastq", "@in/r1.fastq"),
		// ---- obiannotate
		S("length+set-identifier", "obiannotate", "fasta", c05cliNRec, "a.fasta", nil, "--length", "--set-identifier", `sequence.Id()+"_x"`),
		S("-S-x2", "obiannotate", "fasta", c05cliNRec, "a.fasta", nil, "-S", "len=sequence.Len()", "-S", `who=sequence.Id()`),
		S("cut3:15,fastq", "obiannotate", "fastq", c05cliNRec, "b.fastq", nil, "--cut", "3:15"),
		S("delete+rename+keep,file", "obiannotate", "fasta", c05cliNRec, "", nil, "--delete-tag", "tag", "--rename-tag", "cnt=count", "@in/a.fasta"),
		S("criterion-l40+length", "obiannotate", "fasta", c05cliNRec, "a.fasta", nil, "-l", "40", "--length"),
		S("clear+length", "obiannotate", "fastq", c05cliNRec, "b.fastq", nil, "--clear", "--length"),
		S("pattern", "obiannotate", "fasta", c05cliNRec, "a.fasta", nil, "--pattern", c05cliFwd, "--pattern-name", "fw"),
		// ---- obicomplement
		S("fasta-stdin", "obicomplement", "fasta", c05cliNRec, "a.fasta", nil),
		S("fastq-stdin", "obicomplement", "fastq", c05cliNRec, "b.fastq", nil),
		S("4files", "obicomplement", "fasta", c05cliNRec, "", nil, multi...),
		// ---- obipairing
		S("default", "obipairing", "fastq", c05cliNPairs, "", nil, "-F", "@in/r1.fastq", "-R", "@in/r2.fastq"),
		S("exact-mode,min-overlap10", "obipairing", "fastq", c05cliNPairs, "", nil, "-F", "@in/r1.fastq", "-R", "@in/r2.fastq", "--exact-mode", "--min-overlap", "10"),
		S("without-stat,min-identity", "obipairing", "fastq", c05cliNPairs, "", []string{"o.fastq"}, "-F", "@in/r1.fastq", "-R", "@in/r2.fastq", "--without-stat", "--min-identity", "0.95", "-o", "@out/o.fastq"),
		S("fast-absolute,gap1,delta2", "obipairing", "fastq", c05cliNPairs, "", nil, "-F", "@in/r1.fastq", "-R", "@in/r2.fastq", "--fast-absolute", "--gap-penality", "1", "--delta", "2"),
		// ---- obimultiplex
		S("default", "obimultiplex", "fasta", c05cliNRec, "mx.fasta", nil, "-t", "@in/sheet.txt"),
		S("-e1,keep-errors", "obimultiplex", "fasta", c05cliNRec, "mx.fasta", nil, "-t", "@in/sheet.txt", "-e", "1", "--keep-errors"),
		S("-e2,-u", "obimultiplex", "fasta", c05cliNRec, "mx.fasta", []string{"u.fasta"}, "-t", "@in/sheet.txt", "-e", "2", "-u", "@out/u.fasta"),
		S("-e2,with-indels,file", "obimultiplex", "fasta", c05cliNRec, "", nil, "-t", "@in/sheet.txt", "-e", "2", "--with-indels", "@in/mx.fasta"),
		// ---- obipcr
		S("-e1-l5-L80", "obipcr", "fasta", c05cliNRec, "a.fasta", nil, append(pcr, "-e", "1", "-l", "5", "-L", "80")...),
		S("circular", "obipcr", "fasta", c05cliNRec, "a.fasta", nil, append(pcr, "-e", "1", "-l", "5", "-L", "80", "--circular")...),
		S("delta3,only-complete", "obipcr", "fasta", c05cliNRec, "a.fasta", nil, append(pcr, "-e", "1", "-l", "5", "-L", "80", "--delta", "3", "--only-complete-flanking")...),
		S("4files,-e0", "obipcr", "fasta", c05cliNRec, "", nil, append(append(pcr, "-l", "5", "-L", "80"), multi...)...),
		// ---- obicount
		S("all,stdin", "obicount", "lines", c05cliNRec, "a.fasta", nil),
		S("-v-r,fastq", "obicount", "lines", c05cliNRec, "b.fastq", nil, "-v", "-r"),
		S("-s,4files", "obicount", "lines", c05cliNRec, "", nil, append([]string{"-s"}, multi...)...),
		S("3MiB-file", "obicount", "lines", c05cliNBig, "", nil, "@in/big.fasta"),
		// ---- obisummary
		S("json,stdin", "obisummary", "lines", c05cliNRec, "a.fasta", nil),
		S("yaml,fastq", "obisummary", "lines", c05cliNRec, "b.fastq", nil, "--yaml-output"),
		S("json,4files", "obisummary", "lines", c05cliNRec, "", nil, append([]string{"--json-output"}, multi...)...),
		// records as obiuniq/obiclean leave them: per-sample maps, status without weight, weight without status, vectors
		// (every counter of the per-worker summaries gets asymmetric partial sums)
		S("json,obiclean-status-only,stdin", "obisummary", "lines", c05cliNRec, "oc1.fasta", nil),
		S("json,obiclean-mixed,stdin", "obisummary", "lines", c05cliNRec, "oc2.fasta", nil),
		S("yaml,obiclean-mixed,map-summary,stdin", "obisummary", "lines", c05cliNRec, "oc2.fasta", nil, "--yaml-output"),
		// ---- obicsv
		S("-i-s", "obicsv", "lines", c05cliNRec, "a.fasta", nil, "-i", "-s"),
		S("-i-count-k-k-d", "obicsv", "lines", c05cliNRec, "a.fasta", nil, "-i", "--count", "-k", "tag", "-k", "sample", "-d", "--na-value", "none"),
		S("-i-s-q,fastq", "obicsv", "lines", c05cliNRec, "b.fastq", nil, "-i", "-s", "-q"),
		S("auto,same-keys-everywhere", "obicsv", "lines", c05cliNRec, "u.fasta", nil, "-i", "--auto"),
		S("auto,keys-appearing-late", "obicsv", "lines", c05cliNRec, "a.fasta", nil, "-i", "--auto"),
	}
	for i := range l {
		if strings.Contains(l[i].Name, "no-order") {
			l[i].Canon = true
		}
	}
	return l
}

// ------------------------------------------------------------------------------------------ configurations

type c05cliCfg struct {
	CPU   int  `json:"cpu"`   // --max-cpu value; 0 = --force-one-cpu
	Batch int  `json:"batch"` // --batch-size value
	Env   bool `json:"env"`   // given as OBIMAXCPU / OBIBATCHSIZE instead of options
	Pin   bool `json:"pin"`   // the process is confined to ONE core (taskset): its threads are time-sliced by the kernel
}

func (c c05cliCfg) String() string {
	s := fmt.Sprintf("--max-cpu %d --batch-size %d", c.CPU, c.Batch)
	if c.CPU == 0 {
		s = fmt.Sprintf("--force-one-cpu --batch-size %d", c.Batch)
	}
	if c.Env {
		s = fmt.Sprintf("OBIMAXCPU=%d OBIBATCHSIZE=%d", c.CPU, c.Batch)
	}
	if c.Pin {
		s = "taskset -c <one core> " + s
	}
	return s
}

var c05cliRef = c05cliCfg{CPU: 1, Batch: 5000}

var c05cliTaskset, _ = exec.LookPath("taskset")

func c05cliGrid(n int) []c05cliCfg {
	var out []c05cliCfg
	for _, cpu := range []int{1, 2, 3, 4, 8, 32, 0} {
		for _, b := range []int{1, 2, 3, 7, n, 5000} {
			out = append(out, c05cliCfg{CPU: cpu, Batch: b})
		}
	}
	out = append(out, c05cliCfg{CPU: 3, Batch: 2, Env: true}, c05cliCfg{CPU: 8, Batch: 1, Env: true})
	if c05cliTaskset != "" {
		out = append(out, c05cliCfg{CPU: 8, Batch: 1, Pin: true}, c05cliCfg{CPU: 3, Batch: 2, Pin: true}, c05cliCfg{CPU: 32, Batch: 3, Pin: true})
	}
	return out
}

// ------------------------------------------------------------------------------------------ running one process

type c05cliRes struct {
	Status  int               // exit status; -1 signal
	Signal  string            //
	Timeout bool              //
	Stdout  []byte            //
	Files   map[string][]byte // collected output files (missing file -> key absent)
	Stderr  string            // tail
}

const c05cliHangTicks = 150 // seconds the harness really sat through while the process did not end

type c05cliEnv struct {
	bin  string // directory of the binaries
	in   string // directory of the inputs
	run  string // parent of the private run directories
	seq  atomic.Int64
	runs atomic.Int64
}

func (e *c05cliEnv) exec1(sc *c05cliScn, cfg c05cliCfg) c05cliRes { return e.exec1n(sc, cfg, 0) }

func (e *c05cliEnv) exec1n(sc *c05cliScn, cfg c05cliCfg, attempt int) c05cliRes {
	id := e.seq.Add(1)
	dir := filepath.Join(e.run, fmt.Sprintf("r%d", id))
	if err := os.MkdirAll(dir, 0o755); err != nil {
		panic(err)
	}
	defer os.RemoveAll(dir)
	var args []string
	env := []string{"PATH=" + os.Getenv("PATH"), "HOME=" + dir, "TMPDIR=" + dir}
	if cfg.Env {
		env = append(env, "OBIMAXCPU="+strconv.Itoa(cfg.CPU), "OBIBATCHSIZE="+strconv.Itoa(cfg.Batch))
	} else {
		if cfg.CPU == 0 {
			args = append(args, "--force-one-cpu")
		} else {
			args = append(args, "--max-cpu", strconv.Itoa(cfg.CPU))
		}
		args = append(args, "--batch-size", strconv.Itoa(cfg.Batch))
	}
	for _, a := range sc.Args {
		switch {
		case strings.HasPrefix(a, "@in/"):
			a = filepath.Join(e.in, a[4:])
		case strings.HasPrefix(a, "@out/"):
			a = filepath.Join(dir, a[5:])
		}
		args = append(args, a)
	}
	cmd := exec.Command(filepath.Join(e.bin, sc.Tool), args...)
	if cfg.Pin {
		core := strconv.Itoa(int(id) % runtime.NumCPU())
		cmd = exec.Command(c05cliTaskset, append([]string{"-c", core, filepath.Join(e.bin, sc.Tool)}, args...)...)
	}
	cmd.Dir = dir
	cmd.Env = env
	var so, se bytes.Buffer
	cmd.Stdout = &so
	cmd.Stderr = &se
	if sc.Stdin != "" {
		f, err := os.Open(filepath.Join(e.in, sc.Stdin))
		if err != nil {
			panic(err)
		}
		defer f.Close()
		cmd.Stdin = f
	}
	if err := cmd.Start(); err != nil {
		// fork can fail for a moment on a crowded machine (EAGAIN): not a verdict, run again
		if attempt < 5 {
			time.Sleep(300 * time.Millisecond)
			return e.exec1n(sc, cfg, attempt+1)
		}
		panic(fmt.Sprintf("c05cli: cannot start %s: %v", sc.Tool, err))
	}
	e.runs.Add(1)
	done := make(chan error, 1)
	go func() { done <- cmd.Wait() }()
	res := c05cliRes{Files: map[string][]byte{}}
	tick := time.NewTicker(time.Second)
	defer tick.Stop()
	ticks := 0
	start := time.Now()
	var werr error
wait:
	for {
		select {
		case werr = <-done:
			break wait
		case <-tick.C:
			// a tick is counted only when this goroutine was really scheduled to see it: a clock jump or
			// a frozen machine adds at most one
			ticks++
			if ticks >= c05cliHangTicks && time.Since(start) > c05cliHangTicks*time.Second {
				res.Timeout = true
				cmd.Process.Signal(syscall.SIGQUIT) // goroutine dump on stderr
				select {
				case werr = <-done:
				case <-time.After(10 * time.Second):
					cmd.Process.Kill()
					werr = <-done
				}
				break wait
			}
		}
	}
	if werr != nil {
		if ee, ok := werr.(*exec.ExitError); ok {
			res.Status = ee.ExitCode()
			if ws, ok := ee.Sys().(syscall.WaitStatus); ok && ws.Signaled() {
				res.Signal = ws.Signal().String()
			}
		} else {
			res.Status = -2
		}
	}
	res.Stdout = so.Bytes()
	for _, o := range sc.Outs {
		if b, err := os.ReadFile(filepath.Join(dir, o)); err == nil {
			res.Files[o] = b
		}
	}
	s := se.String()
	if i := strings.Index(s, "panic: "); i >= 0 && len(s)-i > 3000 {
		s = s[i:min(len(s), i+8000)] // keep the head of a crash report (the running goroutine comes first)
	} else if i := strings.Index(s, "fatal error: "); i >= 0 && len(s)-i > 3000 {
		s = s[i:min(len(s), i+8000)]
	} else if len(s) > 4500 {
		// a report of the runtime that starts with neither word (a signal in C code, SIGQUIT…): its head says what
		// happened, its tail who was running
		s = s[:1500] + "\n…\n" + s[len(s)-3000:]
	}
	res.Stderr = s
	return res
}

// ------------------------------------------------------------------------------------------ comparing

var c05cliGzipContainerDiffers atomic.Int64

func c05cliGunzip(b []byte) []byte {
	cmd := exec.Command("gzip", "-dc")
	cmd.Stdin = bytes.NewReader(b)
	out, err := cmd.Output()
	if err != nil {
		return append([]byte("UNREADABLE GZIP STREAM: "+err.Error()+"\n"), out...)
	}
	return out
}

func c05cliUnits(kind string, b []byte) []string {
	s := strings.TrimSuffix(string(b), "\n")
	var out []string
	switch kind {
	case "fasta":
		for i, p := range strings.Split("\n"+s, "\n>") {
			if i == 0 && p == "" {
				continue
			}
			out = append(out, ">"+p)
		}
	case "fastq":
		ls := strings.Split(s, "\n")
		for i := 0; i < len(ls); i += 4 {
			j := i + 4
			if j > len(ls) {
				j = len(ls)
			}
			out = append(out, strings.Join(ls[i:j], "\n"))
		}
	default:
		out = strings.Split(s, "\n")
	}
	return out
}

// c05cliDiff names the difference between an output and the reference: "" when equal.
func c05cliDiff(sc *c05cliScn, got, want []byte) string {
	kind := sc.Units
	if kind == "gzip" {
		if bytes.Equal(got, want) {
			return ""
		}
		// the compressed container may legitimately be cut differently; what it contains may not
		c05cliGzipContainerDiffers.Add(1)
		got, want = c05cliGunzip(got), c05cliGunzip(want)
		kind = "fastq"
	}
	if bytes.Equal(got, want) {
		return ""
	}
	g, w := c05cliUnits(kind, got), c05cliUnits(kind, want)
	gs, ws := append([]string{}, g...), append([]string{}, w...)
	sort.Strings(gs)
	sort.Strings(ws)
	if strings.Join(gs, "\x00") == strings.Join(ws, "\x00") {
		if sc.Canon {
			return ""
		}
		return "records-reordered"
	}
	switch {
	case len(got) == 0:
		return "output-empty"
	case len(g) < len(w):
		return "records-missing"
	case len(g) > len(w):
		return "records-added"
	}
	return "records-altered"
}

func c05cliClip(b []byte) string {
	if len(b) > 700 {
		return string(b[:700]) + "…"
	}
	return string(b)
}

func c05cliFirstDiff(got, want []byte) string {
	gl, wl := strings.Split(string(got), "\n"), strings.Split(string(want), "\n")
	for i := 0; i < len(gl) || i < len(wl); i++ {
		a, b := "<end of output>", "<end of output>"
		if i < len(gl) {
			a = gl[i]
		}
		if i < len(wl) {
			b = wl[i]
		}
		if a != b {
			if len(a) > 300 {
				a = a[:300] + "…"
			}
			if len(b) > 300 {
				b = b[:300] + "…"
			}
			return fmt.Sprintf("first differing line %d: got %q, reference %q (%d vs %d bytes)", i+1, a, b, len(got), len(want))
		}
	}
	return "same lines"
}

// c05cliNoLog drops the time-stamped log lines of a stderr capture.
func c05cliNoLog(stderr string) string {
	var out []string
	for _, l := range strings.Split(stderr, "\n") {
		if !strings.HasPrefix(l, "time=\"") {
			out = append(out, l)
		}
	}
	return strings.Join(out, "\n")
}

// c05cliStarved: the runtime could not get a thread or memory from the operating system.
func c05cliStarved(stderr string) bool {
	for _, m := range []string{"pthread_create failed", "failed to create new OS thread", "cannot allocate memory", "out of memory",
		"Resource temporarily unavailable", "errno=11", "errno=12"} {
		if strings.Contains(stderr, m) {
			return true
		}
	}
	return false
}

// c05cliCrashSite names where a Go process died (panic / fatal error of the runtime): the first frame of the
// running goroutine that is not the runtime's own. "" when stderr holds no Go crash report.
func c05cliCrashSite(stderr string) string {
	i := strings.Index(stderr, "panic: ")
	if j := strings.Index(stderr, "fatal error: "); j >= 0 && (i < 0 || j < i) {
		i = j
		if strings.Contains(stderr[j:], "all goroutines are asleep") {
			return "deadlock(all-goroutines-asleep)"
		}
	}
	if i < 0 {
		return ""
	}
	rest := stderr[i:]
	k := strings.Index(rest, " [running]:\n")
	if k < 0 {
		return "unknown-site"
	}
	for _, l := range strings.Split(rest[k+len(" [running]:\n"):], "\n") {
		if l == "" {
			break
		}
		if strings.HasPrefix(l, "\t") || strings.HasPrefix(l, "runtime.") || strings.HasPrefix(l, "internal/runtime") || strings.HasPrefix(l, "panic(") || strings.HasPrefix(l, "runtime/") {
			continue
		}
		if p := strings.LastIndex(l, "("); p > 0 {
			l = l[:p]
		}
		return strings.TrimPrefix(l, "git.metabarcoding.org/obitools/obitools4/obitools4/")
	}
	return "unknown-site"
}

// c05cliCompare returns (failure class, description) of a run against the reference run; class "" = same.
func c05cliCompare(sc *c05cliScn, got, ref *c05cliRes) (string, string) {
	if got.Status != ref.Status {
		msg := c05cliNoLog(got.Stderr)
		if len(msg) > 2500 {
			msg = msg[:2500] + "…"
		}
		class := "exit-status"
		if site := c05cliCrashSite(got.Stderr); site != "" {
			class = "crash@" + site
		}
		return class, fmt.Sprintf("exit status %d %s instead of %d; stderr without the log lines: %s", got.Status, got.Signal, ref.Status, msg)
	}
	if d := c05cliDiff(sc, got.Stdout, ref.Stdout); d != "" {
		return d, "stdout: " + c05cliFirstDiff(got.Stdout, ref.Stdout)
	}
	for _, o := range sc.Outs {
		g, gok := got.Files[o]
		w, wok := ref.Files[o]
		if gok != wok {
			return "output-file-missing", fmt.Sprintf("file %s: written=%v, in the reference run written=%v", o, gok, wok)
		}
		if d := c05cliDiff(sc, g, w); d != "" {
			return d, "file " + o + ": " + c05cliFirstDiff(g, w)
		}
	}
	return "", ""
}

// ------------------------------------------------------------------------------------------ the check

type c05cliReplay struct {
	Scn string    `json:"scn"`
	Cfg c05cliCfg `json:"cfg"`
}

func c05cliRoot() string {
	d, err := os.Getwd()
	if err != nil {
		panic(err)
	}
	for {
		if _, err := os.Stat(filepath.Join(d, "go.mod")); err == nil {
			return d
		}
		p := filepath.Dir(d)
		if p == d {
			panic("c05cli: module root not found")
		}
		d = p
	}
}

var c05cliTools = []string{"obiconvert", "obigrep", "obiannotate", "obicomplement", "obipairing", "obimultiplex", "obipcr", "obicount", "obisummary", "obicsv"}

func TestVerifC05CLI(t *testing.T) {
	r := verifkit.New("C05")
	defer r.Write()
	// the guard counts what the harness does (option sets whose runs were started); how many runs could be compared
	// and how many reference outputs are non-empty is what the tree answers (each such failure is a violation below)
	r.RequireNonVacuous("cli_option_sets_started")

	root := c05cliRoot()
	work := os.Getenv("VERIF_WORKDIR")
	if work == "" {
		var err error
		if work, err = os.MkdirTemp("", "c05cli"); err != nil {
			t.Fatal(err)
		}
	}
	work = filepath.Join(work, fmt.Sprintf("cli%d", r.Shard))
	os.RemoveAll(work)
	if os.Getenv("VERIF_C05CLI_KEEP") == "" {
		defer os.RemoveAll(work)
	}
	e := &c05cliEnv{bin: filepath.Join(work, "bin"), in: filepath.Join(work, "in"), run: filepath.Join(work, "run")}
	for _, d := range []string{e.bin, e.in, e.run} {
		if err := os.MkdirAll(d, 0o755); err != nil {
			t.Fatal(err)
		}
	}

	// ---- the ten commands, built from the tree under test
	{
		args := []string{"build", "-o", e.bin + string(filepath.Separator)}
		for _, tool := range c05cliTools {
			args = append(args, "./cmd/obitools/"+tool)
		}
		cmd := exec.Command("go", args...)
		cmd.Dir = root
		if b, err := cmd.CombinedOutput(); err != nil {
			t.Fatalf("c05cli: cannot build the commands from %s: %v\n%s", root, err, b)
		}
		for _, tool := range c05cliTools {
			if _, err := os.Stat(filepath.Join(e.bin, tool)); err != nil {
				t.Fatalf("c05cli: %s was not built", tool)
			}
		}
	}

	// ---- inputs
	w := func(name string, b []byte) {
		if err := os.WriteFile(filepath.Join(e.in, name), b, 0o644); err != nil {
			t.Fatal(err)
		}
	}
	w("a.fasta", c05cliFasta("s", c05cliNRec, 1))
	w("b.fastq", c05cliFastq("q", c05cliNRec, 50))
	{
		// the same four annotation keys on every record
		var b bytes.Buffer
		for i := 0; i < c05cliNRec; i++ {
			fmt.Fprintf(&b, ">u%02d {\"count\":%d,\"tag\":\"t%d\",\"sample\":\"s%c\",\"len_class\":%d}\n%s\n", i+1, i%3+1, i%2, 'A'+rune(i%3), i%4, c05cliDNA(20+i, 4000+uint32(i)))
		}
		w("u.fasta", b.Bytes())
	}
	for variant := 1; variant <= 2; variant++ {
		var b bytes.Buffer
		for i := 0; i < c05cliNRec; i++ {
			na, nb := i%3+1, (i*5)%4 // reads in samples sA, sB (0: absent from the sample)
			ms := fmt.Sprintf("\"sA\":%d", na)
			st := fmt.Sprintf("\"sA\":\"%c\"", "his"[i%3])
			wt := fmt.Sprintf("\"sA\":%d", na+i%2)
			if nb > 0 {
				ms += fmt.Sprintf(",\"sB\":%d", nb)
				st += fmt.Sprintf(",\"sB\":\"%c\"", "ihs"[i%3])
				wt += fmt.Sprintf(",\"sB\":%d", nb)
			}
			t := fmt.Sprintf("\"count\":%d,\"merged_sample\":{%s}", na+nb, ms)
			hasStatus, hasWeight := true, false
			if variant == 2 {
				hasStatus, hasWeight = i%4 != 3, i%4 == 1 || i%4 == 3
				if i%6 == 5 {
					t = fmt.Sprintf("\"count\":%d,\"sample\":\"sC\"", na) // no merged map at all
				}
				if i%5 == 2 {
					t += fmt.Sprintf(",\"path\":[\"a\",\"b%d\"],\"merged_tag\":{\"x\":%d}", i%2, i%3+1)
				}
			}
			if hasStatus {
				t += ",\"obiclean_status\":{" + st + "}"
			}
			if hasWeight {
				t += ",\"obiclean_weight\":{" + wt + "}"
			}
			fmt.Fprintf(&b, ">oc%02d {%s}\n%s\n", i+1, t, c05cliDNA(30+i%7, 8000+uint32(i)))
		}
		w(fmt.Sprintf("oc%d.fasta", variant), b.Bytes())
	}
	for k := 0; k < 4; k++ {
		w(fmt.Sprintf("m%d.fasta", k+1), c05cliFasta(fmt.Sprintf("m%d_", k+1), c05cliNRec/4, uint32(200+10*k)))
	}
	r1, r2 := c05cliPairs(c05cliNPairs)
	w("r1.fastq", r1)
	w("r2.fastq", r2)
	mx, sheet := c05cliMultiplex(c05cliNRec)
	w("mx.fasta", mx)
	w("sheet.txt", sheet)
	{
		var b bytes.Buffer
		for i := 0; i < c05cliNBig; i++ {
			fmt.Fprintf(&b, ">big%02d%s\n%s", i+1, c05cliTitle(i), c05cliWrap(string(c05cliDNA(100000+i*997, 9000+uint32(i))), 80))
		}
		w("big.fasta", b.Bytes())
	}
	r.Bound("cli_inputs", fmt.Sprintf("a.fasta / b.fastq %d records (lengths 8..1100, JSON title lines, records without annotation), 4 files of %d records, %d read pairs (every overlap geometry, errors), %d multiplexed reads + 4-sample sheet, big.fasta %d records of ~100 kb (3 chunks of 1 MiB)",
		c05cliNRec, c05cliNRec/4, c05cliNPairs, c05cliNRec, c05cliNBig))
	r.Bound("cli_grid", "--max-cpu {1,2,3,4,8,32} + --force-one-cpu  x  --batch-size {1,2,3,7,n,5000}; + OBIMAXCPU/OBIBATCHSIZE (3,2) (8,1) + process confined to one core by taskset (8,1) (3,2) (32,3); reference = --max-cpu 1 --batch-size 5000")
	r.Bound("cli_hang_rule", fmt.Sprintf("a process is given up after %d one-second ticks the harness sat through; a hang is a violation only when the same command line hangs 3 times out of 3", c05cliHangTicks))

	scs := c05cliScenarios()
	reps := 2
	refReps := 3
	if verifkit.Thorough() {
		reps = 12
		refReps = 12
	}
	r.Bound("cli_repetitions_per_cell", reps)
	r.Bound("cli_scenarios", len(scs))

	sem := make(chan struct{}, max(4, runtime.NumCPU()))
	run := func(sc *c05cliScn, cfg c05cliCfg) c05cliRes {
		sem <- struct{}{}
		defer func() { <-sem }()
		res := e.exec1(sc, cfg)
		// SIGKILL is never sent by the commands themselves: the machine did it (memory pressure); run again
		for k := 0; k < 3 && res.Signal == "killed" && !res.Timeout; k++ {
			r.Count("cli_runs_killed_by_the_system_and_rerun", 1)
			res = e.exec1(sc, cfg)
		}
		// the machine refusing a thread or memory to the process (crowded sandbox) is not the command's doing either
		for k := 0; k < 5 && res.Status != 0 && c05cliStarved(res.Stderr); k++ {
			r.Count("cli_runs_starved_by_the_system_and_rerun", 1)
			time.Sleep(500 * time.Millisecond)
			res = e.exec1(sc, cfg)
		}
		return res
	}
	// a hang counts only when the same command line hangs three times in a row
	runNoHang := func(sc *c05cliScn, cfg c05cliCfg) (c05cliRes, bool) {
		res := run(sc, cfg)
		if !res.Timeout {
			return res, false
		}
		for k := 0; k < 2; k++ {
			again := run(sc, cfg)
			if !again.Timeout {
				r.Count("cli_timeouts_not_reproduced", 1)
				r.Note("%s %s [%s]: no end within %d s once, not reproduced on re-run (not a verdict)", sc.Tool, sc.Name, cfg, c05cliHangTicks)
				return again, false
			}
			res = again
		}
		return res, true
	}

	var mu sync.Mutex
	evalScn := func(sc *c05cliScn, grid []c05cliCfg, reps, refReps int) {
		r.Count("cli_option_sets_started", 1)
		// reference runs
		refs := make([]c05cliRes, refReps)
		var wg sync.WaitGroup
		hung := false
		for k := range refs {
			wg.Add(1)
			go func(k int) {
				defer wg.Done()
				res, h := runNoHang(sc, c05cliRef)
				refs[k] = res
				if h {
					mu.Lock()
					hung = true
					mu.Unlock()
				}
			}(k)
		}
		wg.Wait()
		// the reference = the first of the reference runs that ended normally (a sporadic crash of one of them is
		// a failure like any other, not a reason to stop)
		ri := 0
		for k := range refs {
			if refs[k].Status == 0 {
				ri = k
				break
			}
		}
		refs[0], refs[ri] = refs[ri], refs[0]
		ref := &refs[0]
		label := sc.Tool + " " + strings.Join(sc.Args, " ")
		if sc.Stdin != "" {
			label += " < " + sc.Stdin
		}
		rp := func(cfg c05cliCfg) c05cliReplay { return c05cliReplay{Scn: sc.Tool + "/" + sc.Name, Cfg: cfg} }
		if hung {
			r.Violate(fmt.Sprintf("cli/%s/%s/hang:reference-configuration", sc.Tool, sc.Name),
				fmt.Sprintf("%s [%s]: did not end within %d s, three times out of three; stderr tail: %s", label, c05cliRef, c05cliHangTicks, c05cliClip([]byte(ref.Stderr))), rp(c05cliRef))
			return
		}
		if ref.Status != 0 {
			// the option sets of this harness are valid command lines (they all run on the pinned tree): a reference
			// run that fails is a verdict on the tree under test
			r.Violate(fmt.Sprintf("cli/%s/%s/reference-configuration-fails", sc.Tool, sc.Name),
				fmt.Sprintf("%s [%s]: exit status %d %s in every one of %d runs; stderr: %s", label, c05cliRef, ref.Status, ref.Signal, len(refs), c05cliClip([]byte(c05cliNoLog(ref.Stderr)))), rp(c05cliRef))
			return
		}
		total := len(ref.Stdout)
		for _, o := range sc.Outs {
			b, ok := ref.Files[o]
			if !ok {
				r.Violate(fmt.Sprintf("cli/%s/%s/reference-configuration-writes-no-output-file", sc.Tool, sc.Name),
					fmt.Sprintf("%s [%s]: exit status 0 but %s was not written", label, c05cliRef, o), rp(c05cliRef))
				return
			}
			total += len(b)
		}
		if len(ref.Stdout) == 0 && !strings.Contains(" "+strings.Join(sc.Args, " ")+" ", " -o ") {
			r.Violate(fmt.Sprintf("cli/%s/%s/reference-configuration-writes-nothing", sc.Tool, sc.Name),
				fmt.Sprintf("%s [%s]: exit status 0 and nothing on the standard output (on the pinned tree every option set of this harness has output)", label, c05cliRef), rp(c05cliRef))
			return
		}
		for _, o := range sc.Outs {
			if len(ref.Files[o]) == 0 {
				r.Violate(fmt.Sprintf("cli/%s/%s/reference-configuration-writes-nothing", sc.Tool, sc.Name),
					fmt.Sprintf("%s [%s]: exit status 0 and %s is empty", label, c05cliRef, o), rp(c05cliRef))
				return
			}
		}
		if total > 0 {
			r.Count("cli_reference_outputs_nonempty", 1)
		}
		r.State(label + "\x00" + string(ref.Stdout))
		if sc.Name == "default" || sc.Name == "fasta-stdin>stdout" {
			r.Sample(map[string]any{"command": label, "reference_configuration": c05cliRef.String(), "stdout_bytes": len(ref.Stdout), "stdout_head": c05cliClip(ref.Stdout)[:min(200, len(c05cliClip(ref.Stdout)))]})
		}
		type fail struct {
			cfg   c05cliCfg
			class string
			desc  string
		}
		var fails []fail
		for k := 1; k < len(refs); k++ {
			r.Eval(1)
			r.Count("cli_runs_compared", 1)
			if c, d := c05cliCompare(sc, &refs[k], ref); c != "" {
				fails = append(fails, fail{c05cliRef, c, d})
			}
		}
		r.Eval(1)
		// the grid
		type cell struct {
			cfg c05cliCfg
			rep int
		}
		var cells []cell
		for _, cfg := range grid {
			for k := 0; k < reps; k++ {
				if cfg == c05cliRef && k < refReps {
					continue // already run
				}
				cells = append(cells, cell{cfg, k})
			}
		}
		hangs := map[c05cliCfg]bool{}
		for _, c := range cells {
			wg.Add(1)
			go func(c cell) {
				defer wg.Done()
				mu.Lock()
				skip := len(hangs) > 0 // one reproduced hang costs minutes: the rest of the option set is given up
				mu.Unlock()
				if skip {
					r.Cap(fmt.Sprintf("%s/%s: cells not run after a reproduced hang of this option set", sc.Tool, sc.Name))
					return
				}
				if r.Expired() {
					return
				}
				res, h := runNoHang(sc, c.cfg)
				r.Eval(1)
				mu.Lock()
				defer mu.Unlock()
				if h {
					if !hangs[c.cfg] {
						hangs[c.cfg] = true
						fails = append(fails, fail{c.cfg, "hang", fmt.Sprintf("did not end within %d s, three times out of three; stderr tail: %s", c05cliHangTicks, c05cliClip([]byte(res.Stderr)))})
					}
					return
				}
				r.Count("cli_runs_compared", 1)
				if cl, d := c05cliCompare(sc, &res, ref); cl != "" {
					fails = append(fails, fail{c.cfg, cl, d})
				}
			}(c)
		}
		wg.Wait()
		if len(fails) == 0 {
			return
		}
		// Is the reference configuration itself unstable? The key of the violation says so, and scheduling is
		// only sampled: before blaming --max-cpu / --batch-size, run the reference configuration 40 more times.
		refUnstable := false
		for _, f := range fails {
			if f.cfg == c05cliRef {
				refUnstable = true
			}
		}
		if !refUnstable {
			extra := make([]c05cliRes, 40)
			for k := range extra {
				wg.Add(1)
				go func(k int) {
					defer wg.Done()
					extra[k], _ = runNoHang(sc, c05cliRef)
				}(k)
			}
			wg.Wait()
			for k := range extra {
				r.Eval(1)
				r.Count("cli_extra_reference_runs_for_attribution", 1)
				if extra[k].Timeout {
					continue
				}
				if c, d := c05cliCompare(sc, &extra[k], ref); c != "" {
					fails = append(fails, fail{c05cliRef, c, d})
				}
			}
		}
		// which parameter the failure needs: the reference configuration itself (unstable on re-run), the batch
		// size alone, the cpu number alone, or both
		sort.Slice(fails, func(i, j int) bool {
			a, b := fails[i].cfg, fails[j].cfg
			if a.Env != b.Env {
				return !a.Env
			}
			if a.Pin != b.Pin {
				return !a.Pin
			}
			if a.CPU != b.CPU {
				return a.CPU != 0 && (b.CPU == 0 || a.CPU < b.CPU) // --force-one-cpu last
			}
			return a.Batch > b.Batch
		})
		byClass := map[string][]fail{}
		for _, f := range fails {
			byClass[f.class] = append(byClass[f.class], f)
		}
		for class, fs := range byClass {
			// scheduling is only sampled in this part: a difference seen in ONE run is run again (same command
			// line, same configuration) before it is believed; what never shows up again in 16 more runs is
			// recorded as a note, not as a verdict (it can be the machine: thread or memory exhaustion under load)
			if len(fs) == 1 && os.Getenv("VERIF_REPLAY") == "" {
				again := 0
				for k := 0; k < 16 && again == 0; k++ {
					res, h := runNoHang(sc, fs[0].cfg)
					r.Eval(1)
					r.Count("cli_reruns_of_a_single_difference", 1)
					if h {
						continue
					}
					if c, _ := c05cliCompare(sc, &res, ref); c != "" {
						again++
					}
				}
				if again == 0 {
					r.Count("cli_single_differences_not_reproduced", 1)
					r.Note("%s [%s]: one run differed (%s) and 16 further runs of the same command line did not; not a verdict. %s", label, fs[0].cfg, class, c05cliClip([]byte(fs[0].desc)))
					continue
				}
			}
			dim := map[string]bool{}
			cfgs := map[string]bool{}
			for _, f := range fs {
				cfgs[f.cfg.String()] = true
				switch {
				case f.cfg == c05cliRef:
					dim["same-configuration-run-again"] = true
				case f.cfg.Env:
					dim["environment-variables"] = true
				case f.cfg.Pin:
					dim["confined-to-one-core"] = true
				case f.cfg.CPU == c05cliRef.CPU:
					dim["batch-size"] = true
				case f.cfg.Batch == c05cliRef.Batch:
					dim["max-cpu"] = true
				default:
					dim["max-cpu-and-batch-size"] = true
				}
			}
			// the weakest cause explains the others
			cause := "max-cpu-and-batch-size"
			for _, d := range []string{"same-configuration-run-again", "batch-size", "max-cpu", "max-cpu-and-batch-size", "confined-to-one-core", "environment-variables"} {
				if dim[d] {
					cause = d
					break
				}
			}
			var cl []string
			for c := range cfgs {
				cl = append(cl, c)
			}
			sort.Strings(cl)
			if len(cl) > 12 {
				cl = append(cl[:12], fmt.Sprintf("… %d configurations in all", len(cfgs)))
			}
			key := fmt.Sprintf("cli/%s/%s/%s:%s", sc.Tool, sc.Name, class, cause)
			if strings.HasPrefix(class, "crash@") {
				// a crash is named by WHERE the process died, whatever the command and the option set: one defect, one
				// key (a sporadic crash inside a library would otherwise surface under a new key at every run)
				key = "cli/" + class
			}
			r.Violate(key,
				fmt.Sprintf("%s: output of [%s] differs from the run with [%s] in %d runs (configurations: %s); e.g. %s", label, fs[0].cfg, c05cliRef, len(fs), strings.Join(cl, " | "), fs[0].desc),
				rp(fs[0].cfg))
		}
	}

	if rc := r.ReplayCase(); rc != nil {
		var p c05cliReplay
		if err := json.Unmarshal(rc, &p); err != nil {
			t.Fatal(err)
		}
		for i := range scs {
			if scs[i].Tool+"/"+scs[i].Name == p.Scn {
				evalScn(&scs[i], []c05cliCfg{p.Cfg}, 8, 4)
				fmt.Printf("replay: %s [%s]: 8 runs compared with the reference run\n", p.Scn, p.Cfg)
				return
			}
		}
		t.Fatalf("unknown scenario %q", p.Scn)
	}

	perTool := map[string]int{}
	var wg sync.WaitGroup
	only := os.Getenv("VERIF_C05CLI_ONLY")
	for i := range scs {
		sc := &scs[i]
		if only != "" && !strings.HasPrefix(sc.Tool+"/"+sc.Name, only) {
			continue
		}
		if !r.Mine(i) {
			continue
		}
		if r.Expired() {
			r.Cap("option sets not run: " + sc.Tool + "/" + sc.Name)
			continue
		}
		perTool[sc.Tool]++
		wg.Add(1)
		go func() {
			defer wg.Done()
			evalScn(sc, c05cliGrid(sc.N), reps, refReps)
		}()
	}
	wg.Wait()
	r.Trans(e.runs.Load())
	r.Count("cli_processes", e.runs.Load())
	r.Count("cli_gzip_outputs_with_a_different_container_compared_uncompressed", c05cliGzipContainerDiffers.Load())
	for tool, n := range perTool {
		r.Count("cli_option_sets_"+tool, int64(n))
	}
}
