//go:build verif

package obiconvert

// C02, command-level part (added by the audit): `obiconvert | obiconvert` in one process.
//
// The chunk-level and file-level parts (pkg/obiformats) never go through what the commands add:
//
//   - the option parser: --fasta-output / --fastq-output / --output-json-header / --input-json-header /
//     --fasta / --fastq / -Z / --solexa (obioptions.GenerateOptionParser + obiconvert.OptionSet: the only
//     place where --solexa becomes the INPUT quality shift 64, the output shift staying 33);
//   - CLIReadBioSequences (header parser chosen from the flags, format imposed or guessed, >= 2 workers,
//     Ropen: decompression on the fly) and CLIWriteBioSequences (header format chosen from the flags,
//     format imposed or chosen from the first record, gzip).
//
// One case = a set of records x a list of flags:
//
//	step 1  the records are written by CLIWriteBioSequences (flags of the case; output shift S of the case:
//	        S=64 is what a library user / an old sequencer produces, the CLI itself always writes 33) -> f1
//	step 2  obiconvert [--solexa iff S=64] <flags> -o f2 f1   (parser + CLIRead + CLIWrite)
//	step 3  obiconvert <flags> -o f3 f2
//
// Oracle: the records read in step 2 and in step 3 are the records of the case (id, nucleotides, qualities
// when the file is FASTQ and the record had some, annotations in the JSON data model with numbers by
// value); f3 == f2 byte for byte (after gunzip under -Z), and f2 == f1 when S=33.
//
// log.Fatal: the logrus ExitFunc records the message and ends the calling goroutine; the driver waits for
// "done" or "fatal recorded" (hang: 1200 separate 50 ms waits).

import (
	"bytes"
	stdgzip "compress/gzip"
	"crypto/sha1"
	"encoding/json"
	"fmt"
	"io"
	"os"
	"os/exec"
	"path/filepath"
	"reflect"
	"runtime"
	"runtime/debug"
	"sort"
	"strings"
	"sync"
	"testing"
	"time"

	"git.metabarcoding.org/obitools/obitools4/obitools4/pkg/obiiter"
	"git.metabarcoding.org/obitools/obitools4/obitools4/pkg/obioptions"
	"git.metabarcoding.org/obitools/obitools4/obitools4/pkg/obiseq"
	"git.metabarcoding.org/obitools/obitools4/obitools4/pkg/verifkit"
	log "github.com/sirupsen/logrus"
)

// ---------------------------------------------------------------- records

type c02cRec struct {
	id, seq string
	qual    []byte // nil: no qualities
	def     string
	ann     map[string]interface{} // values as the commands hold them in memory
}

func c02cSeq(n int) string {
	const iupac = "acgtryswkmbdhvn"
	b := make([]byte, n)
	for i := range b {
		b[i] = iupac[i%len(iupac)]
	}
	return string(b)
}

func c02cQual(n int, f func(i int) int) []byte {
	q := make([]byte, n)
	for i := range q {
		q[i] = byte(f(i))
	}
	return q
}

// c02cTable: the records the sets are made of (index = what a case stores).
func c02cTable() []c02cRec {
	p53 := 1 << 53
	return []c02cRec{
		0: {id: "r0", seq: "acgt"},
		1: {id: "r1", seq: c02cSeq(61), qual: c02cQual(61, func(i int) int { return 0 }),
			ann: map[string]interface{}{"count": 2, "i": -1, "big": p53, "neg": -p53}},
		2: {id: "@r2", seq: "n", qual: []byte{93}, def: "only a definition"},
		3: {id: "r>3", seq: strings.Repeat("n", 120), qual: c02cQual(120, func(i int) int { return i % 94 }), def: "d",
			ann: map[string]interface{}{"empty": "", "sp": " lead and trail ", "semi": "a=1; b=2;", "gt": ">x @y"}},
		4: {id: "r4", seq: strings.ToUpper(c02cSeq(60)),
			ann: map[string]interface{}{"n": map[string]interface{}{
				"m": map[string]int{"x": 1}, "l": []int{3, 4}, "s": "v", "b": true, "f": 2.5,
				"d":  map[string]interface{}{"deep": []interface{}{7, "}", map[string]interface{}{"{": nil}}},
				"fs": []float64{0.5, 1e21, -1.25e-7}, "ss": []string{"", `"`}}}},
		5: {id: "r5", seq: "acgtacgt", qual: []byte{31, 29, 0, 10, 31, 29, 0, 10},
			ann: map[string]interface{}{"k": ">r7 {\"a\":1}", "q": "@r7 +", "e": `x\"}y`, "u": "é日本\U0001F9EC\n\t"}},
		6: {id: "A:1/2", seq: "acgtn", qual: []byte{40, 41, 42, 64, 65},
			ann: map[string]interface{}{"merged_sample": map[string]int{"s1": 1, "s 2": 20, "": 3},
				"obiclean_status": map[string]string{"s1": "h", "s2": "", "é": "x y"}, "yes": true, "no": false,
				"f": 0.5, "fbig": 1e21, "fint": 3.0, "f63": 9223372036854775808.0, "tiny": 5e-324, "ratio": 0.1 + 0.2}},
		7: {id: "{\"a\":1}", seq: "a", def: "{not json} \"}", ann: map[string]interface{}{"a b": 1, "{": "}", `\`: `\\`}},
	}
}

// c02cSets: every record alone, every ordered pair of the first six, one set with all of them twice.
func c02cSets(n int) [][]int {
	var sets [][]int
	for i := 0; i < n; i++ {
		sets = append(sets, []int{i})
	}
	for i := 0; i < 6; i++ {
		for j := 0; j < 6; j++ {
			sets = append(sets, []int{i, j})
		}
	}
	all := []int{}
	for k := 0; k < 2; k++ {
		for i := 0; i < n; i++ {
			all = append(all, (i*3+k)%n)
		}
	}
	sets = append(sets, all)
	return sets
}

func c02cBuild(tab []c02cRec, set []int) obiseq.BioSequenceSlice {
	sl := make(obiseq.BioSequenceSlice, 0, len(set))
	for pos, i := range set {
		rc := tab[i]
		id := rc.id
		if len(set) > 2 {
			id = fmt.Sprintf("%s.%d", rc.id, pos)
		}
		s := obiseq.NewBioSequence(id, []byte(rc.seq), rc.def)
		if rc.qual != nil {
			s.SetQualities(rc.qual)
		}
		for k, v := range rc.ann {
			s.SetAttribute(k, c02cCopy(v))
		}
		sl = append(sl, s)
	}
	return sl
}

// c02cCopy: a private copy of a table value (the commands may modify what they are given).
func c02cCopy(v interface{}) interface{} {
	switch x := v.(type) {
	case map[string]interface{}:
		m := make(map[string]interface{}, len(x))
		for k, e := range x {
			m[k] = c02cCopy(e)
		}
		return m
	case []interface{}:
		l := make([]interface{}, len(x))
		for i, e := range x {
			l[i] = c02cCopy(e)
		}
		return l
	case map[string]int:
		m := make(map[string]int, len(x))
		for k, e := range x {
			m[k] = e
		}
		return m
	case map[string]string:
		m := make(map[string]string, len(x))
		for k, e := range x {
			m[k] = e
		}
		return m
	case []int:
		return append([]int{}, x...)
	case []float64:
		return append([]float64{}, x...)
	case []string:
		return append([]string{}, x...)
	}
	return v
}

// ---------------------------------------------------------------- JSON data model (numbers by value)

func c02cNorm(v interface{}) interface{} {
	switch x := v.(type) {
	case nil:
		return nil
	case string:
		return x
	case bool:
		return x
	case float64:
		return x
	case int:
		return float64(x)
	case map[string]interface{}:
		m := make(map[string]interface{}, len(x))
		for k, e := range x {
			m[k] = c02cNorm(e)
		}
		return m
	case []interface{}:
		l := make([]interface{}, len(x))
		for i, e := range x {
			l[i] = c02cNorm(e)
		}
		return l
	}
	rv := reflect.ValueOf(v)
	switch rv.Kind() {
	case reflect.Int, reflect.Int8, reflect.Int16, reflect.Int32, reflect.Int64:
		return float64(rv.Int())
	case reflect.Uint, reflect.Uint8, reflect.Uint16, reflect.Uint32, reflect.Uint64:
		return float64(rv.Uint())
	case reflect.Float32, reflect.Float64:
		return rv.Float()
	case reflect.Map:
		m := map[string]interface{}{}
		for _, k := range rv.MapKeys() {
			m[fmt.Sprint(k.Interface())] = c02cNorm(rv.MapIndex(k).Interface())
		}
		return m
	case reflect.Slice, reflect.Array:
		l := make([]interface{}, rv.Len())
		for i := range l {
			l[i] = c02cNorm(rv.Index(i).Interface())
		}
		return l
	}
	return fmt.Sprintf("<%T:%v>", v, v)
}

func c02cEqual(a, b interface{}) bool {
	switch x := a.(type) {
	case map[string]interface{}:
		y, ok := b.(map[string]interface{})
		if !ok || len(x) != len(y) {
			return false
		}
		for k, e := range x {
			f, ok := y[k]
			if !ok || !c02cEqual(e, f) {
				return false
			}
		}
		return true
	case []interface{}:
		y, ok := b.([]interface{})
		if !ok || len(x) != len(y) {
			return false
		}
		for i := range x {
			if !c02cEqual(x[i], y[i]) {
				return false
			}
		}
		return true
	case float64:
		y, ok := b.(float64)
		return ok && x == y
	case string:
		y, ok := b.(string)
		return ok && x == y
	case bool:
		y, ok := b.(bool)
		return ok && x == y
	case nil:
		return b == nil
	}
	return false
}

func c02cShow(v interface{}) string {
	switch x := v.(type) {
	case map[string]interface{}:
		keys := make([]string, 0, len(x))
		for k := range x {
			keys = append(keys, k)
		}
		sort.Strings(keys)
		var b strings.Builder
		b.WriteByte('{')
		for i, k := range keys {
			if i > 0 {
				b.WriteByte(',')
			}
			fmt.Fprintf(&b, "%q:%s", k, c02cShow(x[k]))
		}
		b.WriteByte('}')
		return b.String()
	case []interface{}:
		var b strings.Builder
		b.WriteByte('[')
		for i, e := range x {
			if i > 0 {
				b.WriteByte(',')
			}
			b.WriteString(c02cShow(e))
		}
		b.WriteByte(']')
		return b.String()
	case string:
		return fmt.Sprintf("%q", x)
	}
	return fmt.Sprintf("%v", v)
}

type c02cExpect struct {
	id, seq string
	qual    []byte // nil: unconstrained
	ann     map[string]interface{}
}

func c02cExpected(tab []c02cRec, set []int) []c02cExpect {
	out := make([]c02cExpect, 0, len(set))
	for pos, i := range set {
		rc := tab[i]
		id := rc.id
		if len(set) > 2 {
			id = fmt.Sprintf("%s.%d", rc.id, pos)
		}
		e := c02cExpect{id: id, seq: strings.ToLower(rc.seq), qual: rc.qual, ann: map[string]interface{}{}}
		for k, v := range rc.ann {
			e.ann[k] = c02cNorm(v)
		}
		if rc.def != "" {
			e.ann["definition"] = rc.def
		}
		out = append(out, e)
	}
	return out
}

// ---------------------------------------------------------------- case (replayable)

type c02cCase struct {
	Set     []int  `json:"set"`     // indices in c02cTable
	OutFmt  string `json:"outfmt"`  // "" | fasta | fastq      (--fasta-output / --fastq-output)
	OutHdr  string `json:"outhdr"`  // "" | json               (--output-json-header)
	InFmt   bool   `json:"infmt"`   // --fasta / --fastq matching the file that is read
	InHdr   string `json:"inhdr"`   // "" | json               (--input-json-header)
	Gzip    bool   `json:"gzip"`    // -Z
	Shift   int    `json:"shift"`   // 33 | 64: output shift of step 1 (64: step 2 runs with --solexa)
	Workers int    `json:"workers"` // strict read / write workers (obiconvert's main sets 2)
	Batch   int    `json:"batch"`   // records per batch in step 1; --batch-size of steps 2 and 3 (0: default)
	// Pipe: steps 2 and 3 are the REAL binary, built from the tree, reading its standard input (the kseq
	// reader, ReadFastSeqFromStdin) and writing its standard output: `obiconvert < f1 | obiconvert > f3`
	Pipe bool `json:"pipe,omitempty"`
}

func (c c02cCase) format(tab []c02cRec) string {
	switch c.OutFmt {
	case "fasta", "fastq":
		return c.OutFmt
	}
	if tab[c.Set[0]].qual != nil {
		return "fastq"
	}
	return "fasta"
}

func (c c02cCase) flags(format string, solexa bool) []string {
	var a []string
	if solexa {
		a = append(a, "--solexa")
	}
	switch c.OutFmt {
	case "fasta":
		a = append(a, "--fasta-output")
	case "fastq":
		a = append(a, "--fastq-output")
	}
	if c.OutHdr == "json" {
		a = append(a, "--output-json-header")
	}
	if c.InFmt {
		a = append(a, "--"+format)
	}
	if c.InHdr == "json" {
		a = append(a, "--input-json-header")
	}
	if c.Gzip {
		a = append(a, "-Z")
	}
	if c.Batch > 0 {
		a = append(a, "--batch-size", fmt.Sprint(c.Batch))
	}
	return a
}

// ---------------------------------------------------------------- fatal interception, driver

var (
	c02cFatalCh   = make(chan string, 64)
	c02cFatalMu   sync.Mutex
	c02cLastFatal string
	c02cProblems  int
)

type c02cHook struct{}

func (c02cHook) Levels() []log.Level { return []log.Level{log.FatalLevel, log.PanicLevel} }
func (c02cHook) Fire(e *log.Entry) error {
	c02cFatalMu.Lock()
	c02cLastFatal = e.Message
	c02cFatalMu.Unlock()
	return nil
}

func c02cExit(int) {
	c02cFatalMu.Lock()
	m := c02cLastFatal
	c02cFatalMu.Unlock()
	select {
	case c02cFatalCh <- m:
	default:
	}
	runtime.Goexit()
}

// c02cRun runs f in its own goroutine; problem != "": fatal / panic in f / hang.
func c02cRun(f func()) (problem string) {
	for len(c02cFatalCh) > 0 {
		<-c02cFatalCh
	}
	done := make(chan interface{}, 1)
	go func() {
		defer func() { done <- recover() }()
		f()
	}()
	for tick := 0; tick < 1200; tick++ {
		select {
		case p := <-done:
			if p != nil {
				c02cProblems++
				return fmt.Sprintf("panic: %v", p)
			}
			select {
			case m := <-c02cFatalCh:
				c02cProblems++
				return "fatal: " + m
			default:
			}
			return ""
		case m := <-c02cFatalCh:
			c02cProblems++
			return "fatal: " + m
		case <-time.After(50 * time.Millisecond):
		}
	}
	c02cProblems++
	return "hang: the command neither ended nor died"
}

func c02cFatalClass(msg string) string {
	switch {
	case strings.HasPrefix(msg, "panic:"):
		return "panic"
	case strings.HasPrefix(msg, "hang:"):
		return "hang"
	case strings.Contains(msg, "annotation parsing error"):
		return "fatal-annotation-parsing-error"
	case strings.Contains(msg, "quality lenght not equal"):
		return "fatal-quality-length"
	case strings.Contains(msg, "invalid character"):
		return "fatal-invalid-sequence-character"
	case strings.Contains(msg, "guessed format"):
		return "fatal-format-not-guessed"
	case strings.Contains(msg, "not followed by") || strings.Contains(msg, "not starting with") || strings.Contains(msg, "does not start with"):
		return "fatal-record-structure"
	}
	return "fatal-other"
}

// c02cResetOptions: the state a fresh obiconvert process starts with.
func c02cResetOptions(workers int) {
	__input_fastjson_format__, __input_fastobi_format__ = false, false
	__input_ecopcr_format__, __input_embl_format__, __input_genbank_format__ = false, false, false
	__input_fastq_format__, __input_fasta_format__ = false, false
	__output_in_fasta__, __output_in_fastq__, __output_in_json__ = false, false, false
	__output_fastjson_format__, __output_fastobi_format__ = false, false
	__compressed__, __skip_empty__, __no_ordered_input__ = false, false, false
	__output_file_name__, __paired_file_name__ = "-", ""
	obioptions.SetInputQualityShift(33)
	obioptions.SetOutputQualityShift(33)
	obioptions.SetBatchSize(2000)
	obioptions.SetStrictReadWorker(workers) // obiconvert's main: 2
	obioptions.SetStrictWriteWorker(workers)
}

// c02cCollect drains an iterator; the batch numbers give the file order.
func c02cCollect(it obiiter.IBioSequence) obiseq.BioSequenceSlice {
	type ob struct {
		order int
		sl    obiseq.BioSequenceSlice
	}
	var bs []ob
	for it.Next() {
		b := it.Get()
		bs = append(bs, ob{b.Order(), b.Slice()})
	}
	sort.SliceStable(bs, func(i, j int) bool { return bs[i].order < bs[j].order })
	var got obiseq.BioSequenceSlice
	for _, b := range bs {
		got = append(got, b.sl...)
	}
	return got
}

// c02cObiconvert = main() of cmd/obitools/obiconvert on the given command line, in this process; the
// records that went through are returned as they were between the reader and the writer.
func c02cObiconvert(workers int, args []string) (seen []c02cSeen) {
	c02cResetOptions(workers)
	parser := obioptions.GenerateOptionParser(OptionSet)
	_, rest := parser(append([]string{"obiconvert"}, args...))
	fs, err := CLIReadBioSequences(rest...)
	if err != nil {
		panic(fmt.Sprintf("CLIReadBioSequences: %v", err))
	}
	recs := c02cCollect(fs)
	for _, s := range recs {
		seen = append(seen, c02cSee(s))
	}
	out := obiiter.IBatchOver("c02", recs, obioptions.CLIBatchSize())
	if _, err := CLIWriteBioSequences(out, true); err != nil {
		panic(fmt.Sprintf("CLIWriteBioSequences: %v", err))
	}
	return seen
}

type c02cSeen struct {
	id, seq string
	hasQual bool
	qual    []byte
	ann     map[string]interface{}
}

func c02cSee(s *obiseq.BioSequence) c02cSeen {
	x := c02cSeen{id: s.Id(), seq: string(s.Sequence()), hasQual: s.HasQualities(), ann: map[string]interface{}{}}
	if x.hasQual {
		x.qual = append([]byte{}, s.Qualities()...)
	}
	if s.HasAnnotation() {
		for k, v := range s.Annotations() {
			x.ann[k] = c02cNorm(v)
		}
	}
	return x
}

func c02cContent(fn string, gz bool) ([]byte, error) {
	b, err := os.ReadFile(fn)
	if err != nil || !gz {
		return b, err
	}
	zr, err := stdgzip.NewReader(bytes.NewReader(b))
	if err != nil {
		return nil, fmt.Errorf("-Z output is not gzip: %v", err)
	}
	zr.Multistream(true)
	return io.ReadAll(zr)
}

func c02cClip(b []byte) string {
	if len(b) > 500 {
		return fmt.Sprintf("%q…(%d bytes)", b[:500], len(b))
	}
	return fmt.Sprintf("%q", b)
}

// c02cCompare: the records a command saw against the model.
func c02cCompare(step string, format string, seen []c02cSeen, exps []c02cExpect) (key, desc string) {
	if len(seen) != len(exps) {
		return step + "/record-count", fmt.Sprintf("%d records expected, %d read", len(exps), len(seen))
	}
	for i, g := range seen {
		e := exps[i]
		pre := fmt.Sprintf("record %d/%d (%s)", i+1, len(seen), e.id)
		if g.id != e.id {
			return step + "/id", fmt.Sprintf("%s: id read as %q", pre, g.id)
		}
		if g.seq != e.seq {
			return step + "/sequence", fmt.Sprintf("%s: sequence %q read as %q", pre, e.seq, g.seq)
		}
		if format == "fastq" && e.qual != nil {
			if !g.hasQual || !bytes.Equal(g.qual, e.qual) {
				return step + "/qualities", fmt.Sprintf("%s: qualities %v read as %v", pre, e.qual, g.qual)
			}
		}
		if !c02cEqual(g.ann, e.ann) {
			class := "annotation-value"
			if len(g.ann) != len(e.ann) {
				class = "annotation-keys"
			}
			return step + "/" + class, fmt.Sprintf("%s: annotations %s read as %s", pre, c02cShow(e.ann), c02cShow(g.ann))
		}
	}
	return "", ""
}

// ---------------------------------------------------------------- the real binary on stdin / stdout

var c02cBin string // path of obiconvert built from the tree under test ("" : not built)

func c02cRoot() string {
	d, err := os.Getwd()
	if err != nil {
		panic(err)
	}
	for {
		if _, err := os.Stat(filepath.Join(d, "go.mod")); err == nil {
			return d
		}
		p := filepath.Dir(d)
		if p == d {
			panic("c02: module root not found")
		}
		d = p
	}
}

// c02cBuildBin builds obiconvert from the tree under test (once per process).
func c02cBuildBin(t *testing.T, dir string) {
	if c02cBin != "" {
		return
	}
	bin := filepath.Join(dir, "obiconvert")
	cmd := exec.Command("go", "build", "-o", bin, "./cmd/obitools/obiconvert")
	cmd.Dir = c02cRoot()
	// the build cache does not see a change in a header of a sub-directory (pkg/obiformats/kseq/kseq.h is
	// the FASTA/FASTQ parser behind the standard input): make its content part of the cgo flags
	h := sha1.New()
	if hs, _ := filepath.Glob(filepath.Join(cmd.Dir, "pkg", "obiformats", "kseq", "*")); len(hs) > 0 {
		sort.Strings(hs)
		for _, f := range hs {
			b, _ := os.ReadFile(f)
			h.Write(b)
		}
	}
	cmd.Env = append(os.Environ(), fmt.Sprintf("CGO_CFLAGS=-g -O2 -DVERIF_KSEQ_%x", h.Sum(nil)[:6]))
	if b, err := cmd.CombinedOutput(); err != nil {
		if _, serr := os.Stat(bin); serr != nil {
			t.Fatalf("c02: cannot build obiconvert: %v\n%s", err, b)
		}
	}
	c02cBin = bin
}

// c02cPipe runs `obiconvert args < in > out`; problem != "": non-zero exit / hang.
func c02cPipe(args []string, in, out string) (problem string) {
	fi, err := os.Open(in)
	if err != nil {
		panic(err)
	}
	defer fi.Close()
	fo, err := os.Create(out)
	if err != nil {
		panic(err)
	}
	defer fo.Close()
	cmd := exec.Command(c02cBin, args...)
	var errb bytes.Buffer
	cmd.Stdin, cmd.Stdout, cmd.Stderr = fi, fo, &errb
	if err := cmd.Start(); err != nil {
		panic(err)
	}
	done := make(chan error, 1)
	go func() { done <- cmd.Wait() }()
	for tick := 0; tick < 2400; tick++ {
		select {
		case err := <-done:
			if err != nil {
				msg := errb.String()
				if i := strings.Index(msg, "level=fatal"); i >= 0 {
					msg = msg[i:]
				} else if len(msg) > 300 {
					msg = msg[len(msg)-300:]
				}
				c02cProblems++
				return fmt.Sprintf("fatal: exit %v: %s", err, strings.TrimSpace(msg))
			}
			return ""
		case <-time.After(50 * time.Millisecond):
		}
	}
	cmd.Process.Kill()
	c02cProblems++
	return "hang: obiconvert did not end"
}

// c02cReadBack: the records of a file the binary wrote, read with the in-process command-level reader.
func c02cReadBack(workers int, fn string) (seen []c02cSeen, problem string) {
	problem = c02cRun(func() {
		c02cResetOptions(workers)
		fs, err := CLIReadBioSequences(fn)
		if err != nil {
			panic(fmt.Sprintf("CLIReadBioSequences: %v", err))
		}
		for _, s := range c02cCollect(fs) {
			seen = append(seen, c02cSee(s))
		}
	})
	return
}

// ---------------------------------------------------------------- one case

func c02cCheck(tab []c02cRec, c c02cCase, dir string) (key, desc, state string) {
	format := c.format(tab)
	exps := c02cExpected(tab, c.Set)
	f1, f2, f3 := filepath.Join(dir, "f1.seq"), filepath.Join(dir, "f2.seq"), filepath.Join(dir, "f3.seq")
	for _, f := range []string{f1, f2, f3} {
		os.Remove(f)
	}
	where := fmt.Sprintf("[set %v, written as %s, flags %v, step-1 shift %d, %d workers]", c.Set, format, c.flags(format, false), c.Shift, c.Workers)

	// step 1: the records of the case are written by the command-level writer
	if p := c02cRun(func() {
		c02cResetOptions(c.Workers)
		parser := obioptions.GenerateOptionParser(OptionSet)
		parser(append(append([]string{"obiconvert"}, c.flags(format, false)...), "-o", f1))
		obioptions.SetOutputQualityShift(c.Shift)
		size := c.Batch
		if size <= 0 {
			size = len(c.Set)
		}
		it := obiiter.IBatchOver("c02", c02cBuild(tab, c.Set), size)
		if _, err := CLIWriteBioSequences(it, true); err != nil {
			panic(err)
		}
	}); p != "" {
		return "cli:write/" + c02cFatalClass(p), where + " step 1 (CLIWriteBioSequences): " + p, ""
	}
	t1, err := c02cContent(f1, c.Gzip)
	if err != nil {
		return "cli:write/output-unreadable", where + " step 1: " + err.Error(), ""
	}
	state = string(t1)
	wantStart := map[string]byte{"fasta": '>', "fastq": '@'}[format]
	if len(t1) == 0 || t1[0] != wantStart {
		return "cli:write/format", fmt.Sprintf("%s step 1: the output must be %s; text: %s", where, format, c02cClip(t1)), state
	}

	if c.Pipe {
		pre := "cli(pipe):"
		if format == "fastq" && c.Shift == 64 {
			// some quality is written as a byte above 127: what the reader of the standard input is known to drop
			for _, i := range c.Set {
				for _, q := range tab[i].qual {
					if int(q)+64 > 127 {
						pre = "cli(pipe):quality-byte>127"
					}
				}
			}
		}
		known := pre != "cli(pipe):"
		defer func() {
			if known && key != "" {
				// one key for every symptom of the known cause, the symptom goes to desc
				desc = "[" + key + "] " + desc
				key = pre
			}
		}()
		args := c.flags(format, c.Shift == 64 && format == "fastq")
		if p := c02cPipe(args, f1, f2); p != "" {
			return pre + "convert-1/" + c02cFatalClass(p), fmt.Sprintf("%s obiconvert %v < f1 > f2: %s; f1: %s", where, args, p, c02cClip(t1)), state
		}
		seen, p := c02cReadBack(c.Workers, f2)
		t2, _ := c02cContent(f2, c.Gzip)
		if p != "" {
			return pre + "convert-1/output-unreadable:" + c02cFatalClass(p), fmt.Sprintf("%s obiconvert %v < f1 > f2, then reading f2: %s; f1: %s f2: %s", where, args, p, c02cClip(t1), c02cClip(t2)), state
		}
		if k, d := c02cCompare(pre+"convert-1", format, seen, exps); k != "" {
			return k, fmt.Sprintf("%s obiconvert %v < f1 > f2: %s; f1: %s f2: %s", where, args, d, c02cClip(t1), c02cClip(t2)), state
		}
		if c.Shift == 33 && !bytes.Equal(t1, t2) {
			return pre + "convert-1/not-byte-identical", fmt.Sprintf("%s obiconvert %v: stdin %s, stdout %s", where, args, c02cClip(t1), c02cClip(t2)), state
		}
		args = c.flags(format, false)
		if p := c02cPipe(args, f2, f3); p != "" {
			return pre + "convert-2/" + c02cFatalClass(p), fmt.Sprintf("%s obiconvert %v < f2 > f3: %s; f2: %s", where, args, p, c02cClip(t2)), state
		}
		t3, _ := c02cContent(f3, c.Gzip)
		if !bytes.Equal(t2, t3) {
			return pre + "convert-2/not-byte-identical", fmt.Sprintf("%s obiconvert %v: stdin %s, stdout %s", where, args, c02cClip(t2), c02cClip(t3)), state
		}
		return "", "", state + "|pipe|" + string(t2)
	}

	// step 2: obiconvert [--solexa] flags -o f2 f1
	var seen []c02cSeen
	args := append(c.flags(format, c.Shift == 64 && format == "fastq"), "-o", f2, f1)
	if p := c02cRun(func() { seen = c02cObiconvert(c.Workers, args) }); p != "" {
		return "cli:convert-1/" + c02cFatalClass(p), fmt.Sprintf("%s obiconvert %v: %s; input: %s", where, args, p, c02cClip(t1)), state
	}
	if k, d := c02cCompare("cli:convert-1", format, seen, exps); k != "" {
		return k, fmt.Sprintf("%s obiconvert %v: %s; input: %s", where, args, d, c02cClip(t1)), state
	}
	t2, err := c02cContent(f2, c.Gzip)
	if err != nil {
		return "cli:convert-1/output-unreadable", where + " step 2: " + err.Error(), state
	}
	if c.Shift == 33 && !bytes.Equal(t1, t2) {
		return "cli:convert-1/not-byte-identical", fmt.Sprintf("%s obiconvert %v: input %s, output %s", where, args, c02cClip(t1), c02cClip(t2)), state
	}

	// step 3: obiconvert flags -o f3 f2
	args = append(c.flags(format, false), "-o", f3, f2)
	if p := c02cRun(func() { seen = c02cObiconvert(c.Workers, args) }); p != "" {
		return "cli:convert-2/" + c02cFatalClass(p), fmt.Sprintf("%s obiconvert %v: %s; input: %s", where, args, p, c02cClip(t2)), state
	}
	if k, d := c02cCompare("cli:convert-2", format, seen, exps); k != "" {
		return k, fmt.Sprintf("%s obiconvert %v: %s; input: %s", where, args, d, c02cClip(t2)), state
	}
	t3, err := c02cContent(f3, c.Gzip)
	if err != nil {
		return "cli:convert-2/output-unreadable", where + " step 3: " + err.Error(), state
	}
	if !bytes.Equal(t2, t3) {
		return "cli:convert-2/not-byte-identical", fmt.Sprintf("%s obiconvert %v: input %s, output %s", where, args, c02cClip(t2), c02cClip(t3)), state
	}
	return "", "", state + "|" + string(t2)
}

// ---------------------------------------------------------------- the test

func TestVerifC02CLI(t *testing.T) {
	log.SetOutput(io.Discard)
	log.AddHook(c02cHook{})
	log.StandardLogger().ExitFunc = c02cExit
	r := verifkit.New("C02")
	defer r.Write()
	defer c02cResetOptions(0)
	defer debug.SetGCPercent(debug.SetGCPercent(2000)) // the readers allocate MiB buffers per file
	dir, err := os.MkdirTemp("", "c02cli-")
	if err != nil {
		t.Fatal(err)
	}
	defer os.RemoveAll(dir)
	tab := c02cTable()

	eval := func(c c02cCase) {
		if c.Pipe {
			c02cBuildBin(t, dir)
		}
		key, desc, state := c02cCheck(tab, c, dir)
		r.Eval(1)
		r.Trans(5) // write, read, write, read, write
		r.Count("cli.cases", 1)
		if c.Shift == 64 && c.format(tab) == "fastq" {
			r.Count("cli.cases.with---solexa(input-shift-64,output-shift-33)", 1)
		}
		if c.Gzip {
			r.Count("cli.cases.with--Z", 1)
		}
		if c.InHdr == "json" {
			r.Count("cli.cases.with---input-json-header", 1)
		}
		if c.Pipe {
			r.Count("cli.cases.real-binary-on-stdin/stdout", 1)
		}
		if state != "" {
			r.State("cli|" + state)
		}
		if key != "" {
			r.Violate(key, desc, c)
		}
	}

	if rc := r.ReplayCase(); rc != nil {
		var c c02cCase
		if err := json.Unmarshal(rc, &c); err != nil {
			t.Fatal(err)
		}
		eval(c)
		r.Replayed(1)
		return
	}

	thorough := verifkit.Thorough()
	sets := c02cSets(len(tab))
	r.Bound("cli_record_table", len(tab))
	r.Bound("cli_record_sets", len(sets))
	k := 0
	for _, set := range sets {
		for _, outfmt := range []string{"", "fasta", "fastq"} {
			for _, outhdr := range []string{"", "json"} {
				for _, infmt := range []bool{false, true} {
					for _, inhdr := range []string{"", "json"} {
						for _, gz := range []bool{false, true} {
							for _, shift := range []int{33, 64} {
								for _, wb := range [][2]int{{2, 0}, {1, 1}, {4, 3}} {
									c := c02cCase{Set: set, OutFmt: outfmt, OutHdr: outhdr, InFmt: infmt, InHdr: inhdr, Gzip: gz,
										Shift: shift, Workers: wb[0], Batch: wb[1]}
									if shift == 64 && c.format(tab) != "fastq" {
										continue // FASTA carries no qualities
									}
									if !thorough {
										// quick: -Z and the non-default worker / batch settings on the flag-free
										// command line and on one flag combination only
										plain := outfmt == "" && outhdr == "" && !infmt && inhdr == ""
										full := outfmt != "" && outhdr == "json" && infmt && inhdr == "json"
										if (gz || wb[0] != 2) && !plain && !full {
											continue
										}
										if gz && wb[0] != 2 {
											continue
										}
									}
									k++
									if !r.Mine(k - 1) {
										continue
									}
									if c02cProblems > 20 {
										r.Cap("more than 20 commands died or hung in this shard, the remaining cases are skipped")
										continue
									}
									eval(c)
								}
							}
						}
					}
				}
			}
		}
		if r.Expired() {
			return
		}
	}
	// ---------- the real binary: obiconvert < f1 | obiconvert > f3 (shard 0 builds it)
	if r.Mine(0) {
		for si, set := range sets {
			if !thorough && len(set) == 2 && set[0] != (set[1]+1)%6 {
				continue // quick: every record alone, six of the pairs, the long set
			}
			for _, outfmt := range []string{"", "fasta", "fastq"} {
				for _, shift := range []int{33, 64} {
					for _, jh := range []string{"", "json"} {
						c := c02cCase{Set: set, OutFmt: outfmt, OutHdr: jh, InHdr: jh, Shift: shift, Workers: 2, Pipe: true}
						if shift == 64 && c.format(tab) != "fastq" {
							continue
						}
						if !thorough && (outfmt != "" && jh != "" || outfmt == "fasta" && si%2 == 1) {
							continue
						}
						if c02cProblems > 40 {
							r.Cap("more than 40 commands died or hung, the remaining cases are skipped")
							continue
						}
						eval(c)
					}
				}
			}
			if r.Expired() {
				return
			}
		}
		r.RequireNonVacuous("cli.cases.real-binary-on-stdin/stdout")
	}
	r.RequireNonVacuous("cli.cases.with---solexa(input-shift-64,output-shift-33)")
	r.RequireNonVacuous("cli.cases.with--Z")
	r.RequireNonVacuous("cli.cases.with---input-json-header")
}
