//go:build verif

package obitag

// C15 (second harness) — the command-level entry point CLIAssignTaxonomy: the preparation of the
// reference database (4-mer tables, taxa, removal of references whose taxid is unknown to the
// taxonomy) followed by the assignment of every query. For every database made of 2..4 references
// drawn from a query's neighbourhood, with zero or one reference of unknown taxid at every position,
// and every assignment of the known references to nodes of a taxonomy, the taxon written on the
// query must be an ancestor-or-self of the taxon of every best-matching (known) reference and the
// reported best identity must be the one of the brute-force scan.

import (
	"encoding/json"
	"fmt"
	"io"
	"math"
	"testing"

	"git.metabarcoding.org/obitools/obitools4/obitools4/pkg/obiiter"
	"git.metabarcoding.org/obitools/obitools4/obitools4/pkg/obioptions"
	"git.metabarcoding.org/obitools/obitools4/obitools4/pkg/obiseq"
	"git.metabarcoding.org/obitools/obitools4/obitools4/pkg/verifkit"
	log "github.com/sirupsen/logrus"
)

type c15bCase struct {
	Tree    string   `json:"tree"`
	Query   string   `json:"query"`
	Refs    []string `json:"refs"`
	Taxids  []int    `json:"taxids"` // 999 = unknown to the taxonomy
	Workers int      `json:"workers"`
}

func c15bRun(t *c15tree, c c15bCase) (taxid int, identity float64, bestid string, err string) {
	defer func() {
		if e := recover(); e != nil {
			err = fmt.Sprint(e)
		}
	}()
	refs := obiseq.MakeBioSequenceSlice()
	for i, s := range c.Refs {
		r := obiseq.NewBioSequence(fmt.Sprintf("ref%d", i), []byte(s), "")
		r.SetTaxid(c.Taxids[i])
		refs = append(refs, r)
	}
	q := obiseq.NewBioSequence("query", []byte(c.Query), "")
	obioptions.SetMaxCPU(c.Workers)
	obioptions.SetWorkerPerCore(1)
	it := obiiter.IBatchOver("q", obiseq.BioSequenceSlice{q}, 10)
	out := CLIAssignTaxonomy(it, refs, t.taxo)
	var res *obiseq.BioSequence
	for out.Next() {
		for _, s := range out.Get().Slice() {
			res = s
		}
	}
	if res == nil {
		return 0, 0, "", "no record delivered"
	}
	taxid = res.Taxid()
	if v, ok := res.GetAttribute("obitag_bestid"); ok {
		switch x := v.(type) {
		case float64:
			identity = x
		case float32:
			identity = float64(x)
		}
	}
	if v, ok := res.GetAttribute("obitag_bestmatch"); ok {
		bestid = fmt.Sprint(v)
	}
	return
}

func TestVerifC15B(t *testing.T) {
	log.SetOutput(io.Discard)
	log.StandardLogger().ExitFunc = func(code int) { panic(fmt.Sprintf("log.Fatal exit(%d)", code)) }
	r := verifkit.New("C15")
	defer r.Write()
	trees := c15trees()
	byName := map[string]*c15tree{}
	for _, tr := range trees {
		byName[tr.name] = tr
	}

	eval := func(tr *c15tree, c c15bCase) {
		r.Eval(1)
		r.Trans(int64(len(c.Refs)))
		// brute force over the references the taxonomy knows
		best := math.MaxInt
		var bestTax []int
		for i, s := range c.Refs {
			if c.Taxids[i] == 999 {
				continue
			}
			l, a := c15lcs(c.Query, s)
			d := a - l
			if d < best {
				best = d
				bestTax = bestTax[:0]
			}
			if d == best {
				bestTax = append(bestTax, c.Taxids[i])
			}
		}
		taxid, _, bestid, e := c15bRun(tr, c)
		if e != "" {
			if len(bestTax) == 0 {
				return // a database without any usable reference: behaviour not constrained
			}
			r.Violate("CLIAssignTaxonomy/crash", fmt.Sprintf("%+v: %s", c, e), c)
			return
		}
		if len(bestTax) == 0 {
			return
		}
		r.Count("assignments_checked", 1)
		if c.Taxids[len(c.Taxids)-1] != 999 {
			for _, x := range c.Taxids {
				if x == 999 {
					r.Count("unknown_reference_before_a_known_one", 1)
					break
				}
			}
		}
		if _, ok := tr.par[taxid]; !ok {
			r.Violate("CLIAssignTaxonomy/assigned-taxid-not-in-taxonomy", fmt.Sprintf("%+v: taxid %d", c, taxid), c)
			return
		}
		for _, x := range bestTax {
			if !tr.isAncOrSelf(taxid, x) {
				sub := ""
				for _, tx := range c.Taxids {
					if tx == 999 {
						sub = ":database-with-discarded-reference"
					}
				}
				r.Violate("CLIAssignTaxonomy/not-ancestor-of-best"+sub, fmt.Sprintf("%+v: assigned taxid %d (best match %s) is not an ancestor-or-self of taxid %d of a reference at the minimal distance %d (best taxa %v)", c, taxid, bestid, x, best, bestTax), c)
				return
			}
		}
		// the assignment must not be vaguer than what the references within reach justify: when the
		// query is identical to exactly one known reference, nothing else can enter the LCA at distance 0
		if best == 0 && len(bestTax) == 1 {
			r.Count("unique_exact_match", 1)
			if taxid != bestTax[0] {
				sub := ""
				for _, tx := range c.Taxids {
					if tx == 999 {
						sub = ":database-with-discarded-reference"
					}
				}
				r.Violate("CLIAssignTaxonomy/exact-unique-match-not-assigned"+sub, fmt.Sprintf("%+v: the query is identical to exactly one known reference (taxid %d) but is assigned taxid %d (best match %s)", c, bestTax[0], taxid, bestid), c)
			}
		}
	}

	if rc := r.ReplayCase(); rc != nil {
		var c c15bCase
		if err := json.Unmarshal(rc, &c); err != nil {
			t.Fatal(err)
		}
		eval(byName[c.Tree], c)
		return
	}

	queries := []string{"acgtgcatgg", "ttgacgatcatg"}
	if verifkit.Thorough() {
		queries = append(queries, "gattacagattacc", "acgtacgtaa")
	}
	k := 0
	for _, tr := range trees {
		leaves := tr.nodes
		for _, q := range queries {
			pool := []string{q}
			eds := c15edits(q)
			// a few single edits, a double edit, an unrelated sequence
			for i := 0; i < len(eds) && len(pool) < 5; i += len(eds)/4 + 1 {
				pool = append(pool, eds[i])
			}
			d2 := c15edits(eds[len(eds)/2])
			pool = append(pool, d2[len(d2)/3], c15rot(q, len(q)/2)+"tt")
			n := len(pool)
			// databases: ordered selections of 2..3 (thorough 4) distinct pool members
			var rec func(cur []int)
			maxLen := 3
			if verifkit.Thorough() {
				maxLen = 4
			}
			rec = func(cur []int) {
				if len(cur) >= 2 {
					// unknown-taxid position: none, or each position
					for unk := -1; unk < len(cur); unk++ {
						for a := 0; a < len(leaves); a += 2 {
							if !r.Mine(k) {
								k++
								continue
							}
							k++
							c := c15bCase{Tree: tr.name, Query: q, Workers: 1 + len(cur)%2}
							for j, pi := range cur {
								c.Refs = append(c.Refs, pool[pi])
								tx := leaves[(a+j*3)%len(leaves)]
								if j == unk {
									tx = 999
								}
								c.Taxids = append(c.Taxids, tx)
							}
							if k%5000 == 1 {
								r.Sample(c)
							}
							r.State(fmt.Sprintf("%s|%s|%v|%v", tr.name, q, cur, c.Taxids))
							eval(tr, c)
						}
					}
				}
				if len(cur) == maxLen {
					return
				}
				for i := 0; i < n; i++ {
					used := false
					for _, x := range cur {
						if x == i {
							used = true
						}
					}
					if !used {
						rec(append(append([]int{}, cur...), i))
					}
				}
			}
			rec(nil)
			if r.Expired() {
				return
			}
		}
	}
	r.RequireNonVacuous("unknown_reference_before_a_known_one")
	r.RequireNonVacuous("unique_exact_match")
}
