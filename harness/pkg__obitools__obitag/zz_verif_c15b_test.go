//go:build verif

package obitag

// C15 (second harness) — the command-level entry point CLIAssignTaxonomy: the preparation of the
// reference database (4-mer tables, taxa, removal of references whose taxid is unknown to the
// taxonomy) followed by the assignment of every query. For every database made of 2..4 references
// drawn from a query's neighbourhood, with zero or one reference of unknown taxid at every position,
// and every assignment of the known references to nodes of a taxonomy, the taxon written on the
// query must be an ancestor-or-self of the taxon of every best-matching (known) reference and the
// reported best identity must be the one of the brute-force scan.
//
// Call histories (audit extension): the references are ONE set of objects shared by every query of a
// run and by every worker; Identify stores the index it builds lazily on the reference itself
// (obitag_ref_index), and a database written by obirefidx / --save-db arrives with that annotation
// already present, as map[int]string (in memory) or as the map[string]interface{} / map[string]string a
// JSON title line decodes to. For every database the harness runs every stream of 1..2 (thorough 3)
// queries drawn from 4 (the query, an edit of it, one shorter than a 4-mer, one longer than every
// reference; repetitions included) x {fresh references, references pre-indexed in each representation,
// every second reference pre-indexed} x {1 worker / one batch, 2 and 3 workers / one query per batch}
// and demands (a) for every query of the stream the taxon it receives when it is the only query of a
// run on fresh references (itself held to the ancestor-or-self oracle), (b) that every index left on a
// reference after the run maps each recorded distance to the LCA of the references within it.

import (
	"encoding/json"
	"fmt"
	"io"
	"math"
	"sort"
	"strconv"
	"strings"
	"testing"

	"git.metabarcoding.org/obitools/obitools4/obitools4/pkg/obiiter"
	"git.metabarcoding.org/obitools/obitools4/obitools4/pkg/obioptions"
	"git.metabarcoding.org/obitools/obitools4/obitools4/pkg/obikmer"
	"git.metabarcoding.org/obitools/obitools4/obitools4/pkg/obiseq"
	"git.metabarcoding.org/obitools/obitools4/obitools4/pkg/obitax"
	"git.metabarcoding.org/obitools/obitools4/obitools4/pkg/obitools/obirefidx"
	"git.metabarcoding.org/obitools/obitools4/obitools4/pkg/verifkit"
	log "github.com/sirupsen/logrus"
)

type c15bCase struct {
	Tree    string   `json:"tree"`
	Query   string   `json:"query"`
	Refs    []string `json:"refs"`
	Taxids  []int    `json:"taxids"` // 999 = unknown to the taxonomy
	Workers int      `json:"workers"`
	// call histories: the stream of queries of one run (Query is unused then), how the references
	// arrive ("" fresh | int | json | str | partial) and the batch size of the query stream
	Queries []string `json:"queries,omitempty"`
	Index   string   `json:"index,omitempty"`
	Batch   int      `json:"batch,omitempty"`
}

func c15bRun(t *c15tree, c c15bCase) (taxid int, identity float64, bestid string, err string) {
	defer func() {
		if e := recover(); e != nil {
			err = fmt.Sprint(e)
		}
	}()
	refs := obiseq.MakeBioSequenceSlice()
	for i, s := range c.Refs {
		r := obiseq.NewBioSequence(fmt.Sprintf("ref%d", i), []byte(s), "")
		r.SetTaxid(c.Taxids[i])
		refs = append(refs, r)
	}
	q := obiseq.NewBioSequence("query", []byte(c.Query), "")
	obioptions.SetMaxCPU(c.Workers)
	obioptions.SetWorkerPerCore(1)
	it := obiiter.IBatchOver("q", obiseq.BioSequenceSlice{q}, 10)
	out := CLIAssignTaxonomy(it, refs, t.taxo)
	var res *obiseq.BioSequence
	for out.Next() {
		for _, s := range out.Get().Slice() {
			res = s
		}
	}
	if res == nil {
		return 0, 0, "", "no record delivered"
	}
	taxid = res.Taxid()
	if v, ok := res.GetAttribute("obitag_bestid"); ok {
		switch x := v.(type) {
		case float64:
			identity = x
		case float32:
			identity = float64(x)
		}
	}
	if v, ok := res.GetAttribute("obitag_bestmatch"); ok {
		bestid = fmt.Sprint(v)
	}
	return
}

// ---------------------------------------------------------------------------------------------
// shared by the command-level harnesses: distances, the index a reference must carry, its check

var c15bDistMemo = map[string]int{}

func c15bDist(a, b string) int {
	if a > b {
		a, b = b, a
	}
	k := a + "|" + b
	if d, ok := c15bDistMemo[k]; ok {
		return d
	}
	l, al := c15lcs(a, b)
	c15bDistMemo[k] = al - l
	return al - l
}

// c15bWantIndex returns, for member s of the database (seqs, taxa; a taxid unknown to the tree marks a
// reference that is not part of the database), want[d] = LCA of the taxa of all members within
// distance d of s (s included)
func c15bWantIndex(t *c15tree, seqs []string, taxa []int, s int) []int {
	want := make([]int, 64)
	cur := taxa[s]
	for d := 0; d < len(want); d++ {
		for k := range seqs {
			if _, known := t.par[taxa[k]]; !known {
				continue
			}
			if k != s && c15bDist(seqs[s], seqs[k]) == d {
				cur = t.lcaTab[cur][taxa[k]]
			}
		}
		want[d] = cur
	}
	return want
}

func c15bIndexString(idx map[int]string) string {
	keys := make([]int, 0, len(idx))
	for k := range idx {
		keys = append(keys, k)
	}
	sort.Ints(keys)
	var sb strings.Builder
	sb.WriteString("{")
	for _, k := range keys {
		fmt.Fprintf(&sb, " %d:%s", k, idx[k])
	}
	sb.WriteString(" }")
	return sb.String()
}

// c15bCheckIndex compares an index with the LCAs it must record (same reading as evalIndex of the
// first harness: an entry must be the LCA of the references within its distance, and the entry
// applying to d - largest recorded distance <= d - must be the LCA within d for every d < lseq)
func c15bCheckIndex(idx map[int]string, want []int, lseq int) (cls, msg string) {
	keys := make([]int, 0, len(idx))
	for k, v := range idx {
		keys = append(keys, k)
		at := strings.IndexByte(v, '@')
		id, err := -1, error(nil)
		if at > 0 {
			id, err = strconv.Atoi(v[:at])
		}
		if at <= 0 || err != nil || strings.Count(v, "@") != 2 || k < 0 || k >= len(want) {
			return "malformed-entry", fmt.Sprintf("entry %d:%q", k, v)
		}
		if w := want[k]; id != w {
			return "wrong-lca", fmt.Sprintf("distance %d is recorded with taxid %d, the LCA of the references within %d is %d", k, id, k, w)
		}
	}
	sort.Ints(keys)
	for d := 0; d < lseq; d++ {
		k := sort.SearchInts(keys, d+1) - 1
		if k < 0 {
			return "missing-distance", fmt.Sprintf("no entry applies to distance %d (LCA %d)", d, want[d])
		}
		v := idx[keys[k]]
		id, _ := strconv.Atoi(v[:strings.IndexByte(v, '@')])
		if id != want[d] {
			return "missing-distance", fmt.Sprintf("the entry applying to distance %d gives taxid %d, the LCA of the references within %d is %d", d, id, d, want[d])
		}
	}
	return "", ""
}

// ---------------------------------------------------------------------------------------------
// call histories through CLIAssignTaxonomy

type c15bHistOut struct {
	taxids  []int            // per query of the stream, -1 = not delivered
	indices []map[int]string // per reference: the index it carries after the run (nil = none)
	err     string
}

func c15bRunHist(t *c15tree, c c15bCase) (o c15bHistOut) {
	defer func() {
		if e := recover(); e != nil {
			o.err = fmt.Sprint(e)
		}
	}()
	refs := obiseq.MakeBioSequenceSlice()
	for i, s := range c.Refs {
		r := obiseq.NewBioSequence(fmt.Sprintf("ref%d", i), []byte(s), "")
		r.SetTaxid(c.Taxids[i])
		refs = append(refs, r)
	}
	if c.Index != "" {
		// what obirefidx does: index every reference the taxonomy knows against the known ones
		known := obiseq.MakeBioSequenceSlice()
		var kmers []*obikmer.Table4mer
		taxa := make(obitax.TaxonSet)
		for i, r := range refs {
			if n, ok := t.node[c.Taxids[i]]; ok {
				taxa[len(known)] = n
				known = append(known, r)
				kmers = append(kmers, obikmer.Count4Mer(r, nil, nil))
			}
		}
		for i, r := range known {
			if c.Index == "partial" && i%2 == 1 {
				continue
			}
			idx := obirefidx.IndexSequence(i, known, &kmers, &taxa, t.taxo)
			switch c.Index {
			case "int", "partial":
				r.SetOBITagRefIndex(idx)
			case "json": // what a JSON title line decodes to
				m := map[string]interface{}{}
				for k, v := range idx {
					m[strconv.Itoa(k)] = v
				}
				r.SetAttribute("obitag_ref_index", m)
			case "str":
				m := map[string]string{}
				for k, v := range idx {
					m[strconv.Itoa(k)] = v
				}
				r.SetAttribute("obitag_ref_index", m)
			default:
				panic("c15b: unknown index mode " + c.Index)
			}
		}
	}
	qs := obiseq.MakeBioSequenceSlice()
	for i, s := range c.Queries {
		qs = append(qs, obiseq.NewBioSequence(fmt.Sprintf("q%d", i), []byte(s), ""))
	}
	obioptions.SetMaxCPU(c.Workers)
	obioptions.SetWorkerPerCore(1)
	batch := c.Batch
	if batch < 1 {
		batch = 10
	}
	orig := make(obiseq.BioSequenceSlice, len(refs)) // CLIAssignTaxonomy compacts its argument in place
	copy(orig, refs)
	out := CLIAssignTaxonomy(obiiter.IBatchOver("q", qs, batch), refs, t.taxo)
	o.taxids = make([]int, len(c.Queries))
	for i := range o.taxids {
		o.taxids[i] = -1
	}
	for out.Next() {
		for _, s := range out.Get().Slice() {
			i, err := strconv.Atoi(strings.TrimPrefix(s.Id(), "q"))
			if err != nil || i < 0 || i >= len(o.taxids) {
				o.err = "unexpected record " + s.Id()
				return
			}
			o.taxids[i] = s.Taxid()
		}
	}
	// the references as the caller still holds them (obitag --save-db writes them)
	o.indices = make([]map[int]string, len(c.Refs))
	for i, r := range orig {
		if _, ok := t.node[c.Taxids[i]]; ok {
			o.indices[i] = r.OBITagRefIndex()
		}
	}
	return
}

func TestVerifC15B(t *testing.T) {
	log.SetOutput(io.Discard)
	r := verifkit.New("C15")
	defer r.Write()
	c15installNet(r)
	var trees []*c15tree
	if !c15guardedSetup(r, "building the three 7-node taxonomies (caterpillar, binary, bushy)", func() { trees = c15trees() }) {
		return // every case of this part is placed on one of them
	}
	byName := map[string]*c15tree{}
	for _, tr := range trees {
		byName[tr.name] = tr
	}

	eval := func(tr *c15tree, c c15bCase) {
		r.Eval(1)
		r.Trans(int64(len(c.Refs)))
		// brute force over the references the taxonomy knows
		best := math.MaxInt
		var bestTax []int
		for i, s := range c.Refs {
			if c.Taxids[i] == 999 {
				continue
			}
			l, a := c15lcs(c.Query, s)
			d := a - l
			if d < best {
				best = d
				bestTax = bestTax[:0]
			}
			if d == best {
				bestTax = append(bestTax, c.Taxids[i])
			}
		}
		taxid, _, bestid, e := c15bRun(tr, c)
		if e != "" {
			if len(bestTax) == 0 {
				return // a database without any usable reference: behaviour not constrained
			}
			r.Violate("CLIAssignTaxonomy/crash", fmt.Sprintf("%+v: %s", c, e), c)
			return
		}
		if len(bestTax) == 0 {
			return
		}
		r.Count("assignments_checked", 1)
		if c.Taxids[len(c.Taxids)-1] != 999 {
			for _, x := range c.Taxids {
				if x == 999 {
					r.Count("unknown_reference_before_a_known_one", 1)
					break
				}
			}
		}
		if _, ok := tr.par[taxid]; !ok {
			r.Violate("CLIAssignTaxonomy/assigned-taxid-not-in-taxonomy", fmt.Sprintf("%+v: taxid %d", c, taxid), c)
			return
		}
		for _, x := range bestTax {
			if !tr.isAncOrSelf(taxid, x) {
				sub := ""
				for _, tx := range c.Taxids {
					if tx == 999 {
						sub = ":database-with-discarded-reference"
					}
				}
				r.Violate("CLIAssignTaxonomy/not-ancestor-of-best"+sub, fmt.Sprintf("%+v: assigned taxid %d (best match %s) is not an ancestor-or-self of taxid %d of a reference at the minimal distance %d (best taxa %v)", c, taxid, bestid, x, best, bestTax), c)
				return
			}
		}
		// the assignment must not be vaguer than what the references within reach justify: when the
		// query is identical to exactly one known reference, nothing else can enter the LCA at distance 0
		if best == 0 && len(bestTax) == 1 {
			r.Count("unique_exact_match", 1)
			if taxid != bestTax[0] {
				sub := ""
				for _, tx := range c.Taxids {
					if tx == 999 {
						sub = ":database-with-discarded-reference"
					}
				}
				r.Violate("CLIAssignTaxonomy/exact-unique-match-not-assigned"+sub, fmt.Sprintf("%+v: the query is identical to exactly one known reference (taxid %d) but is assigned taxid %d (best match %s)", c, bestTax[0], taxid, bestid), c)
			}
		}
	}


	// ---- call histories -------------------------------------------------------------------
	type histCfg struct {
		index   string
		workers int
		batch   int
	}
	histCfgs := []histCfg{{"", 1, 10}, {"", 2, 1}, {"", 3, 1}, {"int", 2, 1}, {"json", 2, 1}, {"str", 2, 1}, {"partial", 2, 1}}
	known := func(tr *c15tree, c c15bCase) (n int) {
		for _, x := range c.Taxids {
			if _, ok := tr.par[x]; ok {
				n++
			}
		}
		return
	}
	discarded := func(tr *c15tree, c c15bCase) string {
		if known(tr, c) != len(c.Taxids) {
			return ":database-with-discarded-reference"
		}
		return ""
	}
	// storedIndexes checks every index found on a reference after a run
	storedIndexes := func(tr *c15tree, c c15bCase, o c15bHistOut) {
		for i, idx := range o.indices {
			if idx == nil {
				continue
			}
			r.Count("stored_indexes_checked", 1)
			origin := "lazily-built"
			switch {
			case c.Index == "partial" && i%2 == 0, c.Index != "" && c.Index != "partial":
				origin = "pre-indexed(" + c.Index + ")"
			}
			if origin == "lazily-built" {
				r.Count("stored_indexes_lazily_built", 1)
			}
			want := c15bWantIndex(tr, c.Refs, c.Taxids, i)
			if cls, msg := c15bCheckIndex(idx, want, len(c.Refs[i])); cls != "" {
				r.Violate("CLIAssignTaxonomy/stored-index/"+cls+":"+origin+discarded(tr, c),
					fmt.Sprintf("%+v: after the run reference %d carries obitag_ref_index=%s: %s", c, i, c15bIndexString(idx), msg), c)
				return
			}
		}
	}
	// evalHist: base holds Tree, Refs, Taxids; queries are the members streams are drawn from
	evalHist := func(tr *c15tree, base c15bCase, queries []string, maxLen int) {
		if known(tr, base) == 0 {
			return
		}
		nq := len(queries)
		alone := make([]int, nq)
		for qi, q := range queries {
			c := base
			c.Queries, c.Workers, c.Batch = []string{q}, 1, 10
			r.Count("history_runs_on_fresh_references", 1)
			o := c15bRunHist(tr, c)
			r.Eval(1)
			r.Trans(int64(len(c.Refs)))
			if o.err != "" {
				r.Violate("CLIAssignTaxonomy/crash", fmt.Sprintf("%+v: %s", c, o.err), c)
				return
			}
			taxid := o.taxids[0]
			alone[qi] = taxid
			best := math.MaxInt
			var bestTax []int
			for i, s := range c.Refs {
				if _, ok := tr.par[c.Taxids[i]]; !ok {
					continue
				}
				d := c15bDist(q, s)
				if d < best {
					best, bestTax = d, bestTax[:0]
				}
				if d == best {
					bestTax = append(bestTax, c.Taxids[i])
				}
			}
			if _, ok := tr.par[taxid]; !ok {
				r.Violate("CLIAssignTaxonomy/assigned-taxid-not-in-taxonomy", fmt.Sprintf("%+v: taxid %d", c, taxid), c)
				return
			}
			if taxid != 1 {
				r.Count("history_query_assigned_below_root", 1)
			}
			if len(bestTax) > 0 && tr.lca(bestTax) != 1 {
				r.Count("history_query_best_lca_below_root", 1) // a fact about the case, not about the answer
			}
			for _, x := range bestTax {
				if !tr.isAncOrSelf(taxid, x) {
					r.Violate("CLIAssignTaxonomy/not-ancestor-of-best"+discarded(tr, c), fmt.Sprintf("%+v: assigned taxid %d is not an ancestor-or-self of taxid %d of a reference at the minimal distance %d (best taxa %v)", c, taxid, x, best, bestTax), c)
					return
				}
			}
			if best == 0 && len(bestTax) == 1 && taxid != bestTax[0] {
				r.Violate("CLIAssignTaxonomy/exact-unique-match-not-assigned"+discarded(tr, c), fmt.Sprintf("%+v: the query is identical to exactly one known reference (taxid %d) but is assigned taxid %d", c, bestTax[0], taxid), c)
				return
			}
			storedIndexes(tr, c, o)
		}
		// every stream of 1..maxLen queries (repetitions included) under every configuration
		modeAloneDiffers := map[string]bool{}
		var rec func(h []int)
		runStream := func(h []int) {
			for ci, cfg := range histCfgs {
				if len(h) == 1 && ci < 3 && ci > 0 {
					continue // one query: the worker count and batch size change nothing
				}
				if len(h) == 1 && ci == 0 {
					continue // = the run above
				}
				c := base
				c.Index, c.Workers, c.Batch = cfg.index, cfg.workers, cfg.batch
				c.Queries = nil
				for _, qi := range h {
					c.Queries = append(c.Queries, queries[qi])
				}
				o := c15bRunHist(tr, c)
				r.Eval(1)
				r.Trans(int64(len(c.Refs) * len(h)))
				if len(h) > 1 {
					r.Count("history_streams", 1)
				}
				what := "references=fresh"
				if cfg.index != "" {
					what = "references=pre-indexed(" + cfg.index + ")"
				}
				if o.err != "" {
					cls := ":stream-of-queries"
					if len(h) == 1 {
						cls = ""
					}
					r.Violate("CLIAssignTaxonomy/crash:"+what+cls+discarded(tr, c), fmt.Sprintf("%+v: %s (every query alone on fresh references is assigned)", c, o.err), c)
					continue
				}
				for k, qi := range h {
					got := o.taxids[k]
					if got == alone[qi] {
						continue
					}
					if got == -1 {
						r.Violate("CLIAssignTaxonomy/query-not-delivered:"+what, fmt.Sprintf("%+v: query %d of the stream is not in the output", c, k), c)
						break
					}
					if len(h) == 1 {
						modeAloneDiffers[cfg.index+"|"+queries[qi]] = true
						r.Violate("CLIAssignTaxonomy/pre-indexed-references-change-the-assignment:"+cfg.index+discarded(tr, c),
							fmt.Sprintf("%+v: assigned taxid %d, with fresh references (index built on the fly) taxid %d", c, got, alone[qi]), c)
						break
					}
					if modeAloneDiffers[cfg.index+"|"+queries[qi]] {
						break // already reported for this query alone
					}
					r.Violate("CLIAssignTaxonomy/assignment-depends-on-the-other-queries-of-the-run:"+what+discarded(tr, c),
						fmt.Sprintf("%+v: query %d of the stream (%s) is assigned taxid %d; alone on fresh references it is assigned taxid %d", c, k, queries[qi], got, alone[qi]), c)
					break
				}
				storedIndexes(tr, c, o)
			}
		}
		rec = func(h []int) {
			if len(h) > 0 {
				runStream(h)
			}
			if len(h) == maxLen {
				return
			}
			for qi := 0; qi < nq; qi++ {
				rec(append(append([]int{}, h...), qi))
			}
		}
		rec(nil)
	}

	if rc := r.ReplayCase(); rc != nil {
		var c c15bCase
		if err := json.Unmarshal(rc, &c); err != nil {
			t.Fatal(err)
		}
		if len(c.Queries) > 0 {
			// a stream: re-run it with its queries as the pool (each query alone first, then the stream)
			var qs []string
			seen := map[string]bool{}
			for _, q := range c.Queries {
				if !seen[q] {
					seen[q] = true
					qs = append(qs, q)
				}
			}
			evalHist(byName[c.Tree], c15bCase{Tree: c.Tree, Refs: c.Refs, Taxids: c.Taxids}, qs, len(c.Queries))
			return
		}
		eval(byName[c.Tree], c)
		return
	}

	queries := []string{"acgtgcatgg", "ttgacgatcatg"}
	if verifkit.Thorough() {
		queries = append(queries, "gattacagattacc", "acgtacgtaa")
	}
	k := 0
	for _, tr := range trees {
		leaves := tr.nodes
		for _, q := range queries {
			pool := []string{q}
			eds := c15edits(q)
			// a few single edits, a double edit, an unrelated sequence
			for i := 0; i < len(eds) && len(pool) < 5; i += len(eds)/4 + 1 {
				pool = append(pool, eds[i])
			}
			d2 := c15edits(eds[len(eds)/2])
			pool = append(pool, d2[len(d2)/3], c15rot(q, len(q)/2)+"tt")
			n := len(pool)
			// databases: ordered selections of 2..3 (thorough 4) distinct pool members
			var rec func(cur []int)
			maxLen := 3
			if verifkit.Thorough() {
				maxLen = 4
			}
			rec = func(cur []int) {
				if len(cur) >= 2 {
					// unknown-taxid position: none, or each position
					for unk := -1; unk < len(cur); unk++ {
						for a := 0; a < len(leaves); a += 2 {
							if !r.Mine(k) {
								k++
								continue
							}
							k++
							c := c15bCase{Tree: tr.name, Query: q, Workers: 1 + len(cur)%2}
							for j, pi := range cur {
								c.Refs = append(c.Refs, pool[pi])
								tx := leaves[(a+j*3)%len(leaves)]
								if j == unk {
									tx = 999
								}
								c.Taxids = append(c.Taxids, tx)
							}
							if k%5000 == 1 {
								r.Sample(c)
							}
							r.State(fmt.Sprintf("%s|%s|%v|%v", tr.name, q, cur, c.Taxids))
							eval(tr, c)
						}
					}
				}
				if len(cur) == maxLen {
					return
				}
				for i := 0; i < n; i++ {
					used := false
					for _, x := range cur {
						if x == i {
							used = true
						}
					}
					if !used {
						rec(append(append([]int{}, cur...), i))
					}
				}
			}
			rec(nil)
			if r.Expired() {
				return
			}
		}
	}

	// ---- call histories: databases = ordered selections of 2..3 distinct members of a pool holding,
	// besides the query's neighbourhood, a second copy of the query (identical sequences, different
	// taxa), a reference shorter than a 4-mer and one longer than everything else
	maxHist := 2
	if verifkit.Thorough() {
		maxHist = 3
	}
	for _, tr := range trees {
		leaves := tr.nodes
		for qn, q := range queries {
			if qn > 0 && !verifkit.Thorough() {
				break
			}
			eds := c15edits(q)
			pool := []string{q}
			for i := 0; i < len(eds) && len(pool) < 4; i += len(eds)/3 + 1 {
				pool = append(pool, eds[i])
			}
			d2 := c15edits(eds[len(eds)/2])
			pool = append(pool, d2[len(d2)/3], c15rot(q, len(q)/2)+"tt", q, "acg", q+"ttgacc")
			hq := []string{q, eds[len(eds)/2+1], "acg", q + "ttgacc"}
			n := len(pool)
			var rec func(cur []int)
			rec = func(cur []int) {
				if len(cur) >= 2 {
					for _, v := range [][2]int{{0, -1}, {3, -1}, {0, 0}, {3, len(cur) - 1}} {
						if !r.Mine(k) {
							k++
							continue
						}
						k++
						c := c15bCase{Tree: tr.name}
						for j, pi := range cur {
							c.Refs = append(c.Refs, pool[pi])
							tx := leaves[(v[0]+j*3)%len(leaves)]
							if j == v[1] {
								tx = 999
							}
							c.Taxids = append(c.Taxids, tx)
						}
						r.State(fmt.Sprintf("hist|%s|%s|%v|%v", tr.name, q, cur, c.Taxids))
						evalHist(tr, c, hq, maxHist)
					}
				}
				if len(cur) == 3 {
					return
				}
				for i := 0; i < n; i++ {
					used := false
					for _, x := range cur {
						if x == i {
							used = true
						}
					}
					if !used {
						rec(append(append([]int{}, cur...), i))
					}
				}
			}
			rec(nil)
			if r.Expired() {
				return
			}
		}
	}
	r.RequireNonVacuous("history_streams")
	// (stored_indexes_lazily_built and history_query_assigned_below_root count answers of the implementation: counters only)
	r.RequireNonVacuous("history_runs_on_fresh_references")
	r.RequireNonVacuous("history_query_best_lca_below_root")
	r.RequireNonVacuous("unknown_reference_before_a_known_one")
	r.RequireNonVacuous("unique_exact_match")
}
