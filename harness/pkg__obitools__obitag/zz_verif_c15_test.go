//go:build verif

package obitag

// C15 — assignment search is lossless: k-mer prefilters never change the answer.
//
// Bounded exhaustive enumeration on the real FindClosests (obitag and obitag2), obirefidx.IndexSequence
// and Identify.  For each of 12 fixed queries (length 8..14) a pool of references is derived:
//   P1 = the query, EVERY single edit of it (substitution, deletion, insertion at every position,
//        ends included -> references shorter and longer than the query) and 6 fixed "foreign" sequences
//        (unrelated, homopolymer, long (up to L+7) and short chimeras of the query);
//   P2 = EVERY double edit of the query;
//   P0 = a small structured sub-pool of P1 (+ a few double edits) used where a taxonomy dimension multiplies.
// Reference databases = every list of 1, 2, 3 references drawn from those pools (see the tier table in
// TestVerifC15), in every order that can matter (the scan order of FindClosests depends on the input order
// only through ties of shared 4-mer counts: all orders are run for pairs, and for triples whenever two
// members tie).  Taxonomies = every assignment of the references to the nodes (leaves and internal) of
// three 7-node trees.
//
// Oracle: a plain quadratic LCS dynamic programme written here (maximal number of matches, then minimal
// alignment length; distance = alignment length - LCS) applied to EVERY reference, naive ancestor lists
// from a parent map for LCAs.  Nothing of obialign / obikmer / obitax is used by the oracle.

import (
	"encoding/json"
	"fmt"
	"io"
	"os"
	"runtime"
	"sort"
	"strconv"
	"strings"
	"testing"
	"time"

	"git.metabarcoding.org/obitools/obitools4/obitools4/pkg/obikmer"
	"git.metabarcoding.org/obitools/obitools4/obitools4/pkg/obiseq"
	"git.metabarcoding.org/obitools/obitools4/obitools4/pkg/obitax"
	"git.metabarcoding.org/obitools/obitools4/obitools4/pkg/obitools/obirefidx"
	"git.metabarcoding.org/obitools/obitools4/obitools4/pkg/obitools/obitag2"
	"git.metabarcoding.org/obitools/obitools4/obitools4/pkg/obiutils"
	"git.metabarcoding.org/obitools/obitools4/obitools4/pkg/verifkit"
	log "github.com/sirupsen/logrus"
)

// ---------------------------------------------------------------------------------------------
// case record (also the replay record)

type c15case struct {
	Part   string   `json:"part"` // find | find2 | index | identify
	Query  string   `json:"query,omitempty"`
	Refs   []string `json:"refs"`
	Tree   int      `json:"tree"`
	Taxa   []int    `json:"taxa,omitempty"` // taxid of each reference
	SeqIdx int      `json:"seqidx"`         // reference indexed (part index); distance (matchidx); copies (manycand)
	Keys   []int    `json:"keys,omitempty"` // recorded distances (part matchidx; Taxa = positions in the lineage)
}

// ---------------------------------------------------------------------------------------------
// reference model: LCS distance

// c15lcs returns the maximal number of matching columns of a global alignment of a and b and the minimal
// length of an alignment reaching it.
func c15lcs(a, b string) (lcs, ali int) {
	const big = 1 << 20
	la, lb := len(a), len(b)
	prev := make([]int, lb+1) // value = lcs*big - length ; maximised
	cur := make([]int, lb+1)
	for j := 0; j <= lb; j++ {
		prev[j] = -j
	}
	for i := 1; i <= la; i++ {
		cur[0] = -i
		for j := 1; j <= lb; j++ {
			v := prev[j-1] - 1
			if a[i-1] == b[j-1] {
				v += big
			}
			if w := prev[j] - 1; w > v {
				v = w
			}
			if w := cur[j-1] - 1; w > v {
				v = w
			}
			cur[j] = v
		}
		prev, cur = cur, prev
	}
	v := prev[lb]
	lcs = (v + big - 1) / big // v = lcs*big - length, 0 <= length < big
	ali = lcs*big - v
	return
}

// IUPAC codes as base sets (a=1, c=2, g=4, t=8); two symbols match when their sets intersect
var c15iupac = map[byte]int{'a': 1, 'c': 2, 'g': 4, 't': 8, 'r': 5, 'y': 10, 's': 6, 'w': 9, 'k': 12, 'm': 3,
	'b': 14, 'd': 13, 'h': 11, 'v': 7, 'n': 15}

// c15lcsI is c15lcs with IUPAC-compatible symbols counted as matches (the definition of the LCS
// kernel, property C09); written separately so that the plain oracle stays free of any table
func c15lcsI(a, b string) (lcs, ali int) {
	const big = 1 << 20
	la, lb := len(a), len(b)
	prev := make([]int, lb+1)
	cur := make([]int, lb+1)
	for j := 0; j <= lb; j++ {
		prev[j] = -j
	}
	for i := 1; i <= la; i++ {
		cur[0] = -i
		for j := 1; j <= lb; j++ {
			v := prev[j-1] - 1
			if c15iupac[a[i-1]]&c15iupac[b[j-1]] != 0 {
				v += big
			}
			if w := prev[j] - 1; w > v {
				v = w
			}
			if w := cur[j-1] - 1; w > v {
				v = w
			}
			cur[j] = v
		}
		prev, cur = cur, prev
	}
	v := prev[lb]
	lcs = (v + big - 1) / big
	ali = lcs*big - v
	return
}

// c15lev is the byte-wise edit distance (what the one-difference test D1Or0 decides, property C09)
func c15lev(a, b string) int {
	prev := make([]int, len(b)+1)
	cur := make([]int, len(b)+1)
	for j := range prev {
		prev[j] = j
	}
	for i := 1; i <= len(a); i++ {
		cur[0] = i
		for j := 1; j <= len(b); j++ {
			v := prev[j-1]
			if a[i-1] != b[j-1] {
				v++
			}
			if w := prev[j] + 1; w < v {
				v = w
			}
			if w := cur[j-1] + 1; w < v {
				v = w
			}
			cur[j] = v
		}
		prev, cur = cur, prev
	}
	return prev[len(b)]
}

// own 4-mer model (only used to classify failures, to count interesting cases and to decide when the
// input order of a database can influence the scan order); as the 4-mer tables of obikmer do, a symbol
// other than a, c, g, t counts as 'a'
func c15kmers(s string) map[string]int {
	if strings.Trim(s, "acgt") != "" {
		b := []byte(s)
		for i, c := range b {
			if c != 'a' && c != 'c' && c != 'g' && c != 't' {
				b[i] = 'a'
			}
		}
		s = string(b)
	}
	m := map[string]int{}
	for i := 0; i+4 <= len(s); i++ {
		m[s[i:i+4]]++
	}
	return m
}

func c15common(a, b map[string]int) int {
	n := 0
	for k, v := range a {
		if w := b[k]; w < v {
			n += w
		} else {
			n += v
		}
	}
	return n
}

// ---------------------------------------------------------------------------------------------
// pools

type c15pool struct {
	seqs  []string
	bs    []*obiseq.BioSequence
	cnt   []*obikmer.Table4mer
	km    []map[string]int
	pos   map[string]int
	qobj  *obiseq.BioSequence // the query as a separate object (Identify annotates it)
	n1    int                 // [0,n1) = P1 (index 0 = the query), [n1,len) = P2
	p0    []int               // structured sub-pool
	memo  map[uint32][2]int16
	twins map[[2]int]*obiseq.BioSequence
	dq    []int // distance of every pool member to the query (oracle)
	cwq   []int // 4-mers shared with the query (own model)
	iupac bool  // sequences may hold ambiguity codes: distances by c15lcsI
	lev   map[int]int
}

// finish precomputes the oracle distance and the shared 4-mer count of every member to the query
func (p *c15pool) finish() {
	for i := len(p.dq); i < len(p.seqs); i++ {
		d, _, _ := p.dist(0, i)
		p.dq = append(p.dq, d)
		p.cwq = append(p.cwq, c15common(p.km[0], p.km[i]))
	}
}

func c15newPool(q string) *c15pool {
	p := &c15pool{pos: map[string]int{}, memo: map[uint32][2]int16{}}
	p.add(q)
	p.qobj = obiseq.NewBioSequence("query", []byte(q), "")
	return p
}

func (p *c15pool) add(s string) int {
	if i, ok := p.pos[s]; ok {
		return i
	}
	i := len(p.seqs)
	p.pos[s] = i
	p.seqs = append(p.seqs, s)
	b := obiseq.NewBioSequence("r"+strconv.Itoa(i), []byte(s), "")
	p.bs = append(p.bs, b)
	p.cnt = append(p.cnt, obikmer.Count4Mer(b, nil, nil))
	p.km = append(p.km, c15kmers(s))
	return i
}

// addDup adds s even when it is already present (near-duplicate references in one database)
func (p *c15pool) addDup(s string) int {
	i := len(p.seqs)
	p.seqs = append(p.seqs, s)
	b := obiseq.NewBioSequence("r"+strconv.Itoa(i), []byte(s), "")
	p.bs = append(p.bs, b)
	p.cnt = append(p.cnt, obikmer.Count4Mer(b, nil, nil))
	p.km = append(p.km, c15kmers(s))
	return i
}

func (p *c15pool) dist(a, b int) (d, lcs, ali int) {
	if a > b {
		a, b = b, a
	}
	k := uint32(a)<<16 | uint32(b)
	if v, ok := p.memo[k]; ok {
		return int(v[1] - v[0]), int(v[0]), int(v[1])
	}
	l, al := c15lcs(p.seqs[a], p.seqs[b])
	if p.iupac {
		l, al = c15lcsI(p.seqs[a], p.seqs[b])
	}
	p.memo[k] = [2]int16{int16(l), int16(al)}
	return al - l, l, al
}

func (p *c15pool) twin(i, occ int) *obiseq.BioSequence {
	if p.twins == nil {
		p.twins = map[[2]int]*obiseq.BioSequence{}
	}
	b, ok := p.twins[[2]int{i, occ}]
	if !ok {
		b = obiseq.NewBioSequence(fmt.Sprintf("r%d_%d", i, occ), []byte(p.seqs[i]), "")
		p.twins[[2]int{i, occ}] = b
	}
	return b
}

func (p *c15pool) cw(a, b int) int { return c15common(p.km[a], p.km[b]) }

// byte-wise edit distance of member i to the query, memoised
func c15levMemo(p *c15pool, i int) int {
	if p.lev == nil {
		p.lev = map[int]int{}
	}
	if d, ok := p.lev[i]; ok {
		return d
	}
	d := c15lev(p.seqs[0], p.seqs[i])
	p.lev[i] = d
	return d
}

func c15edits(s string) []string {
	var out []string
	const alpha = "acgt"
	for i := 0; i < len(s); i++ {
		for k := 0; k < 4; k++ {
			if alpha[k] != s[i] {
				out = append(out, s[:i]+alpha[k:k+1]+s[i+1:])
			}
		}
		out = append(out, s[:i]+s[i+1:])
	}
	for i := 0; i <= len(s); i++ {
		for k := 0; k < 4; k++ {
			out = append(out, s[:i]+alpha[k:k+1]+s[i:])
		}
	}
	return out
}

func c15rot(s string, by int) string {
	const alpha = "acgt"
	b := []byte(s)
	for i := range b {
		b[i] = alpha[(strings.IndexByte(alpha, b[i])+by)%4]
	}
	return string(b)
}

func c15foreign(q string) []string {
	L := len(q)
	rep := func(by int) string { return strings.Repeat(c15rot(q, by), 3) }
	return []string{
		c15rot(q, 1),                         // unrelated, same length
		strings.Repeat("t", L+3),             // homopolymer, longer
		q[:L/2+2] + rep(2)[:L+6-(L/2+2)],     // long chimera sharing the head of the query, length L+6
		q[:L/2+1] + rep(3)[:L+5-(L/2+1)],     // long chimera, length L+5
		q[L/2-2:],                            // short chimera: the tail of the query
		rep(3)[:L+7-(L-(L/2-1))] + q[L/2-1:], // long chimera sharing the tail, length L+7
	}
}

func c15buildPool(q string, withP2 bool) *c15pool {
	p := c15newPool(q)
	singles := c15edits(q)
	for _, s := range singles {
		p.add(s)
	}
	for _, s := range c15foreign(q) {
		p.add(s)
	}
	p.n1 = len(p.seqs)
	if withP2 {
		seen := map[string]bool{}
		for _, s := range singles {
			if seen[s] {
				continue
			}
			seen[s] = true
			for _, t := range c15edits(s) {
				p.add(t)
			}
		}
	}
	// structured sub-pool: the query, the foreign sequences, single edits at the first, second, middle
	// and last positions, a few double edits
	L := len(q)
	in := map[int]bool{}
	addp0 := func(s string) {
		i, ok := p.pos[s]
		if !ok {
			if !withP2 {
				return
			}
			panic("c15: p0 member not in pool: " + s)
		}
		if !in[i] {
			in[i] = true
			p.p0 = append(p.p0, i)
		}
	}
	addp0(q)
	for _, s := range c15foreign(q) {
		addp0(s)
	}
	const alpha = "acgt"
	nxt := func(c byte, by int) string {
		k := (strings.IndexByte(alpha, c) + by) % 4
		return alpha[k : k+1]
	}
	positions := []int{0, 1, L / 2, L - 1}
	for _, i := range positions {
		addp0(q[:i] + nxt(q[i], 1) + q[i+1:])
		addp0(q[:i] + nxt(q[i], 2) + q[i+1:])
		addp0(q[:i] + q[i+1:])
		addp0(q[:i] + nxt(q[i], 1) + q[i:])
	}
	addp0(q + nxt(q[L-1], 1))
	addp0(q + nxt(q[L-1], 3))
	if withP2 {
		pairs := [][2]int{{0, 1}, {0, L - 1}, {L / 2, L/2 + 1}, {2, L - 3}}
		for _, pr := range pairs {
			i, j := pr[0], pr[1]
			if i >= j || j >= L {
				continue
			}
			addp0(q[:i] + nxt(q[i], 1) + q[i+1:j] + nxt(q[j], 1) + q[j+1:]) // two substitutions
			addp0(q[:i] + q[i+1:j] + q[j+1:])                               // two deletions
			addp0(q[:i] + nxt(q[i], 2) + q[i:j] + nxt(q[j], 2) + q[j:])     // two insertions
		}
		addp0(nxt(q[0], 1) + nxt(q[0], 2) + q) // two leading insertions
		addp0(q + nxt(q[L-1], 1) + nxt(q[L-1], 2))
	}
	sort.Ints(p.p0)
	p.finish()
	return p
}

// ---------------------------------------------------------------------------------------------
// taxonomies

type c15tree struct {
	name  string
	par   map[int]int
	nodes []int
	taxo  *obitax.Taxonomy
	node  map[int]*obitax.TaxNode
	// naive tables derived from par only
	lcaTab [16][16]int
}

func c15mkTree(name string, edges [][2]int) *c15tree {
	t := &c15tree{name: name, par: map[int]int{}, node: map[int]*obitax.TaxNode{}}
	t.taxo = obitax.NewTaxonomy()
	sn := "scientific name"
	for _, e := range edges {
		t.par[e[0]] = e[1]
		t.nodes = append(t.nodes, e[0])
	}
	depth := func(x int) int {
		d := 0
		for t.par[x] != x {
			x = t.par[x]
			d++
		}
		return d
	}
	ranks := []string{"no rank", "family", "genus", "species"}
	for _, e := range edges {
		if _, err := t.taxo.AddNewTaxa(e[0], e[1], ranks[depth(e[0])%4], false, false); err != nil {
			panic(err)
		}
		nm := fmt.Sprintf("taxon_%d", e[0])
		if err := t.taxo.AddNewName(e[0], &nm, &sn); err != nil {
			panic(err)
		}
	}
	if err := t.taxo.ReindexParent(); err != nil {
		panic(err)
	}
	for _, x := range t.nodes {
		n, err := t.taxo.Taxon(x)
		if err != nil {
			panic(err)
		}
		t.node[x] = n
		for _, y := range t.nodes {
			t.lcaTab[x][y] = t.lca([]int{x, y})
		}
	}
	return t
}

// anc lists x and its ancestors up to the root
func (t *c15tree) anc(x int) []int {
	out := []int{x}
	for t.par[x] != x {
		x = t.par[x]
		out = append(out, x)
	}
	return out
}

func (t *c15tree) isAncOrSelf(a, x int) bool { // a is an ancestor-or-self of x
	for _, y := range t.anc(x) {
		if y == a {
			return true
		}
	}
	return false
}

func (t *c15tree) lca(xs []int) int {
	for _, c := range t.anc(xs[0]) {
		ok := true
		for _, x := range xs[1:] {
			if !t.isAncOrSelf(c, x) {
				ok = false
				break
			}
		}
		if ok {
			return c
		}
	}
	panic("c15: no common ancestor")
}

func c15trees() []*c15tree {
	return []*c15tree{
		// caterpillar: a chain 1-2-3-4 with a leaf hanging at every level
		c15mkTree("caterpillar", [][2]int{{1, 1}, {2, 1}, {10, 1}, {3, 2}, {11, 2}, {4, 3}, {12, 3}}),
		// balanced binary tree of depth 2
		c15mkTree("binary", [][2]int{{1, 1}, {2, 1}, {3, 1}, {4, 2}, {5, 2}, {6, 3}, {7, 3}}),
		// bushy: three children at the root, one deeper lineage
		c15mkTree("bushy", [][2]int{{1, 1}, {2, 1}, {3, 1}, {4, 1}, {5, 2}, {6, 2}, {7, 5}}),
	}
}

// c15guardedSetup runs the construction of the taxonomies the cases are placed on (NewTaxonomy, AddNewTaxa,
// AddNewName, ReindexParent, Taxon, Rank of the tree under test). These calls never fail on the pinned tree; on
// a tree where they return an error, panic or end in log.Fatal that is a verdict on the tree (ok=false: the
// cases that need the taxonomies are skipped), not a failure of the harness.
func c15guardedSetup(r *verifkit.Result, what string, f func()) (ok bool) {
	defer func() {
		if x := recover(); x != nil {
			ok = false
			r.Violate("setup/control-run/taxonomy-construction-fails", fmt.Sprintf("%s: %v", what, x), nil)
		}
	}()
	f()
	return true
}

// c15GoID: number of the calling goroutine (first line of its stack: "goroutine 17 [running]:").
func c15GoID() string {
	b := make([]byte, 64)
	f := strings.Fields(string(b[:runtime.Stack(b, false)]))
	if len(f) > 1 {
		return f[1]
	}
	return "?"
}

// c15net (the three harnesses of this package): in the goroutine of the harness a log.Fatal* becomes a panic that
// the guards around the implementation calls report (a log.Panic* already is one). Raised in a goroutine the
// implementation started (the workers of CLIAssignTaxonomy, IndexReferenceDB, the readers) neither can be caught by
// any guard of the harness and the process ends: the tree under test does that, not the harness. It is recorded as
// a violation, the shard writes what it has found and stops there.
type c15net struct {
	r       *verifkit.Result
	harness string
}

func c15installNet(r *verifkit.Result) {
	n := c15net{r, c15GoID()}
	log.AddHook(n)
	log.StandardLogger().ExitFunc = func(code int) {
		n.end("log.Fatal", fmt.Sprintf("exit(%d)", code))
		panic(fmt.Sprintf("log.Fatal exit(%d)", code))
	}
}

func (n c15net) Levels() []log.Level { return []log.Level{log.PanicLevel} }

func (n c15net) Fire(e *log.Entry) error {
	n.end("log.Panic", e.Message)
	return nil
}

func (n c15net) end(what, msg string) {
	if c15GoID() == n.harness {
		return
	}
	stack := make([]byte, 3000)
	stack = stack[:runtime.Stack(stack, false)]
	n.r.Violate("obitag/"+what+"-in-a-goroutine-of-the-implementation", fmt.Sprintf("%s %q in a goroutine started by the implementation; the shard stops here\n%s", what, msg, stack), nil)
	n.r.Cap("a log.Fatal / log.Panic in a goroutine of the implementation ended a shard: its remaining cases were not run")
	n.r.Write()
	os.Exit(0)
}

// ---------------------------------------------------------------------------------------------
// running the implementation

type c15found struct {
	panicked string
	bests    obiseq.BioSequenceSlice
	maxe     int
	idxs     []int
}

func c15callFind(impl int, q *obiseq.BioSequence, refs obiseq.BioSequenceSlice, cnt []*obikmer.Table4mer) (f c15found) {
	defer func() {
		if e := recover(); e != nil {
			f = c15found{panicked: fmt.Sprint(e)}
		}
	}()
	if impl == 0 {
		b, m, _, _, ix := FindClosests(q, refs, cnt, false)
		return c15found{bests: b, maxe: m, idxs: ix}
	}
	b, m, _, _, ix := obitag2.FindClosests(q, refs, cnt, false)
	return c15found{bests: b, maxe: m, idxs: ix}
}

var c15implName = []string{"FindClosests", "obitag2.FindClosests"}
var c15implPart = []string{"find", "find2"}

type c15env struct {
	r     *verifkit.Result
	trees []*c15tree
	// scratch
	refs obiseq.BioSequenceSlice
	cnt  []*obikmer.Table4mer
	keys []int
	dry  bool // VERIF_C15_DRY=1: count the cases of the space without running them (sizing only)
	vc   map[string]int
}

func (e *c15env) mkcase(part string, p *c15pool, idxs []int, tree int, taxa []int, seqidx int) c15case {
	c := c15case{Part: part, Query: p.seqs[0], Tree: tree, SeqIdx: seqidx}
	for _, i := range idxs {
		c.Refs = append(c.Refs, p.seqs[i])
	}
	c.Taxa = append(c.Taxa, taxa...)
	return c
}

// load builds the database of a case; a pool member that occurs several times (near-duplicate
// references) is represented by distinct sequence objects, as in a real database
func (e *c15env) load(p *c15pool, idxs []int) {
	e.refs = e.refs[:0]
	e.cnt = e.cnt[:0]
	for k, i := range idxs {
		occ := 0
		for _, j := range idxs[:k] {
			if j == i {
				occ++
			}
		}
		b := p.bs[i]
		if occ > 0 {
			b = p.twin(i, occ)
		}
		e.refs = append(e.refs, b)
		e.cnt = append(e.cnt, p.cnt[i])
	}
}

// evalFind runs one search and compares it with the comparison of the query with every reference.
func (e *c15env) evalFind(impl int, p *c15pool, idxs []int) {
	r := e.r
	if e.dry {
		r.Eval(1)
		return
	}
	e.load(p, idxs)
	got := c15callFind(impl, p.bs[0], e.refs, e.cnt)
	r.Eval(1)
	name := c15implName[impl]
	if p.iupac {
		name += "/ambiguous-bases"
	}
	// oracle
	dmin := 1 << 30
	for _, i := range idxs {
		if d := p.dq[i]; d < dmin {
			dmin = d
		}
	}
	nbest := 0
	for _, i := range idxs {
		if d := p.dq[i]; d == dmin {
			nbest++
		}
	}
	if nbest > 1 {
		r.Count("find_ties", 1)
	}
	if dmin <= 1 {
		r.Count("find_best_distance_le1", 1)
	}
	desc := func() string {
		var sb strings.Builder
		fmt.Fprintf(&sb, "%s(query=%s, refs=[", name, p.seqs[0])
		for k, i := range idxs {
			d := p.dq[i]
			fmt.Fprintf(&sb, "%s%d:%s(d=%d,cw=%d)", map[bool]string{true: "", false: " "}[k == 0], k, p.seqs[i], d, p.cwq[i])
		}
		fmt.Fprintf(&sb, "]): got distance=%d bests=%v, want distance=%d bests=[", got.maxe, got.idxs, dmin)
		first := true
		for k, i := range idxs {
			if d := p.dq[i]; d == dmin {
				if !first {
					sb.WriteString(" ")
				}
				first = false
				fmt.Fprintf(&sb, "%d", k)
			}
		}
		sb.WriteString("]")
		return sb.String()
	}
	// sequences with ambiguity codes: what makes the answer wrong is part of the key. missing = position
	// in idxs of a best reference that was not returned (-1: any reference at the minimal distance)
	cause := func() (why string) {
		if !p.iupac {
			return ""
		}
		// (the replay below calls obikmer / obiutils of the tree under test)
		defer func() {
			if x := recover(); x != nil {
				why = ":other"
			}
		}()
		// Replay the scan of FindClosests in its own order (decreasing number of shared 4-mers, ties as
		// obiutils.IntOrder leaves them) under two switches: with / without the 4-mer cut-off (stop at
		// the first candidate sharing fewer than len(query)-3-4*best 4-mers), and with the distances the
		// code uses (IUPAC-aware LCS while the best distance is unknown or above 1, the byte-wise
		// one-difference test afterwards) / with the IUPAC-aware distance throughout. The real answer is
		// attributed to the switch(es) that reproduce it.
		cw := make([]int, len(idxs))
		for k, i := range idxs {
			cw[k] = obikmer.Common4Mer(p.cnt[0], p.cnt[i])
		}
		order := obiutils.Reverse(obiutils.IntOrder(cw), true)
		lq := len(p.seqs[0])
		replay := func(cutoff, bytewise bool) bool {
			maxe, wordmin := -1, 0
			var bests []int
			for _, k := range order {
				i := idxs[k]
				if cutoff && cw[k] < wordmin {
					break
				}
				score, ok := 0, false
				if bytewise && (maxe == 0 || maxe == 1) {
					if l := c15levMemo(p, i); l <= 1 {
						score, ok = l, true
					}
				} else if d := p.dq[i]; maxe == -1 || d <= maxe {
					score, ok = d, true
				}
				if !ok {
					continue
				}
				if maxe == -1 || score < maxe {
					maxe, bests = score, bests[:0]
					wordmin = max(0, lq-3-4*maxe)
				}
				if score == maxe {
					bests = append(bests, k)
				}
			}
			if maxe != got.maxe || len(bests) != len(got.idxs) {
				return false
			}
			in := map[int]bool{}
			for _, k := range got.idxs {
				in[k] = true
			}
			for _, k := range bests {
				if !in[k] {
					return false
				}
			}
			return true
		}
		byTest, byCut := replay(false, true), replay(true, false)
		switch {
		case byTest && !byCut:
			return ":one-difference-test-is-byte-wise"
		case byCut && !byTest:
			return ":4-mer-cut-off-ignores-ambiguous-bases"
		case byCut && byTest:
			return ":4-mer-cut-off-or-byte-wise-one-difference-test"
		case replay(true, true):
			return ":4-mer-cut-off-and-byte-wise-one-difference-test"
		}
		return ":other"
	}
	viol := func(key string, extra string) {
		if e.vc == nil {
			e.vc = map[string]int{}
		}
		e.vc[key]++
		if e.vc[key] > 3 {
			r.Violate(key, "", nil) // counted; only the first records of a key are kept
			return
		}
		r.Violate(key, desc()+extra, e.mkcase(c15implPart[impl], p, idxs, 0, nil, 0))
	}
	if got.panicked != "" {
		viol(name+"/panic", " panic: "+got.panicked)
		return
	}
	if got.maxe != dmin {
		cls := "wrong-distance"
		if got.maxe > dmin {
			cls = "missed-best"
			if p.iupac {
				cls = "missed-reference" // one class for a missed best and a missed tie: the cause is in the key
			}
		}
		viol(name+"/"+cls+cause(), "")
		return
	}
	// set of returned positions
	seen := make([]int, len(idxs))
	bad := len(got.bests) != len(got.idxs)
	for k, ix := range got.idxs {
		if ix < 0 || ix >= len(idxs) {
			bad = true
			continue
		}
		seen[ix]++
		if !bad && got.bests[k] != e.refs[ix] {
			bad = true
		}
	}
	if bad {
		viol(name+"/inconsistent-result", " (bests and bestidxs disagree)")
		return
	}
	lq := len(p.seqs[0])
	for k, i := range idxs {
		d := p.dq[i]
		switch {
		case d == dmin && seen[k] == 0:
			// a tied best reference is missing: classify
			if p.iupac {
				viol(name+"/missed-reference"+cause(), "")
				return
			}
			cls := "other"
			lm := len(p.seqs[i])
			cwm := p.cwq[i]
			sound := max(lq, lm) - 3 - 4*dmin // a reference at distance dmin shares at least that many 4-mers
			for kk, j := range idxs {
				if seen[kk] > 0 {
					lb := len(p.seqs[j])
					if lb > lq && lb > lm && cwm >= sound && cwm < lb-3-4*dmin {
						cls = "current-best-longer-than-query"
					}
				}
			}
			viol(name+"/missed-tie:"+cls, "")
			return
		case d != dmin && seen[k] > 0:
			viol(name+"/spurious-best"+cause(), "")
			return
		case seen[k] > 1:
			viol(name+"/duplicated-best", "")
			return
		}
	}
}

// precondition of the suspected defect, counted to show that the space contains it
func (e *c15env) countSuspect(p *c15pool, idxs []int) {
	lq := len(p.seqs[0])
	dmin := 1 << 30
	for _, i := range idxs {
		if d := p.dq[i]; d < dmin {
			dmin = d
		}
	}
	longer, lowtie := false, false
	for _, i := range idxs {
		d := p.dq[i]
		if d != dmin {
			continue
		}
		if len(p.seqs[i]) > lq {
			longer = true
		}
	}
	if !longer {
		return
	}
	e.r.Count("find_best_longer_than_query", 1)
	for _, i := range idxs {
		d := p.dq[i]
		if d == dmin && len(p.seqs[i]) <= lq && p.cwq[i] < lq+1-3-4*dmin {
			lowtie = true
		}
	}
	if lowtie {
		e.r.Count("find_longer_best_and_low_kmer_tie", 1)
	}
}

// evalIndex runs IndexSequence on reference seqidx of the database and compares every recorded distance
// (and the step function the index represents) with naive LCAs.
func (e *c15env) evalIndex(p *c15pool, idxs []int, ti int, taxa []int, s int) {
	r := e.r
	if e.dry {
		r.Eval(1)
		return
	}
	if ti >= len(e.trees) {
		return // the taxonomies could not be built (reported once as setup/control-run/...)
	}
	t := e.trees[ti]
	site := "IndexSequence"
	if p.iupac {
		site += "/ambiguous-bases"
	}
	e.load(p, idxs)
	set := make(obitax.TaxonSet, len(idxs))
	for k := range idxs {
		set[k] = t.node[taxa[k]]
	}
	var idx map[int]string
	var panicked string
	func() {
		defer func() {
			if x := recover(); x != nil {
				panicked = fmt.Sprint(x)
			}
		}()
		kmers := e.cnt
		idx = obirefidx.IndexSequence(s, e.refs, &kmers, &set, t.taxo)
	}()
	r.Eval(1)
	desc := func() string {
		var sb strings.Builder
		fmt.Fprintf(&sb, "IndexSequence(seqidx=%d, tree=%s, refs=[", s, t.name)
		for k, i := range idxs {
			d, _, _ := p.dist(idxs[s], i)
			fmt.Fprintf(&sb, " %d:%s(taxid=%d,d=%d,cw=%d)", k, p.seqs[i], taxa[k], d, p.cw(idxs[s], i))
		}
		keys := make([]int, 0, len(idx))
		for k := range idx {
			keys = append(keys, k)
		}
		sort.Ints(keys)
		sb.WriteString(" ]) = {")
		for _, k := range keys {
			fmt.Fprintf(&sb, " %d:%s", k, idx[k])
		}
		sb.WriteString(" }")
		return sb.String()
	}
	if panicked != "" {
		r.Violate(site+"/panic", desc()+" panic: "+panicked, e.mkcase("index", p, idxs, ti, taxa, s))
		return
	}
	lseq := len(p.seqs[idxs[s]])
	// want[d] = LCA of the taxa of all references within distance d of reference s (s included)
	var ds [8]int
	for k, i := range idxs {
		ds[k], _, _ = p.dist(idxs[s], i)
	}
	ds[s] = 0
	var want [64]int
	cur := taxa[s]
	for d := 0; d < len(want); d++ {
		for k := range idxs {
			if ds[k] == d {
				cur = t.lcaTab[cur][taxa[k]]
			}
		}
		want[d] = cur
	}
	if lseq > 0 && want[lseq-1] != want[0] {
		r.Count("index_expected_multi_level", 1) // by the naive LCAs: a fact about the case, not about the answer
	}
	keys := e.keys[:0]
	for k, v := range idx {
		keys = append(keys, k)
		at := strings.IndexByte(v, '@')
		id, err := -1, error(nil)
		if at > 0 {
			id, err = strconv.Atoi(v[:at])
		}
		if at <= 0 || err != nil || strings.Count(v, "@") != 2 || k < 0 || k >= len(want) {
			r.Violate(site+"/malformed-entry", desc(), e.mkcase("index", p, idxs, ti, taxa, s))
			return
		}
		if w := want[k]; id != w {
			r.Violate(site+"/wrong-lca", desc()+fmt.Sprintf(": distance %d is recorded with taxid %d, the LCA of the references within %d is %d", k, id, k, w),
				e.mkcase("index", p, idxs, ti, taxa, s))
			return
		}
	}
	e.keys = keys
	if len(keys) > 1 {
		r.Count("index_multi_level", 1)
	}
	// the step function: the entry applicable to distance d (largest recorded distance <= d) must be
	// the LCA of the references within d, for every d below the length of the sequence
	sort.Ints(keys)
	for d := 0; d < lseq; d++ {
		k := sort.SearchInts(keys, d+1) - 1
		w := want[d]
		if k < 0 {
			r.Violate(site+"/missing-distance", desc()+fmt.Sprintf(": no entry applies to distance %d (LCA %d)", d, w), e.mkcase("index", p, idxs, ti, taxa, s))
			return
		}
		v := idx[keys[k]]
		id, _ := strconv.Atoi(v[:strings.IndexByte(v, '@')])
		if id != w {
			r.Violate(site+"/missing-distance", desc()+fmt.Sprintf(": the entry applying to distance %d gives taxid %d, the LCA of the references within %d is %d", d, id, d, w),
				e.mkcase("index", p, idxs, ti, taxa, s))
			return
		}
	}
}

// evalIdentify runs Identify (fresh, un-indexed references) and demands that the assigned taxon is an
// ancestor-or-self of the taxon of every reference at the minimal distance.
func (e *c15env) evalIdentify(p *c15pool, idxs []int, ti int, taxa []int) {
	r := e.r
	if e.dry {
		r.Eval(1)
		return
	}
	if ti >= len(e.trees) {
		return // the taxonomies could not be built (reported once as setup/control-run/...)
	}
	t := e.trees[ti]
	e.load(p, idxs)
	set := make(obitax.TaxonSet, len(idxs))
	for k := range idxs {
		set[k] = t.node[taxa[k]]
		e.refs[k].DeleteAttribute("obitag_ref_index")
	}
	var panicked string
	got := 0
	func() {
		defer func() {
			if x := recover(); x != nil {
				panicked = fmt.Sprint(x)
			}
		}()
		Identify(p.qobj, e.refs, e.cnt, set, t.taxo, false)
		got = p.qobj.Taxid()
	}()
	for k := range idxs {
		e.refs[k].DeleteAttribute("obitag_ref_index")
	}
	r.Eval(1)
	dmin := 1 << 30
	for _, i := range idxs {
		if d := p.dq[i]; d < dmin {
			dmin = d
		}
	}
	desc := func() string {
		var sb strings.Builder
		fmt.Fprintf(&sb, "Identify(query=%s, tree=%s, refs=[", p.seqs[0], t.name)
		for k, i := range idxs {
			d := p.dq[i]
			fmt.Fprintf(&sb, " %d:%s(taxid=%d,d=%d,cw=%d)", k, p.seqs[i], taxa[k], d, p.cwq[i])
		}
		sb.WriteString(" ])")
		return sb.String()
	}
	if panicked != "" {
		r.Violate("Identify/panic", desc()+" panic: "+panicked, e.mkcase("identify", p, idxs, ti, taxa, 0))
		return
	}
	var bestTaxa []int
	for k, i := range idxs {
		if p.dq[i] == dmin {
			bestTaxa = append(bestTaxa, taxa[k])
		}
	}
	if len(bestTaxa) > 0 && t.lca(bestTaxa) != 1 {
		r.Count("identify_best_lca_below_root", 1) // a fact about the case, not about the answer
	}
	if _, ok := t.par[got]; !ok {
		r.Violate("Identify/unknown-taxon", desc()+fmt.Sprintf(" assigns taxid %d which is not in the taxonomy", got), e.mkcase("identify", p, idxs, ti, taxa, 0))
		return
	}
	if got != 1 {
		r.Count("identify_below_root", 1)
	}
	for k, i := range idxs {
		if d := p.dq[i]; d == dmin && t.lcaTab[got][taxa[k]] != got {
			r.Violate("Identify/not-ancestor-of-best", desc()+fmt.Sprintf(" assigns taxid %d, not an ancestor-or-self of taxid %d of best reference %d (distance %d)", got, taxa[k], k, dmin),
				e.mkcase("identify", p, idxs, ti, taxa, 0))
			return
		}
	}
}

// forAssign calls f with every assignment of n references to the nodes of t
func c15forAssign(nodes []int, n int, f func(taxa []int)) {
	taxa := make([]int, n)
	var rec func(k int)
	rec = func(k int) {
		if k == n {
			f(taxa)
			return
		}
		for _, x := range nodes {
			taxa[k] = x
			rec(k + 1)
		}
	}
	rec(0)
}

var c15queries = []string{
	"acgtgcat", "aaccggtt",
	"gattacagc",
	"acgtacgtac", "ctgaatcgga",
	"ttgacgcatag",
	"atatatatatat", "gctagctaacgt",
	"cagtcgatcgtta", "acacgtgtcagca",
	"tgcatgcaagtcca", "ggatccatgcaatc",
}

var c15lineage = []int{4, 3, 2, 1}

// evalMatchIndex: index = keys[j] -> lineage[chain[j]]; see part A5
func (e *c15env) evalMatchIndex(keys, chain []int, d int) {
	r := e.r
	idx := map[int]string{}
	for j, kk := range keys {
		idx[kk] = fmt.Sprintf("%d@taxon_%d@rank", c15lineage[chain[j]], c15lineage[chain[j]])
	}
	reach := 0
	for j, kk := range keys {
		if kk <= d {
			reach = chain[j]
		}
	}
	for impl := 0; impl < 2; impl++ {
		got, panicked := 0, ""
		func() {
			defer func() {
				if x := recover(); x != nil {
					panicked = fmt.Sprint(x)
				}
			}()
			if impl == 0 {
				got, _, _ = MatchDistanceIndex(d, idx)
			} else {
				got, _, _ = obitag2.MatchDistanceIndex(d, idx)
			}
		}()
		r.Eval(1)
		name := []string{"MatchDistanceIndex", "obitag2.MatchDistanceIndex"}[impl]
		where := "between-keys"
		if _, ok := idx[d]; ok {
			where = "distance-equal-to-a-key"
		} else if d > keys[len(keys)-1] {
			where = "beyond-the-last-key"
		}
		rc := c15case{Part: "matchidx", Keys: keys, Taxa: chain, SeqIdx: d}
		if panicked != "" {
			r.Violate(name+"/panic:"+where, fmt.Sprintf("%s(%d, %v): %s", name, d, idx, panicked), rc)
			continue
		}
		pos := -1
		for j, x := range c15lineage {
			if x == got {
				pos = j
			}
		}
		if pos < reach {
			r.Violate(name+"/not-ancestor-of-the-entry-in-reach:"+where, fmt.Sprintf("%s(%d, %v) = taxid %d; the references within %d have LCA %d (lineage 4<3<2<1)", name, d, idx, got, d, c15lineage[reach]), rc)
		} else if pos > reach {
			r.Count("match_distance_index_vaguer_than_the_entry_in_reach", 1)
		}
	}
}

// evalManyCandidates: n copies of a reference at distance 2 sharing every 4-mer of the query, then one
// reference at distance 1 sharing fewer; see part A6
func (e *c15env) evalManyCandidates(n int) {
	r := e.r
	q := "acgtgcatggatcc"
	far, near := q+"tt", q[:7]+"a"+q[8:]
	qs := obiseq.NewBioSequence("query", []byte(q), "")
	refs := obiseq.MakeBioSequenceSlice()
	var cnt []*obikmer.Table4mer
	for i := 0; i <= n; i++ {
		s := far
		if i == n {
			s = near
		}
		b := obiseq.NewBioSequence("r"+strconv.Itoa(i), []byte(s), "")
		refs = append(refs, b)
		cnt = append(cnt, obikmer.Count4Mer(b, nil, nil))
	}
	for impl := 0; impl < 2; impl++ {
		got := c15callFind(impl, qs, refs, cnt)
		r.Eval(1)
		rc := c15case{Part: "manycand", SeqIdx: n}
		if got.panicked != "" {
			r.Violate(c15implName[impl]+"/panic", fmt.Sprintf("%d references: %s", n+1, got.panicked), rc)
		} else if got.maxe != 1 || len(got.idxs) != 1 || got.idxs[0] != n {
			r.Violate(c15implName[impl]+"/missed-best:more-than-1001-candidates", fmt.Sprintf("%s(query=%s, refs=[%d x %s (d=2, every 4-mer of the query), %s (d=1)]): got distance=%d bests=%d references, want distance=1 bests=[%d]", c15implName[impl], q, n, far, near, got.maxe, len(got.idxs), n), rc)
		}
	}
}

func TestVerifC15(t *testing.T) {
	log.SetOutput(io.Discard)
	r := verifkit.New("C15")
	defer r.Write()
	c15installNet(r)
	e := &c15env{r: r, dry: os.Getenv("VERIF_C15_DRY") == "1"}
	if !c15guardedSetup(r, "building the three 7-node taxonomies (caterpillar, binary, bushy)", func() { e.trees = c15trees() }) {
		e.trees = nil // the parts placed on a taxonomy (IndexSequence, Identify) are skipped
	}
	if e.dry {
		r.Cap("dry run: cases counted, not executed")
	}

	if rc := r.ReplayCase(); rc != nil {
		var c c15case
		if err := json.Unmarshal(rc, &c); err != nil {
			t.Fatal(err)
		}
		switch c.Part {
		case "matchidx":
			e.evalMatchIndex(c.Keys, c.Taxa, c.SeqIdx)
			return
		case "manycand":
			e.evalManyCandidates(c.SeqIdx)
			return
		}
		p := c15newPool(c.Query)
		if c.Query == "" { // index cases do not need a query
			p = c15newPool(c.Refs[0])
		}
		if strings.Trim(c.Query+strings.Join(c.Refs, ""), "acgt") != "" {
			p.iupac = true
		}
		idxs := make([]int, len(c.Refs))
		for k, s := range c.Refs {
			idxs[k] = p.addDup(s)
		}
		p.finish()
		switch c.Part {
		case "find":
			e.evalFind(0, p, idxs)
		case "find2":
			e.evalFind(1, p, idxs)
		case "index":
			e.evalIndex(p, idxs, c.Tree, c.Taxa, c.SeqIdx)
		case "identify":
			e.evalIdentify(p, idxs, c.Tree, c.Taxa)
		default:
			t.Fatalf("unknown part %q", c.Part)
		}
		return
	}

	fullTier := verifkit.Thorough()
	r.Bound("queries", c15queries)
	r.Bound("P1", "the query + all single edits (substitution/deletion/insertion at every position) + 6 foreign sequences")
	r.Bound("P2", "all double edits of the query")
	r.Bound("P0", "sub-pool: query, foreign sequences, single edits at positions 0,1,L/2,L-1, 14 double edits")
	r.Bound("trees", "caterpillar, binary, bushy (7 nodes each)")
	r.Bound("database_sizes", "1..3 references (IndexSequence: 2..4)")
	r.Bound("short", "queries and references over {a,c}, length 1..5, all ordered pairs")

	leaves := []int{10, 11, 12, 4} // caterpillar: one node per LCA level of the lineage 1-2-3-4
	k := 0                         // work item counter
	var scratch [4]int
	timed := func(name string, f func()) {
		t0, ev0 := time.Now(), r.Evaluations
		f()
		r.Count("ms_"+name, time.Since(t0).Milliseconds())
		r.Count("evals_"+name, r.Evaluations-ev0)
	}
	// ---- part A0: sequences too short to have (many) 4-mers: every query over {a,c} of length 1..5
	// against every ordered pair of such references (no k-mer pruning is possible here; exercises the
	// tie handling and the one-difference shortcut on very short sequences)
	timed("find_short", func() {
		short := verifkit.AllStrings("ac", 1, 5)
		for _, q := range short {
			if r.Mine(k) {
				p := c15newPool(q)
				for _, s := range short {
					p.addDup(s)
				}
				p.finish()
				for impl := 0; impl < 2; impl++ {
					for a := 1; a <= len(short); a++ {
						for b := 1; b <= len(short); b++ {
							scratch[0], scratch[1] = a, b
							e.evalFind(impl, p, scratch[:2])
						}
					}
				}
			}
			k++
		}
	})
	// ---- part A4: ambiguity codes. The LCS kernel matches IUPAC-compatible symbols, the 4-mer tables
	// count every code as 'a', the one-difference test compares bytes. (a) queries = a base sequence with
	// 'n' at every position and every pair of positions, and every other code (r y s w k m b d h v) at
	// every position; databases = every ordered pair of P1(base) (plain references). (b) the plain base
	// as the query; databases = every ordered pair {ambiguous variant of the base, member of P1(base)}.
	timed("find_iupac", func() {
		bases := []string{"tgcatgcaagtcca"}
		if fullTier {
			bases = append(bases, "gctagctaacgt", "acgtgcat")
		}
		for _, q0 := range bases {
			// quick: 'n' at every position and pair of positions, the other codes at positions 0, 1,
			// L/2 and L-1; thorough: every code at every position
			var variants []string
			for i := 0; i < len(q0); i++ {
				for _, c := range "nryswkmbdhv" {
					if c == 'n' || fullTier || i <= 1 || i == len(q0)/2 || i == len(q0)-1 {
						variants = append(variants, q0[:i]+string(c)+q0[i+1:])
					}
				}
				for j := i + 1; j < len(q0); j++ {
					variants = append(variants, q0[:i]+"n"+q0[i+1:j]+"n"+q0[j+1:])
				}
			}
			plain := c15buildPool(q0, true)
			// plain references: P1(base) + the double edits of P0(base) (a reference at distance 2 scanned
			// first is what lets the 4-mer cut-off drop a closer reference on its own)
			refs := append([]string{}, plain.seqs[:plain.n1]...)
			for _, i := range plain.p0 {
				if i >= plain.n1 {
					refs = append(refs, plain.seqs[i])
				}
			}
			// (a) ambiguous query, plain references
			for _, qa := range variants {
				if r.Mine(k) {
					p := c15newPool(qa)
					p.iupac = true
					for _, s := range refs {
						p.addDup(s)
					}
					p.finish()
					r.State("iupac-query:" + qa)
					n := len(p.seqs)
					for impl := 0; impl < 2; impl++ {
						for a := 1; a < n; a++ {
							// quick, obitag2 (a near copy): the first member among the query, its
							// substitutions and the foreign sequences only
							if impl == 1 && !fullTier && len(p.seqs[a]) != len(qa) {
								continue
							}
							for b := 1; b < n; b++ {
								if a == b {
									continue
								}
								scratch[0], scratch[1] = a, b
								e.evalFind(impl, p, scratch[:2])
								if p.dq[a] != c15levMemo(p, a) || p.dq[b] != c15levMemo(p, b) {
									r.Count("find_iupac_match_through_an_ambiguity_code", 1)
								}
							}
						}
					}
				}
				k++
			}
			// (b) plain query, one ambiguous reference
			if r.Mine(k) {
				p := c15newPool(q0)
				p.iupac = true
				for _, s := range refs[1:] {
					p.addDup(s)
				}
				np := len(p.seqs)
				for _, s := range variants {
					p.addDup(s)
				}
				p.finish()
				for impl := 0; impl < 2; impl++ {
					for a := np; a < len(p.seqs); a++ {
						for b := 1; b < np; b++ {
							scratch[0], scratch[1] = a, b
							e.evalFind(impl, p, scratch[:2])
							scratch[0], scratch[1] = b, a
							e.evalFind(impl, p, scratch[:2])
						}
					}
				}
			}
			k++
			// (c) IndexSequence: databases {ambiguous variant of the base, two members of a sub-pool of
			// P0(base)}, every assignment to one node per LCA level of the caterpillar, every member indexed
			var sub []int
			for j := 0; j < len(plain.p0); j += 4 {
				sub = append(sub, plain.p0[j])
			}
			for _, va := range variants {
				if !fullTier && strings.Trim(va, "acgtn") != "" {
					continue // quick: 'n' only
				}
				if r.Mine(k) {
					p := c15newPool(q0)
					p.iupac = true
					for _, i := range sub {
						p.addDup(plain.seqs[i])
					}
					v := p.addDup(va)
					p.finish()
					for a := 1; a < v; a++ {
						for b := a; b < v; b++ {
							scratch[0], scratch[1], scratch[2] = v, a, b
							c15forAssign(leaves, 3, func(taxa []int) {
								for s := 0; s < 3; s++ {
									e.evalIndex(p, scratch[:3], 0, taxa, s)
								}
							})
						}
					}
				}
				k++
			}
			if r.Expired() {
				return
			}
		}
	})
	// ---- part A5: MatchDistanceIndex (obitag and its copy in obitag2) on every index over a lineage
	// 4 < 3 < 2 < 1: recorded distances = every subset of {0..5} holding 0, taxa = every strictly
	// ascending sub-chain of the lineage, every distance 0..7 (equal to a key, between keys, beyond the
	// last key). The taxon returned must be an ancestor-or-self of the entry in reach (largest recorded
	// distance <= d): the LCA of the references within d.
	timed("match_distance_index", func() {
		if !r.Mine(k) {
			k++
			return
		}
		k++
		for mask := 0; mask < 32; mask++ {
			keys := []int{0}
			for b := 0; b < 5; b++ {
				if mask&(1<<b) != 0 {
					keys = append(keys, b+1)
				}
			}
			if len(keys) > len(c15lineage) {
				continue
			}
			for cm := 1; cm < 16; cm++ {
				var chain []int
				for b := 0; b < 4; b++ {
					if cm&(1<<b) != 0 {
						chain = append(chain, b)
					}
				}
				if len(chain) != len(keys) {
					continue
				}
				for d := 0; d <= 7; d++ {
					e.evalMatchIndex(keys, chain, d)
				}
			}
		}
	})
	// ---- part A6: more candidates than any fixed cap: 1000 and 1001 copies of a reference at distance 2
	// sharing every 4-mer of the query, then one reference at distance 1 sharing fewer
	timed("find_many_candidates", func() {
		if !r.Mine(k) {
			k++
			return
		}
		k++
		for _, n := range []int{1000, 1001} {
			e.evalManyCandidates(n)
		}
	})
	if os.Getenv("VERIF_C15_ONLY") == "front" { // development aid: parts A0 and A4 only
		r.Cap("VERIF_C15_ONLY=front: only the short-sequence and ambiguity-code parts were run")
		return
	}
	// The thorough tier first runs the quick scope on every query (pass 0), then the wider scope
	// (pass 1, a superset): a run cut by the deadline has still covered every query.
	passes := []bool{false}
	if fullTier {
		passes = []bool{false, true}
	}
	pools := make([]*c15pool, len(c15queries))
	for pass, thorough := range passes {
		for qi, q := range c15queries {
			if r.Expired() {
				return
			}
			if pools[qi] == nil {
				pools[qi] = c15buildPool(q, true)
			}
			p := pools[qi]
			n1, n := p.n1, len(p.seqs)
			if pass == 0 {
				if r.Shard == 0 {
					r.Count("pool_P1", int64(n1))
					r.Count("pool_P2", int64(n-n1))
					r.Count("pool_P0", int64(len(p.p0)))
				}
				if qi == 0 {
					r.Sample(c15case{Part: "find", Query: q, Refs: []string{p.seqs[1], p.seqs[n1-1], p.seqs[n-1]}})
					r.Sample(c15case{Part: "index", Query: q, Refs: []string{q, p.seqs[p.p0[3]], p.seqs[p.p0[len(p.p0)-1]]}, Taxa: []int{4, 12, 10}})
				}
				for i := 0; i < n; i++ {
					r.State("ref:" + q + "/" + p.seqs[i])
				}
			}

			// ---- part A: FindClosests / obitag2.FindClosests ----
			timed("find", func() {
				for impl := 0; impl < 2; impl++ {
					// A1: every single-reference database of P1 u P2
					if r.Mine(k) {
						for i := 0; i < n; i++ {
							scratch[0] = i
							e.evalFind(impl, p, scratch[:1])
						}
					}
					k++
					// A2: every ordered pair (a,b) with a in P1, b in P1 u P2, both orders (quick, obitag2:
					// b in P1); thorough, queries up to length 11: a in P1 u P2 as well
					amax, bmax := n1, n
					if thorough && len(q) <= 11 {
						amax = n
					}
					if !thorough && impl == 1 {
						bmax = n1 // quick: obitag2 (a near copy of the obitag search) only on P1 x P1
					}
					for a := 0; a < amax; a++ {
						if r.Mine(k) {
							for b := a; b < bmax; b++ {
								scratch[0], scratch[1] = a, b
								e.evalFind(impl, p, scratch[:2])
								if impl == 0 {
									e.countSuspect(p, scratch[:2])
								}
								if a != b {
									scratch[0], scratch[1] = b, a
									e.evalFind(impl, p, scratch[:2])
								}
							}
							if r.Expired() {
								return
							}
						}
						k++
					}
					// A3: every triple a<=b<=c of P1, in all orders when two members share the same number
					// of 4-mers with the query (otherwise the scan order does not depend on the input
					// order); thorough (obitag only): c ranges over P1 u P2
					cmax := n1
					if thorough && impl == 0 {
						cmax = n
					}
					for a := 0; a < n1; a++ {
						if r.Mine(k) {
							for b := a; b < n1; b++ {
								for c := b; c < cmax; c++ {
									scratch[0], scratch[1], scratch[2] = a, b, c
									e.evalFind(impl, p, scratch[:3])
									wa, wb, wc := p.cwq[a], p.cwq[b], p.cwq[c]
									if wa == wb || wb == wc || wa == wc {
										for _, pm := range [][3]int{{a, c, b}, {b, a, c}, {b, c, a}, {c, a, b}, {c, b, a}} {
											if pm == [3]int{a, b, c} {
												continue
											}
											scratch[0], scratch[1], scratch[2] = pm[0], pm[1], pm[2]
											e.evalFind(impl, p, scratch[:3])
										}
									}
								}
								if r.Expired() {
									return
								}
							}
						}
						k++
					}
				}
			})

			if len(e.trees) == 0 {
				continue // parts B and C need the taxonomies
			}
			// ---- part B: IndexSequence ----
			ntrees := 1 // quick: caterpillar only
			if thorough {
				ntrees = len(e.trees)
			}
			timed("index", func() {
				// B1: every pair a<=b of P1 x trees x every assignment to the 7 nodes x both indexed references
				for a := 0; a < n1; a++ {
					if r.Mine(k) {
						for b := a; b < n1; b++ {
							scratch[0], scratch[1] = a, b
							for ti := 0; ti < ntrees; ti++ {
								c15forAssign(e.trees[ti].nodes, 2, func(taxa []int) {
									e.evalIndex(p, scratch[:2], ti, taxa, 0)
									e.evalIndex(p, scratch[:2], ti, taxa, 1)
								})
							}
						}
						if r.Expired() {
							return
						}
					}
					k++
				}
				// B2: every triple a<=b<=c of P0 x every indexed reference; quick: caterpillar, every
				// assignment to one node per LCA level {10,11,12,4}; thorough: the three trees, every
				// assignment to the 7 nodes
				for ia, a := range p.p0 {
					if r.Mine(k) {
						for ib := ia; ib < len(p.p0); ib++ {
							for ic := ib; ic < len(p.p0); ic++ {
								scratch[0], scratch[1], scratch[2] = a, p.p0[ib], p.p0[ic]
								for ti := 0; ti < ntrees; ti++ {
									nodes := e.trees[ti].nodes
									if !thorough {
										nodes = leaves
									}
									c15forAssign(nodes, 3, func(taxa []int) {
										for s := 0; s < 3; s++ {
											e.evalIndex(p, scratch[:3], ti, taxa, s)
										}
									})
								}
							}
							if r.Expired() {
								return
							}
						}
					}
					k++
				}
				// B3: databases of 4 = the query at the deepest node of the caterpillar + every triple
				// a<=b<=c of P0 (thorough: of P1), each placed at every LCA level of the query's lineage;
				// the query is the indexed reference
				b3 := p.p0
				if thorough {
					b3 = make([]int, n1)
					for i := range b3 {
						b3[i] = i
					}
				}
				for ia := range b3 {
					if r.Mine(k) {
						for ib := ia; ib < len(b3); ib++ {
							for ic := ib; ic < len(b3); ic++ {
								scratch[0], scratch[1], scratch[2], scratch[3] = 0, b3[ia], b3[ib], b3[ic]
								c15forAssign(leaves, 3, func(tx []int) {
									taxa := [4]int{4, tx[0], tx[1], tx[2]}
									e.evalIndex(p, scratch[:4], 0, taxa[:], 0)
								})
							}
							if r.Expired() {
								return
							}
						}
					}
					k++
				}
			})

			// ---- part C: Identify ----
			timed("identify", func() {
				// C1: every pair a<=b of P1 x trees x every assignment to the 7 nodes
				for a := 0; a < n1; a++ {
					if r.Mine(k) {
						for b := a; b < n1; b++ {
							scratch[0], scratch[1] = a, b
							for ti := 0; ti < ntrees; ti++ {
								c15forAssign(e.trees[ti].nodes, 2, func(taxa []int) {
									e.evalIdentify(p, scratch[:2], ti, taxa)
								})
							}
						}
						if r.Expired() {
							return
						}
					}
					k++
				}
				// C2: every triple of P0; quick: caterpillar, one node per LCA level; thorough: three
				// trees, all 7 nodes
				for ia, a := range p.p0 {
					if r.Mine(k) {
						for ib := ia; ib < len(p.p0); ib++ {
							for ic := ib; ic < len(p.p0); ic++ {
								scratch[0], scratch[1], scratch[2] = a, p.p0[ib], p.p0[ic]
								for ti := 0; ti < ntrees; ti++ {
									nodes := e.trees[ti].nodes
									if !thorough {
										nodes = leaves
									}
									c15forAssign(nodes, 3, func(taxa []int) {
										e.evalIdentify(p, scratch[:3], ti, taxa)
									})
								}
							}
							if r.Expired() {
								return
							}
						}
					}
					k++
				}
			})
		}
	}
	r.RequireNonVacuous("find_ties")
	r.RequireNonVacuous("find_iupac_match_through_an_ambiguity_code")
	r.RequireNonVacuous("find_longer_best_and_low_kmer_tie")
	// (index_multi_level and identify_below_root count what the implementation answers: counters only)
	r.RequireNonVacuous("index_expected_multi_level")
	r.RequireNonVacuous("identify_best_lca_below_root")
}
