//go:build verif

package obitag

// C15 (third harness) — the command-level entry points of obirefidx / obireffamidx and the
// obirefidx -> obitag pipeline, driven the way the `main` functions drive them: the REAL option parser
// (obioptions.GenerateOptionParser with the command's OptionSet: -t <taxdump directory>, --max-cpu /
// --force-one-cpu, --batch-size, -o, -R, --save-db), the taxonomy loaded from an NCBI dump written on
// disk, the sequences read from and written to FASTA files with JSON title lines.
//
//   refidx   obirefidx.IndexReferenceDB on databases of 14 references (two work chunks of 10 and 4 handed
//            to the indexing goroutines) with zero, one or two references whose taxid is unknown to
//            the taxonomy at every position (the database is compacted before the 4-mer tables are
//            built), identical sequences carrying different taxa, a reference shorter than a 4-mer and
//            one longer than all others x 12 rotations of the taxon assignment x {1, 2, 4} workers:
//            every reference the taxonomy knows must come out with an index that maps each recorded
//            distance to the LCA of the references within that distance.
//   slice    obirefidx.MakeIndexingSliceWorker (the family-level indexer of obireffamidx): the slice it
//            indexes is a sub-list of the database in another order, the 4-mer tables are reached
//            through an id attribute: every rotation x stride x size of the sub-list x 12 taxon
//            rotations x {1, 4} workers.
//   family   obirefidx.IndexFamilyDB as a whole: the index stored under reffamidx_in must be the index of
//            the reference among the references of its family, the obitag_ref_index of a cluster head
//            the index among the cluster heads.
//   pipeline obitag (CLIRefDB + CLIAssignTaxonomy + CLISaveRefetenceDB) on the same database given
//            (A) without indices, with --save-db; (B) as written by obirefidx; (C) as saved by run A:
//            every query of a stream (all orders of 3 queries; a stream of 12 = two batches of the
//            command's batch size 10) gets a taxon that is an ancestor-or-self of every best reference,
//            and the same taxon in A, B and C; the indices found in the saved database are correct.
//
// Oracle: c15lcs (quadratic DP) + naive LCAs from the parent map of the tree, as in the other harnesses.

import (
	"encoding/json"
	"fmt"
	"io"
	"math"
	"os"
	"path/filepath"
	"strconv"
	"strings"
	"testing"
	"time"

	"git.metabarcoding.org/obitools/obitools4/obitools4/pkg/obiformats"
	"git.metabarcoding.org/obitools/obitools4/obitools4/pkg/obiiter"
	"git.metabarcoding.org/obitools/obitools4/obitools4/pkg/obikmer"
	"git.metabarcoding.org/obitools/obitools4/obitools4/pkg/obioptions"
	"git.metabarcoding.org/obitools/obitools4/obitools4/pkg/obiseq"
	"git.metabarcoding.org/obitools/obitools4/obitools4/pkg/obitools/obiconvert"
	"git.metabarcoding.org/obitools/obitools4/obitools4/pkg/obitools/obifind"
	"git.metabarcoding.org/obitools/obitools4/obitools4/pkg/obitools/obirefidx"
	"git.metabarcoding.org/obitools/obitools4/obitools4/pkg/verifkit"
	log "github.com/sirupsen/logrus"
)

type c15cCase struct {
	Part    string   `json:"part"` // refidx | slice | family | pipeline
	Refs    []string `json:"refs"`
	Taxids  []int    `json:"taxids"` // 999 = unknown to the taxonomy
	Cpu     string   `json:"cpu"`    // one | 2 | 4 : --force-one-cpu / --max-cpu n
	Perm    []int    `json:"perm,omitempty"`
	Queries []string `json:"queries,omitempty"`
}

// the taxonomy of this harness (one per process: obifind caches the taxonomy it loads): a lineage
// 1-2-3-4 with side leaves, a second family with a genus and a species hanging directly under it, and
// a species without family. Ranks follow the depth (c15mkTree): 1 no rank, depth 1 family, 2 genus,
// 3 species.
var c15cEdges = [][2]int{{1, 1}, {2, 1}, {5, 1}, {10, 1}, {3, 2}, {11, 2}, {6, 5}, {7, 5}, {4, 3}, {12, 3}, {13, 11}, {8, 6}}

type c15cEnv struct {
	r    *verifkit.Result
	tr   *c15tree
	dir  string
	dump string
	rank map[int]string
}

func (e *c15cEnv) writeDump() {
	var nodes, names, merged strings.Builder
	for _, x := range e.tr.nodes {
		fmt.Fprintf(&nodes, "%d\t|\t%d\t|\t%s\t|\t\t|\t8\t|\t0\t|\t1\t|\t0\t|\t0\t|\t0\t|\t0\t|\t0\t|\t\t|\n", x, e.tr.par[x], e.rank[x])
		fmt.Fprintf(&names, "%d\t|\ttaxon_%d\t|\t\t|\tscientific name\t|\n", x, x)
	}
	fmt.Fprintf(&merged, "%d\t|\t%d\t|\n", 900, 4)
	for fn, s := range map[string]string{"nodes.dmp": nodes.String(), "names.dmp": names.String(), "merged.dmp": merged.String()} {
		if err := os.WriteFile(filepath.Join(e.dump, fn), []byte(s), 0o644); err != nil {
			panic(err)
		}
	}
}

func (e *c15cEnv) known(taxid int) bool { _, ok := e.tr.par[taxid]; return ok }

func (e *c15cEnv) family(taxid int) int {
	for _, x := range e.tr.anc(taxid) {
		if e.rank[x] == "family" {
			return x
		}
	}
	return -1
}

func c15cWriteFasta(path string, ids []string, seqs []string, taxids []int) {
	var sb strings.Builder
	for i, s := range seqs {
		if taxids != nil {
			fmt.Fprintf(&sb, ">%s {\"taxid\":%d}\n%s\n", ids[i], taxids[i], s)
		} else {
			fmt.Fprintf(&sb, ">%s\n%s\n", ids[i], s)
		}
	}
	if err := os.WriteFile(path, []byte(sb.String()), 0o644); err != nil {
		panic(err)
	}
}

func c15cCpuArgs(cpu string) []string {
	if cpu == "one" {
		return []string{"--force-one-cpu"}
	}
	return []string{"--max-cpu", cpu}
}

func c15cIds(n int) []string {
	ids := make([]string, n)
	for i := range ids {
		ids[i] = fmt.Sprintf("ref%d", i)
	}
	return ids
}

func c15cReadFile(path string) (obiseq.BioSequenceSlice, error) {
	it, err := obiformats.ReadSequencesFromFile(path)
	if err != nil {
		return nil, err
	}
	_, s := it.Load()
	return s, nil
}

// obirefidx, as cmd/obitools/obirefidx/main.go runs it
func (e *c15cEnv) runRefidx(c c15cCase, in, out string) (res obiseq.BioSequenceSlice, err string) {
	defer func() {
		if x := recover(); x != nil {
			err = fmt.Sprint(x)
		}
	}()
	os.Remove(out)
	obioptions.SetWorkerPerCore(1) // the defaults cmd/obitools/obirefidx/main.go runs with
	obioptions.SetStrictReadWorker(0)
	obioptions.SetStrictWriteWorker(0)
	obioptions.SetBatchSize(2000)
	parser := obioptions.GenerateOptionParser(obirefidx.OptionSet)
	args := append([]string{"obirefidx", "-t", e.dump, "--no-progressbar", "-o", out}, c15cCpuArgs(c.Cpu)...)
	_, rest := parser(append(args, in))
	fs, rerr := obiconvert.CLIReadBioSequences(rest...)
	if rerr != nil {
		return nil, "cannot read " + in + ": " + rerr.Error()
	}
	indexed := obirefidx.IndexReferenceDB(fs)
	obiconvert.CLIWriteBioSequences(indexed, true)
	obiiter.WaitForLastPipe()
	s, rerr := c15cReadFile(out)
	if rerr != nil {
		return nil, "cannot read back " + out + ": " + rerr.Error()
	}
	return s, ""
}

// checkIndexed compares the records written by an indexing command with the database (c.Refs,
// c.Taxids): every known reference present, unchanged, with a correct index in attribute `slot`
// computed against the members for which inScope holds
func (e *c15cEnv) checkIndexed(cmd string, c c15cCase, res obiseq.BioSequenceSlice, slot string, want func(i int) []int, only func(i int) bool) bool {
	r := e.r
	got := map[string]*obiseq.BioSequence{}
	for _, s := range res {
		got[s.Id()] = s
	}
	sub := ""
	firstUnknown := len(c.Taxids)
	for i, x := range c.Taxids {
		if !e.known(x) && i < firstUnknown {
			firstUnknown = i
		}
	}
	if firstUnknown < len(c.Taxids) {
		sub = ":database-with-discarded-reference"
	}
	for i, sq := range c.Refs {
		if !e.known(c.Taxids[i]) || (only != nil && !only(i)) {
			continue
		}
		id := fmt.Sprintf("ref%d", i)
		s, ok := got[id]
		if !ok {
			r.Violate(cmd+"/reference-lost"+sub, fmt.Sprintf("%+v: reference %s (taxid %d) is not in the output", c, id, c.Taxids[i]), c)
			return false
		}
		if s.String() != sq || s.Taxid() != c.Taxids[i] {
			r.Violate(cmd+"/reference-changed"+sub, fmt.Sprintf("%+v: reference %s comes out as %s taxid %d", c, id, s.String(), s.Taxid()), c)
			return false
		}
		if w := want(i); len(sq) > 0 && w[len(sq)-1] != w[0] {
			r.Count("indexes_expected_multi_level_"+cmd, 1) // by the naive LCAs: a fact about the case
		}
		idx := s.OBITagRefIndex(slot)
		if idx == nil {
			r.Violate(cmd+"/reference-without-index"+sub, fmt.Sprintf("%+v: reference %s comes out without %s", c, id, slot), c)
			return false
		}
		r.Count("indexes_checked_"+cmd, 1)
		if len(idx) > 1 {
			r.Count("indexes_multi_level_"+cmd, 1)
		}
		if cls, msg := c15bCheckIndex(idx, want(i), len(sq)); cls != "" {
			pos := ""
			if i > firstUnknown {
				pos = ":reference-after-a-discarded-one"
			}
			chunk := ""
			if cmd == "IndexReferenceDB" {
				chunk = ":first-chunk"
				if i >= 10 {
					chunk = ":later-chunk"
				}
			}
			r.Violate(cmd+"/"+slot+"/"+cls+sub+pos+chunk, fmt.Sprintf("%+v: reference %s (%s, taxid %d) gets %s=%s: %s", c, id, sq, c.Taxids[i], slot, c15bIndexString(idx), msg), c)
			return false
		}
	}
	return true
}

// guardedEval runs the evaluation of one case. The commands themselves run under guards of their own; what is
// left is the reading of what they delivered (records, attributes, files written by the tree under test, read
// back with its readers): a panic or a log.Fatal there is a verdict on the tree, keyed by the part.
func (e *c15cEnv) guardedEval(c c15cCase, f func(c15cCase)) {
	defer func() {
		if x := recover(); x != nil {
			e.r.Violate(c.Part+"/crash-while-the-results-are-read", fmt.Sprintf("%+v: %v", c, x), c)
		}
	}()
	f(c)
}

func (e *c15cEnv) evalRefidx(c c15cCase) {
	defer func(t0 time.Time) { e.r.Count("ms_refidx", time.Since(t0).Milliseconds()); e.r.Count("evals_refidx", 1) }(time.Now())
	e.r.Eval(1)
	e.r.Trans(int64(len(c.Refs)))
	in, out := filepath.Join(e.dir, "refs.fasta"), filepath.Join(e.dir, "indexed.fasta")
	c15cWriteFasta(in, c15cIds(len(c.Refs)), c.Refs, c.Taxids)
	res, err := e.runRefidx(c, in, out)
	nk := 0
	for _, x := range c.Taxids {
		if e.known(x) {
			nk++
		}
	}
	if err != "" {
		e.r.Violate("IndexReferenceDB/crash", fmt.Sprintf("%+v: %s", c, err), c)
		return
	}
	if nk > 10 {
		e.r.Count("refidx_databases_of_two_chunks", 1)
	}
	e.checkIndexed("IndexReferenceDB", c, res, "obitag_ref_index", func(i int) []int {
		return c15bWantIndex(e.tr, c.Refs, c.Taxids, i)
	}, nil)
}

// MakeIndexingSliceWorker: c.Refs/c.Taxids is the whole database, c.Perm the positions handed to the
// worker, in that order
func (e *c15cEnv) evalSlice(c c15cCase) {
	defer func(t0 time.Time) { e.r.Count("ms_slice", time.Since(t0).Milliseconds()); e.r.Count("evals_slice", 1) }(time.Now())
	r := e.r
	r.Eval(1)
	r.Trans(int64(len(c.Perm)))
	full := obiseq.MakeBioSequenceSlice()
	kmers := make([]*obikmer.Table4mer, len(c.Refs))
	for i, s := range c.Refs {
		b := obiseq.NewBioSequence(fmt.Sprintf("ref%d", i), []byte(s), "")
		b.SetTaxid(c.Taxids[i])
		b.SetAttribute("reffamidx_id", i)
		full = append(full, b)
		kmers[i] = obikmer.Count4Mer(b, nil, nil)
	}
	slice := obiseq.MakeBioSequenceSlice()
	in := map[int]bool{}
	for _, p := range c.Perm {
		slice = append(slice, full[p])
		in[p] = true
	}
	var err string
	var res obiseq.BioSequenceSlice
	func() {
		defer func() {
			if x := recover(); x != nil {
				err = fmt.Sprint(x)
			}
		}()
		n, _ := strconv.Atoi(c.Cpu)
		if c.Cpu == "one" {
			n = 1
		}
		obioptions.SetMaxCPU(n)
		obioptions.SetWorkerPerCore(1)
		w := obirefidx.MakeIndexingSliceWorker("reffamidx_in", "reffamidx_id", &kmers, e.tr.taxo)
		var werr error
		res, werr = w(slice)
		if werr != nil {
			err = werr.Error()
		}
	}()
	if err != "" {
		r.Violate("MakeIndexingSliceWorker/crash", fmt.Sprintf("%+v: %s", c, err), c)
		return
	}
	// the database of the worker = the members of the slice
	sub := make([]int, len(c.Taxids))
	for i := range sub {
		sub[i] = 999
		if in[i] {
			sub[i] = c.Taxids[i]
		}
	}
	e.checkIndexed("MakeIndexingSliceWorker", c, res, "reffamidx_in", func(i int) []int {
		return c15bWantIndex(e.tr, c.Refs, sub, i)
	}, func(i int) bool { return in[i] })
}

// obireffamidx, as cmd/obitools/obireffamidx/main.go runs it (the result iterator is consumed here)
func (e *c15cEnv) evalFamily(c c15cCase) {
	defer func(t0 time.Time) { e.r.Count("ms_family", time.Since(t0).Milliseconds()); e.r.Count("evals_family", 1) }(time.Now())
	r := e.r
	r.Eval(1)
	r.Trans(int64(len(c.Refs)))
	in := filepath.Join(e.dir, "refs.fasta")
	c15cWriteFasta(in, c15cIds(len(c.Refs)), c.Refs, c.Taxids)
	var res obiseq.BioSequenceSlice
	var err string
	func() {
		defer func() {
			if x := recover(); x != nil {
				err = fmt.Sprint(x)
			}
		}()
		obioptions.SetWorkerPerCore(1)
		obioptions.SetStrictReadWorker(0)
		obioptions.SetStrictWriteWorker(0)
		obioptions.SetBatchSize(2000)
		parser := obioptions.GenerateOptionParser(obirefidx.OptionSet)
		args := append([]string{"obireffamidx", "-t", e.dump, "--no-progressbar"}, c15cCpuArgs(c.Cpu)...)
		_, rest := parser(append(args, in))
		fs, rerr := obiconvert.CLIReadBioSequences(rest...)
		if rerr != nil {
			err = rerr.Error()
			return
		}
		_, res = obirefidx.IndexFamilyDB(fs).Load()
		obiiter.WaitForLastPipe()
	}()
	if err != "" {
		r.Violate("IndexFamilyDB/crash", fmt.Sprintf("%+v: %s", c, err), c)
		return
	}
	// families and cluster heads as the command annotated them
	got := map[string]*obiseq.BioSequence{}
	for _, s := range res {
		got[s.Id()] = s
	}
	head := make([]bool, len(c.Refs))
	nheads := 0
	for i := range c.Refs {
		s, ok := got[fmt.Sprintf("ref%d", i)]
		if !ok {
			r.Violate("IndexFamilyDB/reference-lost", fmt.Sprintf("%+v: reference ref%d is not in the output", c, i), c)
			return
		}
		if h, _ := s.GetBoolAttribute("reffamidx_clusterhead"); h {
			head[i] = true
			nheads++
		}
	}
	if nheads > 1 {
		r.Count("family_several_cluster_heads", 1)
	}
	// index among the references of the same family
	if !e.checkIndexed("IndexFamilyDB", c, res, "reffamidx_in", func(i int) []int {
		sub := make([]int, len(c.Taxids))
		for k := range sub {
			sub[k] = 999
			if e.family(c.Taxids[k]) == e.family(c.Taxids[i]) {
				sub[k] = c.Taxids[k]
			}
		}
		return c15bWantIndex(e.tr, c.Refs, sub, i)
	}, nil) {
		return
	}
	// index of a cluster head among the cluster heads
	e.checkIndexed("IndexFamilyDB", c, res, "obitag_ref_index", func(i int) []int {
		sub := make([]int, len(c.Taxids))
		for k := range sub {
			sub[k] = 999
			if head[k] {
				sub[k] = c.Taxids[k]
			}
		}
		return c15bWantIndex(e.tr, c.Refs, sub, i)
	}, func(i int) bool { return head[i] })
}

// obitag, as cmd/obitools/obitag/main.go runs it (batch size 10, two workers per core); the
// assignments are read from the iterator instead of being written to stdout
func (e *c15cEnv) runTag(cpu, db, save, queries string) (tax map[string]int, err string) {
	defer func() {
		if x := recover(); x != nil {
			err = fmt.Sprint(x)
		}
	}()
	obioptions.SetWorkerPerCore(2)
	obioptions.SetStrictReadWorker(1)
	obioptions.SetStrictWriteWorker(1)
	obioptions.SetBatchSize(10)
	_SaveRefDB = ""
	parser := obioptions.GenerateOptionParser(OptionSet)
	args := append([]string{"obitag", "-t", e.dump, "--no-progressbar", "-R", db}, c15cCpuArgs(cpu)...)
	if save != "" {
		os.Remove(save)
		args = append(args, "--save-db", save)
	}
	_, rest := parser(append(args, queries))
	fs, rerr := obiconvert.CLIReadBioSequences(rest...)
	if rerr != nil {
		return nil, rerr.Error()
	}
	taxo, terr := obifind.CLILoadSelectedTaxonomy()
	if terr != nil {
		return nil, terr.Error()
	}
	references := CLIRefDB()
	identified := CLIAssignTaxonomy(fs, references, taxo)
	tax = map[string]int{}
	for identified.Next() {
		for _, s := range identified.Get().Slice() {
			if _, dup := tax[s.Id()]; dup {
				return nil, "query " + s.Id() + " delivered twice"
			}
			tax[s.Id()] = s.Taxid()
		}
	}
	obiiter.WaitForLastPipe()
	CLISaveRefetenceDB(references)
	return tax, ""
}

func (e *c15cEnv) evalPipeline(c c15cCase) {
	defer func(t0 time.Time) { e.r.Count("ms_pipeline", time.Since(t0).Milliseconds()); e.r.Count("evals_pipeline", 1) }(time.Now())
	r := e.r
	r.Eval(1)
	r.Trans(int64(len(c.Refs) * len(c.Queries)))
	refs, idxd, saved, qf := filepath.Join(e.dir, "refs.fasta"), filepath.Join(e.dir, "indexed.fasta"), filepath.Join(e.dir, "saved.fasta"), filepath.Join(e.dir, "queries.fasta")
	c15cWriteFasta(refs, c15cIds(len(c.Refs)), c.Refs, c.Taxids)
	qids := make([]string, len(c.Queries))
	for i := range qids {
		qids[i] = fmt.Sprintf("q%d", i)
	}
	c15cWriteFasta(qf, qids, c.Queries, nil)
	sub := ""
	for _, x := range c.Taxids {
		if !e.known(x) {
			sub = ":database-with-discarded-reference"
		}
	}
	stream := ":stream-of-" + map[bool]string{true: "one-batch", false: "several-batches"}[len(c.Queries) <= 10]

	r.Count("pipeline_save_db_runs", 1)
	a, err := e.runTag(c.Cpu, refs, saved, qf)
	if err != "" {
		r.Violate("obitag/crash:references-without-index"+sub, fmt.Sprintf("%+v: %s", c, err), c)
		return
	}
	// run A against the brute-force comparison
	for k, q := range c.Queries {
		got, ok := a[qids[k]]
		if !ok {
			r.Violate("obitag/query-not-delivered", fmt.Sprintf("%+v: query %d", c, k), c)
			return
		}
		best := math.MaxInt
		var bestTax []int
		for i, s := range c.Refs {
			if !e.known(c.Taxids[i]) {
				continue
			}
			d := c15bDist(q, s)
			if d < best {
				best, bestTax = d, bestTax[:0]
			}
			if d == best {
				bestTax = append(bestTax, c.Taxids[i])
			}
		}
		if !e.known(got) {
			r.Violate("obitag/assigned-taxid-not-in-taxonomy", fmt.Sprintf("%+v: query %d gets taxid %d", c, k, got), c)
			return
		}
		if got != 1 {
			r.Count("pipeline_assigned_below_root", 1)
		}
		if len(bestTax) > 0 && e.tr.lca(bestTax) != 1 {
			r.Count("pipeline_queries_with_best_lca_below_root", 1) // a fact about the case, not about the answer
		}
		for _, x := range bestTax {
			if !e.tr.isAncOrSelf(got, x) {
				r.Violate("obitag/not-ancestor-of-best"+sub+stream, fmt.Sprintf("%+v: query %d (%s) gets taxid %d, not an ancestor-or-self of taxid %d of a reference at the minimal distance %d", c, k, q, got, x, best), c)
				return
			}
		}
		if best == 0 && len(bestTax) == 1 && got != bestTax[0] {
			r.Violate("obitag/exact-unique-match-not-assigned"+sub+stream, fmt.Sprintf("%+v: query %d (%s) is identical to exactly one known reference (taxid %d) but gets taxid %d", c, k, q, bestTax[0], got), c)
			return
		}
	}
	// the database saved by run A: every index it holds must be right
	sv, rerr := c15cReadFile(saved)
	if rerr != nil {
		r.Violate("obitag/save-db-unreadable", fmt.Sprintf("%+v: %v", c, rerr), c)
		return
	}
	nidx := 0
	for _, s := range sv {
		i, perr := strconv.Atoi(strings.TrimPrefix(s.Id(), "ref"))
		if perr != nil || i < 0 || i >= len(c.Refs) || !e.known(c.Taxids[i]) {
			continue
		}
		idx := s.OBITagRefIndex()
		if idx == nil {
			continue
		}
		nidx++
		if cls, msg := c15bCheckIndex(idx, c15bWantIndex(e.tr, c.Refs, c.Taxids, i), len(c.Refs[i])); cls != "" {
			r.Violate("obitag/save-db/obitag_ref_index/"+cls+sub, fmt.Sprintf("%+v: the saved database holds reference ref%d with obitag_ref_index=%s: %s", c, i, c15bIndexString(idx), msg), c)
			return
		}
	}
	if nidx > 0 {
		r.Count("pipeline_saved_indexes", int64(nidx))
	}
	// run B: the database as written by obirefidx; run C: the database saved by run A
	if _, err := e.runRefidx(c, refs, idxd); err != "" {
		r.Violate("IndexReferenceDB/crash", fmt.Sprintf("%+v: %s", c, err), c)
		return
	}
	for _, alt := range []struct{ name, file string }{{"written-by-obirefidx", idxd}, {"saved-by-obitag", saved}} {
		b, err := e.runTag(c.Cpu, alt.file, "", qf)
		if err != "" {
			r.Violate("obitag/crash:references-"+alt.name+sub, fmt.Sprintf("%+v: %s (the same queries are assigned with the references without index)", c, err), c)
			return
		}
		for k := range c.Queries {
			if b[qids[k]] != a[qids[k]] {
				r.Violate("obitag/assignment-differs:references-"+alt.name+sub+stream, fmt.Sprintf("%+v: query %d (%s) gets taxid %d with the database %s, taxid %d with the database without indices", c, k, c.Queries[k], b[qids[k]], alt.name, a[qids[k]]), c)
				return
			}
		}
		r.Count("pipeline_runs_compared", 1)
	}
}

// the 14 references of a command-level database, derived from a query
func c15cFamily(q string) []string {
	const alpha = "acgt"
	L := len(q)
	nxt := func(c byte, by int) string {
		k := (strings.IndexByte(alpha, c) + by) % 4
		return alpha[k : k+1]
	}
	sub := func(s string, i, by int) string { return s[:i] + nxt(s[i], by) + s[i+1:] }
	return []string{
		q,
		sub(q, 0, 1),
		sub(q, L/2, 2),
		q[:1] + q[2:],                       // deletion
		q[:L-1] + nxt(q[L-1], 1) + q[L-1:],  // insertion before the last base
		sub(q, L-1, 3),                      //
		nxt(q[0], 2) + q,                    // leading insertion
		sub(sub(q, 2, 1), L-3, 1),           // two substitutions
		q[:3] + q[4:L-2] + "t" + q[L-2:],    // deletion + insertion
		c15rot(q, 1),                        // unrelated
		q,                                   // identical to reference 0 (another record, another taxon)
		sub(q, L/2, 2),                      // identical to reference 2
		"acg",                               // shorter than a 4-mer
		q + "ttgacc" + q[:4],                // longer than every other reference
	}
}

func TestVerifC15C(t *testing.T) {
	log.SetOutput(io.Discard)
	r := verifkit.New("C15")
	defer r.Write()
	c15installNet(r)

	e := &c15cEnv{r: r, rank: map[int]string{}}
	if !c15guardedSetup(r, "building the 12-node taxonomy of the command-level part and reading the ranks of its taxa", func() {
		e.tr = c15mkTree("cmdline", c15cEdges)
		for _, x := range e.tr.nodes {
			e.rank[x] = e.tr.node[x].Rank()
		}
	}) {
		return // every case of this part is placed on it
	}
	work := os.Getenv("VERIF_WORKDIR")
	if work == "" {
		work = os.TempDir()
	}
	shard, _ := verifkit.Shard()
	e.dir = filepath.Join(work, fmt.Sprintf("c15c-%d-%d", shard, os.Getpid()))
	e.dump = filepath.Join(e.dir, "taxdump")
	if err := os.MkdirAll(e.dump, 0o755); err != nil {
		t.Fatal(err)
	}
	defer os.RemoveAll(e.dir)
	e.writeDump()
	// progress bars of the commands go to stderr
	if devnull, err := os.OpenFile(os.DevNull, os.O_WRONLY, 0); err == nil {
		stderr := os.Stderr
		os.Stderr = devnull
		defer func() { os.Stderr = stderr }()
	}

	if rc := r.ReplayCase(); rc != nil {
		var c c15cCase
		if err := json.Unmarshal(rc, &c); err != nil {
			t.Fatal(err)
		}
		switch c.Part {
		case "refidx":
			e.guardedEval(c, e.evalRefidx)
		case "slice":
			e.guardedEval(c, e.evalSlice)
		case "family":
			e.guardedEval(c, e.evalFamily)
		case "pipeline":
			e.guardedEval(c, e.evalPipeline)
		default:
			t.Fatalf("unknown part %q", c.Part)
		}
		return
	}

	thorough := verifkit.Thorough()
	bases := []string{"gctagctaacgt"}
	if thorough {
		bases = append(bases, "ttgacgcatagc")
	}
	nodes := e.tr.nodes
	r.Bound("taxonomy", "12 nodes, loaded from an NCBI dump through -t")
	r.Bound("database", "14 references derived from a query (9 edits / unrelated, 2 duplicates, one of length 3, one of length L+10)")
	cpus := []string{"one", "2", "4"}
	k := 0
	assign := func(n, a int, unk ...int) []int {
		tx := make([]int, n)
		for j := range tx {
			tx[j] = nodes[(a+j*5)%len(nodes)]
		}
		for _, u := range unk {
			if u >= 0 {
				tx[u] = 999
			}
		}
		return tx
	}

	for _, q := range bases {
		fam := c15cFamily(q)
		n := len(fam)
		// ---- refidx: unknown taxids at no, every single and every pair of positions
		for u1 := -1; u1 < n; u1++ {
			for u2 := u1; u2 < n; u2++ {
				if u1 == -1 && u2 > -1 {
					continue // (-1,-1) = every taxid known, (i,i) = one unknown, (i,j) = two
				}
				for a := 0; a < len(nodes); a++ {
					if u1 != u2 && a%3 != 0 && !thorough {
						continue // quick: two unknown references under 4 of the 12 rotations
					}
					if !r.Mine(k) {
						k++
						continue
					}
					k++
					for _, cpu := range cpus {
						c := c15cCase{Part: "refidx", Refs: fam, Taxids: assign(n, a, u1, u2), Cpu: cpu}
						r.State(fmt.Sprintf("refidx|%s|%v|%s", q, c.Taxids, cpu))
						e.guardedEval(c, e.evalRefidx)
					}
				}
				if r.Expired() {
					return
				}
			}
		}
		// ---- slice: sub-lists of the database in another order
		for _, stride := range []int{1, 3, 5, 9} { // coprime with 14
			for rot := 0; rot < n; rot++ {
				for _, size := range []int{2, 5, 10, 11, n} {
					if !r.Mine(k) {
						k++
						continue
					}
					k++
					perm := make([]int, size)
					for i := range perm {
						perm[i] = (rot + i*stride) % n
					}
					for a := 0; a < len(nodes); a++ {
						for _, cpu := range []string{"one", "4"} {
							c := c15cCase{Part: "slice", Refs: fam, Taxids: assign(n, a), Cpu: cpu, Perm: perm}
							r.State(fmt.Sprintf("slice|%s|%v|%d|%s", q, perm, a, cpu))
							e.guardedEval(c, e.evalSlice)
						}
					}
				}
			}
			if r.Expired() {
				return
			}
		}
		// ---- family: the whole command
		for a := 0; a < len(nodes); a++ {
			for _, cpu := range cpus {
				if !r.Mine(k) {
					k++
					continue
				}
				k++
				c := c15cCase{Part: "family", Refs: fam, Taxids: assign(n, a), Cpu: cpu}
				r.State(fmt.Sprintf("family|%s|%d|%s", q, a, cpu))
				e.guardedEval(c, e.evalFamily)
			}
		}
		// ---- pipeline: databases = the first 6 references + the two special ones, rotated; streams of
		// queries = every order of 3 queries, and one stream of 12 (two batches)
		eds := c15edits(q)
		qpool := []string{q, eds[len(eds)/2+1], q + "ttgacc", "acg"}
		var streams [][]string
		verifkit.Permutations(3, func(p []int) {
			streams = append(streams, []string{qpool[p[0]], qpool[p[1]], qpool[p[2]]})
		})
		long := []string{}
		for i := 0; i < 12; i++ {
			long = append(long, qpool[(i*3)%4])
		}
		streams = append(streams, long)
		dbs := [][]int{{0, 1, 2, 3, 7, 9}, {2, 10, 0, 12, 13, 4}, {13, 11, 5, 6, 8, 2, 0}}
		for di, db := range dbs {
			var seqs []string
			for _, i := range db {
				seqs = append(seqs, fam[i])
			}
			for a := 0; a < len(nodes); a += 2 {
				for _, unk := range []int{-1, 0, len(db) - 1, 2} {
					for si, st := range streams {
						if !r.Mine(k) {
							k++
							continue
						}
						k++
						cpu := cpus[(si+a/2+di)%3]
						c := c15cCase{Part: "pipeline", Refs: seqs, Taxids: assign(len(seqs), a, unk), Cpu: cpu, Queries: st}
						r.State(fmt.Sprintf("pipeline|%s|%d|%v|%d", q, di, c.Taxids, si))
						e.guardedEval(c, e.evalPipeline)
					}
				}
				if r.Expired() {
					return
				}
			}
		}
	}
	r.RequireNonVacuous("refidx_databases_of_two_chunks")
	// (indexes_multi_level_*, pipeline_assigned_below_root and pipeline_saved_indexes count what the commands answer:
	// counters only; the guards are on the cases submitted)
	r.RequireNonVacuous("indexes_expected_multi_level_IndexReferenceDB")
	r.RequireNonVacuous("indexes_expected_multi_level_MakeIndexingSliceWorker")
	r.RequireNonVacuous("pipeline_save_db_runs")
	r.RequireNonVacuous("pipeline_runs_compared")
	r.RequireNonVacuous("pipeline_queries_with_best_lca_below_root")
}
