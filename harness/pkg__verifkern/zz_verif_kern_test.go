//go:build verif

package verifkern

// "Kernels are functions of their arguments" (engine A) — the compute kernels behind C07, C08, C14
// and C19 are called from worker goroutines by the commands. Two or three goroutines call them at the
// same time, each on its own data and its own scratch objects (arena, buffers) or with nil buffers;
// every interleaving within the bounds must give the answers of the same calls made one after the
// other. Any package-level scratch state hidden behind the API is written by two threads, becomes a
// conflict site and hence a scheduling point, and the wrong answer it causes is observed.
//
// VERIF_KERN selects the kernel family: pealign (C08), kmer (C19), seq (C07), tax (C14).

import (
	"encoding/json"
	"fmt"
	"io"
	"os"
	"sort"
	"strings"
	"testing"

	"git.metabarcoding.org/obitools/obitools4/obitools4/pkg/obialign"
	"git.metabarcoding.org/obitools/obitools4/obitools4/pkg/obikmer"
	"git.metabarcoding.org/obitools/obitools4/obitools4/pkg/obiseq"
	"git.metabarcoding.org/obitools/obitools4/obitools4/pkg/obitax"
	"git.metabarcoding.org/obitools/obitools4/obitools4/pkg/verifkit"
	"git.metabarcoding.org/obitools/obitools4/obitools4/pkg/vsched"
	vsync "git.metabarcoding.org/obitools/obitools4/obitools4/pkg/vsched/vsync"
	log "github.com/sirupsen/logrus"
)

type param struct {
	Kern    string `json:"kernel"`
	Variant int    `json:"variant"`
	Threads int    `json:"threads"`
	Mode    string `json:"mode"`
	Policy  int    `json:"policy"`
	Pool    bool   `json:"pool_choices"`
	Choices []int  `json:"choices,omitempty"`
}

func dna(n, seed int) []byte {
	b := make([]byte, n)
	x := uint32(seed*2654435761 + 97)
	for i := range b {
		x = x*1664525 + 1013904223
		b[i] = "acgt"[(x>>24)&3]
	}
	return b
}

func rc(s []byte) []byte {
	m := map[byte]byte{'a': 't', 'c': 'g', 'g': 'c', 't': 'a'}
	o := make([]byte, len(s))
	for i := range s {
		o[len(s)-1-i] = m[s[i]]
	}
	return o
}

var theTaxo *obitax.Taxonomy

func taxo() *obitax.Taxonomy {
	if theTaxo != nil {
		return theTaxo
	}
	t := obitax.NewTaxonomy()
	sn := "scientific name"
	for _, e := range [][2]int{{1, 1}, {2, 1}, {3, 1}, {4, 2}, {5, 2}, {6, 3}, {7, 4}, {8, 4}} {
		t.AddNewTaxa(e[0], e[1], []string{"no rank", "family", "genus", "species"}[e[0]%4], false, false)
		nm := fmt.Sprintf("taxon_%d", e[0])
		t.AddNewName(e[0], &nm, &sn)
	}
	t.ReindexParent()
	theTaxo = t
	return t
}

// work is what thread i does; the answer must not depend on what the other threads do.
func work(p param, i int) string {
	var sb strings.Builder
	switch p.Kern {
	case "pealign":
		frag := dna(40+5*i, 10+i+7*p.Variant)
		a := append([]byte{}, frag[:28]...)
		b := rc(frag[len(frag)-26:])
		if p.Variant%2 == 1 {
			a[20] = "acgt"[(strings.IndexByte("acgt", a[20])+1)%4] // a mismatch in the overlap: the DP branch runs
		}
		qa, qb := make([]byte, len(a)), make([]byte, len(b))
		for k := range qa {
			qa[k] = byte(30 + k%10)
		}
		for k := range qb {
			qb[k] = byte(25 + k%12)
		}
		arena := obialign.MakePEAlignArena(60, 60)
		shift := map[int]int{}
		for rep := 0; rep < 2; rep++ {
			sa := obiseq.NewBioSequenceWithQualities("a", a, "", qa)
			sbq := obiseq.NewBioSequenceWithQualities("b", b, "", qb)
			fast := (rep+p.Variant/2)%2 == 0
			isLeft, score, path, fc, over, fs := obialign.PEAlign(sa, sbq, 2, 1, fast, 5, true, arena, &shift)
			cons, n := obialign.BuildQualityConsensus(sa, sbq, path, true, arena)
			fmt.Fprintf(&sb, "[%v %d %v %d %d %.3f %s %v %d]", isLeft, score, path, fc, over, fs, cons.String(), cons.Qualities(), n)
		}
	case "kmer":
		s := obiseq.NewBioSequence("s", dna(30+3*i, 50+i+p.Variant), "")
		u := obiseq.NewBioSequence("u", dna(33, 80+i+p.Variant), "")
		var own []byte
		buf := &own
		if p.Variant%2 == 0 {
			buf = nil
		}
		c1 := obikmer.Count4Mer(s, buf, nil)
		c2 := obikmer.Count4Mer(u, buf, nil)
		fmt.Fprintf(&sb, "common=%d ", obikmer.Common4Mer(c1, c2))
		e := obikmer.Encode4mer(s, buf)
		fmt.Fprintf(&sb, "enc=%v ", e[:min(6, len(e))])
		g := obikmer.MakeDeBruijnGraph(5)
		base := dna(24, 300+i)
		v := append([]byte{}, base...)
		v[12] = "acgt"[(strings.IndexByte("acgt", v[12])+1)%4]
		for k, q := range [][]byte{base, base, v} {
			x := obiseq.NewBioSequence(fmt.Sprintf("r%d", k), q, "")
			g.Push(x)
		}
		cons, err := g.LongestConsensus("c", 0)
		if err != nil {
			fmt.Fprintf(&sb, "cons-error=%v", err)
		} else {
			fmt.Fprintf(&sb, "cons=%s", cons.String())
		}
	case "seq":
		s := obiseq.NewBioSequenceWithQualities(fmt.Sprintf("s%d", i), dna(12+i, 400+i+p.Variant), "", []byte{10, 20, 30, 40, 11, 21, 31, 41, 12, 22, 32, 42, 13, 23, 33}[:12+i])
		s.SetAttribute("k", i)
		c := s.Copy()
		r := s.ReverseComplement(false)
		sub, _ := s.Subsequence(2, 9, false)
		circ, _ := s.Subsequence(8, 3, true)
		c.Recycle()
		r2 := sub.ReverseComplement(true)
		t := obiseq.NewBioSequence("t", dna(9, 500+i), "")
		t.SetQualities([]byte{1, 2, 3, 4, 5, 6, 7, 8, 9})
		for _, x := range []*obiseq.BioSequence{s, r, r2, circ, t} {
			fmt.Fprintf(&sb, "%s/%v/%v ", x.String(), x.Qualities(), x.Annotations())
		}
	case "tax":
		t := taxo()
		ids := []int{4, 5, 6, 7, 8, 2, 3}
		for k := 0; k < 4; k++ {
			a, _ := t.Taxon(ids[(i+k)%len(ids)])
			b, _ := t.Taxon(ids[(i+2*k+p.Variant)%len(ids)])
			l, err := a.LCA(b)
			pth, _ := a.Path()
			if err != nil {
				fmt.Fprintf(&sb, "err ")
				continue
			}
			fmt.Fprintf(&sb, "lca(%d,%d)=%d path=%d sub=%v ", a.Taxid(), b.Taxid(), l.Taxid(), len(*pth), a.IsSubCladeOf(b))
		}
		s := obiseq.NewBioSequence("q", []byte("acgt"), "")
		s.SetAttribute("merged_taxid", map[string]int{fmt.Sprint(ids[i%7]): 1, fmt.Sprint(ids[(i+3)%7]): 2})
		l, _, _ := t.LCA(s, 1.0)
		fmt.Fprintf(&sb, "seqlca=%d", l.Taxid())
	}
	return sb.String()
}

func body(p param) string {
	res := make([]string, p.Threads)
	var wg vsync.WaitGroup
	wg.Add(p.Threads)
	for i := 0; i < p.Threads; i++ {
		i := i
		vsched.Go(func() {
			res[i] = work(p, i)
			wg.Done()
		})
	}
	wg.Wait()
	return strings.Join(res, "\n")
}

func sequential(p param) string {
	res := make([]string, p.Threads)
	for i := 0; i < p.Threads; i++ {
		res[i] = work(p, i)
	}
	return strings.Join(res, "\n")
}

// control runs the sequential calls (the reference of a job) twice on the test goroutine. fail != "": the reference
// cannot be had from the tree under test (the calls panic, call log.Fatal, or do not answer the same twice): that is
// reported as a violation by the caller and the job is skipped.
func control(p param) (want string, class string, fail string) {
	run := func() (out string, msg string) {
		defer func() {
			if e := recover(); e != nil {
				msg = fmt.Sprintf("%v (%T)", e, e) // vsched's exit sentinel {status} = log.Fatal / os.Exit of the implementation
			}
		}()
		return sequential(p), ""
	}
	a, msg := run()
	if msg != "" {
		return "", "sequential-calls-panic", "the calls made one after the other on the test goroutine end with: " + msg
	}
	b, msg := run()
	if msg != "" {
		return "", "sequential-calls-panic", "the calls made one after the other a second time end with: " + msg
	}
	if a != b {
		g, w := strings.Split(b, "\n"), strings.Split(a, "\n")
		for i := range w {
			if i < len(g) && g[i] != w[i] {
				return "", "sequential-calls-not-deterministic", fmt.Sprintf("the same sequential calls answer differently the second time: thread %d\n  %s\nthen\n  %s", i, w[i], g[i])
			}
		}
		return "", "sequential-calls-not-deterministic", "the same sequential calls answer differently the second time"
	}
	return a, "", ""
}

// explore runs vsched.Explore. div != "": the explorer found that one schedule, executed twice, does not give the same
// execution (its own "replay ... diverged" panics): the code under test keeps state from one execution to the next or is
// not deterministic. That is a verdict on the tree (reported by the caller), not an engine error; the explorer is not
// used any further by this shard.
func explore(cfg vsched.Config, body func(x *vsched.Exec)) (st *vsched.Stats, div string) {
	defer func() {
		if e := recover(); e != nil {
			s, ok := e.(string)
			if !ok || !strings.HasPrefix(s, "vsched: replay") {
				panic(e)
			}
			st, div = nil, s
		}
	}()
	return vsched.Explore(cfg, body), ""
}

func TestVerifKern(t *testing.T) {
	log.SetOutput(io.Discard)
	log.StandardLogger().ExitFunc = vsched.Exit
	kern := os.Getenv("VERIF_KERN")
	if kern == "" {
		kern = "pealign"
	}
	r := verifkit.New(map[string]string{"pealign": "C08", "kmer": "C19", "seq": "C07", "tax": "C14"}[kern])
	defer r.Write()
	if kern == "tax" {
		// the shared taxonomy is built once, outside the explored executions
		msg := ""
		func() {
			defer func() {
				if e := recover(); e != nil {
					msg = fmt.Sprint(e)
				}
			}()
			taxo()
		}()
		if msg != "" {
			r.Eval(1)
			r.Violate("tax/control-run/taxonomy-cannot-be-built", "building the 8-taxon taxonomy used by every job ends with: "+msg, param{Kern: kern, Threads: 2, Mode: "delay"})
			return
		}
	}

	// check: the judge of a job, built from its control run; want == nil: no reference (reported here), skip the job
	check := func(p param) func(x *vsched.Exec) string {
		vsched.PoolChoices = false
		want, class, fail := control(p)
		if fail != "" {
			r.Eval(1)
			r.Violate(p.Kern+"/control-run/"+class, fmt.Sprintf("kernel family %s variant=%d threads=%d: %s", p.Kern, p.Variant, p.Threads, fail), p)
			return nil
		}
		return func(x *vsched.Exec) string {
			if x.Outcome() != "" {
				return x.Outcome() + "|" + x.Detail()
			}
			got, _ := x.Obs.(string)
			if got != want {
				g, w := strings.Split(got, "\n"), strings.Split(want, "\n")
				for i := range w {
					if i < len(g) && g[i] != w[i] {
						return fmt.Sprintf("differs|thread %d answered\n  %s\nthe same calls made sequentially answer\n  %s", i, g[i], w[i])
					}
				}
				return "differs|" + got
			}
			return ""
		}
	}

	if rc := r.ReplayCase(); rc != nil {
		var p param
		if err := json.Unmarshal(rc, &p); err != nil {
			t.Fatal(err)
		}
		found := 0
		chk := check(p)
		if chk == nil {
			return
		}
		cfg := vsched.Config{Name: p.Kern, DelayBounding: true, Preemptions: 1, Deviations: 1, Policy: p.Policy, Horizon: 100000, MaxExec: 100000}
		cfg.Check = func(x *vsched.Exec) string {
			m := chk(x)
			if m != "" {
				found++
			}
			return m
		}
		vsched.PoolChoices = p.Pool
		st, div := explore(cfg, func(x *vsched.Exec) { x.Obs = body(p) })
		vsched.PoolChoices = false
		if div != "" {
			r.Violate(p.Kern+"/control-run/execution-not-reproducible", div, p)
			return
		}
		r.Eval(st.Executions)
		if found > 0 {
			r.Violate(p.Kern+"/concurrent-calls/replay", fmt.Sprintf("%d executions differ from the sequential answers", found), p)
		}
		fmt.Println("replay: differing executions:", found)
		return
	}

	var jobs []param
	threads := []int{2}
	variants := []int{0, 1}
	if verifkit.Thorough() {
		threads = []int{2, 3}
		variants = []int{0, 1, 2, 3}
	}
	for _, v := range variants {
		for _, th := range threads {
			for pol := 0; pol <= 1; pol++ {
				jobs = append(jobs, param{Kern: kern, Variant: v, Threads: th, Mode: "delay", Policy: pol, Pool: kern == "seq"})
			}
			if th == 2 && (verifkit.Thorough() || kern == "tax") {
				jobs = append(jobs, param{Kern: kern, Variant: v, Threads: th, Mode: "full"})
			}
		}
	}
	r.Bound("jobs", len(jobs))
	r.Bound("kernel_family", kern)
	for k, p := range jobs {
		if !r.Mine(k) {
			continue
		}
		if r.Expired() {
			break
		}
		r.Count("kern_jobs_submitted", 1)
		bound := 1
		if verifkit.Thorough() {
			bound = 2
		}
		chk := check(p)
		if chk == nil {
			continue
		}
		if k < 1 {
			if want, _, fail := control(p); fail == "" {
				r.Sample(map[string]any{"param": p, "sequential": want})
			}
		}
		cfg := vsched.Config{Name: p.Kern, DelayBounding: p.Mode == "delay", Full: p.Mode == "full", Preemptions: bound, Deviations: 1,
			Policy: p.Policy, Horizon: 100000, MaxExec: 150000, Expired: r.Expired, Check: chk}
		vsched.PoolChoices = p.Pool
		st, div := explore(cfg, func(x *vsched.Exec) { x.Obs = body(p) })
		vsched.PoolChoices = false
		if div != "" {
			r.Eval(1)
			r.Violate(p.Kern+"/control-run/execution-not-reproducible", fmt.Sprintf("kernel family %s variant=%d threads=%d mode=%s policy=%d: the same schedule executed twice does not give the same execution: %s", p.Kern, p.Variant, p.Threads, p.Mode, p.Policy, div), p)
			r.Cap("executions of the tree under test are not reproducible: the exploration of this shard stops")
			return
		}
		r.Eval(st.Executions)
		r.Trace(st.Executions)
		r.Trans(st.Points)
		r.Replayed(st.ReplaysChecked)
		r.Count("hb_states", st.States)
		r.Count("kern_conflict_sites", int64(len(st.ConflictSites)))
		for o, n := range st.Outcomes {
			r.Count("kern_outcome_"+o, n)
		}
		for h := range st.TraceHashes {
			r.StateH(h)
		}
		if st.Capped {
			r.Cap(fmt.Sprintf("execution cap / deadline reached for kernel family %s mode=%s", p.Kern, p.Mode))
		}
		sites := append([]string{}, st.ConflictSites...)
		sort.Strings(sites)
		for _, s := range sites {
			r.Note("conflict site (%s): %s", kern, s)
		}
		seen := map[string]bool{}
		for _, v := range st.Violations {
			parts := strings.SplitN(v.Desc, "|", 2)
			key := p.Kern + "/concurrent-calls/" + parts[0]
			if seen[key] {
				continue
			}
			seen[key] = true
			q := p
			q.Choices = v.Choices
			r.Violate(key, fmt.Sprintf("kernel family %s variant=%d threads=%d mode=%s policy=%d schedule=%v: %s", p.Kern, p.Variant, p.Threads, p.Mode, p.Policy, v.Choices, parts[1]), q)
		}
	}
	// guard on what the harness did (kern_outcome_* depend on how the executions of the tree under test end)
	r.RequireNonVacuous("kern_jobs_submitted")
}
