//go:build verif

package obiformats

// C01 — parsed records do not depend on chunk boundaries, transport or parser workers.
//
// Bounded exhaustive enumeration on the real code (DESIGN.md §3 C01, parts E1, E3, E4; E2 = parser
// workers under the controlled scheduler is a separate harness of the lead):
//
//  E1 "e1"   every file of a generated corpus (k records, each drawn from a per-format shape set, x LF/CRLF
//            x GenBank release header) is cut by the real ReadSeqFileChunk with EVERY buffer size
//            2..len(file)+1 and the real splitter of its format; every chunk is parsed by the real
//            FastaChunkParser / FastqChunkParser(33, true|false) / GenbankChunkParser / EmblChunkParser;
//            the records, concatenated by chunk Order, are compared with the record list the file was
//            generated from.  Transports: the bytes in one piece, byte by byte, (reduced corpus:) every
//            2-piece split, and real gzip / bzip2 / xz / zstd streams through Buf.
//  "pipe"    reduced corpus through the production entry points on real files (ReadSequencesFromFile
//            and the per-format Read*FromFile, plain and compressed, 1..3 parser workers).
//  E3 "e3"   kseq C reader (ReadFastSeqFromFile, plain and gzip) on the reduced corpus and on a
//            sweep that moves kseq's 4096-byte refill boundary over every byte of a 3-record tail.
//  E4 "e4"   in-process version of E4: one 3 MiB FASTA / FASTQ file (>= 3 production chunks of 1 MiB)
//            through ReadFastaFromFile / ReadFastqFromFile / ReadSequencesFromFile with 1, 2, 4
//            workers, plain and gzip, and through the kseq reader; with and without full file batch;
//            through the process's stdin (pipe and regular file).
//
// Added by the audit of the check:
//  options   E1 parses GenBank / EMBL chunks without AND with the feature table (withFeatureTable: the
//            featBytes accumulator) and compares the table's lines; "pipe" / "e4" cross the readers with
//            OptionsFullFileBatch off/on, WithFeatureTable off/on (flat files) and OptionsReadQualities(false).
//  "stdin"   file descriptor 0 of the process is made a regular file (`cmd < FILE`) or a pipe
//            (`cat FILE | cmd`), plain or gzip, and read by ReadFastSeqFromStdin (kseq on C stdin: what the
//            commands use), ReadGenbank / ReadEMBL(os.Stdin), ReadFasta / ReadFastqFromStdin and the "-" file name.
//  "bigflat" (thorough) a 131 MiB GenBank / EMBL file: the only way to get two production chunks (128 MiB
//            buffer) out of ReadGenbank / ReadEMBL; 3 workers, and 2 workers with full file batch.
//  deadlock  an entry point that never delivers is recognised exactly (no goroutine of the process can run,
//            twice 300 ms apart), reported once per entry point and shard, then skipped.
//
// Oracle: generator truth (id, definition, lower-cased nucleotides, qualities - shift, taxid /
// scientific_name when the record text carries them); for fields the record text does not carry
// (no /db_xref, no SOURCE/OS line, any further annotation) the reference is the same record parsed
// ALONE by the same parser (per-record independence, as the statement says).
//
// log.Fatal is intercepted: logrus ExitFunc signals and ends the calling goroutine (runtime.Goexit),
// so a fatal in the reader goroutine or in a parser is one recorded outcome, never a process exit.

import (
	"bytes"
	stdgzip "compress/gzip"
	"encoding/json"
	"fmt"
	"hash/fnv"
	"io"
	"os"
	"path/filepath"
	"runtime"
	"sort"
	"strings"
	"sync"
	"syscall"
	"testing"
	"testing/iotest"
	"time"

	"git.metabarcoding.org/obitools/obitools4/obitools4/pkg/obiiter"
	"git.metabarcoding.org/obitools/obitools4/obitools4/pkg/obioptions"
	"git.metabarcoding.org/obitools/obitools4/obitools4/pkg/obiseq"
	"git.metabarcoding.org/obitools/obitools4/obitools4/pkg/verifkit"
	"github.com/dsnet/compress/bzip2"
	"github.com/klauspost/compress/zstd"
	log "github.com/sirupsen/logrus"
	"github.com/ulikunitz/xz"
)

// ---------------------------------------------------------------- replayable case

type c01case struct {
	Part      string `json:"part"`             // e1 | pipe | e3 | e3sweep | e4 | stdin | bigflat
	Fmt       string `json:"fmt"`              // fasta fastq genbank embl
	Shapes    []int  `json:"shapes,omitempty"` // shape index of each record of the file
	CRLF      bool   `json:"crlf,omitempty"`
	RelHdr    bool   `json:"relhdr,omitempty"`    // GenBank release header before the first LOCUS
	Transport string `json:"transport,omitempty"` // whole | bytes | split | buf | gzip | bzip2 | xz | zstd
	Split     int    `json:"split,omitempty"`     // first piece length of transport "split"
	Buf       int    `json:"buf,omitempty"`       // read-buffer size (0 in a replay = all sizes)
	WithQual  bool   `json:"with_quality"`
	Pad       int    `json:"pad,omitempty"`             // e3sweep: sequence length of the padding record
	PadId     int    `json:"padid,omitempty"`           // e3sweep: extra characters in the padding record's id
	Reader    string `json:"reader,omitempty"`          // pipe/e4: universal | format | kseq ; stdin: kseq-stdin | format-stdin | universal-dash | format-dash
	Workers   int    `json:"workers,omitempty"`         // pipe/e4
	Ext       string `json:"ext,omitempty"`             // pipe/e3/e4: "", .gz, .bz2, .xz, .zst
	WithFeat  bool   `json:"with_features,omitempty"`   // flat files: parser / reader asked for the feature table
	FullBatch bool   `json:"full_file_batch,omitempty"` // pipe/e4/stdin/bigflat: OptionsFullFileBatch(true)
	Fd0       string `json:"fd0,omitempty"`             // stdin: what file descriptor 0 is (file | pipe)
	Big       bool   `json:"big,omitempty"`             // stdin: the 3 MiB file of E4 instead of a corpus file
}

// ---------------------------------------------------------------- fatal interception

var (
	c01mu        sync.Mutex
	c01lastFatal string
	c01fatalSig  = make(chan string, 64)
)

type c01hook struct{}

func (c01hook) Levels() []log.Level { return []log.Level{log.FatalLevel, log.PanicLevel} }
func (c01hook) Fire(e *log.Entry) error {
	c01mu.Lock()
	c01lastFatal = e.Message
	c01mu.Unlock()
	return nil
}

func c01exit(int) {
	c01mu.Lock()
	m := c01lastFatal
	c01mu.Unlock()
	select {
	case c01fatalSig <- m:
	default:
	}
	runtime.Goexit()
}

func c01drainSig() (string, bool) {
	got := false
	msg := ""
	for {
		select {
		case m := <-c01fatalSig:
			got = true
			msg = m
		default:
			return msg, got
		}
	}
}

// c01isolate runs f in its own goroutine. A log.Fatal inside f (or inside a goroutine f waits
// for, when f selects on c01fatalSig) ends that goroutine only. Returns the abnormal outcome
// ("" when f completed): "fatal: ...", "panic: ...", "hang".
func c01isolate(f func()) string {
	c01drainSig()
	done := make(chan string, 1)
	go func() {
		completed := false
		defer func() {
			if p := recover(); p != nil {
				done <- fmt.Sprintf("panic: %v", p)
				return
			}
			if !completed {
				done <- "goexit"
				return
			}
			done <- ""
		}()
		f()
		completed = true
	}()
	var out string
	// Hang watchdog. The machine is shared and may be heavily loaded, so wall time alone proves
	// nothing: a spinning loop is recognised by the CPU time the process burns (GOMAXPROCS=1: the
	// process does nothing else), a deadlock only by a very generous wall bound.
	// A deadlock is recognised exactly: twice in a row, 300 ms apart, no goroutine of the process
	// can run (all of them wait on a channel, a WaitGroup, a lock ... ; the harness has no outside
	// partner: pipes are fed by goroutines of this process, see c01allBlocked).
	cpu0, wall0 := c01cpu(), time.Now()
	lastCPU, blocked := cpu0, 0
wait:
	for {
		select {
		case out = <-done:
			break wait
		case <-time.After(300 * time.Millisecond):
			now := c01cpu()
			if now-lastCPU < 5*time.Millisecond && c01allBlocked() {
				blocked++
				if blocked >= 2 {
					return "hang: deadlock, every goroutine is blocked (" + c01blockedWhere() + ")"
				}
			} else {
				blocked = 0
			}
			lastCPU = now
			if now-cpu0 > 120*time.Second {
				return "hang: no result after 120 s of CPU time"
			}
			if time.Since(wall0) > 45*time.Minute {
				return "hang: no result after 45 min"
			}
		}
	}
	if m, ok := c01drainSig(); ok || out == "goexit" {
		return "fatal: " + m
	}
	return out
}

// c01goroutines returns the header line + stack of every goroutine but the calling one.
func c01goroutines() []string {
	buf := make([]byte, 1<<20)
	for {
		n := runtime.Stack(buf, true)
		if n < len(buf) {
			buf = buf[:n]
			break
		}
		buf = make([]byte, 2*len(buf))
	}
	gs := strings.Split(string(buf), "\n\n")
	if len(gs) > 0 {
		gs = gs[1:] // the first one is the caller
	}
	return gs
}

// c01allBlocked: no goroutine (but the caller) is running, runnable, sleeping, in a system / cgo
// call or waiting for I/O. Goroutines feeding a pipe of the harness (c01pipeFeed) do not count: they
// wait for the reader under test.
func c01allBlocked() bool {
	for _, g := range c01goroutines() {
		if strings.Contains(g, "c01pipeFeed") || strings.Contains(g, "os/signal.signal_recv") {
			continue
		}
		hdr := g
		if i := strings.IndexByte(g, '\n'); i >= 0 {
			hdr = g[:i]
		}
		if strings.Contains(hdr, "(idle)") || strings.Contains(hdr, "[GC sweep wait") || strings.Contains(hdr, "[GC scavenge wait") || strings.Contains(hdr, "[finalizer wait") {
			continue // parked runtime helpers
		}
		for _, alive := range []string{"[running", "[runnable", "[sleep", "[syscall", "[IO wait", "[GC ", "[timer", "[preempted", "[copystack", "[debug call"} {
			if strings.Contains(hdr, alive) {
				return false
			}
		}
	}
	return true
}

// c01blockedWhere names the obitools functions the blocked goroutines wait in (diagnostic).
func c01blockedWhere() string {
	seen := map[string]bool{}
	var out []string
	for _, g := range c01goroutines() {
		for _, l := range strings.Split(g, "\n") {
			if i := strings.Index(l, "obitools4/pkg/"); i >= 0 && !strings.HasPrefix(l, "\t") && !strings.Contains(l, "c01") && !strings.Contains(l, "created by") {
				fn := l[i+len("obitools4/pkg/"):]
				if j := strings.LastIndexByte(fn, '('); j > 0 {
					fn = fn[:j]
				}
				if !seen[fn] {
					seen[fn] = true
					out = append(out, fn)
				}
				break
			}
		}
	}
	sort.Strings(out)
	if len(out) > 6 {
		out = out[:6]
	}
	return strings.Join(out, ", ")
}

func c01abClass(ab string) string {
	switch {
	case strings.HasPrefix(ab, "hang: deadlock"):
		return "deadlock"
	case strings.HasPrefix(ab, "hang"):
		return "hang"
	case strings.HasPrefix(ab, "panic"):
		return "panic"
	case strings.Contains(ab, "quality lenght not equal"):
		return "fatal:quality-length"
	case strings.Contains(ab, "quality is empty"):
		return "fatal:quality-empty"
	case strings.Contains(ab, "invalid character"):
		return "fatal:invalid-sequence-character"
	case strings.Contains(ab, "does not have an identifier") || strings.Contains(ab, "identifier is empty"):
		return "fatal:no-identifier"
	case strings.Contains(ab, "sequence is empty"):
		return "fatal:empty-sequence"
	case strings.Contains(ab, "not followed by"):
		return "fatal:record-structure"
	case strings.Contains(ab, "cannot contain '>'"):
		return "fatal:gt-in-sequence"
	case strings.Contains(ab, "first character is not") || strings.Contains(ab, "does not start with") || strings.Contains(ab, "is not starting with"):
		return "fatal:chunk-does-not-start-at-a-record"
	case strings.Contains(ab, "Unexpected state"):
		return "fatal:flatfile-unexpected-state"
	case strings.Contains(ab, "Error copying remaining data"):
		return "fatal:carry-over-copy"
	case strings.Contains(ab, "not yet implemented"):
		return "fatal:format-not-recognised"
	}
	return "fatal:other"
}

// ---------------------------------------------------------------- generator (ground truth)

type c01rec struct {
	Id, Def, Seq string // Seq: lower case
	Qual         []byte // scores (ascii - 33); nil when the format has none
	HasTax       bool
	Taxid        int
	HasSci       bool
	Sci          string
	Text         string // record text, LF line ends, ends with LF
	Feat         string // flat files: the lines of the feature table (header line included), joined by LF
}

var c01taxids = []int{9606, 10090, 7227, 4932}
var c01names = []string{"Homo sapiens (human)", "Mus musculus (house mouse)", "Drosophila melanogaster", "Saccharomyces cerevisiae"}

func c01seq(pos, shape, n int) string {
	b := make([]byte, n)
	x := uint32(pos*7919 + shape*104729 + 12345)
	for i := range b {
		x = x*1664525 + 1013904223
		b[i] = "acgt"[(x>>24)&3]
	}
	return string(b)
}

func c01fold(s string, w int) string {
	if w <= 0 || len(s) <= w {
		return s + "\n"
	}
	var sb strings.Builder
	for i := 0; i < len(s); i += w {
		e := i + w
		if e > len(s) {
			e = len(s)
		}
		sb.WriteString(s[i:e])
		sb.WriteByte('\n')
	}
	return sb.String()
}

// --- FASTA: layout (length, fold) x definition kind
type c01faLayout struct{ n, fold int }

var c01faLayouts = []c01faLayout{{1, 0}, {59, 0}, {60, 0}, {61, 0}, {121, 0}, {61, 60}, {121, 60}, {59, 7}, {60, 7}, {61, 7}, {121, 7}}
var c01faDefs = []string{"", "plain definition text", "x>y >z> >"}

func c01nFasta() int { return len(c01faLayouts) * len(c01faDefs) }

func c01genFasta(shape, pos int) c01rec {
	lay := c01faLayouts[shape%len(c01faLayouts)]
	def := c01faDefs[shape/len(c01faLayouts)]
	r := c01rec{Id: fmt.Sprintf("fa%d_%d", pos, shape), Def: def, Seq: c01seq(pos, shape, lay.n)}
	txt := r.Seq
	if shape%2 == 1 {
		txt = strings.ToUpper(txt)
	}
	h := ">" + r.Id
	if def != "" {
		h += " " + def
	}
	r.Text = h + "\n" + c01fold(txt, lay.fold)
	return r
}

// --- FASTQ: sequence length x quality kind x separator kind x header kind
var c01fqLens = []int{1, 6, 61}
var c01fqQualKinds = 4 // 0 plain (specials inside), 1 '@' first then letters, 2 '+' first, 3 letters only
var c01fqSepKinds = 2  // "+", "+id"
var c01fqHdrKinds = 3  // id ; id def ; id and def containing '@' '+' '>'

func c01nFastq() int { return len(c01fqLens) * c01fqQualKinds * c01fqSepKinds * c01fqHdrKinds }

func c01genFastq(shape, pos int) c01rec {
	s := shape
	n := c01fqLens[s%len(c01fqLens)]
	s /= len(c01fqLens)
	qk := s % c01fqQualKinds
	s /= c01fqQualKinds
	sk := s % c01fqSepKinds
	s /= c01fqSepKinds
	hk := s
	r := c01rec{Seq: c01seq(pos, shape, n)}
	switch hk {
	case 0:
		r.Id = fmt.Sprintf("fq%d_%d", pos, shape)
	case 1:
		r.Id = fmt.Sprintf("fq%d_%d", pos, shape)
		r.Def = "some read description"
	case 2:
		r.Id = fmt.Sprintf("fq%d_%d@x+y", pos, shape)
		r.Def = "+a @b >c @"
	}
	q := make([]byte, n)
	plain := "IF+5@:>!~#H?"
	letters := "ACGTNacgtn"
	for i := range q {
		switch qk {
		case 0:
			q[i] = plain[(i+pos)%len(plain)]
			if i == 0 {
				q[i] = "IF5:H?"[pos%6]
			}
		case 1:
			q[i] = letters[(i+pos)%len(letters)]
			if i == 0 {
				q[i] = '@'
			}
		case 2:
			q[i] = plain[(i+pos)%len(plain)]
			if i == 0 {
				q[i] = '+'
			}
		case 3:
			q[i] = letters[(i+pos)%len(letters)]
		}
	}
	r.Qual = make([]byte, n)
	for i := range q {
		r.Qual[i] = q[i] - 33
	}
	h := "@" + r.Id
	if r.Def != "" {
		h += " " + r.Def
	}
	sep := "+"
	if sk == 1 {
		sep = "+" + r.Id
	}
	txt := strings.ToUpper(r.Seq)
	if shape%2 == 1 {
		txt = r.Seq
	}
	r.Text = h + "\n" + txt + "\n" + sep + "\n" + string(q) + "\n"
	return r
}

// --- flat files: taxon xref x organism line x definition lines x sequence length
// -1: a GenBank entry of the CON division (a CONTIG join(...) line instead of the ORIGIN section: no sequence);
// EMBL gets a 2-base record for that shape
var c01ffLens = []int{1, 60, 61, -1}

func c01nFlat() int { return 2 * 2 * 2 * len(c01ffLens) }

func c01flatShape(shape int) (tax, sci, def2 bool, n int) {
	tax = shape&1 == 1
	sci = shape&2 == 2
	def2 = shape&4 == 4
	n = c01ffLens[shape/8]
	return
}

func c01genGenbank(shape, pos int) c01rec {
	tax, sci, def2, n := c01flatShape(shape)
	contig := n < 0
	if contig {
		n = 0
	}
	r := c01rec{Id: fmt.Sprintf("GB%d_%d", pos, shape), Seq: c01seq(pos, shape, n)}
	var sb strings.Builder
	if contig {
		fmt.Fprintf(&sb, "LOCUS       %-16s %7d bp    DNA     linear   CON 01-JAN-2000\n", r.Id, 500)
	} else {
		fmt.Fprintf(&sb, "LOCUS       %-16s %7d bp    DNA     linear   PRI 01-JAN-2000\n", r.Id, n)
	}
	if def2 {
		fmt.Fprintf(&sb, "DEFINITION  Synthetic clone %d gene,\n            complete cds.\n", pos)
		r.Def = fmt.Sprintf("Synthetic clone %d gene, complete cds.", pos)
	} else {
		fmt.Fprintf(&sb, "DEFINITION  Synthetic clone %d gene.\n", pos)
		r.Def = fmt.Sprintf("Synthetic clone %d gene.", pos)
	}
	fmt.Fprintf(&sb, "ACCESSION   %s\nVERSION     %s.1\nKEYWORDS    .\n", r.Id, r.Id)
	if sci {
		r.HasSci, r.Sci = true, c01names[pos%len(c01names)]
		fmt.Fprintf(&sb, "SOURCE      %s\n  ORGANISM  %s\n            Eukaryota; Opisthokonta.\n", r.Sci, r.Sci)
	}
	r.Feat = fmt.Sprintf("FEATURES             Location/Qualifiers\n     source          1..%d\n                     /mol_type=\"genomic DNA\"", n)
	if tax {
		r.HasTax, r.Taxid = true, c01taxids[pos%len(c01taxids)]
		r.Feat += fmt.Sprintf("\n                     /db_xref=\"taxon:%d\"", r.Taxid)
	}
	sb.WriteString(r.Feat)
	if contig {
		// no ORIGIN section: the entry has no nucleotides of its own
		fmt.Fprintf(&sb, "\nCONTIG      join(AB%06d.1:1..250,gap(20),\n            AB%06d.1:1..230)\n//\n", pos, pos+1)
		r.Text = sb.String()
		return r
	}
	sb.WriteString("\nORIGIN      \n")
	for i := 0; i < n; i += 60 {
		fmt.Fprintf(&sb, "%9d", i+1)
		for j := i; j < i+60 && j < n; j += 10 {
			e := j + 10
			if e > n {
				e = n
			}
			sb.WriteByte(' ')
			sb.WriteString(r.Seq[j:e])
		}
		sb.WriteByte('\n')
	}
	sb.WriteString("//\n")
	r.Text = sb.String()
	return r
}

const c01gbRelease = "GBSYN1.SEQ          Genetic Sequence Data Bank\n" +
	"                         October 15 2023\n\n" +
	"                NCBI-GenBank Flat File Release 258.0\n\n" +
	"                     Synthetic Sequences (Part 1)\n\n" +
	"       3 loci,         123 bases, from        3 reported sequences\n\n"

func c01genEmbl(shape, pos int) c01rec {
	tax, sci, def2, n := c01flatShape(shape)
	if n < 0 {
		n = 2
	}
	r := c01rec{Id: fmt.Sprintf("EM%d_%d", pos, shape), Seq: c01seq(pos, shape, n)}
	var sb strings.Builder
	fmt.Fprintf(&sb, "ID   %s; SV 1; linear; genomic DNA; STD; SYN; %d BP.\nXX\nAC   %s;\nXX\n", r.Id, n, r.Id)
	if def2 {
		fmt.Fprintf(&sb, "DE   Synthetic clone %d gene,\nDE   complete cds.\nXX\n", pos)
		r.Def = fmt.Sprintf("Synthetic clone %d gene, complete cds.", pos)
	} else {
		fmt.Fprintf(&sb, "DE   Synthetic clone %d gene.\nXX\n", pos)
		r.Def = fmt.Sprintf("Synthetic clone %d gene.", pos)
	}
	if sci {
		r.HasSci, r.Sci = true, c01names[pos%len(c01names)]
		fmt.Fprintf(&sb, "OS   %s\nOC   Eukaryota; Opisthokonta.\nXX\n", r.Sci)
	}
	r.Feat = fmt.Sprintf("FH   Key             Location/Qualifiers\nFH\nFT   source          1..%d\nFT                   /mol_type=\"genomic DNA\"", n)
	if tax {
		r.HasTax, r.Taxid = true, c01taxids[pos%len(c01taxids)]
		r.Feat += fmt.Sprintf("\nFT                   /db_xref=\"taxon:%d\"", r.Taxid)
	}
	sb.WriteString(r.Feat)
	fmt.Fprintf(&sb, "\nXX\nSQ   Sequence %d BP; 0 A; 0 C; 0 G; 0 T; 0 other;\n", n)
	for i := 0; i < n; i += 60 {
		line := "    "
		e := i
		for j := i; j < i+60 && j < n; j += 10 {
			e = j + 10
			if e > n {
				e = n
			}
			line += " " + r.Seq[j:e]
		}
		for len(line) < 70 {
			line += " "
		}
		sb.WriteString(line)
		fmt.Fprintf(&sb, "%10d\n", e)
	}
	sb.WriteString("//\n")
	r.Text = sb.String()
	return r
}

func c01nShapes(f string) int {
	switch f {
	case "fasta":
		return c01nFasta()
	case "fastq":
		return c01nFastq()
	}
	return c01nFlat()
}

func c01gen(f string, shape, pos int) c01rec {
	switch f {
	case "fasta":
		return c01genFasta(shape, pos)
	case "fastq":
		return c01genFastq(shape, pos)
	case "genbank":
		return c01genGenbank(shape, pos)
	case "embl":
		return c01genEmbl(shape, pos)
	}
	panic("c01: unknown format " + f)
}

// c01padLen = byte length of the padding record of an e3sweep case
func c01padLen(c c01case) int {
	e := 1
	if c.CRLF {
		e = 2
	}
	if c.Fmt == "fasta" {
		return 1 + 3 + c.PadId + e + c.Pad + e
	}
	return 1 + 3 + c.PadId + e + c.Pad + e + 1 + e + c.Pad + e
}

type c01file struct {
	recs []c01rec
	data []byte
	ends []int // byte offset just after each record
}

func c01build(c c01case) c01file {
	var f c01file
	var sb strings.Builder
	eol := func(s string) string {
		if c.CRLF {
			return strings.ReplaceAll(s, "\n", "\r\n")
		}
		return s
	}
	if c.RelHdr && c.Fmt == "genbank" {
		sb.WriteString(eol(c01gbRelease))
	}
	if c.Part == "e3sweep" {
		// padding record in front: moves the tail over kseq's 4096-byte refill boundary
		p := c01rec{Id: "pad" + strings.Repeat("x", c.PadId), Seq: c01seq(99, 99, c.Pad)}
		if c.Fmt == "fasta" {
			p.Text = ">" + p.Id + "\n" + c01fold(p.Seq, 0)
		} else {
			p.Qual = bytes.Repeat([]byte{'I' - 33}, c.Pad)
			p.Text = "@" + p.Id + "\n" + p.Seq + "\n+\n" + strings.Repeat("I", c.Pad) + "\n"
		}
		f.recs = append(f.recs, p)
		sb.WriteString(eol(p.Text))
		f.ends = append(f.ends, sb.Len())
	}
	for pos, sh := range c.Shapes {
		r := c01gen(c.Fmt, sh, pos)
		f.recs = append(f.recs, r)
		sb.WriteString(eol(r.Text))
		f.ends = append(f.ends, sb.Len())
	}
	f.data = []byte(sb.String())
	return f
}

// ---------------------------------------------------------------- observation of a parsed record

type c01obs struct {
	Id, Def, Seq string
	Qual         []byte // nil: no qualities stored
	Ann          map[string]string
	Source       string
	Feat         string // feature table as stored ("" when none)
}

func c01observe(s *obiseq.BioSequence) c01obs {
	o := c01obs{Id: s.Id(), Def: s.Definition(), Seq: s.String(), Source: s.Source(), Ann: map[string]string{}, Feat: s.Features()}
	if s.HasQualities() {
		o.Qual = append([]byte{}, s.Qualities()...)
	}
	if s.HasAnnotation() {
		for k, v := range s.Annotations() {
			if k == "definition" {
				continue
			}
			o.Ann[k] = fmt.Sprintf("%T:%v", v, v)
		}
	}
	return o
}

func c01splitter(f string) LastSeqRecord {
	switch f {
	case "fasta":
		return EndOfLastFastaEntry
	case "fastq":
		return EndOfLastFastqEntry
	}
	return EndOfLastFlatFileEntry
}

func c01parser(f string, withQual, withFeat bool) (SeqFileChunkParser, string) {
	switch f {
	case "fasta":
		return FastaChunkParser(), "FastaChunkParser"
	case "fastq":
		return FastqChunkParser(33, withQual), fmt.Sprintf("FastqChunkParser(with_quality=%v)", withQual)
	case "genbank":
		if withFeat {
			return GenbankChunkParser(true), "GenbankChunkParser(with_features)"
		}
		return GenbankChunkParser(false), "GenbankChunkParser"
	}
	if withFeat {
		return EmblChunkParser(true), "EmblChunkParser(with_features)"
	}
	return EmblChunkParser(false), "EmblChunkParser"
}

// record parsed alone (reference for what the record text does not determine)
var c01aloneCache = map[string]*c01obs{}

func c01alone(c c01case, pos int, withQual bool) *c01obs {
	key := fmt.Sprintf("%s/%d/%d/%v/%v/%v", c.Fmt, c.Shapes[pos], pos, c.CRLF, withQual, c.WithFeat)
	if o, ok := c01aloneCache[key]; ok {
		return o
	}
	r := c01gen(c.Fmt, c.Shapes[pos], pos)
	txt := r.Text
	if c.CRLF {
		txt = strings.ReplaceAll(txt, "\n", "\r\n")
	}
	txt = strings.TrimRight(txt, "\r\n")
	var res *c01obs
	ab := c01isolate(func() {
		p, _ := c01parser(c.Fmt, withQual, c.WithFeat)
		sl, err := p("c01", bytes.NewBufferString(txt))
		if err == nil && len(sl) == 1 {
			o := c01observe(sl[0])
			res = &o
		}
	})
	if ab != "" {
		res = nil
	}
	c01aloneCache[key] = res
	return res
}

type c01viol struct{ key, desc string }

// c01compare checks the delivered records against truth. chunkOf[i] / lastOfChunk[i] describe
// where observed record i came from (nil when unknown).
// site = where record-content classes are attributed (the chunk parser), ssite = structural classes
// (record count) of the entry point that delivered the records.
func c01compare(site, ssite string, c c01case, f c01file, got []c01obs, lastOfChunk []bool, withQual bool, checkSource string) []c01viol {
	var out []c01viol
	add := func(class, desc string) {
		st := site
		if strings.HasPrefix(class, "records-") {
			st = ssite
		}
		out = append(out, c01viol{st + "/" + class, desc})
	}
	if len(got) != len(f.recs) {
		ids := []string{}
		for _, g := range got {
			ids = append(ids, g.Id)
		}
		class := "records-missing"
		if len(got) > len(f.recs) {
			class = "records-extra"
		}
		add(class, fmt.Sprintf("delivered %d records %q, the file has %d", len(got), ids, len(f.recs)))
		return out
	}
	// the records of the file, all of them, but not in file order: a fault of the entry point
	// (re-ordering of the chunks), not of the record parser
	{
		inOrder := true
		left := map[string]int{}
		for i, g := range got {
			if g.Id != f.recs[i].Id {
				inOrder = false
			}
			left[g.Id]++
			left[f.recs[i].Id]--
		}
		perm := !inOrder
		for _, n := range left {
			if n != 0 {
				perm = false
			}
		}
		if perm {
			first := 0
			for first < len(got) && got[first].Id == f.recs[first].Id {
				first++
			}
			add("records-out-of-file-order", fmt.Sprintf("the %d records of the file are delivered in another order: rank %d holds %s, the file has %s there", len(got), first, got[first].Id, f.recs[first].Id))
			return out
		}
	}
	padOff := len(f.recs) - len(c.Shapes)
	for i, g := range got {
		w := f.recs[i]
		where := fmt.Sprintf("record %d (%s)", i, w.Id)
		if g.Id != w.Id {
			add("id", fmt.Sprintf("%s: id %q", where, g.Id))
			continue
		}
		if g.Def != w.Def {
			class := "definition"
			if g.Def == w.Def+"\r" {
				class = "definition:keeps-CR-of-CRLF"
			}
			add(class, fmt.Sprintf("%s: definition %q want %q", where, g.Def, w.Def))
		}
		if g.Seq != w.Seq {
			add("sequence", fmt.Sprintf("%s: sequence %q want %q", where, g.Seq, w.Seq))
		}
		if checkSource != "" && g.Source != checkSource {
			add("source", fmt.Sprintf("%s: source %q want %q", where, g.Source, checkSource))
		}
		switch {
		case w.Qual == nil || !withQual:
			if g.Qual != nil {
				class := "qualities:stored-although-not-requested"
				if w.Qual == nil {
					class = "qualities:stored-for-format-without-qualities"
				} else if lastOfChunk != nil && lastOfChunk[i] {
					class += ":last-record-of-chunk"
				}
				add(class, fmt.Sprintf("%s: qualities %v stored", where, g.Qual))
			}
		default:
			if !bytes.Equal(g.Qual, w.Qual) {
				add("qualities", fmt.Sprintf("%s: qualities %v want %v", where, g.Qual, w.Qual))
			}
		}
		// feature table (flat files, when asked for): the lines of the record's own table
		if c.WithFeat && (c.Fmt == "genbank" || c.Fmt == "embl") && g.Feat != w.Feat {
			class := "features"
			switch {
			case g.Feat == "":
				class = "features:missing"
			case i > 0 && f.recs[i-1].Feat != "" && strings.Contains(g.Feat, f.recs[i-1].Feat) && (f.recs[i-1].Feat != w.Feat || len(g.Feat) > len(w.Feat)):
				class = "features:carries-the-table-of-the-previous-record"
			case strings.HasPrefix(w.Feat, g.Feat) || strings.HasSuffix(w.Feat, g.Feat):
				class = "features:truncated"
			}
			add(class, fmt.Sprintf("%s: feature table %q want %q", where, g.Feat, w.Feat))
		}
		// annotations
		var alone *c01obs
		if i >= padOff && c.Part != "e3" && c.Part != "e3sweep" && !(c.Part == "e4") {
			alone = c01alone(c, i-padOff, withQual)
		}
		want := map[string]string{}
		if alone != nil {
			for k, v := range alone.Ann {
				want[k] = v
			}
		}
		if w.HasTax {
			want["taxid"] = fmt.Sprintf("int:%d", w.Taxid)
		}
		if w.HasSci {
			want["scientific_name"] = "string:" + w.Sci
		}
		keys := map[string]bool{}
		for k := range want {
			keys[k] = true
		}
		for k := range g.Ann {
			keys[k] = true
		}
		ks := []string{}
		for k := range keys {
			ks = append(ks, k)
		}
		sort.Strings(ks)
		for _, k := range ks {
			gv, gok := g.Ann[k]
			wv, wok := want[k]
			if gok == wok && gv == wv {
				continue
			}
			class := "annotation:" + k
			fromText := (k == "taxid" && w.HasTax) || (k == "scientific_name" && w.HasSci)
			if !fromText && i > 0 {
				// does it carry the value of the predecessor in the file?
				p := f.recs[i-1]
				if (k == "taxid" && p.HasTax && gv == fmt.Sprintf("int:%d", p.Taxid)) ||
					(k == "scientific_name" && p.HasSci && gv == "string:"+p.Sci) {
					class += ":inherited-from-previous-record"
				} else if i > 1 {
					pp := f.recs[i-2]
					if (k == "taxid" && pp.HasTax && gv == fmt.Sprintf("int:%d", pp.Taxid)) ||
						(k == "scientific_name" && pp.HasSci && gv == "string:"+pp.Sci) {
						class += ":inherited-from-previous-record"
					}
				}
			}
			ref := "the record's own text"
			if !fromText {
				ref = "the same record parsed alone"
			}
			add(class, fmt.Sprintf("%s: annotation %s = %q (present %v), %s gives %q (present %v)", where, k, gv, gok, ref, wv, wok))
		}
	}
	return out
}

// ---------------------------------------------------------------- E1: chunking + chunk parsers

type c01chunk struct {
	order int
	raw   []byte
}

// pieces reader: each Read returns bytes of at most one piece
type c01pieces struct {
	p [][]byte
}

func (r *c01pieces) Read(b []byte) (int, error) {
	for len(r.p) > 0 && len(r.p[0]) == 0 {
		r.p = r.p[1:]
	}
	if len(r.p) == 0 {
		return 0, io.EOF
	}
	n := copy(b, r.p[0])
	r.p[0] = r.p[0][n:]
	return n, nil
}

func c01compress(kind string, data []byte) []byte {
	var bb bytes.Buffer
	var w io.WriteCloser
	var err error
	switch kind {
	case "gzip":
		w = stdgzip.NewWriter(&bb)
	case "bzip2":
		w, err = bzip2.NewWriter(&bb, &bzip2.WriterConfig{Level: 6})
	case "xz":
		cfg := xz.WriterConfig{DictCap: 1 << 16}
		w, err = cfg.NewWriter(&bb)
	case "zstd":
		w, err = zstd.NewWriter(&bb)
	default:
		panic("c01: compressor " + kind)
	}
	if err != nil {
		panic(err)
	}
	if _, err = w.Write(data); err != nil {
		panic(err)
	}
	if err = w.Close(); err != nil {
		panic(err)
	}
	return bb.Bytes()
}

// c01reader builds the transport. payload = plain bytes or compressed bytes (for compressed kinds).
func c01reader(c c01case, payload []byte) (io.Reader, error) {
	switch c.Transport {
	case "whole":
		return bytes.NewReader(payload), nil
	case "bytes":
		return iotest.OneByteReader(bytes.NewReader(payload)), nil
	case "split":
		return &c01pieces{p: [][]byte{payload[:c.Split], payload[c.Split:]}}, nil
	case "buf", "gzip", "bzip2", "xz", "zstd":
		rd, err := Buf(bytes.NewReader(payload))
		if err != nil {
			return nil, err
		}
		return rd, nil
	}
	panic("c01: transport " + c.Transport)
}

// c01chunkRun drains ReadSeqFileChunk for one (file, transport, buffer size).
func c01chunkRun(c c01case, payload []byte) (chunks []c01chunk, ab string) {
	ab = c01isolate(func() {
		rd, err := c01reader(c, payload)
		if err != nil {
			panic(fmt.Sprintf("transport %s cannot be opened: %v", c.Transport, err))
		}
		ch := ReadSeqFileChunk("c01", rd, make([]byte, c.Buf), c01splitter(c.Fmt))
		for {
			select {
			case k, ok := <-ch:
				if !ok {
					return
				}
				chunks = append(chunks, c01chunk{k.Order, k.Raw.Bytes()})
			case m := <-c01fatalSig:
				c01fatalSig <- m
				runtime.Goexit()
			}
		}
	})
	return
}

func c01sameChunks(a, b []c01chunk) bool {
	if len(a) != len(b) {
		return false
	}
	for i := range a {
		if a[i].order != b[i].order || !bytes.Equal(a[i].raw, b[i].raw) {
			return false
		}
	}
	return true
}

// c01parseChunks parses every chunk (in Order) and returns the concatenated observations.
func c01parseChunks(c c01case, chunks []c01chunk, withQual bool) (obs []c01obs, last []bool, site string, ab string) {
	var p SeqFileChunkParser
	p, site = c01parser(c.Fmt, withQual, c.WithFeat)
	sorted := append([]c01chunk{}, chunks...)
	sort.SliceStable(sorted, func(i, j int) bool { return sorted[i].order < sorted[j].order })
	ab = c01isolate(func() {
		for _, k := range sorted {
			sl, err := p("c01", bytes.NewBuffer(append([]byte{}, k.raw...)))
			if err != nil {
				panic(fmt.Sprintf("parser error: %v", err))
			}
			for i, s := range sl {
				obs = append(obs, c01observe(s))
				last = append(last, i == len(sl)-1)
			}
		}
	})
	return
}

type c01ctx struct {
	r      *verifkit.Result
	replay bool            // replaying one stored case: only its with_quality setting is parsed
	hung   map[string]bool // entry points that deadlocked in this process
	// thorough full shape products: flat files are parsed with the feature table only (it observes
	// everything the other mode observes; both modes run on the quick shape sets)
	featOnly bool
}

func (x *c01ctx) report(c c01case, vs []c01viol) {
	for _, v := range vs {
		x.r.Violate(v.key, fmt.Sprintf("%s [fmt=%s shapes=%v crlf=%v relhdr=%v transport=%s split=%d buf=%d part=%s reader=%s ext=%s workers=%d pad=%d features=%v fullfilebatch=%v fd0=%s]",
			v.desc, c.Fmt, c.Shapes, c.CRLF, c.RelHdr, c.Transport, c.Split, c.Buf, c.Part, c.Reader, c.Ext, c.Workers, c.Pad, c.WithFeat, c.FullBatch, c.Fd0), c)
	}
}

func c01chunkSig(chunks []c01chunk) string {
	var sb strings.Builder
	for _, k := range chunks {
		fmt.Fprintf(&sb, "%d:%d,", k.order, len(k.raw))
	}
	return sb.String()
}

// c01evalE1 executes one (file, transport, buffer) case completely (chunking + parsing with
// with_quality true and, for FASTQ, false). ref (optional) = chunk stream of transport "whole" at
// the same buffer size, already verified: an identical stream needs no second parse.
func (x *c01ctx) evalE1(c c01case, f c01file, payload []byte, ref []c01chunk, haveRef bool) []c01chunk {
	r := x.r
	chunks, ab := c01chunkRun(c, payload)
	r.Eval(1)
	r.Trans(int64(len(chunks)))
	if ab != "" {
		x.report(c, []c01viol{{"ReadSeqFileChunk/" + c.Fmt + "/" + c01abClass(ab), ab}})
		return nil
	}
	for i, k := range chunks {
		if k.order != i {
			x.report(c, []c01viol{{"ReadSeqFileChunk/" + c.Fmt + "/chunk-order-numbers", fmt.Sprintf("chunk %d of the channel carries Order %d", i, k.order)}})
			break
		}
	}
	if len(chunks) >= 2 {
		r.Count("runs_with_2+_chunks", 1)
	}
	if c.Buf < len(f.data) {
		r.Count("runs_buffer_smaller_than_file", 1) // what the harness asks for (the guard), whatever the chunk reader answers
	}
	if haveRef {
		if c01sameChunks(chunks, ref) {
			r.Count("transport_runs_same_chunk_stream", 1)
			return chunks
		}
		r.Count("transport_runs_other_chunk_stream", 1)
	}
	fh := fnv.New64a()
	fh.Write(f.data)
	r.State(fmt.Sprintf("%s|%x|%s", c.Fmt, fh.Sum64(), c01chunkSig(chunks)))
	type pmode struct{ wq, wf bool }
	modes := []pmode{{true, false}}
	switch c.Fmt {
	case "fastq":
		modes = []pmode{{true, false}, {false, false}}
	case "genbank", "embl":
		modes = []pmode{{true, false}, {true, true}} // without / with the feature table
		if x.featOnly {
			modes = modes[1:]
		}
	}
	if x.replay {
		modes = []pmode{{c.WithQual, c.WithFeat}}
	}
	for _, m := range modes {
		wq := m.wq
		cc := c
		cc.WithQual, cc.WithFeat = wq, m.wf
		obs, last, site, ab := c01parseChunks(cc, chunks, wq)
		r.Count("chunk_parses", int64(len(chunks)))
		if m.wf {
			r.Count("chunk_parses_with_feature_table", int64(len(chunks)))
		}
		if ab != "" {
			x.report(cc, []c01viol{{site + "/" + c01abClass(ab), ab + " (chunks " + c01chunkSig(chunks) + ")"}})
			continue
		}
		r.Count("records_parsed", int64(len(obs)))
		x.report(cc, c01compare(site, site, cc, f, obs, last, wq, "c01"))
	}
	return chunks
}

// c01sweep runs every buffer size for the file with the given transports.
func (x *c01ctx) sweep(c c01case, f c01file, transports []string) {
	r := x.r
	n := len(f.data)
	minrec := n
	prev := 0
	for _, e := range f.ends {
		if e-prev < minrec {
			minrec = e - prev
		}
		prev = e
	}
	payloads := map[string][]byte{}
	for _, t := range transports {
		switch t {
		case "gzip", "bzip2", "xz", "zstd":
			payloads[t] = c01compress(t, f.data)
		default:
			payloads[t] = f.data
		}
	}
	gzipSubset := !verifkit.Thorough() // pgzip allocates several MiB per reader: quick tier sweeps a subset of the sizes
	for b := 2; b <= n+1; b++ {
		if len(transports) == 1 && transports[0] == "gzip" && gzipSubset && !(b <= 64 || b%8 == 0 || b >= n) {
			continue
		}
		c.Buf = b
		c.Transport = "whole"
		c.Split = 0
		ref := x.evalE1(c, f, f.data, nil, false)
		if b < minrec {
			r.Count("runs_buffer_smaller_than_smallest_record", 1)
		}
		for _, t := range transports {
			switch t {
			case "whole":
			case "split":
				for p := 1; p < n; p++ {
					c.Transport, c.Split = "split", p
					x.evalE1(c, f, f.data, ref, ref != nil)
				}
				c.Split = 0
			default:
				c.Transport = t
				x.evalE1(c, f, payloads[t], ref, ref != nil)
			}
		}
	}
}

// ---------------------------------------------------------------- production readers on real files

func c01collect(it obiiter.IBioSequence) (obs []c01obs, orders []int) {
	type bt struct {
		order int
		obs   []c01obs
	}
	var bs []bt
	for it.Next() {
		b := it.Get()
		x := bt{order: b.Order()}
		for _, s := range b.Slice() {
			x.obs = append(x.obs, c01observe(s))
		}
		bs = append(bs, x)
	}
	sort.SliceStable(bs, func(i, j int) bool { return bs[i].order < bs[j].order })
	for _, b := range bs {
		orders = append(orders, b.order)
		obs = append(obs, b.obs...)
	}
	return
}

var c01tmp string

func c01write(name string, c c01case, data []byte) string {
	p := filepath.Join(c01tmp, name+c.Ext)
	payload := data
	switch c.Ext {
	case ".gz":
		payload = c01compress("gzip", data)
	case ".bz2":
		payload = c01compress("bzip2", data)
	case ".xz":
		payload = c01compress("xz", data)
	case ".zst":
		payload = c01compress("zstd", data)
	}
	if err := os.WriteFile(p, payload, 0o644); err != nil {
		panic(err)
	}
	return p
}

// ---- file descriptor 0 of the process as the transport (the commands read os.Stdin / C stdin)

var c01savedStdin = -1

// c01pipeFeed writes the payload into the write end of a pipe (in pieces: the reader sees short reads
// when it is faster than the feeder) and closes it.
func c01pipeFeed(fd int, payload []byte) {
	defer syscall.Close(fd)
	for len(payload) > 0 {
		n := 60000
		if n > len(payload) {
			n = len(payload)
		}
		w, err := syscall.Write(fd, payload[:n])
		if err != nil {
			return // reader gone (EPIPE is ignored by the Go runtime for fds other than 1 and 2)
		}
		payload = payload[w:]
	}
}

// c01setStdin makes fd 0 a regular file ("file", like `cmd < FILE`) or the read end of a pipe ("pipe",
// like `cat FILE | cmd`) delivering payload; the returned function restores the original fd 0.
func c01setStdin(kind string, payload []byte) func() {
	if c01savedStdin < 0 {
		fd, err := syscall.Dup(0)
		if err != nil {
			panic(err)
		}
		c01savedStdin = fd
	}
	switch kind {
	case "file":
		p := filepath.Join(c01tmp, "c01_stdin.dat")
		if err := os.WriteFile(p, payload, 0o644); err != nil {
			panic(err)
		}
		fd, err := syscall.Open(p, syscall.O_RDONLY, 0)
		if err != nil {
			panic(err)
		}
		if err := syscall.Dup3(fd, 0, 0); err != nil {
			panic(err)
		}
		syscall.Close(fd)
		os.Remove(p)
	case "pipe":
		var p [2]int
		if err := syscall.Pipe(p[:]); err != nil {
			panic(err)
		}
		if err := syscall.Dup3(p[0], 0, 0); err != nil {
			panic(err)
		}
		syscall.Close(p[0])
		go c01pipeFeed(p[1], payload)
	default:
		panic("c01: fd0 kind " + kind)
	}
	return func() {
		if err := syscall.Dup3(c01savedStdin, 0, 0); err != nil {
			panic(err)
		}
	}
}

// c01open calls the production entry point the case names. path: the real file ("" for stdin cases).
func c01open(c c01case, path string) (site string, it obiiter.IBioSequence, err error) {
	opts := []WithOption{OptionFastSeqDoNotParseHeader(), OptionsParallelWorkers(c.Workers), OptionsReadQualities(c.WithQual), OptionsBatchSize(3)}
	if c.WithFeat {
		opts = append(opts, WithFeatureTable(true))
	}
	if c.FullBatch {
		opts = append(opts, OptionsFullFileBatch(true))
	}
	switch c.Reader {
	case "universal":
		site = "ReadSequencesFromFile/" + c.Fmt
		it, err = ReadSequencesFromFile(path, opts...)
	case "universal-dash":
		site = "ReadSequencesFromFile(-)/" + c.Fmt
		it, err = ReadSequencesFromFile("-", opts...)
	case "kseq":
		site = "ReadFastSeqFromFile/" + c.Fmt
		it, err = ReadFastSeqFromFile(path, opts...)
	case "kseq-stdin":
		site = "ReadFastSeqFromStdin/" + c.Fmt
		it = ReadFastSeqFromStdin(opts...)
	case "format", "format-dash":
		if c.Reader == "format-dash" {
			path = "-"
		}
		switch c.Fmt {
		case "fasta":
			site = "ReadFastaFromFile"
			it, err = ReadFastaFromFile(path, opts...)
		case "fastq":
			site = "ReadFastqFromFile"
			it, err = ReadFastqFromFile(path, opts...)
		case "genbank":
			site = "ReadGenbankFromFile"
			it, err = ReadGenbankFromFile(path, opts...)
		case "embl":
			site = "ReadEMBLFromFile"
			it, err = ReadEMBLFromFile(path, opts...)
		}
		if c.Reader == "format-dash" {
			site += "(-)"
		}
	case "format-stdin": // what CLIReadBioSequences does for an imposed flat-file format + the exported *FromStdin readers
		switch c.Fmt {
		case "fasta":
			site = "ReadFastaFromStdin"
			it, err = ReadFastaFromStdin(nil, opts...)
		case "fastq":
			site = "ReadFastqFromStdin"
			it, err = ReadFastqFromStdin(nil, opts...)
		case "genbank":
			site = "ReadGenbank(os.Stdin)"
			it, err = ReadGenbank(os.Stdin, append(opts, OptionsSource("stdin"))...)
		case "embl":
			site = "ReadEMBL(os.Stdin)"
			it, err = ReadEMBL(os.Stdin, append(opts, OptionsSource("stdin"))...)
		}
	default:
		panic("c01: reader " + c.Reader)
	}
	if c.FullBatch {
		site += "+full-file-batch"
	}
	return
}

func c01payload(ext string, data []byte) []byte {
	switch ext {
	case ".gz":
		return c01compress("gzip", data)
	case ".bz2":
		return c01compress("bzip2", data)
	case ".xz":
		return c01compress("xz", data)
	case ".zst":
		return c01compress("zstd", data)
	}
	return data
}

// c01evalPipe reads a real file (or the process's stdin) through a production entry point.
func (x *c01ctx) evalPipe(c c01case, f c01file) {
	x.evalRead(c, f.data, func(obs []c01obs, site, csite string, wq bool) []c01viol {
		return c01compare(csite, site, c, f, obs, nil, wq, "")
	})
}

// evalRead: data -> file or stdin -> entry point -> records (batches put in Order) -> judge.
func (x *c01ctx) evalRead(c c01case, data []byte, judge func(obs []c01obs, site, csite string, wq bool) []c01viol) {
	r := x.r
	path := ""
	if c.Part == "stdin" {
		restore := c01setStdin(c.Fd0, c01payload(c.Ext, data))
		defer restore()
	} else if c.Part == "bigflat" {
		path = filepath.Join(c01tmp, "c01_bigflat"+map[string]string{"genbank": ".gb", "embl": ".dat"}[c.Fmt])
		if err := os.WriteFile(path, data, 0o644); err != nil {
			panic(err)
		}
		defer os.Remove(path)
	} else {
		ext := map[string]string{"fasta": ".fasta", "fastq": ".fastq", "genbank": ".gb", "embl": ".dat"}[c.Fmt]
		path = c01write("c01_"+c.Part+ext, c, data)
		defer os.Remove(path)
	}
	// a site that deadlocked once in this process is not called again (every further call would
	// cost the watchdog's delay and report the same key)
	if x.hung == nil {
		x.hung = map[string]bool{}
	}
	hkey := fmt.Sprintf("%s|%s|%v", c.Reader, c.Fmt, c.FullBatch)
	if x.hung[hkey] {
		r.Count("pipeline_reads_skipped_after_deadlock", 1)
		return
	}
	var obs []c01obs
	var orders []int
	var openErr error
	site := ""
	ab := c01isolate(func() {
		done := make(chan struct{})
		go func() {
			defer func() {
				if p := recover(); p != nil {
					c01mu.Lock()
					c01lastFatal = fmt.Sprintf("panic: %v", p)
					c01mu.Unlock()
					select {
					case c01fatalSig <- c01lastFatal:
					default:
					}
				}
			}()
			var it obiiter.IBioSequence
			var err error
			site, it, err = c01open(c, path)
			if err != nil {
				openErr = err
				close(done)
				return
			}
			obs, orders = c01collect(it)
			close(done)
		}()
		select {
		case <-done:
		case m := <-c01fatalSig:
			c01fatalSig <- m
			runtime.Goexit()
		}
	})
	r.Eval(1)
	r.Count("pipeline_reads", 1)
	if c.FullBatch {
		r.Count("pipeline_reads_full_file_batch", 1)
	}
	if c.Part == "stdin" {
		r.Count("stdin_reads_"+c.Reader+"_"+c.Fd0+c.Ext, 1)
	}
	if site == "" {
		// the entry point died before it returned (c01open names the site on return)
		site = "entry-point(" + c.Reader + ")/" + c.Fmt
	}
	if ab != "" {
		if c01abClass(ab) == "deadlock" {
			x.hung[hkey] = true
		}
		x.report(c, []c01viol{{site + "/" + c01abClass(ab), ab}})
		return
	}
	if openErr != nil {
		x.report(c, []c01viol{{site + "/open-error", openErr.Error()}})
		return
	}
	for i := 1; i < len(orders); i++ {
		if orders[i] == orders[i-1] {
			x.report(c, []c01viol{{site + "/duplicate-batch-order", fmt.Sprintf("batch orders %v", orders)}})
			break
		}
	}
	if c.FullBatch && len(orders) > 1 {
		x.report(c, []c01viol{{site + "/more-than-one-batch", fmt.Sprintf("full file batch mode delivered batches %v", orders)}})
	}
	r.Trans(int64(len(orders)))
	if len(orders) >= 3 {
		r.Count("pipeline_reads_with_3+_batches", 1)
	}
	r.Count("records_parsed", int64(len(obs)))
	wq := c.WithQual
	kseq := c.Reader == "kseq" || c.Reader == "kseq-stdin"
	if kseq {
		wq = true // the kseq reader has no option to skip qualities
	}
	var csite string
	if kseq {
		// kseq reader: one site for both formats, structure and content
		site = strings.Replace(site, "/"+c.Fmt, "", 1)
		csite = site
	} else {
		_, csite = c01parser(c.Fmt, wq, c.WithFeat) // record content is produced by the chunk parser
	}
	x.report(c, judge(obs, site, csite, wq))
}

// ---- big flat files: more than the 128 MiB production buffer of ReadGenbank / ReadEMBL

const c01bigFlatRecLen = 100020 // bases per record (a multiple of 60)

func c01bigFlatSeq(base string, i int) string {
	r := (i * 37) % len(base)
	return base[r:] + base[:r]
}

// c01bigFlat builds a flat file a little larger than 128 MiB (+3 MiB): n records of 100 kb.
func c01bigFlat(f string) (data []byte, n int, base string) {
	base = c01seq(7, 7, c01bigFlatRecLen)
	var bb bytes.Buffer
	bb.Grow(140 << 20)
	spaces := "                    "
	for n = 0; bb.Len() < (128+3)<<20; n++ {
		seq := c01bigFlatSeq(base, n)
		L := len(seq)
		if f == "genbank" {
			fmt.Fprintf(&bb, "LOCUS       BIG%d %d bp    DNA     linear   SYN 01-JAN-2000\nDEFINITION  Synthetic big record %d.\nACCESSION   BIG%d\nFEATURES             Location/Qualifiers\n     source          1..%d\n                     /db_xref=\"taxon:%d\"\nORIGIN      \n", n, L, n, n, L, 1000+n)
		} else {
			fmt.Fprintf(&bb, "ID   BIG%d; SV 1; linear; genomic DNA; STD; SYN; %d BP.\nXX\nDE   Synthetic big record %d.\nXX\nFH   Key             Location/Qualifiers\nFH\nFT   source          1..%d\nFT                   /db_xref=\"taxon:%d\"\nXX\nSQ   Sequence %d BP; 0 A; 0 C; 0 G; 0 T; 0 other;\n", n, L, n, L, 1000+n, L)
		}
		for i := 0; i < L; i += 60 {
			if f == "genbank" {
				num := fmt.Sprint(i + 1)
				bb.WriteString(spaces[:9-len(num)])
				bb.WriteString(num)
			} else {
				bb.WriteString("    ")
			}
			for j := i; j < i+60; j += 10 {
				bb.WriteByte(' ')
				bb.WriteString(seq[j : j+10])
			}
			if f == "embl" {
				num := fmt.Sprint(i + 60)
				bb.WriteString(spaces[:10-len(num)])
				bb.WriteString(num)
			}
			bb.WriteByte('\n')
		}
		bb.WriteString("//\n")
	}
	return bb.Bytes(), n, base
}

// evalBigFlat: ReadGenbankFromFile / ReadEMBLFromFile on a file of two production chunks.
func (x *c01ctx) evalBigFlat(c c01case) {
	data, n, base := c01bigFlat(c.Fmt)
	x.evalRead(c, data, func(obs []c01obs, site, csite string, wq bool) []c01viol {
		data = nil
		var out []c01viol
		site += "/two-production-chunks"
		if len(obs) != n {
			class := "records-missing"
			if len(obs) > n {
				class = "records-extra"
			}
			return []c01viol{{site + "/" + class, fmt.Sprintf("delivered %d records, the file has %d", len(obs), n)}}
		}
		misplaced, first := 0, -1
		ids := map[string]bool{}
		for i, g := range obs {
			ids[g.Id] = true
			if g.Id != fmt.Sprintf("BIG%d", i) {
				misplaced++
				if first < 0 {
					first = i
				}
			}
		}
		if misplaced > 0 {
			class := "id"
			if len(ids) == n {
				class = "record-order" // every record is there, not in file order
			}
			return []c01viol{{site + "/" + class, fmt.Sprintf("%d of %d records are not at their rank: rank %d holds %s, rank 0 holds %s", misplaced, n, first, obs[first].Id, obs[0].Id)}}
		}
		for i, g := range obs {
			if g.Seq != c01bigFlatSeq(base, i) {
				out = append(out, c01viol{csite + "/sequence", fmt.Sprintf("record %d (%s): sequence of %d bases differs from the file's (%d bases)", i, g.Id, len(g.Seq), len(base))})
				break
			}
			if want := fmt.Sprintf("int:%d", 1000+i); g.Ann["taxid"] != want {
				out = append(out, c01viol{csite + "/annotation:taxid", fmt.Sprintf("record %d (%s): taxid %q want %q", i, g.Id, g.Ann["taxid"], want)})
				break
			}
		}
		x.r.Count("bigflat_records", int64(n))
		return out
	})
	runtime.GC()
}

// ---------------------------------------------------------------- corpus enumeration

// c01tuples calls fn with every tuple of length k over idx.
func c01tuples(idx []int, k int, fn func(t []int)) {
	t := make([]int, k)
	var rec func(d int)
	rec = func(d int) {
		if d == k {
			fn(append([]int{}, t...))
			return
		}
		for _, v := range idx {
			t[d] = v
			rec(d + 1)
		}
	}
	rec(0)
}

func c01range(n int) []int {
	o := make([]int, n)
	for i := range o {
		o[i] = i
	}
	return o
}

// process CPU time (diagnostic counters cpu_ms_*: the machine is shared, wall time says little)
func c01cpu() time.Duration {
	var ru syscall.Rusage
	syscall.Getrusage(syscall.RUSAGE_SELF, &ru)
	return time.Duration(ru.Utime.Nano() + ru.Stime.Nano())
}
func c01cpuSince(t0 time.Duration) int64 { return (c01cpu() - t0).Milliseconds() }

// 3 MiB file for E4: records cycle through every shape.
func c01big(f string) (c01file, c01case) {
	c := c01case{Part: "e4", Fmt: f}
	var file c01file
	var bb bytes.Buffer
	n := c01nShapes(f)
	for i := 0; bb.Len() < 3*1024*1024+4096; i++ {
		sh := (i*7 + i/n) % n
		r := c01gen(f, sh, i)
		file.recs = append(file.recs, r)
		bb.WriteString(r.Text)
		file.ends = append(file.ends, bb.Len())
	}
	file.data = bb.Bytes()
	return file, c
}

func TestVerifC01(t *testing.T) {
	log.SetOutput(io.Discard)
	log.AddHook(c01hook{})
	log.StandardLogger().ExitFunc = c01exit
	obioptions.SetInputQualityShift(33)
	r := verifkit.New("C01")
	defer r.Write()
	x := &c01ctx{r: r}
	var err error
	c01tmp, err = os.MkdirTemp("", "c01-")
	if err != nil {
		t.Fatal(err)
	}
	defer os.RemoveAll(c01tmp)

	// ---- replay of one stored case
	if rc := r.ReplayCase(); rc != nil {
		var c c01case
		if err := json.Unmarshal(rc, &c); err != nil {
			t.Fatal(err)
		}
		switch c.Part {
		case "e1":
			f := c01build(c)
			x.replay = true
			payload := f.data
			switch c.Transport {
			case "gzip", "bzip2", "xz", "zstd":
				payload = c01compress(c.Transport, f.data)
			}
			if c.Buf == 0 {
				for b := 2; b <= len(f.data)+1; b++ {
					c.Buf = b
					x.evalE1(c, f, payload, nil, false)
				}
			} else {
				x.evalE1(c, f, payload, nil, false)
			}
		case "pipe", "e3", "e3sweep":
			x.evalPipe(c, c01build(c))
		case "e4":
			f, _ := c01big(c.Fmt)
			x.evalPipe(c, f)
		case "stdin":
			if c.Big {
				f, _ := c01big(c.Fmt)
				x.evalPipe(c, f)
			} else {
				x.evalPipe(c, c01build(c))
			}
		case "bigflat":
			x.evalBigFlat(c)
		}
		return
	}

	thorough := verifkit.Thorough()
	formats := []string{"fasta", "fastq", "genbank", "embl"}

	// shape sets: full (thorough), quick subset, reduced subset (expensive transports, pipeline, kseq)
	full := map[string][]int{}
	for _, f := range formats {
		full[f] = c01range(c01nShapes(f))
	}
	// FASTQ full product: the two short sequence lengths only (the 61-base shapes are in the quick set)
	full["fastq"] = nil
	for sh := 0; sh < c01nFastq(); sh++ {
		if sh%len(c01fqLens) != 2 {
			full["fastq"] = append(full["fastq"], sh)
		}
	}
	quick := map[string][]int{
		// fasta: shape = layout + 11*defkind
		"fasta": {0, 11 + 5, 22 + 10, 11 + 2, 7, 22 + 3},
		// fastq: shape = len + 3*(qk + 4*(sk + 2*hk))
		"fastq": {0, 1 + 3*(1+4*(0+2*0)), 1 + 3*(2+4*(1+2*1)), 1 + 3*(3+4*(1+2*2)), 0 + 3*(1+4*(0+2*2)), 2 + 3*(0+4*(1+2*1)), 1 + 3*(1+4*(1+2*2))},
		// flat: tax | sci<<1 | def2<<2 + 8*len
		"genbank": {0, 3, 1 + 4 + 8, 2 + 16, 1 + 24}, // 24..: CONTIG entry (no ORIGIN section)
		"embl":    {0, 3, 1 + 4 + 8, 2 + 16},
	}
	reduced := map[string][]int{
		"fasta":   {0, 11 + 5, 22 + 10},
		"fastq":   {1 + 3*(1+4*(0+2*0)), 1 + 3*(2+4*(1+2*1)), 0 + 3*(3+4*(1+2*2))},
		"genbank": {0, 3, 24},
		"embl":    {0, 3},
	}
	type plan struct {
		v      c01case
		shapes []int
		full   bool
	}
	variants := func(f string) []c01case {
		vs := []c01case{{Fmt: f}, {Fmt: f, CRLF: true}}
		if f == "genbank" {
			vs = append(vs, c01case{Fmt: f, RelHdr: true}, c01case{Fmt: f, RelHdr: true, CRLF: true})
		}
		return vs
	}
	mainPlans := map[string][]plan{}
	for _, f := range formats {
		for _, v := range variants(f) {
			mainPlans[f] = append(mainPlans[f], plan{v, quick[f], false})
			if thorough && !v.RelHdr {
				mainPlans[f] = append(mainPlans[f], plan{v, full[f], true})
			}
		}
	}
	kseqSet := reduced
	if thorough {
		kseqSet = quick
	}
	r.Bound("buffer_sizes", "every size 2..len(file)+1")
	r.Bound("records_per_file", "1 and 3")
	r.Bound("shapes_quick", map[string]int{"fasta": len(quick["fasta"]), "fastq": len(quick["fastq"]), "genbank": len(quick["genbank"]), "embl": len(quick["embl"])})
	if thorough {
		r.Bound("shapes_full", map[string]int{"fasta": len(full["fasta"]), "fastq": len(full["fastq"]), "genbank": len(full["genbank"]), "embl": len(full["embl"])})
	}
	r.Bound("shapes_reduced", map[string]int{"fasta": len(reduced["fasta"]), "fastq": len(reduced["fastq"]), "genbank": len(reduced["genbank"]), "embl": len(reduced["embl"])})
	r.Bound("transports_main", "whole, byte-by-byte")
	r.Bound("transports_reduced", "every 2-piece split, Buf(plain), gzip, bzip2, xz, zstd through Buf")

	if r.Shard == 0 {
		r.Sample(c01case{Part: "e1", Fmt: "fastq", Shapes: quick["fastq"][:3], Transport: "whole", Buf: 17, WithQual: true})
		r.Sample(string(c01build(c01case{Fmt: "fastq", Shapes: quick["fastq"][1:4]}).data))
		r.Sample(string(c01build(c01case{Fmt: "embl", Shapes: []int{3}}).data))
	}
	r.RequireNonVacuous("runs_buffer_smaller_than_file")
	r.RequireNonVacuous("runs_buffer_smaller_than_smallest_record")

	k := 0
	only := os.Getenv("C01_ONLY") // development aid: restrict to one phase, e.g. "main:genbank" (never set by ./check)
	want := func(phase, f string) bool {
		return only == "" || only == phase || only == phase+":"+f
	}

	// ---- E1 main corpus: whole + byte-by-byte, every buffer size
	seenFile := map[string]bool{}
	runMain := func(fullProduct bool) (stop bool) {
		x.featOnly = fullProduct
		defer func() { x.featOnly = false }()
		order := formats
		if fullProduct {
			// flat files first: their parsers carry per-record state, the costliest products go last
			order = []string{"genbank", "embl", "fasta", "fastq"}
		}
		for _, f := range order {
			if !want("main", f) {
				continue
			}
			for _, pl := range mainPlans[f] {
				if pl.full != fullProduct {
					continue
				}
				for _, nrec := range []int{1, 3} {
					c01tuples(pl.shapes, nrec, func(tp []int) {
						if stop {
							return
						}
						c := pl.v
						c.Part, c.Shapes = "e1", tp
						id := fmt.Sprintf("%s|%v|%v|%v", f, c.CRLF, c.RelHdr, tp)
						if seenFile[id] {
							return // the quick set is a subset of the full set
						}
						seenFile[id] = true
						mine := r.Mine(k)
						k++
						if !mine {
							return
						}
						if r.Expired() {
							stop = true
							return
						}
						file := c01build(c)
						fh := fnv.New64a()
						fh.Write(file.data)
						r.State(fmt.Sprintf("file|%x", fh.Sum64()))
						r.Count("files_"+f, 1)
						t0 := c01cpu()
						x.sweep(c, file, []string{"whole", "bytes"})
						r.Count("cpu_ms_main_"+f, c01cpuSince(t0))
					})
					if stop {
						return
					}
				}
			}
		}
		return
	}
	// the quick shape sets first (in the thorough tier the full products come last, so that a run cut
	// short by its deadline has still covered everything the quick tier covers)
	// Breadth first (HARNESS_GUIDE rule 10): the cheap distinct classes (stdin, kseq, 3 MiB files: about 7 %
	// of the CPU time of the quick tier) run before the deep enumerations (every buffer size x transport), so
	// that a run cut by its deadline has visited every entry point once.
	deep := func() {
		if runMain(false) {
			return
		}

		// ---- E1 reduced corpus: every 2-piece split and the compressed transports; pipeline
		for _, f := range formats {
			if !want("reduced", f) {
				continue
			}
			for _, v := range variants(f) {
				stop := false
				c01tuples(reduced[f], 3, func(tp []int) {
					if stop {
						return
					}
					c := v
					c.Part, c.Shapes = "e1", tp
					var file c01file
					built := false
					get := func() c01file {
						if !built {
							file = c01build(c)
							built = true
						}
						return file
					}
					for _, tr := range []string{"split", "buf", "gzip", "bzip2", "xz", "zstd"} {
						if tr == "split" && (f == "genbank" || f == "embl") {
							continue // n^2 runs per file: flat files get 2-record files (below)
						}
						mine := r.Mine(k)
						k++
						if !mine {
							continue
						}
						if r.Expired() {
							stop = true
							return
						}
						r.Count("reduced_file_transport_"+tr, 1)
						t0 := c01cpu()
						x.sweep(c, get(), []string{tr})
						r.Count("cpu_ms_reduced_"+tr+"_"+f, c01cpuSince(t0))
					}
					// production readers on a real file
					mine := r.Mine(k)
					k++
					if mine {
						t0 := c01cpu()
						defer func() { r.Count("cpu_ms_pipe", c01cpuSince(t0)) }()
						for _, ext := range []string{"", ".gz", ".bz2", ".xz", ".zst"} {
							for _, rdr := range []string{"universal", "format"} {
								if rdr == "universal" && c.Fmt == "genbank" && c.RelHdr && c.CRLF {
									continue // format sniffing of a CRLF release header is outside the statement
								}
								for _, w := range []int{1, 2, 3} {
									if !thorough && !((rdr == "universal" && w == 2) || (rdr == "format" && w != 2 && (ext == "" || ext == ".gz"))) {
										continue
									}
									// options: full file batch x (flat files) feature table
									flat := c.Fmt == "genbank" || c.Fmt == "embl"
									for _, fb := range []bool{false, true} {
										for _, wf := range []bool{false, true} {
											if wf && !flat {
												continue
											}
											if !thorough && flat && fb && !wf {
												continue // quick: full file batch of flat files with the feature table only
											}
											pc := c
											pc.Part, pc.Reader, pc.Ext, pc.Workers, pc.WithQual = "pipe", rdr, ext, w, true
											pc.FullBatch, pc.WithFeat = fb, wf
											x.evalPipe(pc, get())
											if c.Fmt == "fastq" && ext == "" && (thorough || (rdr == "format" && w == 1)) {
												pc.WithQual = false // OptionsReadQualities(false): no record stores qualities
												x.evalPipe(pc, get())
												r.Count("pipeline_reads_without_qualities", 1)
											}
										}
									}
								}
							}
						}
					}
				})
				if stop {
					return
				}
			}
		}

		// ---- every 2-piece split x every buffer size on 2-record flat files
		for _, f := range []string{"genbank", "embl"} {
			if !want("reduced", f) {
				continue
			}
			vs := variants(f)
			if !thorough {
				vs = vs[:1]
			}
			for _, v := range vs {
				stop := false
				c01tuples(reduced[f], 2, func(tp []int) {
					if stop {
						return
					}
					mine := r.Mine(k)
					k++
					if !mine {
						return
					}
					if r.Expired() {
						stop = true
						return
					}
					c := v
					c.Part, c.Shapes = "e1", tp
					r.Count("reduced_file_transport_split", 1)
					t0 := c01cpu()
					x.sweep(c, c01build(c), []string{"split"})
					r.Count("cpu_ms_reduced_split_"+f, c01cpuSince(t0))
				})
				if stop {
					return
				}
			}
		}

	}
	cheap := func() {
		// ---- stdin: file descriptor 0 of the process is the transport (regular file: `cmd < FILE`, pipe:
		// `cat FILE | cmd`), read by the entry points the commands use for it: ReadFastSeqFromStdin (kseq
		// on C stdin), ReadGenbank / ReadEMBL on os.Stdin, and by the exported ReadFasta/FastqFromStdin and
		// the "-" file name of Read*FromFile
		for _, f := range formats {
			if !want("stdin", f) {
				continue
			}
			flat := f == "genbank" || f == "embl"
			for _, v := range variants(f) {
				stop := false
				c01tuples(reduced[f], 3, func(tp []int) {
					if stop {
						return
					}
					mine := r.Mine(k)
					k++
					if !mine {
						return
					}
					if r.Expired() {
						stop = true
						return
					}
					t0 := c01cpu()
					c := v
					c.Part, c.Shapes, c.Workers, c.WithQual = "stdin", tp, 2, true
					file := c01build(c)
					type sc struct {
						rdr, fd0, ext string
						quick         bool
					}
					var scs []sc
					if !flat {
						for _, fd0 := range []string{"file", "pipe"} {
							for _, ext := range []string{"", ".gz"} {
								scs = append(scs, sc{"kseq-stdin", fd0, ext, true})
								scs = append(scs, sc{"format-stdin", fd0, ext, (fd0 == "file") == (ext == "")})
								scs = append(scs, sc{"universal-dash", fd0, ext, fd0 == "pipe" && ext == ""})
								scs = append(scs, sc{"format-dash", fd0, ext, fd0 == "file" && ext == ".gz"})
							}
						}
					} else {
						for _, fd0 := range []string{"file", "pipe"} {
							scs = append(scs, sc{"format-stdin", fd0, "", true}) // the commands hand os.Stdin itself to ReadGenbank / ReadEMBL: no decompression
							for _, ext := range []string{"", ".gz"} {
								scs = append(scs, sc{"universal-dash", fd0, ext, (fd0 == "pipe") == (ext == "")})
								scs = append(scs, sc{"format-dash", fd0, ext, (fd0 == "file") == (ext == "")})
							}
						}
					}
					for _, s := range scs {
						if !thorough && !s.quick {
							continue
						}
						if s.rdr == "universal-dash" && c.Fmt == "genbank" && c.RelHdr && c.CRLF {
							continue // format sniffing of a CRLF release header is outside the statement
						}
						pc := c
						pc.Reader, pc.Fd0, pc.Ext = s.rdr, s.fd0, s.ext
						pc.WithFeat = flat && s.fd0 == "pipe"
						x.evalPipe(pc, file)
						r.Count("stdin_reads", 1)
					}
					r.Count("cpu_ms_stdin", c01cpuSince(t0))
				})
				if stop {
					return
				}
			}
		}

	}
	bigflat := func() {
		// ---- big flat files (thorough): > 128 MiB, the only way to get two production chunks out of
		// ReadGenbank / ReadEMBL; 2 and 3 parser workers, with and without full file batch
		if thorough {
			for _, f := range []string{"genbank", "embl"} {
				if !want("bigflat", f) {
					continue
				}
				for _, fb := range []bool{false, true} {
					for _, w := range []int{2, 3} {
						if fb == (w == 3) {
							continue // (plain, 3 workers) and (full file batch, 2 workers)
						}
						mine := r.Mine(k)
						k++
						if !mine {
							continue
						}
						if r.Expired() {
							return
						}
						t0 := c01cpu()
						x.evalBigFlat(c01case{Part: "bigflat", Fmt: f, Reader: "format", Workers: w, WithQual: true, FullBatch: fb})
						r.Count("bigflat_reads", 1)
						r.Count("cpu_ms_bigflat", c01cpuSince(t0))
					}
				}
			}
		}

	}
	kseq := func() {
		// ---- E3: kseq C reader on whole files (plain and gzip)
		for _, f := range []string{"fasta", "fastq"} {
			if !want("e3", f) {
				continue
			}
			for _, crlf := range []bool{false, true} {
				stop := false
				c01tuples(kseqSet[f], 3, func(tp []int) {
					if stop {
						return
					}
					mine := r.Mine(k)
					k++
					if !mine {
						return
					}
					if r.Expired() {
						stop = true
						return
					}
					t0 := c01cpu()
					for _, ext := range []string{"", ".gz"} {
						c := c01case{Part: "e3", Fmt: f, Shapes: tp, CRLF: crlf, Reader: "kseq", Ext: ext, Workers: 1, WithQual: true}
						x.evalPipe(c, c01build(c))
						r.Count("kseq_reads", 1)
					}
					r.Count("cpu_ms_e3", c01cpuSince(t0))
				})
				if stop {
					return
				}
			}
		}

		// ---- E3 sweep: kseq's 4096-byte refill boundary over every byte of a 3-record tail
		for _, f := range []string{"fasta", "fastq"} {
			if !want("e3sweep", f) {
				continue
			}
			for _, crlf := range []bool{false, true} {
				stop := false
				sweepShapes := reduced[f]
				if !thorough {
					sweepShapes = sweepShapes[1:]
				}
				c01tuples(sweepShapes, 3, func(tp []int) {
					if stop {
						return
					}
					mine := r.Mine(k)
					k++
					if !mine {
						return
					}
					if r.Expired() {
						stop = true
						return
					}
					t0 := c01cpu()
					c := c01case{Part: "e3sweep", Fmt: f, Shapes: tp, CRLF: crlf, Reader: "kseq", Workers: 1, WithQual: true}
					c.Pad = 1
					f1 := c01build(c)
					tail := len(f1.data) - f1.ends[0]
					exts := []string{""}
					if thorough {
						exts = []string{"", ".gz"}
					}
					seen := map[int]bool{}
					for e := 0; e <= 1; e++ {
						for pad := 1; pad <= 4100; pad++ {
							c.Pad, c.PadId = pad, e
							o := 4096 - c01padLen(c)
							if o < -2 || o > tail+2 || seen[o] {
								continue
							}
							seen[o] = true
							for _, ext := range exts {
								c.Ext = ext
								x.evalPipe(c, c01build(c))
								r.Count("kseq_boundary_sweep_reads", 1)
							}
						}
					}
					r.Count("kseq_boundary_offsets", int64(len(seen)))
					r.Count("cpu_ms_e3sweep", c01cpuSince(t0))
				})
				if stop {
					return
				}
			}
		}

		// ---- E4 (in process): 3 MiB files, >= 3 production chunks
		for _, f := range []string{"fasta", "fastq"} {
			if !want("e4", f) {
				continue
			}
			var big c01file
			built := false
			for _, rdr := range []string{"format", "universal", "kseq", "kseq-stdin", "format-stdin"} {
				for _, ext := range []string{"", ".gz"} {
					for _, w := range []int{1, 2, 4} {
						for _, fb := range []bool{false, true} {
							for _, fd0 := range []string{"file", "pipe"} {
								stdin := strings.HasSuffix(rdr, "-stdin")
								if !stdin && fd0 != "file" {
									continue // fd0 is a dimension of the stdin readers only
								}
								if strings.HasPrefix(rdr, "kseq") && w != 1 {
									continue
								}
								if stdin && (fb || (rdr == "format-stdin" && w != 2)) {
									continue
								}
								if !thorough && ((rdr == "format" && w == 2) || (rdr == "universal" && (w != 2 || ext != ""))) {
									continue
								}
								if !thorough && fb && !(ext == "" && ((rdr == "format" && w == 4) || rdr == "kseq")) {
									continue
								}
								if !thorough && stdin && !((rdr == "kseq-stdin" && ((fd0 == "pipe") == (ext == ""))) || (rdr == "format-stdin" && fd0 == "pipe" && ext == ".gz")) {
									continue // quick: kseq on a plain pipe and a gzip file, Go reader on a gzip pipe
								}
								mine := r.Mine(k)
								k++
								if !mine {
									continue
								}
								if r.Expired() {
									return
								}
								if !built {
									big, _ = c01big(f)
									built = true
								}
								t0 := c01cpu()
								c := c01case{Part: "e4", Fmt: f, Reader: rdr, Ext: ext, Workers: w, WithQual: true, FullBatch: fb}
								if stdin {
									c.Part, c.Fd0, c.Big = "stdin", fd0, true
								}
								x.evalPipe(c, big)
								r.Count("e4_reads", 1)
								r.Count("cpu_ms_e4", c01cpuSince(t0))
							}
						}
					}
				}
			}
		}
	}
	// every phase polls r.Expired() and returns at once when the deadline has passed
	cheap()
	kseq()
	deep()
	bigflat()
	if thorough && !r.Expired() {
		runMain(true) // the full shape products last
	}
}
