//go:build verif

package obiformats

// C17 — truncated or corrupt compressed input is reported, never silently accepted.
//
// Fault enumeration on the real reading code (level: fault_enumeration):
//
//   base files   small FASTA / FASTQ (and, thorough tier, a 1.2 MiB FASTA whose decoded stream outlives the
//                1 MiB MIME sniff buffer); small EMBL, GenBank, CSV and ecoPCR files (the other readers behind
//                ReadSequencesFromFile and --embl / --genbank / --ecopcr); a FASTA file whose first record is
//                1.25 MiB long (the chunk reader has to extend its buffer: second read site).
//   images       {gzip, bzip2, xz, zstd} x { written by the Go encoders | written by the gzip, bzip2, xz, zstd
//                commands (embedded; other block / header layouts: e.g. deflate streams of zlib are full of
//                (length, distance) pairs inside which klauspost/flate mistakes the end of input for a clean
//                end of stream) | two concatenated members }
//   faults       trunc   every truncation length 1..len-1 of the compressed file
//                flip    every single-bit flip of the compressed file (small files)
//                rderr   an io.Reader that delivers k bytes and then fails: errors.New("EIO") after every k of the
//                        compressed stream; EIO and io.ErrUnexpectedEOF after every k of the plain stream
//   drivers      file       ReadSequencesFromFile(temp file)                   (in-process, real entry point)
//                fileimp    ReadFasta/Fastq/EMBL/Genbank/CSV/EcoPCRFromFile    (in-process, format imposed)
//                reader     Buf -> OBIMimeTypeGuesser -> Read<format>          (in-process, the 20 glue lines of
//                           ReadSequencesFromFile re-stated over an io.Reader so that a read error can be injected)
//                readerimp  Buf -> Read<format>                                (same for the imposed-format readers)
//                bin        the obiconvert binary built from the tree, on a hashed subset of the `file` cases
//                           (exit status; agreement with the in-process verdict is counted)
//                cli        command-level variants on the `file` cases of selected images (every truncation,
//                           hashed bit flips): --<format> F, I F, F I, --no-order I F, I --paired-with F,
//                           F --paired-with I, obiuniq F  (I = intact copy; wrappers of CLIReadBioSequences:
//                           ReadSequencesBatchFromFiles, PairTo, a command that loads everything first)
//                stdin      the obiconvert binary reading the faulted gzip file on stdin (C kseq/gzread path),
//                           every truncation and every bit flip
//
// Oracle (DESIGN §3 C17): success (no error returned, no fatal exit / exit status 0) implies that the records
// delivered equal the complete original record list. Anything else (error, fatal, panic, crash) is a report.
//
// In-process cases run in CHILD processes of this test binary (same code, env VERIF_C17_CHILD=1) that serve
// one case per request line: log.Fatal is intercepted (logrus ExitFunc records the code and runtime.Goexit()s
// the calling goroutine, which may be a reader goroutine and not the caller; the executor waits for "exit
// recorded" OR "pipeline drained"). A fatal raised in a pipeline goroutine, a hang or a crash leaves the child
// dirty: the supervisor replaces it, so no stale goroutine can pollute a later case, and a panic in a
// goroutine of the code under test is an observed outcome ("crash", i.e. non-zero exit) and not a harness
// failure. Each shard drives several children concurrently (the pipelines mostly sleep in 1 ms polls).
//
// Violation keys: <entry point>[format]/<fault>/<symptom>:<what the decompressor reports>@<site that loses
// it>:<image>:<region of the fault>; when the decompression library itself ends the stream cleanly on the
// damaged input the entry point is irrelevant and the key is decoder[<library>]/<fault>/...:<image>:<region>.
// The part after the first ':' comes from a labelling probe (never used for the verdict).
//
// A format whose reader cannot read the intact control file is skipped (noted, counted). After two confirmed
// hangs in one (base, image, driver, fault) group the rest of the group is skipped (run not exhaustive).
//
// Knobs (debugging only): VERIF_C17_BASES=fa300,fq2k,... restricts the base files (run marked not exhaustive);
// VERIF_C17_WORKERS children per shard; VERIF_C17_KEEP=dir keeps intact images; VERIF_C17_CPUPROFILE.

import (
	"bufio"
	"bytes"
	stdbzip2 "compress/bzip2"
	stdgzip "compress/gzip"
	"context"
	"crypto/sha1"
	"encoding/base64"
	"encoding/hex"
	"encoding/json"
	"errors"
	"fmt"
	"io"
	"os"
	"os/exec"
	"path/filepath"
	"runtime"
	"runtime/pprof"
	"sort"
	"strconv"
	"strings"
	"sync"
	"sync/atomic"
	"testing"
	"time"

	"git.metabarcoding.org/obitools/obitools4/obitools4/pkg/obiiter"
	"git.metabarcoding.org/obitools/obitools4/obitools4/pkg/verifkit"
	dsbzip2 "github.com/dsnet/compress/bzip2"
	"github.com/klauspost/compress/zstd"
	"github.com/klauspost/pgzip"
	log "github.com/sirupsen/logrus"
	"github.com/ulikunitz/xz"
)

// ------------------------------------------------------------------------------------------ base files

type c17rec struct{ id, seq, qual string }

type c17base struct {
	Name  string
	Fmt   string // fasta | fastq | embl | genbank | csv | ecopcr
	Plain []byte
	N     int
	Want  string // digest of the complete record list
	Recs  []c17rec
	Large bool
	Split int // byte offset of a record boundary near the middle of Plain (two-member images)
}

type c17lcg uint64

func (x *c17lcg) next() uint64 {
	*x = *x*6364136223846793005 + 1442695040888963407
	return uint64(*x) >> 33
}

func c17digestRecs(recs []c17rec) string {
	h := sha1.New()
	for _, r := range recs {
		fmt.Fprintf(h, "%s\x00%s\x00%s\n", r.id, r.seq, r.qual)
	}
	return hex.EncodeToString(h.Sum(nil))
}

// c17digestSorted: digest of the record list as a multiset (commands reading several files).
func c17digestSorted(recs []c17rec) string {
	l := make([]string, len(recs))
	for i, r := range recs {
		l[i] = r.id + "\x00" + r.seq + "\x00" + r.qual
	}
	sort.Strings(l)
	h := sha1.New()
	for _, x := range l {
		io.WriteString(h, x+"\n")
	}
	return hex.EncodeToString(h.Sum(nil))
}

func c17tenmers(s string) string {
	var p []string
	for i := 0; i < len(s); i += 10 {
		e := i + 10
		if e > len(s) {
			e = len(s)
		}
		p = append(p, s[i:e])
	}
	return strings.Join(p, " ")
}

// c17makeBase builds a deterministic sequence file. FASTA: one sequence line per record; FASTQ: 4-line
// records, quality lines never start with '@' or '+' (chunk splitting heuristics belong to C01). The flat
// file formats (EMBL, GenBank), CSV and ecoPCR bases exercise the other readers that ReadSequencesFromFile
// and the --embl / --genbank / --ecopcr options dispatch to. fa1rec is a FASTA file whose first record is
// longer than the 1 MiB chunk of the chunk reader (the reader has to extend its buffer: second read site).
func c17makeBase(name string) *c17base {
	var nrec, slen int
	var fm string
	large := false
	switch name {
	case "fa300":
		fm, nrec, slen = "fasta", 4, 60
	case "fq2k":
		fm, nrec, slen = "fastq", 10, 95
	case "fq300":
		fm, nrec, slen = "fastq", 3, 44
	case "fa2k":
		fm, nrec, slen = "fasta", 20, 90
	case "fa1m2":
		fm, nrec, slen, large = "fasta", 11500, 100, true
	case "fa1rec":
		fm, nrec, slen = "fasta", 2, 50
	case "em400":
		fm, nrec, slen = "embl", 3, 70
	case "gb400":
		fm, nrec, slen = "genbank", 3, 70
	case "cs200":
		fm, nrec, slen = "csv", 5, 40
	case "ec700":
		fm, nrec, slen = "ecopcr", 4, 40
	default:
		panic("c17: unknown base " + name)
	}
	g := c17lcg(0x9e3779b97f4a7c15 ^ uint64(len(name))*977 ^ uint64(nrec))
	var buf bytes.Buffer
	recs := make([]c17rec, 0, nrec)
	split := 0
	switch fm {
	case "csv":
		buf.WriteString("id,count,sequence\n")
	case "ecopcr":
		buf.WriteString("#@ecopcr-v2\n#\n# ecoPCR version 1.0.1\n" +
			"# direct  strand oligo1 : GGGCAATCCTGAGCCAA               ; oligo2c :           CCATTGAGTCTCTGCACCTATC\n" +
			"# reverse strand oligo2 : GATAGGTGCAGAGACTCAATGG          ; oligo1c :                TTGGCTCAGGATTGCCC\n" +
			"# max error count by oligonucleotide : 3\n# optimisation on the reverse strand\n# database : /tmp/db\n" +
			"# amplifiat length between [10,120] bp\n# output in superkingdom mode\n# DB sequences are considered as linear\n#\n")
	}
	for i := 0; i < nrec; i++ {
		if i == (nrec+1)/2 {
			split = buf.Len()
		}
		n := slen
		if name == "fa1rec" && i == 0 {
			n = 1000 // the unit of a periodic 1.25 MiB sequence (compresses to a few KiB)
		}
		seq := make([]byte, n)
		for j := range seq {
			seq[j] = "acgt"[g.next()&3]
		}
		if name == "fa1rec" && i == 0 {
			seq = bytes.Repeat(seq, 1310)
		}
		rec := c17rec{seq: string(seq)}
		if large {
			rec.id = fmt.Sprintf("r%06d", i)
		} else {
			rec.id = fmt.Sprintf("c17%s%02d", name[:2], i)
		}
		switch fm {
		case "fasta":
			if i%2 == 1 && !large {
				fmt.Fprintf(&buf, ">%s {\"count\":%d}\n%s\n", rec.id, i+1, rec.seq)
			} else {
				fmt.Fprintf(&buf, ">%s\n%s\n", rec.id, rec.seq)
			}
		case "fastq":
			q := make([]byte, slen)
			for j := range q {
				q[j] = byte('#' + g.next()%39) // '#'..'I'
			}
			q[0] = 'F'
			rec.qual = string(q)
			fmt.Fprintf(&buf, "@%s\n%s\n+\n%s\n", rec.id, rec.seq, rec.qual)
		case "embl":
			fmt.Fprintf(&buf, "ID   %s; SV 1; linear; genomic DNA; STD; PLN; %d BP.\nXX\nDE   test entry %d\nXX\nOS   Homo sapiens\n", rec.id, slen, i)
			fmt.Fprintf(&buf, "FH   Key             Location/Qualifiers\nFH\nFT   source          1..%d\nFT                   /db_xref=\"taxon:%d\"\nXX\nSQ   Sequence %d BP;\n", slen, 9606+i, slen)
			for o := 0; o < slen; o += 60 {
				e := o + 60
				if e > slen {
					e = slen
				}
				fmt.Fprintf(&buf, "     %-65s %9d\n", c17tenmers(rec.seq[o:e]), e)
			}
			buf.WriteString("//\n")
		case "genbank":
			fmt.Fprintf(&buf, "LOCUS       %-16s %11d bp    DNA     linear   PLN 01-JAN-2000\n", rec.id, slen)
			fmt.Fprintf(&buf, "DEFINITION  test entry %d.\nACCESSION   %s\nSOURCE      Homo sapiens\nFEATURES             Location/Qualifiers\n     source          1..%d\n                     /db_xref=\"taxon:%d\"\nORIGIN\n", i, rec.id, slen, 9606+i)
			for o := 0; o < slen; o += 60 {
				e := o + 60
				if e > slen {
					e = slen
				}
				fmt.Fprintf(&buf, "%9d %s\n", o+1, c17tenmers(rec.seq[o:e]))
			}
			buf.WriteString("//\n")
		case "csv":
			fmt.Fprintf(&buf, "%s,%d,%s\n", rec.id, i+1, rec.seq)
		case "ecopcr":
			f := []string{rec.id, "  1500", fmt.Sprintf("  %d", 9606+i), "species", fmt.Sprint(9606 + i), "Homo sapiens", "9605", "Homo",
				"9604", "Hominidae", "2759", "Eukaryota", "D", "GGGCAATCCTGAGCCAA", " 0", "54.2", "GATAGGTGCAGAGACTCAATGG", " 0", "60.1",
				fmt.Sprintf("  %d", slen), strings.ToUpper(rec.seq), fmt.Sprintf("def %d", i)}
			buf.WriteString(strings.Join(f, " | ") + "\n")
		}
		recs = append(recs, rec)
	}
	return &c17base{Name: name, Fmt: fm, Plain: buf.Bytes(), N: nrec, Want: c17digestRecs(recs), Recs: recs, Large: large, Split: split}
}

func c17compress(codec string, plain []byte) []byte {
	var buf bytes.Buffer
	var w io.WriteCloser
	var err error
	switch codec {
	case "plain":
		return append([]byte{}, plain...)
	case "gz":
		w, err = stdgzip.NewWriterLevel(&buf, stdgzip.DefaultCompression)
	case "bz2":
		w, err = dsbzip2.NewWriter(&buf, &dsbzip2.WriterConfig{Level: dsbzip2.DefaultCompression})
	case "xz":
		w, err = xz.NewWriter(&buf)
	case "zst":
		w, err = zstd.NewWriter(&buf, zstd.WithEncoderConcurrency(1))
	default:
		panic("c17: unknown codec " + codec)
	}
	if err != nil {
		panic(err)
	}
	if _, err = w.Write(plain); err != nil {
		panic(err)
	}
	if err = w.Close(); err != nil {
		panic(err)
	}
	return buf.Bytes()
}

// c17codecOf: "gz", "gz.tool", "gz.2m" -> "gz".
func c17codecOf(codec string) string {
	if i := strings.IndexByte(codec, '.'); i >= 0 {
		return codec[:i]
	}
	return codec
}

// c17image builds the compressed image of a base file.
//
//	<codec>        one member / frame / stream written by the Go encoder (compress/gzip, dsnet/bzip2, ulikunitz/xz,
//	               klauspost/zstd)
//	<codec>.tool   the same plain bytes compressed by the usual command line tools (gzip 1.12 -6 = zlib deflate,
//	               bzip2 1.0.8 -9, xz 5.8.2 -6, zstd 1.5.7 -3), embedded below: the bit streams that users really feed
//	               to the commands differ from those of the Go encoders (block types, check type, frame
//	               header options) and drive the decoders through other paths
//	<codec>.2m     two members / frames / streams concatenated (cat a.gz b.gz), cut at a record boundary
//
// The second result is the offset of the second member (0 when there is one member only).
func c17image(b *c17base, codec string) ([]byte, int) {
	switch {
	case strings.HasSuffix(codec, ".tool"):
		s, ok := c17toolImagesB64[b.Name+"."+c17codecOf(codec)]
		if !ok {
			panic("c17: no embedded image for " + b.Name + "." + codec)
		}
		img, err := base64.StdEncoding.DecodeString(s)
		if err != nil {
			panic(err)
		}
		return img, 0
	case strings.HasSuffix(codec, ".2m"):
		if b.Split <= 0 || b.Split >= len(b.Plain) {
			panic("c17: base " + b.Name + " cannot be split")
		}
		m1 := c17compress(c17codecOf(codec), b.Plain[:b.Split])
		m2 := c17compress(c17codecOf(codec), b.Plain[b.Split:])
		return append(append([]byte{}, m1...), m2...), len(m1)
	}
	return c17compress(codec, b.Plain), 0
}

// c17region names where a fault falls in the image (keys): head / body / tail of the (first or second) member.
func c17region(total, boundary, bytePos int) string {
	pre := ""
	lo, hi := 0, total
	if boundary > 0 {
		if bytePos < boundary {
			pre, hi = "member1-", boundary
		} else {
			pre, lo = "member2-", boundary
		}
	}
	switch {
	case bytePos-lo < 32:
		return pre + "head"
	case hi-bytePos <= 32:
		return pre + "tail"
	}
	return pre + "body"
}

var c17magic = map[string][]byte{"gz": {0x1f, 0x8b}, "zst": {0x28, 0xb5, 0x2f, 0xfd}, "xz": {0xfd, 0x37, 0x7a, 0x58, 0x5a, 0x00}, "bz2": {0x42, 0x5a, 0x68}}

// c17minLen: Buf tests the magic numbers in the order gzip (2 bytes), zstd (4), xz (6), bzip2 (3) and takes a
// file too short for one of these tests as an uncompressed file: a bzip2 file needs 6 bytes to be recognised.
var c17minLen = map[string]int{"gz": 2, "zst": 4, "xz": 6, "bz2": 6}

// c17hasMagic: does Buf still see a compressed file of this kind (labels only)?
func c17hasMagic(codec string, data []byte) bool {
	m, ok := c17magic[c17codecOf(codec)]
	return !ok || (bytes.HasPrefix(data, m) && len(data) >= c17minLen[c17codecOf(codec)])
}

var c17library = map[string]string{"gz": "pgzip+klauspost-flate", "bz2": "dsnet-bzip2", "xz": "ulikunitz-xz", "zst": "klauspost-zstd", "plain": "none"}

// images of fa300 and fq2k written by gzip / bzip2 / xz / zstd (see c17image); checked against the plain bytes
// by the intact control cases
var c17toolImagesB64 = map[string]string{
	"fa300.gz": "" +
		"H4sIAAAAAAAAA0WPSw6CQBBE930KwwkATUxccJdOJfZON+3KcHdfDSEGGPpXr2s2LfdnznNUZ0nNWU0gJf8UcdEgaLlAyuty8pQF" +
		"3bEdlOXynfT+vHp6rHsAGLLUGGc6TbcKjaU0oLRAQ3aOxNvqJK7R1JFllz90Xph2A3yEtuKmOawxgqYFJ+X693XbQ0PCfs/B0bHB" +
		"90qn8jVttc1lQvZrW5nxAxtunW4wAQAA",
	"fa300.bz2": "" +
		"QlpoOTFBWSZTWTEiRAgAABHZgEAQUAB8kSmBhgowANqA1PNVPUAAAo0ZA0aZGglU/0SiNTT1Mam04459HRv48fux0a9wdwfS9g/j" +
		"gNuQe26jwxERAKCkTJCWHW9JVc6EDtIu0oozIDtlcRiOLJFhJGNbe45mELZIvIMq4LJVg3RGrJSVSkka1kIm2ZmMlL0JPhrVSjrB" +
		"S2Ek0stLapCS0XZi2K4xSadHw/+vou5IpwoSBiRIgQA=",
	"fa300.xz": "" +
		"/Td6WFoAAATm1rRGBMCzAbACIQEWAAAAAAAAADh/FhTgAS8Aq10AHxjCI3Kfa+f9uRyZt06mtFNatZCsOS1SHnqlgF8PnsdJ0OMA" +
		"YD/+gaL01miycT831amPwxwBXCY0oqvFXMMt1Fn0hz83YT/NiguULrdibe0VG6qUQlbouk9+L8+ltw47McwgSnxIWsyDrvtErl3z" +
		"zh5G8d/ogFlHOpJovtqH5ZxarXsawmJTMlIMd4E7hs92eAw7BsyRHxILPE/JSmL6Z3r0UBeOGH5Va7IAAAD/HR2s/8y+HgABzwGw" +
		"AgAA+Mt9ALHEZ/sCAAAAAARZWg==",
	"fa300.zst": "" +
		"KLUv/QRYVQQAQk4ZFZApGQ6r+KX4nWRmq6myqMFOyLgTOiNJ5lOtluNlxzQ7k6eRCADwbFL30ZLFsu/RY34fCJPJ1hvtTrk+P1k0" +
		"x1I2I4EYKDZAOKhIKBzG57OUPNOM25eMeXFT5Zovs8NgSIHAIYIMAC4TvwxDll7f2GZJlOuGC1yT33FZq0BFqmu1NmAkbogC0wtz" +
		"7w==",
	"fq2k.gz": "" +
		"H4sIAAAAAAAAAz2V2Y6DOBBF3/MbYLOE3SwGY2PM/hkIaXgeif/XuIr0pJUEsOncU3Xroq+8+effLPtc1/08z3nf53Wez33Z4+e+" +
		"L/t3Xs9pL9oNt712wZbbXrjPB0/sfdcDHxce2zvtVrt63pfdjf/Ofn6+n9VP1mKUe0hoN7ZHMXr7JvxUj4W79/EaOFU9LXzZ+FCX" +
		"x6Zz6ZPIhE4UN1OwRo43cGUKwefoSxv368alqSNvCr7jrk1Lt49+UfIP/P5lfxz0g7QTddkze4qqLCnI+61agfbECr9w7YIyABse" +
		"AYyFtKS4amvxAIo2JPSbqObtLohX6HWmhzl0vnjUn/JiNImzxqNHRbeK9siV7E3erkMioz50DlrmbaC2NVD72MdLqCovKtLqiAdH" +
		"RiTTfyjF58KKQwes+hPATtD5YK9O6INdexWiVKg8qEVIuw9bAeIf4IX3rxLvLkDpBy0rNnbjWkbtGgiyL0rV8cgObcTskojyLquG" +
		"dO53kedSD0Zk0qiDJ8U81tRPltVfEpmPcmLNFFGPb4x2xHcP6Vf5Hwr7WJG2qFhSkAYVP0EzWAirfIJG2xKr63mddKMf8TL0yr7s" +
		"Vmzh/SA5tuSBPYiyf3XjbyUZw0XUjux4ui6N6ZbUU4lYnZA7edbPDvV0bOKC1nUSbe5c+dkuQ9KpqdGGrr3rNqQyqvB3Fs4ToZ63" +
		"DVvC/kcpwWAwFTea3FK9dT6xwFj5+3rrDsAAh15Dc0GfcMZen4H+EyCht+c7SDeibCOra09++37nZvruZReX1IpStHGifFOqi3Ug" +
		"lXbbNpJsIn7Wjo2fsG6eqyD1C8q+26JDN1F06/ejruMonsYi/AriRn8o1edElScWFObbCkNpeIa2Ayb0PXQAPIhyUfhLhkRwJ25+" +
		"XXheLzagRDyWEw1CwxZf607w2nbJ0XGxqoyXiXv4Mjnqr02C3ol1U+3l7DgzC5M0y0IlOn1EIlqCKOcL56JpI3dqg67vnEblpv5D" +
		"qT/gbBxkeJ3o8F+hcU5A/AsCdX+uN56eE1HfUIBruAlHBIsBgNCvFyVodSzyjNPNLFIeOjMD/y5f5ZpcDWravIWlvonTyOljImVQ" +
		"M0L45FLqy3lWUd20cyXmgCfzvtX9zOfCmHZXYzexjcZ/KM3nxvnAwL0xjU/MAchYNP67BkMPnvnZDdMaYwGCGdPhNR18QxWAF7gw" +
		"wVSYNUu4tYLrjNLda6gQTBIRB04+z2khwyJYTZlsuq9SUgQ2m4xTdF2T5O38tTHlMdov3JUD4zxc+1k2Mgu6rqvTfvg/jLmdlXeS" +
		"IY+hAxeO+onxiqMM0w4IJ5oKpgj7h0MP3nrb9WC24RMJEwRuhqoAijHxsgieMXmILnXylaRM0yVMB/fLdNiucx4qnbVbLTY5GseN" +
		"D9Y20xLsx17KpSnWTFfV0OR7HKZhkLNORLlijl+Rfmd/KO0HtP0C6yf8zTR4nz95wHG/S38PkteNJ+q9MMru98l0vhMFrLAFUDoz" +
		"6bwYmq9XztO4j/5BxX50cgycICbpFnlhSAIWMJLqZiCLJjJMTZ0x7WamVhlphqMnck4Ga9PAE57OTambssuzrp8+/wGWf4dE7gcA" +
		"AA==",
	"fq2k.bz2": "" +
		"QlpoOTFBWSZTWSkU62gAAaBdgHAQD//////gKYAkAFAE+mUqkKbwAACqn4QyaaZAYCnk0aKm9UAKp4TEwTSeU8IYmlT2KQwganoq" +
		"NGjE0B6jRsmiMh6IDAGmho0YjIBoANDBqfipKRTCYAAAAAP2RGRQfSWFiIqhCoVF844dBxc3P25hgkrsfCR9kJvfQpun+qF8xsre" +
		"Lu/1HYqeIwU9N1WmLCodPVRYrL7blgMuxCLxK00jO3fuf35uZ8n65HPi6P36t7/4GMr24GYUme0KHm2/19Dy2aDP7w5jeZNkTkuS" +
		"9xH4yQVq148ao2eYal4MBwSxbYrOxdmtmpWwqiEtK68GoxS/U0Neo1gvUTz1bGW5fsHgHPEaD2TAq0HQ4z2QOCx1E4rbjwOD9k80" +
		"SpN/nKOCMzoC/c6j2aksHIMdaQpE4tfTNO5d7poYoE6u6P6vlbZVOnlGwAs2k6dPpxP9yHwdQgeggUE6BLSQF11ngWUGvxAywj8z" +
		"9B9A4i+d2llCPsWgQbeMvxtMoGvsKbD4nxUBt0yTXPKTOkCQbrlT9vfnPCrQP/fFZJUZ0Jcm8umEZRRkiukwdjz3pgZ80rVYzdL7" +
		"BKDyOXzq5nAIAufmm0FXLyChqhUIDXRziNldWPx5/QPAA+yihlPTVzjBVi6SU6mu4W+aNF0hhvDOjH4mNAUSOU2l4c3wMPQFg/DX" +
		"WEyuqV5ew454c1TtNsl42vim0Qm+b56t2Ajrvkjil06dnalpe4kiixDZVhKmmCisllrv30Ji1WvPGlc3bOpE2XQ2s2s1houI2Rnp" +
		"VgAiZsJJI8sq8B2golXOF/Ay676c8B1wlC1YshC46wVd13hYM8Z0xZmEzmcEdtHF8fsH0BA7L+sdU3csO5h6IQG3fDqCQdrVxbPt" +
		"VXZAjCTE0qP3EqI8Spu4laI4yaGZEwiWaD8Fiztwb5sRgOrCFO4I94YQ0RUa5T8WujjvwXms+XcOqzVsaO/d9ooF8HKB/CbuFmG2" +
		"8Rg9jmMF3nyTLSbRMzZIjrXGu9tsuhTmaabr/CKPjBXCe2/dRLvdCmd+ygXNbSeXWVO76r9EY4oIhVJCEiGsEjwf7693aNmaoLBl" +
		"zl0Oc399ie/q8K8Xw8UqMbyz1PB8/w8Lq4bmCtVVZZKilhTL6iDHfT1enmweB44kxyxlQzjag3oW2sd+Lcxd6UxCtq3oa6O7rZAd" +
		"Xe8uEp3Bw084XGGHM85ZMY5GZeELPToYx06sVpmeAUiQpQqEROqJQI5Tk0cdFEbt0xGF7xiVXQxOKMN/W5u83e9rTmXOdB63p3s2" +
		"lNO1cG0rZcWGyCaFMgh6V3dCs1lted1o7huZxOM5wZXDwaXXMpc62uesvO5R0uNcaac4wVV49NjXfTqdV7hJ2P93Nc52ynRnM62M" +
		"uVOWOLmhTAUAE0XGW9ienXSI5myui1OVPUc6dXqYkzOl9b53w0B5jGm5uyRndNqkeKIUxWI5i4cjOx/wu5IpwoSBSKdbQA==",
	"fq2k.xz": "" +
		"/Td6WFoAAATm1rRGBMCRCe4PIQEWAAAAAAAAADXUwXzgB+0EiV0AIBjCI3NspbnzK0MPyk2KsAm+sAfwCnczPlXCVNoOW6lUiaLu" +
		"DWgmeElZ2AlQSpO56FjDpediLKfKqxd8WT9eIKgFO0UrLiAxQnFV4G3vjtrp0jTndPz73/LNIeW0oR58nnG1ISCqgO3YI3IL3wZW" +
		"k4XSoCYRUFNwYD6gYPKfQzkUPL4sq1DssvpzhLbP4p7aFrERi7AlgKN4VS5vHxo+5j3825J+rXT8MU+HGqREkA6xYz00OcGHI1q8" +
		"q2KH6POv0yLswxrlSAqvYXZ9ERO+/cHyHuPx5Xrh1xjq2inE2rGbH+eSN1YmewXhEZ+QYlktMpUUyicQKGIL7krQdbNibebBqUrP" +
		"SWqUYPWSrMFGnOe8uZox4wSt+GGWIPxjqHE8Coc2RQAGJO9dEdRqzq228Q+djwr1s2Omm2iaj6zHHTi5KRPoaBBYN7GWXxz2c+iO" +
		"2lYx10AQk3aEUJcAx+SFaqt7U60V627fFVkwKq2NmZhFpl+YdPoaWnJVxl0l5DVxenY45uofj+fAw5BUpUlqPehYBAsllNCCidTS" +
		"At5ZkfPiUH19pi3pdJ04mbjj27OatiFmNyF/IYusd1e3pucdbDi1dYFR7PWyVOdmw0j5mHAWYWwNr+isZuZPcKAVSs3lh/KZ1MSK" +
		"HodRvkf36dJcT0bV/YrpQZxHkop9sPVjaXbS4kwqp3a0Q8ioaET+LcgBg4+nde6lUUDtmL5Z5NFhva9NINVrHbCCKERv4ofbsMYI" +
		"DfWj1k0+akl4ZiJyXLVOqy2r6UjHq4fzMB0f3+Zk1hgn0kxLM0Kk1J9cArc6QMnr5J9oformGnXg58FGqEh0o8acDbSNQkma/8o8" +
		"nCUUnz7BMnV8S/j+DKEaJwiOcY0TyWZKEPPCLC76X/lnZEbtwFBikiWVgm0FXZJ9/+o95sU+mnWl1ge/+z2+mPj5YpOEq4vnLSWa" +
		"952wanGv1UjN3PlXD9qTV+/DNHf1vC32xPezAaj+Yoz0TpnJedWH7KiGfK8APY1ESyY63gmZDi2KtO9daSkHa/DYsjX9iYvuGAVj" +
		"HBHxOJmA0SnAx1HuQEh/dTlGxgSLmnwoD80ov/sNYMl0hogpHUD+18L0DWBP994Pqi0WiWsmgHI6iYIwLBIErGvZIjvS8fnaflvN" +
		"C7GPMkcdtsIFGRdc4a2WpbNexp/gFcsGE98+Kgl/6KwarThcXIu/zdhrXT8mQMiig5KrHfp8WXtqfoaSyfZ3YfjBlQAo6FfBQ+2H" +
		"yVJzC7Dm/i+NYtj83ZY4BxnEH8MfWe8VKXADd6uyy5Uc3oscTFD1PKpyYlbQzDHNTMKSuhScOsIsYdW/i/jR/sJsNV1oHs8yovDU" +
		"MBkZHqi1XagCvn4q8ntZVWy5pweqMfBPEPvqR9viwlWSGw/oym4jrz0ap8XcCQbanyY560iUFHfqOcGXI3MoAJ9bbXUozuTCJMOX" +
		"z6hwB6lbvjosUUx4bGsJ7ycyYWW+i9hVCKVCyAcSotjKTRHotf/eUYaGRFElHTVRAw9OlwG211kuhPrPywtsPc5qpZmxxBzm6oAA" +
		"AAAAADfM/uKVXqdkAAGtCe4PAACqxTtWscRn+wIAAAAABFla",
	"fq2k.zst": "" +
		"KLUv/QRYrSUAmlWsDhxARXgD4Hz3MJ2Kku4m6VZcVSvbmZmtXouiw04E2ADeAOkACfFYx6ZUmGcZXGcZkwzETziqpC4XN8lbVUt+" +
		"E+UoGglM4YTlYo7Mikhs0n73ixpnHQJSb5KgJCoOeC0XIMF/M/e7czd//zN/e7d/OzN3O/O/d7v7s/d3u/9zd3dzIIMuTtd6GGJk" +
		"RALdgDIgQxSRRJOocy3pIoSEM7JISYTjJrCo0nZfALqkbpO2DHoEg1Mqb3AwyxS08wjM+SaMivDwKuZwS8EFSMDe/dzO7N3N3/7e" +
		"7t3v/f3ez97Mzu7cz+/ezc38zd7e7s//7c/c7M7/791B0wQARLJtSHYlr6qQSkDQxDqPC5DAuZ2Zn5v/35u/v//7nf/dm4PAXLqr" +
		"I4gIM+2YXuFY94HRMFRcvDbKLAoe1WuKRxu6ZIGg6ChXsUQUtKqRgnQIHF0sgtmoG20cI1FVgOh2YDDQFZFFvGduf//2du/v/u9u" +
		"52d2bv5n/3bv93/nDqZ8ivoNBaTi7CQiJlk0s4rJumwFty1FhDDNWaTPurWh97JVSupVGnM9DSXFBA4avfabmAJZ1uZBanBTEuAw" +
		"CptPtVfFBUjQ793v7t39zczO/N7N7O78zR04toFJFS7lexgn397N7tz/38//7t3P7kGkxG5mFGZ5072OJmkV1HnaIhkafbQpghJL" +
		"02oR45BJEE7IqBUqlZAwyi2YuRFdZl2WvIOFbIh03cZ+tW63i1IjqWInw93bm9/7m//Z3f39PYCgK61IoCrKmLIhmSIqSZskE2NL" +
		"aPJZilpH0zDLMTVB0ALeE1lFqCxTINC31OIbloDUWJyjWKGILCRRytpim/cwYlYVKXHu5mf2/+5uZ3fm4EkGSJHDwTIlUSDo86ou" +
		"Wstw2K1DZnQKxng0jZpLEWFTU8Bs1mSaBmtVwyqUZXUyEaJoFY4VAwoV8AJBVlGNpAKRDVxpCUoYjaTXolVYfVcEGwu6zWBnA13m" +
		"qNBu8IosA6cxDXgcRNIxUDEEA6vU59H4FZiHZVqAQKLLkTa7FDt7c/+7cwfT9Cr4FMK0ZEKpKY2DORRPRtfz2IZzoq0GvM8ztiya" +
		"5qcMwsVqR6Fuaqx1SI2bDjuR4WKOLdrJQE4KDEW/OhuJbptyLxcgQX9397s3N7f/+3dzN/dzv3MgdVfFQBRFGU2NqlZxhyTNqw7S" +
		"VsVJwKQi2iSXiKIc4QqXYjiQeSrbLYHLGc5RHUbTpGAoFNZJaYwIL8bGSnTqji1qDqufOXioMaGDypCMTJCCgqKSDiACQoghB/UQ" +
		"urYN+gd42lWFdto6w864SH8m67uwvWUmPh/5GtgcyPCqqq34Mn9Iq9qolAnEBNf1c9LDguvcryNXOF+4AzxUjENGrlAvBKrBjK0Z" +
		"cmz5IH7kAkRkg65gpD16yHd+iJr8Id5F7t6NSZ9KsGbISmK2SLlz5qPIQzOP9+GQW1qVuFvI+9HGfeegw4c8qKRMdVOEGp0tmSIt" +
		"QxiVsweG4U1hTPos2f/aiS7MqGE73jmpMvQT4wN+psEkvNou2Th6K7FE56t0bEhlECEMOYJCh+uLUuPVQBzXVWY6ww+T1z39jjNw" +
		"yfjc0NF0hkpJmRpK8QN3S0Hl",
}

// ------------------------------------------------------------------------------------------ case

type c17case struct {
	Base    string `json:"base"`
	Codec   string `json:"codec"`
	Driver  string `json:"driver"`             // file | fileimp | reader | readerimp | stdin
	Fault   string `json:"fault"`              // trunc | flip | rderr | none
	Pos     int    `json:"pos"`                // truncation length / bit index / bytes delivered before the error
	ErrKind string `json:"err_kind,omitempty"` // EIO | UEOF (rderr)
	Bin     bool   `json:"bin,omitempty"`      // also run the obiconvert binary on the faulted file
	Cli     bool   `json:"cli,omitempty"`      // also run the command-level variants (options, several files, paired, obiuniq)
}

// c17cutName names the cut point of a truncation for the keys of the "accepted although truncated"
// verdict: the number of bytes removed when it is small, "body" otherwise.
func c17cutName(total, pos int) string {
	if n := total - pos; n <= 32 {
		return fmt.Sprintf("last-%d-bytes-removed", n)
	}
	return "body"
}

func (c c17case) String() string {
	s := fmt.Sprintf("%s.%s driver=%s fault=%s pos=%d", c.Base, c.Codec, c.Driver, c.Fault, c.Pos)
	if c.ErrKind != "" {
		s += " err=" + c.ErrKind
	}
	return s
}

var c17faultName = map[string]string{"trunc": "truncation", "flip": "bitflip", "rderr": "read-error", "none": "intact"}

// ------------------------------------------------------------------------------------------ child protocol

type c17req struct {
	Seq     int    `json:"seq"`
	Mode    string `json:"mode"` // file | fileimp | reader | readerimp | probe
	Fmt     string `json:"fmt"`  // format of the base file (imposed-format modes)
	Path    string `json:"path"`
	K       int    `json:"k"` // reader/probe: bytes delivered before the error; <0: no fault
	ErrKind string `json:"err_kind"`
	Want    string `json:"want"`
	LongTO  bool   `json:"long_to,omitempty"` // confirmation run of a hang: 4x timeout
}

type c17resp struct {
	Seq     int    `json:"seq"`
	Outcome string `json:"outcome"` // ok | error | fatal | panic | hang | crash
	Where   string `json:"where,omitempty"`
	Msg     string `json:"msg,omitempty"`
	NRec    int    `json:"nrec"`
	Equal   bool   `json:"equal"`
	Dirty   bool   `json:"dirty"`
	NOK     int64  `json:"nok"`
	Class   string `json:"class,omitempty"`
}

var c17errEIO = errors.New("EIO")

// c17faultReader delivers data[:k] and then fails for ever with err (k<0: no fault, clean EOF).
type c17faultReader struct {
	data []byte
	k    int
	err  error
	off  int
}

func (f *c17faultReader) Read(p []byte) (int, error) {
	lim := len(f.data)
	if f.k >= 0 && f.k < lim {
		lim = f.k
	}
	if f.off >= lim {
		if f.k >= 0 && f.k < len(f.data) {
			return 0, f.err
		}
		return 0, io.EOF
	}
	n := copy(p, f.data[f.off:lim])
	f.off += n
	return n, nil
}

func c17newFaultReader(data []byte, k int, kind string) io.Reader {
	e := c17errEIO
	if kind == "UEOF" {
		e = io.ErrUnexpectedEOF
	}
	return &c17faultReader{data: data, k: k, err: e}
}

// c17readFromReader restates ReadSequencesFromFile (universal_read.go) from `file, err = Ropen(filename)`
// on, with Ropen(filename) replaced by Buf(rd) — which is what Ropen does with the opened file.
func c17readFromReader(rd io.Reader, options ...WithOption) (obiiter.IBioSequence, error) {
	options = append(options, OptionsSource("c17reader"))
	file, err := Buf(rd)
	if err == ErrNoContent {
		return ReadEmptyFile(options...)
	}
	if err != nil {
		log.Fatalf("open file error: %v", err)
		return obiiter.NilIBioSequence, err
	}
	mime, reader, err := OBIMimeTypeGuesser(file)
	if err != nil {
		return obiiter.NilIBioSequence, err
	}
	reader = bufio.NewReader(reader)
	switch mime.String() {
	case "text/fastq":
		return ReadFastq(reader, options...)
	case "text/fasta":
		return ReadFasta(reader, options...)
	case "text/ecopcr2":
		return ReadEcoPCR(reader, options...)
	case "text/embl":
		return ReadEMBL(reader, options...)
	case "text/genbank":
		return ReadGenbank(reader, options...)
	case "text/csv":
		return ReadCSV(reader, options...)
	default:
		log.Fatalf("File has guessed format %s which is not yet implemented", mime.String())
	}
	return obiiter.NilIBioSequence, nil
}

// c17readFromReaderImposed: what ReadFastaFromFile / ReadFastqFromFile / ReadEMBLFromFile / ReadGenbankFromFile /
// ReadCSVFromFile do after `Ropen(filename)` (= Buf over the opened file): the format is imposed, no MIME sniffing.
// (ReadEcoPCR over Buf is what ReadSequencesFromFile composes too; ReadEcoPCRFromFile itself is driven by file name.)
func c17readFromReaderImposed(format string, rd io.Reader, options ...WithOption) (obiiter.IBioSequence, error) {
	options = append(options, OptionsSource("c17reader"))
	file, err := Buf(rd)
	if err == ErrNoContent {
		return ReadEmptyFile(options...)
	}
	if err != nil {
		return obiiter.NilIBioSequence, err
	}
	switch format {
	case "fasta":
		return ReadFasta(file, options...)
	case "fastq":
		return ReadFastq(file, options...)
	case "embl":
		return ReadEMBL(file, options...)
	case "genbank":
		return ReadGenbank(file, options...)
	case "csv":
		return ReadCSV(file, options...)
	case "ecopcr":
		return ReadEcoPCR(file, options...)
	}
	panic("c17: no imposed reader for " + format)
}

// c17readFileImposed: the reader that --fasta / --fastq / --embl / --genbank / --ecopcr select in
// CLIReadBioSequences (ReadCSVFromFile has no option but is an exported entry point).
func c17readFileImposed(format, path string, options ...WithOption) (obiiter.IBioSequence, error) {
	switch format {
	case "fasta":
		return ReadFastaFromFile(path, options...)
	case "fastq":
		return ReadFastqFromFile(path, options...)
	case "embl":
		return ReadEMBLFromFile(path, options...)
	case "genbank":
		return ReadGenbankFromFile(path, options...)
	case "csv":
		return ReadCSVFromFile(path, options...)
	case "ecopcr":
		return ReadEcoPCRFromFile(path, options...)
	}
	panic("c17: no imposed reader for " + format)
}

// ---- exit interception (child)

type c17state struct {
	mu       sync.Mutex
	exited   bool
	code     int
	exitGID  int64
	fatalMsg string
	exitCh   chan struct{}
	done     chan struct{}
	caseGID  int64
	err      error
	panicMsg string
	drained  bool
	n        int
	digest   string
	first    string
}

var c17cur atomic.Pointer[c17state]

func c17gid() int64 {
	var b [64]byte
	n := runtime.Stack(b[:], false)
	f := bytes.Fields(b[:n])
	if len(f) < 2 {
		return -1
	}
	id, _ := strconv.ParseInt(string(f[1]), 10, 64)
	return id
}

type c17hook struct{}

func (c17hook) Levels() []log.Level { return []log.Level{log.FatalLevel, log.PanicLevel} }
func (c17hook) Fire(e *log.Entry) error {
	if st := c17cur.Load(); st != nil {
		st.mu.Lock()
		if st.fatalMsg == "" {
			st.fatalMsg = e.Message
		}
		st.mu.Unlock()
	}
	return nil
}

func c17exit(code int) {
	if st := c17cur.Load(); st != nil {
		st.mu.Lock()
		if !st.exited {
			st.exited = true
			st.code = code
			st.exitGID = c17gid()
			close(st.exitCh)
		}
		st.mu.Unlock()
	}
	runtime.Goexit()
}

var c17fileCache = map[string][]byte{}

func c17load(path string) []byte {
	cacheable := strings.HasPrefix(filepath.Base(path), "intact_") // the per-case file is rewritten for every case
	if d, ok := c17fileCache[path]; ok && cacheable {
		return d
	}
	d, err := os.ReadFile(path)
	if err != nil {
		panic(err)
	}
	if !cacheable {
		return d
	}
	if len(c17fileCache) > 8 {
		c17fileCache = map[string][]byte{}
	}
	c17fileCache[path] = d
	return d
}

const c17hangTimeout = 30 * time.Second

func c17exec(req c17req) c17resp {
	resp := c17resp{Seq: req.Seq}
	if req.Mode == "probe" {
		resp.NOK, resp.Class, resp.Msg = c17probe(req)
		resp.Outcome = "probe"
		return resp
	}
	var data []byte
	if req.Mode == "reader" || req.Mode == "readerimp" {
		data = c17load(req.Path)
	}
	st := &c17state{exitCh: make(chan struct{}), done: make(chan struct{})}
	c17cur.Store(st)
	started := make(chan struct{})
	go func() {
		st.caseGID = c17gid()
		close(started)
		defer close(st.done)
		defer func() {
			if p := recover(); p != nil {
				st.mu.Lock()
				st.panicMsg = fmt.Sprint(p)
				st.mu.Unlock()
			}
		}()
		var it obiiter.IBioSequence
		var err error
		switch req.Mode {
		case "file":
			it, err = ReadSequencesFromFile(req.Path, OptionsParallelWorkers(2))
		case "fileimp":
			// format imposed by the user (--fasta / --fastq / --embl ...): the MIME sniffer is not on the path
			it, err = c17readFileImposed(req.Fmt, req.Path, OptionsParallelWorkers(2))
		case "reader":
			it, err = c17readFromReader(c17newFaultReader(data, req.K, req.ErrKind), OptionsParallelWorkers(2))
		case "readerimp":
			it, err = c17readFromReaderImposed(req.Fmt, c17newFaultReader(data, req.K, req.ErrKind), OptionsParallelWorkers(2))
		default:
			panic("c17: bad mode " + req.Mode)
		}
		if err != nil {
			st.mu.Lock()
			st.err = err
			st.mu.Unlock()
			return
		}
		// batches may be delivered out of order (parallel header parsing); consumers order them by Order()
		type ordered struct {
			order int
			lines []string
		}
		var got []ordered
		n := 0
		for it.Next() {
			b := it.Get()
			o := ordered{order: b.Order()}
			for _, s := range b.Slice() {
				q := ""
				if s.HasQualities() {
					qq := s.Qualities()
					qb := make([]byte, len(qq))
					for i, v := range qq {
						qb[i] = byte(v) + 33
					}
					q = string(qb)
				}
				o.lines = append(o.lines, fmt.Sprintf("%s\x00%s\x00%s\n", s.Id(), strings.ToLower(string(s.Sequence())), q))
				n++
			}
			got = append(got, o)
		}
		sort.SliceStable(got, func(i, j int) bool { return got[i].order < got[j].order })
		h := sha1.New()
		for _, o := range got {
			for _, l := range o.lines {
				if st.first == "" {
					st.first = fmt.Sprintf("%q", l)
				}
				io.WriteString(h, l)
			}
		}
		st.mu.Lock()
		st.n, st.digest, st.drained = n, hex.EncodeToString(h.Sum(nil)), true
		st.mu.Unlock()
	}()
	<-started
	hung := false
	select {
	case <-st.done:
		// let a fatal that is being raised concurrently in a pipeline goroutine register
		for i := 0; i < 4; i++ {
			runtime.Gosched()
		}
	case <-st.exitCh:
	case <-time.After(func() time.Duration {
		if req.LongTO {
			return 4 * c17hangTimeout
		}
		return c17hangTimeout
	}()):
		hung = true
	}
	st.mu.Lock()
	defer st.mu.Unlock()
	switch {
	case st.exited:
		resp.Outcome = "fatal"
		resp.Msg = st.fatalMsg
		if st.exitGID == st.caseGID {
			resp.Where = "caller"
		} else {
			resp.Where = "pipeline"
			resp.Dirty = true
		}
	case hung:
		resp.Outcome, resp.Dirty = "hang", true
	case st.panicMsg != "":
		resp.Outcome, resp.Msg, resp.Dirty = "panic", st.panicMsg, true
	case st.err != nil:
		resp.Outcome, resp.Msg = "error", st.err.Error()
	case st.drained:
		resp.Outcome, resp.NRec, resp.Equal = "ok", st.n, st.digest == req.Want
		if !resp.Equal && len(st.first) < 400 {
			resp.Msg = "first record: " + st.first
		}
	default:
		resp.Outcome, resp.Msg, resp.Dirty = "panic", "case goroutine ended without a verdict", true
	}
	return resp
}

func c17errClass(err error) string {
	switch {
	case err == nil:
		return "no-decoder-error"
	case errors.Is(err, io.ErrUnexpectedEOF) || err.Error() == io.ErrUnexpectedEOF.Error():
		return "ErrUnexpectedEOF"
	case errors.Is(err, c17errEIO) || strings.HasSuffix(err.Error(), "EIO"):
		return "EIO"
	}
	return "other-decoder-error"
}

// c17probe labels a violation: how many decoded bytes does the stream opened by Buf deliver before which
// class of error. Used for the violation key only, never for the verdict.
func c17probe(req c17req) (nok int64, class string, msg string) {
	defer func() {
		if p := recover(); p != nil {
			class, msg = "probe-panic", fmt.Sprint(p)
		}
	}()
	data := c17load(req.Path)
	var rd io.Reader = bytes.NewReader(data)
	if req.K >= 0 {
		rd = c17newFaultReader(data, req.K, req.ErrKind)
	}
	b, err := Buf(rd)
	if err == ErrNoContent {
		// Buf could not read a first character of a non-empty file and calls it "no content": ask the
		// decompression library itself what its first read says
		var rd2 io.Reader = bytes.NewReader(data)
		if req.K >= 0 {
			rd2 = c17newFaultReader(data, req.K, req.ErrKind)
		}
		raw := c17rawFirstReadErr(rd2)
		if raw == nil || raw == io.EOF {
			return 0, "no-decoder-error", "the decompression library reports a clean end of stream before any decoded byte"
		}
		return 0, "first-read-error", "Buf: " + err.Error() + "; decompressor: " + raw.Error()
	}
	if err != nil {
		return 0, "open-error", err.Error()
	}
	// Read path only (the readers under test use Read; pgzip's WriteTo behaves differently)
	nok, err = io.Copy(io.Discard, struct{ io.Reader }{b})
	if err != nil {
		msg = err.Error()
	}
	return nok, c17errClass(err), msg
}

// c17rawFirstReadErr: error of the first read of the decompressor that Buf selects for this stream (labels only).
func c17rawFirstReadErr(rd io.Reader) error {
	br := bufio.NewReaderSize(rd, 65536)
	has := func(m ...byte) bool {
		p, err := br.Peek(len(m))
		return err == nil && bytes.Equal(p, m)
	}
	var dec io.Reader = br
	var err error
	switch {
	case has(0x1f, 0x8b):
		dec, err = pgzip.NewReader(br)
	case has(0x28, 0xb5, 0x2f, 0xfd):
		dec, err = zstd.NewReader(br)
	case has(0xfd, 0x37, 0x7a, 0x58, 0x5a, 0x00):
		dec, err = xz.NewReader(br)
	case has(0x42, 0x5a, 0x68):
		dec, err = dsbzip2.NewReader(br, &dsbzip2.ReaderConfig{})
	}
	if err != nil {
		return err
	}
	one := make([]byte, 1)
	for i := 0; i < 100; i++ {
		n, err := dec.Read(one)
		if n > 0 {
			return nil
		}
		if err != nil {
			return err
		}
	}
	return io.ErrNoProgress
}

func c17childMain() {
	log.SetOutput(io.Discard)
	log.AddHook(c17hook{})
	log.StandardLogger().ExitFunc = c17exit
	out := os.NewFile(3, "c17resp")
	if pf := os.Getenv("VERIF_C17_CPUPROFILE"); pf != "" {
		if f, err := os.Create(fmt.Sprintf("%s.%d", pf, os.Getpid())); err == nil {
			pprof.StartCPUProfile(f)
			defer pprof.StopCPUProfile()
		}
	}
	in := bufio.NewReaderSize(os.Stdin, 1<<16)
	for {
		line, err := in.ReadBytes('\n')
		if err != nil {
			return
		}
		var req c17req
		if err := json.Unmarshal(line, &req); err != nil {
			fmt.Fprintln(os.Stderr, "c17 child: bad request:", err)
			os.Exit(3)
		}
		resp := c17exec(req)
		b, _ := json.Marshal(resp)
		if _, err := out.Write(append(b, '\n')); err != nil {
			return
		}
	}
}

// ------------------------------------------------------------------------------------------ supervisor side

type c17tail struct {
	mu  sync.Mutex
	buf []byte
}

func (t *c17tail) Write(p []byte) (int, error) {
	t.mu.Lock()
	t.buf = append(t.buf, p...)
	if len(t.buf) > 8192 {
		t.buf = t.buf[len(t.buf)-8192:]
	}
	t.mu.Unlock()
	return len(p), nil
}

func (t *c17tail) String() string {
	t.mu.Lock()
	defer t.mu.Unlock()
	return string(t.buf)
}

type c17child struct {
	cmd    *exec.Cmd
	in     io.WriteCloser
	outf   *os.File
	lines  chan []byte
	stderr *c17tail
	served int
}

func c17spawn() (*c17child, error) {
	pr, pw, err := os.Pipe()
	if err != nil {
		return nil, err
	}
	cmd := exec.Command(os.Args[0], "-test.run", "^TestVerifC17$", "-test.count=1", "-test.timeout", "0")
	cmd.Env = append(os.Environ(), "VERIF_C17_CHILD=1", "GOMAXPROCS=4", "GOGC=1000")
	cmd.ExtraFiles = []*os.File{pw}
	tail := &c17tail{}
	cmd.Stderr = tail
	stdin, err := cmd.StdinPipe()
	if err != nil {
		return nil, err
	}
	if err := cmd.Start(); err != nil {
		return nil, err
	}
	pw.Close()
	c := &c17child{cmd: cmd, in: stdin, outf: pr, lines: make(chan []byte, 1), stderr: tail}
	go func() {
		rd := bufio.NewReaderSize(pr, 1<<16)
		for {
			l, err := rd.ReadBytes('\n')
			if err != nil {
				close(c.lines)
				return
			}
			c.lines <- l
		}
	}()
	return c, nil
}

func (c *c17child) kill() {
	c.in.Close() // end of requests: the child returns from its serving loop and exits
	done := make(chan struct{})
	go func() { c.cmd.Wait(); close(done) }()
	select {
	case <-done:
	case <-time.After(5 * time.Second):
		c.cmd.Process.Kill()
		<-done
	}
	c.outf.Close()
}

// call sends one request. crashed=true: the child died (or stopped answering) while serving it.
func (c *c17child) call(req c17req) (resp c17resp, crashed bool) {
	b, _ := json.Marshal(req)
	if _, err := c.in.Write(append(b, '\n')); err != nil {
		return c.crashInfo(req, "write to child failed: "+err.Error()), true
	}
	c.served++
	select {
	case l, ok := <-c.lines:
		if !ok {
			return c.crashInfo(req, ""), true
		}
		if err := json.Unmarshal(l, &resp); err != nil || resp.Seq != req.Seq {
			return c.crashInfo(req, "protocol error: "+string(l)), true
		}
		return resp, false
	case <-time.After(5*c17hangTimeout + 30*time.Second):
		c.cmd.Process.Kill()
		r := c17resp{Seq: req.Seq, Outcome: "hang", Msg: "child unresponsive", Dirty: true}
		return r, true
	}
}

func (c *c17child) crashInfo(req c17req, why string) c17resp {
	c.in.Close()
	err := c.cmd.Wait()
	msg := why
	if err != nil {
		msg += " child exit: " + err.Error()
	} else {
		msg += " child exit: status 0"
	}
	st := c.stderr.String()
	for _, l := range strings.Split(st, "\n") {
		if strings.HasPrefix(l, "panic:") || strings.HasPrefix(l, "fatal error:") || strings.Contains(l, "SIG") {
			msg += " | " + l
			break
		}
	}
	return c17resp{Seq: req.Seq, Outcome: "crash", Msg: strings.TrimSpace(msg), Dirty: true}
}

// ---- binary

func c17repoRoot() (string, error) {
	wd, err := os.Getwd()
	if err != nil {
		return "", err
	}
	root := filepath.Clean(filepath.Join(wd, "..", ".."))
	if _, err := os.Stat(filepath.Join(root, "go.mod")); err != nil {
		return "", fmt.Errorf("c17: %s is not the module root: %v", root, err)
	}
	return root, nil
}

// c17buildBinary builds a command (obiconvert, obiuniq) from the tree under test into dir, once for all shards.
func c17buildBinary(dir, name string) (string, error) {
	bin := filepath.Join(dir, "c17-"+name)
	failed := bin + ".failed"
	lock := bin + ".lock"
	if _, err := os.Stat(bin); err == nil {
		return bin, nil
	}
	f, err := os.OpenFile(lock, os.O_CREATE|os.O_EXCL|os.O_WRONLY, 0o644)
	if err == nil {
		f.Close()
		root, err := c17repoRoot()
		if err != nil {
			os.WriteFile(failed, []byte(err.Error()), 0o644)
			return "", err
		}
		tmp := fmt.Sprintf("%s.tmp%d", bin, os.Getpid())
		cmd := exec.Command("go", "build", "-o", tmp, "./cmd/obitools/"+name)
		cmd.Dir = root
		env := os.Environ()
		for _, kv := range []string{"GOFLAGS=-mod=mod", "GOPROXY=off", "GOSUMDB=off", "GOTOOLCHAIN=local", "GOWORK=off"} {
			if os.Getenv(strings.SplitN(kv, "=", 2)[0]) == "" {
				env = append(env, kv)
			}
		}
		cmd.Env = env
		out, err := cmd.CombinedOutput()
		if err != nil {
			msg := fmt.Sprintf("go build %s failed: %v\n%s", name, err, out)
			os.WriteFile(failed, []byte(msg), 0o644)
			return "", errors.New(msg)
		}
		if err := os.Rename(tmp, bin); err != nil {
			os.WriteFile(failed, []byte(err.Error()), 0o644)
			return "", err
		}
		return bin, nil
	}
	for i := 0; i < 6000; i++ {
		if _, err := os.Stat(bin); err == nil {
			return bin, nil
		}
		if b, err := os.ReadFile(failed); err == nil {
			return "", fmt.Errorf("c17: binary build failed in another shard: %s", b)
		}
		time.Sleep(100 * time.Millisecond)
	}
	return "", errors.New("c17: timed out waiting for the " + name + " binary")
}

// c17parseOut reads obiconvert's FASTA / FASTQ output into (count, digest).
func c17parseOut(out []byte) (int, string) {
	recs := c17parseRecs(out)
	return len(recs), c17digestRecs(recs)
}

func c17parseRecs(out []byte) []c17rec {
	lines := strings.Split(string(out), "\n")
	var recs []c17rec
	i := 0
	for i < len(lines) && lines[i] == "" {
		i++
	}
	if i >= len(lines) {
		return nil
	}
	idOf := func(h string) string {
		h = h[1:]
		if j := strings.IndexAny(h, " \t"); j >= 0 {
			h = h[:j]
		}
		return h
	}
	if lines[i][0] == '@' {
		for ; i+3 < len(lines); i += 4 {
			if lines[i] == "" || lines[i][0] != '@' {
				recs = append(recs, c17rec{id: "?malformed"})
				break
			}
			recs = append(recs, c17rec{id: idOf(lines[i]), seq: strings.ToLower(lines[i+1]), qual: lines[i+3]})
		}
	} else {
		var cur *c17rec
		for ; i < len(lines); i++ {
			l := lines[i]
			if l == "" {
				continue
			}
			if l[0] == '>' {
				recs = append(recs, c17rec{id: idOf(l)})
				cur = &recs[len(recs)-1]
			} else if cur != nil {
				cur.seq += strings.ToLower(l)
			} else {
				recs = append(recs, c17rec{id: "?malformed"})
			}
		}
	}
	return recs
}

type c17binres struct {
	exit  int // -1: killed / signal, -2 timeout
	nrec  int
	equal bool
	msg   string
}

func c17runBinary(bin, path string, stdin bool, want string) c17binres {
	res := c17runBinaryTO(bin, path, stdin, want, 90*time.Second)
	if res.exit == -2 {
		res = c17runBinaryTO(bin, path, stdin, want, 360*time.Second)
	}
	return res
}

func c17runBinaryTO(bin, path string, stdin bool, want string, to time.Duration) c17binres {
	if stdin {
		res, _ := c17runCmdTO(bin, nil, path, want, to)
		return res
	}
	res, _ := c17runCmdTO(bin, []string{path}, "", want, to)
	return res
}

// c17runCmd runs a command of the tree on files; the raw standard output is returned too.
func c17runCmd(bin string, args []string, stdinPath string, want string) (c17binres, []byte) {
	res, out := c17runCmdTO(bin, args, stdinPath, want, 90*time.Second)
	if res.exit == -2 {
		res, out = c17runCmdTO(bin, args, stdinPath, want, 360*time.Second)
	}
	return res, out
}

func c17runCmdTO(bin string, args []string, stdinPath string, want string, to time.Duration) (c17binres, []byte) {
	ctx, cancel := context.WithTimeout(context.Background(), to)
	defer cancel()
	cmd := exec.CommandContext(ctx, bin, args...)
	if stdinPath != "" {
		f, err := os.Open(stdinPath)
		if err != nil {
			panic(err)
		}
		defer f.Close()
		cmd.Stdin = f
	}
	var so bytes.Buffer
	tail := &c17tail{}
	cmd.Stdout = &so
	cmd.Stderr = tail
	err := cmd.Run()
	res := c17binres{}
	if ctx.Err() != nil {
		res.exit = -2
		res.msg = "timeout"
		return res, nil
	}
	if err != nil {
		var ee *exec.ExitError
		if errors.As(err, &ee) {
			res.exit = ee.ExitCode()
		} else {
			panic(err)
		}
	}
	lines := strings.Split(strings.TrimSpace(tail.String()), "\n")
	for j := len(lines) - 1; j >= 0; j-- {
		if strings.Contains(lines[j], "level=fatal") || strings.Contains(lines[j], "level=error") || strings.HasPrefix(lines[j], "panic:") {
			res.msg = lines[j]
			break
		}
	}
	if res.exit == 0 {
		n, d := c17parseOut(so.Bytes())
		res.nrec, res.equal = n, d == want
	}
	return res, so.Bytes()
}

// c17gzClass labels a faulted gzip file with an independent decoder (compress/gzip), for keys of the stdin
// driver only.
func c17refClass(codec string, data []byte) string {
	c, _ := c17refDecode(codec, data)
	return c
}

// c17refDecode: class of the faulted image and number of bytes decodable before the fault, by an independent
// decoder (compress/gzip, compress/bzip2). Labels only.
func c17refDecode(codec string, data []byte) (string, int64) {
	var rd io.Reader
	switch codec {
	case "gz":
		z, err := stdgzip.NewReader(bytes.NewReader(data))
		if err != nil {
			if errors.Is(err, io.ErrUnexpectedEOF) || err == io.EOF {
				return "truncated-header", 0
			}
			return "invalid-header", 0
		}
		z.Multistream(true)
		rd = z
	case "bz2":
		rd = stdbzip2.NewReader(bytes.NewReader(data))
	default:
		return "unclassified", 0
	}
	n, err := io.Copy(io.Discard, rd)
	switch {
	case err == nil:
		return "reference-decoder-accepts", n
	case errors.Is(err, io.ErrUnexpectedEOF):
		return "truncated-stream", n
	case errors.Is(err, stdgzip.ErrChecksum):
		return "checksum-mismatch", n
	case errors.Is(err, stdgzip.ErrHeader):
		return "invalid-header", n
	}
	return "corrupt-stream", n
}

func c17mix(k int) uint32 {
	x := uint32(k)*2654435761 + 0x9e3779b9
	x ^= x >> 15
	x *= 2246822519
	x ^= x >> 13
	return x
}

// c17stdinClass labels a faulted gzip image for the keys of the stdin driver (independent decoder).
func c17stdinClass(codec string, data []byte) string {
	if len(data) < 2 || data[0] != 0x1f || data[1] != 0x8b {
		return "not-recognised-as-gzip"
	}
	switch c, n := c17refDecode(codec, data); c {
	case "truncated-header":
		return "truncated"
	case "truncated-stream":
		// zlib's gzread cannot report a truncation when the input runs out exactly as its 16 KiB output
		// buffer fills (what remains decodable is then held inside inflate: at most one match, 258 bytes):
		// gzerror() stays Z_OK. Kept apart so that this quirk of the library does not share a key with
		// the reader ignoring gzerror().
		if n >= 16384 && n%16384 <= 258 {
			return "truncated-at-zlib-output-buffer-boundary"
		}
		return "truncated"
	}
	return "corrupt"
}

// ------------------------------------------------------------------------------------------ test

type c17worker struct {
	id    int
	child *c17child
	seq   int
}

type c17item struct {
	idx int
	c   c17case
}

func TestVerifC17(t *testing.T) {
	if os.Getenv("VERIF_C17_CHILD") == "1" {
		c17childMain()
		return
	}
	log.SetOutput(io.Discard)
	r := verifkit.New("C17")
	defer r.Write()

	// work directory
	work := os.Getenv("VERIF_WORKDIR")
	var tmpRoot string
	if work == "" {
		d, err := os.MkdirTemp("", "c17-")
		if err != nil {
			t.Fatal(err)
		}
		work, tmpRoot = d, d
	}
	shardDir := filepath.Join(work, fmt.Sprintf("c17-shard%d", r.Shard))
	if err := os.MkdirAll(shardDir, 0o755); err != nil {
		t.Fatal(err)
	}
	defer func() {
		os.RemoveAll(shardDir)
		if tmpRoot != "" {
			os.RemoveAll(tmpRoot)
		}
	}()

	bin, err := c17buildBinary(work, "obiconvert")
	if err != nil {
		t.Fatal(err)
	}
	binUniq, err := c17buildBinary(work, "obiuniq")
	if err != nil {
		t.Fatal(err)
	}

	thorough := verifkit.Thorough()
	binRate := 16
	if thorough {
		binRate = 4
	}
	nworkers := 5
	if s := os.Getenv("VERIF_C17_WORKERS"); s != "" {
		if n, err := strconv.Atoi(s); err == nil && n > 0 {
			nworkers = n
		}
	}
	codecs := []string{"gz", "bz2", "xz", "zst"}
	baseNames := []string{"fa300", "fq2k"}
	if thorough {
		baseNames = []string{"fa300", "fa1m2", "fq2k", "fq300"}
	}
	// bases of the other formats (EMBL, GenBank, CSV, ecoPCR) and the record longer than a chunk
	fmtBases := []string{"em400", "gb400", "cs200", "ec700"}
	fmtCodecs := []string{"gz"}
	longCodecs := []string{"zst", "xz"}
	multiBases := []string{"fa300"}
	if thorough {
		fmtCodecs = codecs
		longCodecs = codecs
		multiBases = []string{"fa300", "fq2k"}
	}
	toolBases := []string{"fa300", "fq2k"}
	restricted := map[string]bool{}
	if bs := os.Getenv("VERIF_C17_BASES"); bs != "" { // debugging knob: restrict the base files
		for _, n := range strings.Split(bs, ",") {
			restricted[n] = true
		}
		r.Cap("base files restricted by VERIF_C17_BASES=" + bs)
	}
	keep := func(l []string) []string {
		if len(restricted) == 0 {
			return l
		}
		var out []string
		for _, n := range l {
			if restricted[n] {
				out = append(out, n)
			}
		}
		return out
	}
	baseNames, fmtBases, multiBases, toolBases = keep(baseNames), keep(fmtBases), keep(multiBases), keep(toolBases)
	longBases := keep([]string{"fa1rec"})
	r.Bound("codecs", codecs)
	r.Bound("base_files", baseNames)
	r.Bound("base_files_other_formats", map[string]any{"bases": fmtBases, "codecs": fmtCodecs})
	r.Bound("base_files_tool_images", map[string]any{"bases": toolBases, "codecs": "gz.tool bz2.tool xz.tool zst.tool (gzip 1.12 -6, bzip2 1.0.8 -9, xz 5.8.2 -6, zstd 1.5.7 -3)"})
	r.Bound("base_files_two_members", map[string]any{"bases": multiBases, "codecs": "gz.2m bz2.2m xz.2m zst.2m"})
	r.Bound("base_file_long_record", map[string]any{"bases": longBases, "codecs": longCodecs})
	r.Bound("binary_subset", fmt.Sprintf("1 in %d of the file-driver cases (hash of the case index); stdin driver: all; command-level variants: every truncation of the selected images + 1 in %d of their bit flips", binRate, binRate))
	r.Bound("large_file_positions", "fa1m2 (sampled): truncation at every length in the first and last 2 KiB of the compressed image and every 4 KiB in between; read errors in the first and last 256 B and every 4 KiB; no bit flips")

	// ---- failure of the harness itself (never a verdict)
	var failMu sync.Mutex
	failMsg := ""
	fail := func(format string, a ...any) {
		failMu.Lock()
		if failMsg == "" {
			failMsg = fmt.Sprintf(format, a...)
		}
		failMu.Unlock()
	}
	failed := func() bool {
		failMu.Lock()
		defer failMu.Unlock()
		return failMsg != ""
	}

	// ---- lazily built bases / compressed images / on-disk intact copies
	var mu sync.Mutex
	bases := map[string]*c17base{}
	images := map[string][]byte{}
	boundaries := map[string]int{}
	intactPath := map[string]string{}
	getBase := func(n string) *c17base {
		mu.Lock()
		defer mu.Unlock()
		if b, ok := bases[n]; ok {
			return b
		}
		b := c17makeBase(n)
		bases[n] = b
		return b
	}
	getImage := func(bn, codec string) ([]byte, int) {
		b := getBase(bn)
		mu.Lock()
		defer mu.Unlock()
		k := bn + "." + codec
		if d, ok := images[k]; ok {
			return d, boundaries[k]
		}
		d, bd := c17image(b, codec)
		images[k], boundaries[k] = d, bd
		return d, bd
	}
	getIntact := func(bn, codec string) string {
		img, _ := getImage(bn, codec)
		mu.Lock()
		defer mu.Unlock()
		k := bn + "." + codec
		if p, ok := intactPath[k]; ok {
			return p
		}
		p := filepath.Join(shardDir, "intact_"+bn+"."+codec)
		if err := os.WriteFile(p, img, 0o644); err != nil {
			fail("%v", err)
		}
		intactPath[k] = p
		if kd := os.Getenv("VERIF_C17_KEEP"); kd != "" {
			os.WriteFile(filepath.Join(kd, "intact_"+bn+"."+codec), img, 0o644)
		}
		return p
	}

	// ---- child management (one child per worker)
	call := func(w *c17worker, req c17req) c17resp {
		if w.child != nil && w.child.served >= 300 {
			w.child.kill()
			w.child = nil
			r.Count("child_recycled", 1)
		}
		if w.child == nil {
			c, err := c17spawn()
			if err != nil {
				fail("spawn: %v", err)
				return c17resp{Outcome: "harness-error"}
			}
			w.child = c
			r.Count("child_spawned", 1)
		}
		w.seq++
		req.Seq = w.seq
		resp, crashed := w.child.call(req)
		if crashed || resp.Dirty {
			if !crashed {
				w.child.kill()
			}
			w.child = nil
		}
		return resp
	}

	positionsW := func(n int, large bool, lo, dense int) []int {
		var out []int
		for p := lo; p < n; p++ {
			if !large || p < dense || p >= n-dense || p%4096 == 0 {
				out = append(out, p)
			}
		}
		return out
	}
	positions := func(n int, large bool, lo int) []int { return positionsW(n, large, lo, 2048) }
	rdPositions := func(n int, large bool) []int { return positionsW(n, large, 0, 256) }

	normMsg := func(m string) string {
		if len(m) > 48 {
			m = m[:48]
		}
		return strings.Map(func(c rune) rune {
			if c >= '0' && c <= '9' {
				return '#'
			}
			return c
		}, m)
	}
	var nnotes atomic.Int64
	note := func(format string, a ...any) {
		if nnotes.Add(1) <= 4 {
			r.Note(format, a...)
		}
	}

	// ---- a reader that does not even read the intact file of its format cannot be asked about faults: the cases of
	// that base are skipped (counted, noted), never reported as held. Today: ReadEcoPCR.
	var gateMu sync.Mutex
	gates := map[string]bool{}
	gateOpen := func(w *c17worker, b *c17base) bool {
		if b.Fmt != "ecopcr" {
			return true
		}
		gateMu.Lock()
		defer gateMu.Unlock()
		if ok, done := gates[b.Name]; done {
			return ok
		}
		resp := call(w, c17req{Mode: "file", Fmt: b.Fmt, Path: getIntact(b.Name, "gz"), K: -1, Want: b.Want})
		ok := resp.Outcome == "ok" && resp.Equal
		if ok {
			resp = call(w, c17req{Mode: "fileimp", Fmt: b.Fmt, Path: getIntact(b.Name, "plain"), K: -1, Want: b.Want})
			ok = resp.Outcome == "ok" && resp.Equal
		}
		gates[b.Name] = ok
		if !ok {
			r.Count("format_gate_closed_"+b.Fmt, 1)
			r.Note("the %s reader does not read the INTACT control file %s (outcome %s %s, %d records): every fault case of this base is skipped (counted in cases_skipped_format_gate), nothing is claimed about it", b.Fmt, b.Name, resp.Outcome, resp.Msg, resp.NRec)
		}
		return ok
	}

	// ---- confirmed hangs are expensive (30 s + 120 s each): after 2 of them in one (base, codec, driver, fault)
	// group the rest of the group is skipped and the run is marked not exhaustive
	var hangMu sync.Mutex
	hangs := map[string]int{}
	hangGroup := func(c c17case) string { return c.Base + "." + c.Codec + "|" + c.Driver + "|" + c.Fault }
	hangCapped := func(c c17case) bool {
		hangMu.Lock()
		defer hangMu.Unlock()
		return hangs[hangGroup(c)] >= 2
	}
	hangSeen := func(c c17case) {
		hangMu.Lock()
		hangs[hangGroup(c)]++
		hangMu.Unlock()
	}

	impName := map[string]string{"fasta": "ReadFastxFromFile(imposed-format)", "fastq": "ReadFastxFromFile(imposed-format)",
		"embl": "ReadEMBLFromFile", "genbank": "ReadGenbankFromFile", "csv": "ReadCSVFromFile", "ecopcr": "ReadEcoPCRFromFile"}
	rdName := map[string]string{"fasta": "ReadFastx", "fastq": "ReadFastx", "embl": "ReadEMBL", "genbank": "ReadGenbank", "csv": "ReadCSV", "ecopcr": "ReadEcoPCR"}
	fastx := func(f string) bool { return f == "fasta" || f == "fastq" }

	// ---- command-level variants: what CLIReadBioSequences does around the readers (format options, several
	// files -> ReadSequencesBatchFromFiles, --paired-with -> PairTo) and a command that loads everything before it
	// writes (obiuniq). I = intact image of the same base and codec, F = the faulted file.
	type cliVariant struct {
		name   string
		prog   string // obiconvert | obiuniq
		expect string // single | double | paired | seqset
		args   func(I, F, out, flag string) []string
		fastx  bool // FASTA / FASTQ bases only
	}
	cliVariants := []cliVariant{
		{"imposed-format", "obiconvert", "single", func(I, F, out, flag string) []string { return []string{"--" + flag, F} }, false},
		{"second-of-two-files", "obiconvert", "double", func(I, F, out, flag string) []string { return []string{I, F} }, true},
		{"first-of-two-files", "obiconvert", "double", func(I, F, out, flag string) []string { return []string{F, I} }, true},
		{"second-of-two-files+no-order", "obiconvert", "double", func(I, F, out, flag string) []string { return []string{"--no-order", I, F} }, true},
		{"paired-with-faulted", "obiconvert", "paired", func(I, F, out, flag string) []string { return []string{I, "--paired-with", F, "-o", out} }, true},
		{"faulted-paired-with-intact", "obiconvert", "paired", func(I, F, out, flag string) []string { return []string{F, "--paired-with", I, "-o", out} }, true},
		{"obiuniq", "obiuniq", "seqset", func(I, F, out, flag string) []string { return []string{F} }, true},
	}
	runCli := func(w *c17worker, c c17case, b *c17base, casePath string, faulted []byte, inproc, fault, region string) {
		intact := getIntact(c.Base, c.Codec)
		double := c17digestSorted(append(append([]c17rec{}, b.Recs...), b.Recs...))
		seqset := func(recs []c17rec) string {
			m := map[string]bool{}
			for _, x := range recs {
				m[x.seq] = true
			}
			l := make([]string, 0, len(m))
			for k := range m {
				l = append(l, k)
			}
			sort.Strings(l)
			return strings.Join(l, ",")
		}
		for _, v := range cliVariants {
			if v.fastx && !fastx(b.Fmt) {
				continue
			}
			if v.name == "imposed-format" && b.Fmt == "csv" {
				continue // no --csv option
			}
			if c.Fault != "none" && inproc != "failure" {
				// the reader itself accepts this file (reported above under the reader's key): nothing to learn
				// from the wrappers
				r.Count("cli_skipped_reader_accepts", 1)
				continue
			}
			outName := filepath.Join(shardDir, fmt.Sprintf("c17out_w%d.%s", w.id, b.Fmt))
			r1 := filepath.Join(shardDir, fmt.Sprintf("c17out_w%d_R1.%s", w.id, b.Fmt))
			r2 := filepath.Join(shardDir, fmt.Sprintf("c17out_w%d_R2.%s", w.id, b.Fmt))
			os.Remove(r1)
			os.Remove(r2)
			prog := bin
			if v.prog == "obiuniq" {
				prog = binUniq
			}
			br, out := c17runCmd(prog, v.args(intact, casePath, outName, b.Fmt), "", b.Want)
			r.Count("cli_runs", 1)
			r.Count("cli_runs_"+v.name, 1)
			r.Trans(1)
			who := v.prog + "[" + v.name + "]"
			if v.name == "imposed-format" {
				who = v.prog + "[--" + b.Fmt + "]"
			}
			cause := "reader-reports-in-process"
			if !c17hasMagic(c.Codec, faulted) {
				cause = "not-recognised-as-compressed@" + b.Fmt + "-parser-accepts-garbage"
			}
			complete, nrec := false, 0
			if br.exit == 0 {
				switch v.expect {
				case "single":
					complete, nrec = br.equal, br.nrec
				case "double":
					recs := c17parseRecs(out)
					complete, nrec = c17digestSorted(recs) == double, len(recs)
				case "paired":
					o1, e1 := os.ReadFile(r1)
					o2, e2 := os.ReadFile(r2)
					n1, d1 := c17parseOut(o1)
					n2, d2 := c17parseOut(o2)
					complete, nrec = e1 == nil && e2 == nil && d1 == b.Want && d2 == b.Want, n1+n2
				case "seqset":
					recs := c17parseRecs(out)
					complete, nrec = seqset(recs) == seqset(b.Recs), len(recs)
				}
			}
			r.State(fmt.Sprintf("%s.%s|cli|%s|%s|%d|%v", c.Base, c.Codec, v.name, c.Fault, br.exit, complete))
			switch {
			case br.exit == -2:
				r.Violate(fmt.Sprintf("%s/%s/hang", who, fault), fmt.Sprintf("%s: `%s %s` did not end within 360 s (second attempt)", c, v.prog, strings.Join(v.args("INTACT", "FAULTED", "OUT", b.Fmt), " ")), c)
			case br.exit == 0 && complete:
				r.Count("cli_exit0_complete", 1)
				if c.Fault == "none" {
					r.Count("cli_control_ok", 1)
				}
				if c.Fault == "trunc" {
					r.Violate(fmt.Sprintf("%s/truncation/accepted-although-truncated:%s:%s", who, c.Codec, region),
						fmt.Sprintf("%s: `%s %s` exits 0 with the complete output although the reader reports the truncated file in-process", c, v.prog, strings.Join(v.args("INTACT", "FAULTED", "OUT", b.Fmt), " ")), c)
				}
			case br.exit == 0:
				r.Count("cli_exit0_partial", 1)
				vkey := fmt.Sprintf("%s/%s/exit0-partial:%s:%s:%s", who, fault, cause, c.Codec, region)
				if strings.HasPrefix(cause, "not-recognised-as-compressed@") {
					vkey = fmt.Sprintf("%s/%s/exit0-partial:%s", who, fault, cause)
				}
				r.Violate(vkey,
					fmt.Sprintf("%s: `%s %s` (INTACT = the same file without the fault) ends with exit status 0 after writing %d records, not the complete output; in-process the reader reports the fault", c, v.prog, strings.Join(v.args("INTACT", "FAULTED", "OUT", b.Fmt), " "), nrec), c)
			default:
				r.Count("cli_exit_nonzero", 1)
			}
			if c.Fault == "none" && !(br.exit == 0 && complete) && br.exit != -2 {
				// the control run of the command on INTACT files: a verdict on the tree, not a harness failure
				sym := "rejected"
				if br.exit == 0 {
					sym = "silent-partial"
				}
				r.Count("control_runs_failed", 1)
				r.Violate(fmt.Sprintf("%s/control-run/intact-files-%s:%s", who, sym, c.Codec),
					fmt.Sprintf("%s: `%s %s` on intact files (INTACT = FAULTED = the same complete file): exit status %d, %d records written, not the complete output: %s",
						c, v.prog, strings.Join(v.args("INTACT", "FAULTED", "OUT", b.Fmt), " "), br.exit, nrec, br.msg), c)
			}
		}
	}

	// controlFailed: an INTACT file is not read completely by the tree under test (rejected, crash, hang, records
	// lost): a verdict on the tree, never a failure of the harness, whoever wrote the image (the images of the Go
	// encoders are checked against independent decoders when they are built; a file written by gzip / bzip2 / xz /
	// zstd themselves, or made of two members, keeps the key it always had). The command-level runs of the control
	// case are skipped; the fault cases of the image are still judged one by one (a run that fails there is a report).
	controlFailed := func(c c17case, drv, what string, exit0 bool) {
		sym := "rejected"
		if exit0 {
			sym = "silent-partial"
		}
		r.Count("control_runs_failed", 1)
		if !strings.Contains(c.Codec, ".") {
			r.Violate(fmt.Sprintf("%s/control-run/intact-file-%s:%s", drv, sym, c.Codec), fmt.Sprintf("%s: an intact file is not read completely: %s", c, what), c)
			return
		}
		r.Violate(fmt.Sprintf("%s/intact/%s:%s", drv, sym, c.Codec), fmt.Sprintf("%s: an intact file is not read completely: %s", c, what), c)
	}

	evalCase := func(w *c17worker, c c17case) {
		b := getBase(c.Base)
		if !gateOpen(w, b) {
			r.Count("cases_skipped_format_gate", 1)
			return
		}
		if hangCapped(c) {
			r.Count("cases_skipped_after_two_confirmed_hangs", 1)
			r.Cap("two confirmed hangs in group " + hangGroup(c) + ": rest of the group skipped")
			return
		}
		img, boundary := getImage(c.Base, c.Codec)
		fault := c17faultName[c.Fault]
		var faulted []byte
		region := "none"
		switch c.Fault {
		case "trunc":
			faulted = img[:c.Pos]
			region = c17region(len(img), boundary, c.Pos)
		case "flip":
			faulted = append([]byte{}, img...)
			faulted[c.Pos/8] ^= 1 << uint(c.Pos%8)
			region = c17region(len(img), boundary, c.Pos/8)
		case "rderr":
			faulted = img
			region = c17region(len(img), boundary, c.Pos)
		case "none":
			faulted = img
		default:
			fail("unknown fault %q", c.Fault)
			return
		}
		casePath := filepath.Join(shardDir, fmt.Sprintf("c17case_w%d.%s.%s", w.id, b.Fmt, c.Codec))
		r.Eval(1)
		r.Count("cases_"+c.Driver+"_"+c.Fault, 1)
		r.Count("cases_format_"+b.Fmt, 1)
		if strings.Contains(c.Codec, ".") {
			r.Count("cases_image_"+c.Codec[strings.IndexByte(c.Codec, '.')+1:], 1)
		}
		if c.Fault != "none" {
			r.Count("faulted_cases_executed", 1)
		} else {
			r.Count("control_cases_executed", 1)
		}
		if c.Cli {
			r.Count("cases_selected_for_the_command_level_variants", 1)
		}
		if c.Bin || c.Driver == "stdin" {
			r.Count("cases_selected_for_the_binary", 1)
		}
		// what is appended to the keys of an accepted fault: image kind and where the fault falls
		where := c.Codec + ":" + region

		switch c.Driver {
		case "file", "fileimp", "reader", "readerimp":
			var req c17req
			if c.Driver == "file" || c.Driver == "fileimp" {
				if err := os.WriteFile(casePath, faulted, 0o644); err != nil {
					fail("%v", err)
					return
				}
				req = c17req{Mode: c.Driver, Fmt: b.Fmt, Path: casePath, K: -1, Want: b.Want}
			} else {
				k := c.Pos
				if c.Fault == "none" {
					k = -1
				}
				req = c17req{Mode: c.Driver, Fmt: b.Fmt, Path: getIntact(c.Base, c.Codec), K: k, ErrKind: c.ErrKind, Want: b.Want}
			}
			resp := call(w, req)
			if resp.Outcome == "hang" {
				// confirm on a fresh child with a 4x timeout (the machine may just be overloaded)
				r.Count("hang_confirmation_runs", 1)
				req.LongTO = true
				resp = call(w, req)
				req.LongTO = false
			}
			if resp.Outcome == "harness-error" {
				return
			}
			r.Trans(1)
			r.Count("outcome_"+resp.Outcome, 1)
			r.State(fmt.Sprintf("%s.%s|%s|%s|%s|%d|%v|%s", c.Base, c.Codec, c.Driver, c.Fault, resp.Outcome, resp.NRec, resp.Equal, normMsg(resp.Msg)))
			drv := "ReadSequencesFromFile"
			switch c.Driver {
			case "fileimp":
				drv = impName[b.Fmt]
			case "reader":
				drv = "Buf+OBIMimeTypeGuesser+" + rdName[b.Fmt] + "(reader)"
			case "readerimp":
				drv = "Buf+" + rdName[b.Fmt] + "(reader,imposed-format)"
			}
			if c.Driver == "file" && !fastx(b.Fmt) {
				drv += "[" + b.Fmt + "]"
			}
			inproc := "failure"
			label := "unlabelled"
			libkey := ""
			switch resp.Outcome {
			case "ok":
				if resp.Equal {
					inproc = "success-full"
					r.Count("accepted_with_complete_records", 1)
					if c.Fault == "none" {
						r.Count("control_ok", 1)
					}
					if c.Fault == "trunc" {
						// the statement: an input cut short AT ANY BYTE POSITION is reported, even when
						// every record could still be decoded (trailer / index / footer missing)
						r.Count("truncated_but_accepted_with_all_records", 1)
						vkey := fmt.Sprintf("%s/truncation/accepted-although-truncated:%s:%s", drv, c.Codec, c17cutName(len(img), c.Pos))
						preq := req
						preq.Mode = "probe"
						if p := call(w, preq); p.Class == "no-decoder-error" {
							// the decompression library ends the stream cleanly although its trailer is missing:
							// no reader above it can tell (one key per library, image kind and cut)
							libkey = fmt.Sprintf("decoder[%s]/truncation/accepted-although-truncated:%s:%s", c17library[c17codecOf(c.Codec)], c.Codec, c17cutName(len(img), c.Pos))
							vkey = libkey
						}
						r.Violate(vkey,
							fmt.Sprintf("%s: the compressed file is cut at %d of %d bytes, reading succeeds silently (all %d records decoded, no error, no fatal)", c, c.Pos, len(img), resp.NRec), c)
					}
				} else {
					inproc = "success-partial"
					if c.Fault == "none" {
						break
					}
					r.Count("silent_partial", 1)
					preq := req
					preq.Mode = "probe"
					if c.Driver == "file" || c.Driver == "fileimp" {
						preq.K = -1
					}
					p := call(w, preq)
					site := "mime-sniffer"
					if c.Driver == "fileimp" || c.Driver == "readerimp" {
						site = "chunk-reader-or-parser"
					}
					switch {
					case p.Class == "first-read-error":
						site = "Buf"
					case p.Class == "open-error":
						site = "caller-of-Buf"
					case p.Class == "no-decoder-error":
						site = c17library[c17codecOf(c.Codec)]
					case p.NOK >= 1024*1024:
						site = "chunk-reader"
					}
					label = p.Class + "@" + site
					if (c.Driver == "file" || c.Driver == "fileimp") && !c17hasMagic(c.Codec, faulted) {
						// the magic number is cut or damaged: Buf hands the bytes over as an uncompressed
						// file, and the parser of the (imposed or guessed) format finds no record in them
						label = "not-recognised-as-compressed@" + b.Fmt + "-parser-accepts-garbage"
						if c.Driver == "file" {
							label = "not-recognised-as-compressed@guessed-format-parser-accepts-garbage"
						}
					}
					vkey := fmt.Sprintf("%s/%s/silent-partial:%s:%s", drv, fault, label, where)
					if strings.HasPrefix(label, "not-recognised-as-compressed@") {
						// which codec the file had before its magic number was lost does not matter
						vkey = fmt.Sprintf("%s/%s/silent-partial:%s", drv, fault, label)
					}
					if p.Class == "no-decoder-error" && c17hasMagic(c.Codec, faulted) {
						// the decompression library itself ends the stream cleanly: no reader above it can
						// tell, the entry point is irrelevant (one key per library, image kind and region)
						libkey = fmt.Sprintf("decoder[%s]/%s/clean-end-of-stream-on-damaged-input:%s", c17library[c17codecOf(c.Codec)], fault, where)
						vkey = libkey
					}
					r.Violate(vkey,
						fmt.Sprintf("%s: reading succeeded (no error, no fatal) and delivered %d records, not the %d original ones (%s); the stream opened by Buf gives %d decoded bytes then %s (%s)",
							c, resp.NRec, b.N, resp.Msg, p.NOK, p.Class, p.Msg), c)
				}
			case "hang":
				hangSeen(c)
				r.Violate(fmt.Sprintf("%s/%s/hang:%s", drv, fault, where), fmt.Sprintf("%s: neither a fatal exit nor the end of the record stream within %v (confirmed by a second run on a fresh process)", c, 4*c17hangTimeout), c)
			case "crash", "panic":
				r.Count("crash_or_panic_counted_as_reported", 1)
				note("crash/panic outcome (counts as a reported failure): %s: %s", c, resp.Msg)
			}
			if c.Fault == "none" && inproc != "success-full" {
				controlFailed(c, drv, fmt.Sprintf("%s %s, %d of %d records", resp.Outcome, resp.Msg, resp.NRec, b.N), inproc == "success-partial")
				return
			}
			if c.Driver == "file" && c.Bin {
				br := c17runBinary(bin, casePath, false, b.Want)
				r.Count("binary_runs", 1)
				r.Trans(1)
				bcl := "failure"
				bdrv := "obiconvert"
				if !fastx(b.Fmt) {
					bdrv += "[" + b.Fmt + "]"
				}
				switch {
				case br.exit == -2:
					r.Violate(fmt.Sprintf("%s/%s/hang:%s", bdrv, fault, where), fmt.Sprintf("%s: obiconvert <file> did not end within 360 s (second attempt)", c), c)
				case br.exit == 0 && br.equal:
					bcl = "success-full"
					if c.Fault == "trunc" {
						vkey := fmt.Sprintf("%s/truncation/accepted-although-truncated:%s:%s", bdrv, c.Codec, c17cutName(len(img), c.Pos))
						if libkey != "" && inproc == "success-full" {
							vkey = libkey // same library leniency as in-process: same key
						}
						r.Violate(vkey, fmt.Sprintf("%s: the compressed file is cut at %d of %d bytes, `obiconvert <file>` exits 0 (all records written)", c, c.Pos, len(img)), c)
					}
				case br.exit == 0 && c.Fault == "none":
					bcl = "success-partial"
				case br.exit == 0 && libkey != "" && inproc == "success-partial":
					bcl = "success-partial" // same library leniency as in-process: same key
					r.Violate(libkey, fmt.Sprintf("%s: `obiconvert <file>` ends with exit status 0 after writing %d of %d records", c, br.nrec, b.N), c)
				case br.exit == 0:
					bcl = "success-partial"
					r.Violate(fmt.Sprintf("%s/%s/exit0-partial:%s:%s", bdrv, fault, label, where),
						fmt.Sprintf("%s: `obiconvert <file>` ends with exit status 0 after writing %d of %d records", c, br.nrec, b.N), c)
				}
				r.Count("binary_"+bcl, 1)
				if bcl == inproc {
					r.Count("binary_agrees_with_inprocess", 1)
				} else {
					r.Count("binary_disagrees_with_inprocess", 1)
					note("binary/in-process disagreement: %s: in-process %s (%s %s), binary %s (exit %d %s)", c, inproc, resp.Outcome, resp.Msg, bcl, br.exit, br.msg)
				}
				if c.Fault == "none" && bcl != "success-full" {
					controlFailed(c, bdrv, fmt.Sprintf("exit %d %s, %d of %d records", br.exit, br.msg, br.nrec, b.N), bcl == "success-partial")
				}
			}
			if c.Driver == "file" && c.Cli {
				runCli(w, c, b, casePath, faulted, inproc, fault, region)
			}
		case "stdin":
			if err := os.WriteFile(casePath, faulted, 0o644); err != nil {
				fail("%v", err)
				return
			}
			br := c17runBinary(bin, casePath, true, b.Want)
			r.Count("binary_runs", 1)
			r.Trans(1)
			r.State(fmt.Sprintf("%s.%s|stdin|%s|%d|%d|%v", c.Base, c.Codec, c.Fault, br.exit, br.nrec, br.equal))
			kind := "" // image kind in the keys when it is not the plain Go gzip image
			if c.Codec != "gz" {
				kind = ":" + c.Codec
				if boundary > 0 {
					kind += ":" + region
				}
			}
			switch {
			case br.exit == -2:
				r.Count("outcome_hang", 1)
				r.Violate(fmt.Sprintf("obiconvert-stdin/%s/hang%s", fault, kind), fmt.Sprintf("%s: `obiconvert < file` did not end within 360 s (second attempt)", c), c)
			case br.exit == 0 && br.equal:
				r.Count("accepted_with_complete_records", 1)
				r.Count("stdin_exit0_full", 1)
				if c.Fault == "none" {
					r.Count("control_ok", 1)
				}
				if c.Fault == "trunc" {
					r.Violate(fmt.Sprintf("obiconvert-stdin/truncation/accepted-although-truncated:%s:%s", c.Codec, c17cutName(len(img), c.Pos)),
						fmt.Sprintf("%s: the compressed stream is cut at %d of %d bytes, `obiconvert < file` exits 0 (all records written)", c, c.Pos, len(img)), c)
				}
			case br.exit == 0 && c.Fault == "none":
			case br.exit == 0:
				r.Count("silent_partial", 1)
				r.Count("stdin_exit0_partial", 1)
				class := c17stdinClass(c17codecOf(c.Codec), faulted)
				if class == "not-recognised-as-gzip" {
					kind = "" // which kind of gzip file it was before its magic number was lost does not matter
				}
				r.Violate(fmt.Sprintf("obiconvert-stdin/%s/exit0-partial:%s@kseq-gzread%s", fault, class, kind),
					fmt.Sprintf("%s: `obiconvert < file` ends with exit status 0 after writing %d of %d records (reference gzip decoder: %s)", c, br.nrec, b.N, c17refClass(c17codecOf(c.Codec), faulted)), c)
			default:
				r.Count("stdin_exit_nonzero", 1)
			}
			if c.Fault == "none" && !(br.exit == 0 && br.equal) {
				controlFailed(c, "obiconvert-stdin", fmt.Sprintf("exit %d %s, %d of %d records", br.exit, br.msg, br.nrec, b.N), br.exit == 0)
			}
		default:
			fail("unknown driver %q", c.Driver)
		}
	}

	if rc := r.ReplayCase(); rc != nil {
		var c c17case
		if err := json.Unmarshal(rc, &c); err != nil {
			t.Fatal(err)
		}
		w := &c17worker{}
		evalCase(w, c)
		if w.child != nil {
			w.child.kill()
		}
		if failed() {
			t.Fatal(failMsg)
		}
		return
	}

	// ---- enumeration: a generator feeds the work items of this shard to nworkers workers
	items := make(chan c17item, 64)
	var stop atomic.Bool
	var wg sync.WaitGroup
	for i := 0; i < nworkers; i++ {
		wg.Add(1)
		go func(id int) {
			defer wg.Done()
			w := &c17worker{id: id}
			defer func() {
				if w.child != nil {
					w.child.kill()
				}
			}()
			for it := range items {
				if stop.Load() {
					continue
				}
				if failed() || r.Expired() {
					stop.Store(true)
					continue
				}
				evalCase(w, it.c)
			}
		}(i)
	}
	k := 0
	sizes := map[string]int{}
	type suiteOpt struct {
		truncImp    bool // imposed-format reader on every truncation
		flipFile    bool
		flipImpStep int  // imposed-format reader on every n-th bit flip (0: none)
		rderr       bool // EIO after every k bytes of the compressed stream, sniffing and imposed-format readers
		binAll      bool // obiconvert <file> on every truncation
		cli         bool // command-level variants on every truncation and 1 in binRate bit flips
		stdinTrunc  bool
		stdinFlip   bool
		sampled     bool // large image: sampled positions
	}
	var flips []c17item
	visit := func(c c17case, o suiteOpt) bool {
		idx := k
		k++
		if !r.Mine(idx) {
			return true
		}
		pick := int(c17mix(idx)%uint32(binRate)) == 0
		if c.Driver == "file" && (c.Fault == "none" || pick || (o.binAll && c.Fault == "trunc")) {
			c.Bin = true
		}
		if c.Driver == "file" && o.cli && (c.Fault == "none" || c.Fault == "trunc" || pick) {
			c.Cli = true
		}
		if c.Fault == "flip" {
			// breadth first: the deep family (every single-bit flip, more than half of the cases) runs after every
			// image of every base has had its control runs, truncations and read errors (same case indices)
			flips = append(flips, c17item{idx, c})
			return !stop.Load()
		}
		items <- c17item{idx, c}
		return !stop.Load()
	}
	// suite: every fault of one image of one base
	suite := func(bn, codec string, o suiteOpt) bool {
		img, boundary := getImage(bn, codec)
		sizes[bn+"."+codec] = len(img)
		if boundary > 0 {
			sizes[bn+"."+codec+":second-member-at"] = boundary
		}
		if !visit(c17case{Base: bn, Codec: codec, Driver: "file", Fault: "none"}, o) {
			return false
		}
		if !visit(c17case{Base: bn, Codec: codec, Driver: "reader", Fault: "none"}, o) {
			return false
		}
		if o.truncImp && !visit(c17case{Base: bn, Codec: codec, Driver: "fileimp", Fault: "none"}, o) {
			return false
		}
		for _, p := range positions(len(img), o.sampled, 1) {
			if p == boundary {
				continue // a file that ends exactly where its first member ends is a complete, shorter file
			}
			if !visit(c17case{Base: bn, Codec: codec, Driver: "file", Fault: "trunc", Pos: p}, o) {
				return false
			}
			if o.truncImp && !visit(c17case{Base: bn, Codec: codec, Driver: "fileimp", Fault: "trunc", Pos: p}, o) {
				return false
			}
		}
		if o.flipFile {
			for bit := 0; bit < 8*len(img); bit++ {
				if !visit(c17case{Base: bn, Codec: codec, Driver: "file", Fault: "flip", Pos: bit}, o) {
					return false
				}
				if o.flipImpStep > 0 && bit%o.flipImpStep == 0 && !visit(c17case{Base: bn, Codec: codec, Driver: "fileimp", Fault: "flip", Pos: bit}, o) {
					return false
				}
			}
		}
		if o.rderr {
			// read error on the compressed stream (an io.ErrUnexpectedEOF there is the truncation above)
			if !visit(c17case{Base: bn, Codec: codec, Driver: "readerimp", Fault: "none"}, o) {
				return false
			}
			for _, p := range rdPositions(len(img), o.sampled) {
				if !visit(c17case{Base: bn, Codec: codec, Driver: "reader", Fault: "rderr", Pos: p, ErrKind: "EIO"}, o) {
					return false
				}
				if !visit(c17case{Base: bn, Codec: codec, Driver: "readerimp", Fault: "rderr", Pos: p, ErrKind: "EIO"}, o) {
					return false
				}
			}
		}
		if o.stdinTrunc {
			// stdin of the command (C kseq / zlib gzread): gzip only
			if !visit(c17case{Base: bn, Codec: codec, Driver: "stdin", Fault: "none"}, o) {
				return false
			}
			for _, p := range positions(len(img), o.sampled, 1) {
				if p == boundary {
					continue
				}
				if !visit(c17case{Base: bn, Codec: codec, Driver: "stdin", Fault: "trunc", Pos: p}, o) {
					return false
				}
			}
		}
		if o.stdinFlip {
			for bit := 0; bit < 8*len(img); bit++ {
				if !visit(c17case{Base: bn, Codec: codec, Driver: "stdin", Fault: "flip", Pos: bit}, o) {
					return false
				}
			}
		}
		return true
	}
	// read errors on the uncompressed stream
	plainErrors := func(bn string, sampled bool) bool {
		b := getBase(bn)
		o := suiteOpt{}
		sizes[bn+".plain"] = len(b.Plain)
		drivers := []string{"reader", "readerimp"}
		for _, d := range drivers {
			if !visit(c17case{Base: bn, Codec: "plain", Driver: d, Fault: "none"}, o) {
				return false
			}
		}
		for _, p := range rdPositions(len(b.Plain), sampled) {
			for _, ek := range []string{"EIO", "UEOF"} {
				for _, d := range drivers {
					if !visit(c17case{Base: bn, Codec: "plain", Driver: d, Fault: "rderr", Pos: p, ErrKind: ek}, o) {
						return false
					}
				}
			}
		}
		return true
	}
	func() {
		// 1. FASTA / FASTQ, images written by the Go encoders
		for _, bn := range baseNames {
			b := getBase(bn)
			for _, codec := range codecs {
				o := suiteOpt{truncImp: true, flipFile: !b.Large, flipImpStep: 4, rderr: true, sampled: b.Large,
					cli:        bn == "fa300" && (thorough || codec == "gz" || codec == "zst"),
					stdinTrunc: codec == "gz", stdinFlip: codec == "gz" && !b.Large}
				if !suite(bn, codec, o) {
					return
				}
			}
			if !plainErrors(bn, b.Large) {
				return
			}
		}
		// 2. the same files compressed by gzip / bzip2 / xz / zstd themselves
		for _, bn := range toolBases {
			for _, codec := range codecs {
				o := suiteOpt{truncImp: true, flipFile: thorough || bn == "fa300", stdinTrunc: codec == "gz", cli: thorough && bn == "fa300"}
				if thorough {
					o.flipImpStep, o.stdinFlip = 4, codec == "gz"
				}
				if !suite(bn, codec+".tool", o) {
					return
				}
			}
		}
		// 3. two members / frames / streams in one file
		for _, bn := range multiBases {
			for _, codec := range codecs {
				o := suiteOpt{truncImp: true, flipFile: true, stdinTrunc: codec == "gz", stdinFlip: codec == "gz"}
				if !suite(bn, codec+".2m", o) {
					return
				}
			}
		}
		// 4. the other formats that ReadSequencesFromFile and --embl / --genbank / --ecopcr dispatch to
		for _, bn := range fmtBases {
			for _, codec := range fmtCodecs {
				o := suiteOpt{truncImp: true, flipFile: true, rderr: true, binAll: true, cli: codec == "gz"}
				if thorough {
					o.flipImpStep = 4
				}
				if !suite(bn, codec, o) {
					return
				}
			}
			if !plainErrors(bn, false) {
				return
			}
		}
		// 5. a record longer than the chunk of the chunk reader (faults reach the buffer extension loop)
		for _, bn := range longBases {
			for _, codec := range longCodecs {
				img, _ := getImage(bn, codec)
				o := suiteOpt{truncImp: true, rderr: true, sampled: len(img) > 4096}
				if !suite(bn, codec, o) {
					return
				}
			}
			if thorough && !plainErrors(bn, true) {
				return
			}
		}
	}()
	for _, it := range flips {
		if stop.Load() {
			break
		}
		items <- it
	}
	close(items)
	wg.Wait()
	if failed() {
		t.Fatal("c17 harness failure: " + failMsg)
	}
	r.Bound("file_sizes_bytes", sizes)
	r.Bound("work_items_all_shards", k)
	r.Sample(c17case{Base: "fa300", Codec: "gz", Driver: "file", Fault: "trunc", Pos: sizes["fa300.gz"] / 2})
	r.Sample(c17case{Base: "fq2k", Codec: "zst.tool", Driver: "file", Fault: "flip", Pos: 8*40 + 3})
	r.Sample(c17case{Base: "em400", Codec: "plain", Driver: "readerimp", Fault: "rderr", Pos: 1000, ErrKind: "EIO"})
	r.Sample(c17case{Base: "fa300", Codec: "gz.2m", Driver: "stdin", Fault: "trunc", Pos: 100})
	// vacuity guards: what the harness generated and executed, never what the tree under test answered
	// (control_ok, binary_runs and cli_runs stay as counters: they depend on the in-process outcome)
	r.RequireNonVacuous("faulted_cases_executed")
	r.RequireNonVacuous("control_cases_executed")
	r.RequireNonVacuous("cases_selected_for_the_binary")
	if len(restricted) == 0 {
		r.RequireNonVacuous("cases_selected_for_the_command_level_variants")
	}
}
