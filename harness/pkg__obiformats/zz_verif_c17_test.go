//go:build verif

package obiformats

// C17 — truncated or corrupt compressed input is reported, never silently accepted.
//
// Fault enumeration on the real reading code (level: fault_enumeration):
//
//   base files   small FASTA / FASTQ (and, thorough tier, a 1.2 MiB FASTA whose decoded stream outlives the
//                1 MiB MIME sniff buffer) x {gzip, bzip2, xz, zstd}, compressed by the harness.
//   faults       trunc   every truncation length 1..len-1 of the compressed file
//                flip    every single-bit flip of the compressed file (small files)
//                rderr   an io.Reader that delivers k bytes and then fails: errors.New("EIO") after every k of the
//                        compressed stream; EIO and io.ErrUnexpectedEOF after every k of the plain stream
//   drivers      file    ReadSequencesFromFile(temp file)                      (in-process, real entry point)
//                reader  Buf -> OBIMimeTypeGuesser -> ReadFasta/ReadFastq      (in-process, the 20 glue lines of
//                        ReadSequencesFromFile re-stated over an io.Reader so that a read error can be injected)
//                bin     the obiconvert binary built from the tree, on a hashed subset of the `file` cases
//                        (exit status; agreement with the in-process verdict is counted)
//                stdin   the obiconvert binary reading the faulted gzip file on stdin (C kseq/gzread path),
//                        every truncation and every bit flip
//
// Oracle (DESIGN §3 C17): success (no error returned, no fatal exit / exit status 0) implies that the records
// delivered equal the complete original record list. Anything else (error, fatal, panic, crash) is a report.
//
// In-process cases run in CHILD processes of this test binary (same code, env VERIF_C17_CHILD=1) that serve
// one case per request line: log.Fatal is intercepted (logrus ExitFunc records the code and runtime.Goexit()s
// the calling goroutine, which may be a reader goroutine and not the caller; the executor waits for "exit
// recorded" OR "pipeline drained"). A fatal raised in a pipeline goroutine, a hang or a crash leaves the child
// dirty: the supervisor replaces it, so no stale goroutine can pollute a later case, and a panic in a
// goroutine of the code under test is an observed outcome ("crash", i.e. non-zero exit) and not a harness
// failure. Each shard drives several children concurrently (the pipelines mostly sleep in 1 ms polls).
//
// Violation keys: <driver>/<fault>/<symptom>:<what the decompressor reports>@<site that loses it>; the part
// after ':' comes from a labelling probe (never used for the verdict).
//
// Knobs (debugging only): VERIF_C17_BASES=fa300,fq2k,... restricts the base files (run marked not exhaustive);
// VERIF_C17_WORKERS children per shard; VERIF_C17_KEEP=dir keeps intact images; VERIF_C17_CPUPROFILE.

import (
	"bufio"
	"bytes"
	stdbzip2 "compress/bzip2"
	stdgzip "compress/gzip"
	"context"
	"crypto/sha1"
	"encoding/hex"
	"encoding/json"
	"errors"
	"fmt"
	"io"
	"os"
	"os/exec"
	"path/filepath"
	"runtime"
	"runtime/pprof"
	"sort"
	"strconv"
	"strings"
	"sync"
	"sync/atomic"
	"testing"
	"time"

	"git.metabarcoding.org/obitools/obitools4/obitools4/pkg/obiiter"
	"git.metabarcoding.org/obitools/obitools4/obitools4/pkg/verifkit"
	dsbzip2 "github.com/dsnet/compress/bzip2"
	"github.com/klauspost/compress/zstd"
	"github.com/klauspost/pgzip"
	log "github.com/sirupsen/logrus"
	"github.com/ulikunitz/xz"
)

// ------------------------------------------------------------------------------------------ base files

type c17rec struct{ id, seq, qual string }

type c17base struct {
	Name  string
	Fmt   string
	Plain []byte
	N     int
	Want  string // digest of the complete record list
	Large bool
}

type c17lcg uint64

func (x *c17lcg) next() uint64 {
	*x = *x*6364136223846793005 + 1442695040888963407
	return uint64(*x) >> 33
}

func c17digestRecs(recs []c17rec) string {
	h := sha1.New()
	for _, r := range recs {
		fmt.Fprintf(h, "%s\x00%s\x00%s\n", r.id, r.seq, r.qual)
	}
	return hex.EncodeToString(h.Sum(nil))
}

// c17makeBase builds a deterministic sequence file. FASTA: one sequence line per record; FASTQ: 4-line
// records, quality lines never start with '@' or '+' (chunk splitting heuristics belong to C01).
func c17makeBase(name string) *c17base {
	var nrec, slen int
	var fm string
	large := false
	switch name {
	case "fa300":
		fm, nrec, slen = "fasta", 4, 60
	case "fq2k":
		fm, nrec, slen = "fastq", 10, 95
	case "fq300":
		fm, nrec, slen = "fastq", 3, 44
	case "fa2k":
		fm, nrec, slen = "fasta", 20, 90
	case "fa1m2":
		fm, nrec, slen, large = "fasta", 11500, 100, true
	default:
		panic("c17: unknown base " + name)
	}
	g := c17lcg(0x9e3779b97f4a7c15 ^ uint64(len(name))*977 ^ uint64(nrec))
	var buf bytes.Buffer
	recs := make([]c17rec, 0, nrec)
	for i := 0; i < nrec; i++ {
		seq := make([]byte, slen)
		for j := range seq {
			seq[j] = "acgt"[g.next()&3]
		}
		rec := c17rec{seq: string(seq)}
		if large {
			rec.id = fmt.Sprintf("r%06d", i)
		} else {
			rec.id = fmt.Sprintf("c17%s%02d", name[:2], i)
		}
		if fm == "fasta" {
			if i%2 == 1 && !large {
				fmt.Fprintf(&buf, ">%s {\"count\":%d}\n%s\n", rec.id, i+1, rec.seq)
			} else {
				fmt.Fprintf(&buf, ">%s\n%s\n", rec.id, rec.seq)
			}
		} else {
			q := make([]byte, slen)
			for j := range q {
				q[j] = byte('#' + g.next()%39) // '#'..'I'
			}
			q[0] = 'F'
			rec.qual = string(q)
			fmt.Fprintf(&buf, "@%s\n%s\n+\n%s\n", rec.id, rec.seq, rec.qual)
		}
		recs = append(recs, rec)
	}
	return &c17base{Name: name, Fmt: fm, Plain: buf.Bytes(), N: nrec, Want: c17digestRecs(recs), Large: large}
}

func c17compress(codec string, plain []byte) []byte {
	var buf bytes.Buffer
	var w io.WriteCloser
	var err error
	switch codec {
	case "plain":
		return append([]byte{}, plain...)
	case "gz":
		w, err = stdgzip.NewWriterLevel(&buf, stdgzip.DefaultCompression)
	case "bz2":
		w, err = dsbzip2.NewWriter(&buf, &dsbzip2.WriterConfig{Level: dsbzip2.DefaultCompression})
	case "xz":
		w, err = xz.NewWriter(&buf)
	case "zst":
		w, err = zstd.NewWriter(&buf, zstd.WithEncoderConcurrency(1))
	default:
		panic("c17: unknown codec " + codec)
	}
	if err != nil {
		panic(err)
	}
	if _, err = w.Write(plain); err != nil {
		panic(err)
	}
	if err = w.Close(); err != nil {
		panic(err)
	}
	return buf.Bytes()
}

// ------------------------------------------------------------------------------------------ case

type c17case struct {
	Base    string `json:"base"`
	Codec   string `json:"codec"`
	Driver  string `json:"driver"`            // file | reader | stdin
	Fault   string `json:"fault"`             // trunc | flip | rderr | none
	Pos     int    `json:"pos"`               // truncation length / bit index / bytes delivered before the error
	ErrKind string `json:"err_kind,omitempty"` // EIO | UEOF (rderr)
	Bin     bool   `json:"bin,omitempty"`     // also run the obiconvert binary on the faulted file
}

// c17cutName names the cut point of a truncation for the keys of the "accepted although truncated"
// verdict: the number of bytes removed when it is small, "body" otherwise.
func c17cutName(total, pos int) string {
	if n := total - pos; n <= 32 {
		return fmt.Sprintf("last-%d-bytes-removed", n)
	}
	return "body"
}

func (c c17case) String() string {
	s := fmt.Sprintf("%s.%s driver=%s fault=%s pos=%d", c.Base, c.Codec, c.Driver, c.Fault, c.Pos)
	if c.ErrKind != "" {
		s += " err=" + c.ErrKind
	}
	return s
}

var c17faultName = map[string]string{"trunc": "truncation", "flip": "bitflip", "rderr": "read-error", "none": "intact"}

// ------------------------------------------------------------------------------------------ child protocol

type c17req struct {
	Seq     int    `json:"seq"`
	Mode    string `json:"mode"` // file | reader | probe
	Path    string `json:"path"`
	K       int    `json:"k"` // reader/probe: bytes delivered before the error; <0: no fault
	ErrKind string `json:"err_kind"`
	Want    string `json:"want"`
	LongTO  bool   `json:"long_to,omitempty"` // confirmation run of a hang: 4x timeout
}

type c17resp struct {
	Seq     int    `json:"seq"`
	Outcome string `json:"outcome"` // ok | error | fatal | panic | hang | crash
	Where   string `json:"where,omitempty"`
	Msg     string `json:"msg,omitempty"`
	NRec    int    `json:"nrec"`
	Equal   bool   `json:"equal"`
	Dirty   bool   `json:"dirty"`
	NOK     int64  `json:"nok"`
	Class   string `json:"class,omitempty"`
}

var c17errEIO = errors.New("EIO")

// c17faultReader delivers data[:k] and then fails for ever with err (k<0: no fault, clean EOF).
type c17faultReader struct {
	data []byte
	k    int
	err  error
	off  int
}

func (f *c17faultReader) Read(p []byte) (int, error) {
	lim := len(f.data)
	if f.k >= 0 && f.k < lim {
		lim = f.k
	}
	if f.off >= lim {
		if f.k >= 0 && f.k < len(f.data) {
			return 0, f.err
		}
		return 0, io.EOF
	}
	n := copy(p, f.data[f.off:lim])
	f.off += n
	return n, nil
}

func c17newFaultReader(data []byte, k int, kind string) io.Reader {
	e := c17errEIO
	if kind == "UEOF" {
		e = io.ErrUnexpectedEOF
	}
	return &c17faultReader{data: data, k: k, err: e}
}

// c17readFromReader restates ReadSequencesFromFile (universal_read.go) from `file, err = Ropen(filename)`
// on, with Ropen(filename) replaced by Buf(rd) — which is what Ropen does with the opened file.
func c17readFromReader(rd io.Reader, options ...WithOption) (obiiter.IBioSequence, error) {
	options = append(options, OptionsSource("c17reader"))
	file, err := Buf(rd)
	if err == ErrNoContent {
		return ReadEmptyFile(options...)
	}
	if err != nil {
		log.Fatalf("open file error: %v", err)
		return obiiter.NilIBioSequence, err
	}
	mime, reader, err := OBIMimeTypeGuesser(file)
	if err != nil {
		return obiiter.NilIBioSequence, err
	}
	reader = bufio.NewReader(reader)
	switch mime.String() {
	case "text/fastq":
		return ReadFastq(reader, options...)
	case "text/fasta":
		return ReadFasta(reader, options...)
	case "text/ecopcr2":
		return ReadEcoPCR(reader, options...)
	case "text/embl":
		return ReadEMBL(reader, options...)
	case "text/genbank":
		return ReadGenbank(reader, options...)
	case "text/csv":
		return ReadCSV(reader, options...)
	default:
		log.Fatalf("File has guessed format %s which is not yet implemented", mime.String())
	}
	return obiiter.NilIBioSequence, nil
}

// ---- exit interception (child)

type c17state struct {
	mu       sync.Mutex
	exited   bool
	code     int
	exitGID  int64
	fatalMsg string
	exitCh   chan struct{}
	done     chan struct{}
	caseGID  int64
	err      error
	panicMsg string
	drained  bool
	n        int
	digest   string
	first    string
}

var c17cur atomic.Pointer[c17state]

func c17gid() int64 {
	var b [64]byte
	n := runtime.Stack(b[:], false)
	f := bytes.Fields(b[:n])
	if len(f) < 2 {
		return -1
	}
	id, _ := strconv.ParseInt(string(f[1]), 10, 64)
	return id
}

type c17hook struct{}

func (c17hook) Levels() []log.Level { return []log.Level{log.FatalLevel, log.PanicLevel} }
func (c17hook) Fire(e *log.Entry) error {
	if st := c17cur.Load(); st != nil {
		st.mu.Lock()
		if st.fatalMsg == "" {
			st.fatalMsg = e.Message
		}
		st.mu.Unlock()
	}
	return nil
}

func c17exit(code int) {
	if st := c17cur.Load(); st != nil {
		st.mu.Lock()
		if !st.exited {
			st.exited = true
			st.code = code
			st.exitGID = c17gid()
			close(st.exitCh)
		}
		st.mu.Unlock()
	}
	runtime.Goexit()
}

var c17fileCache = map[string][]byte{}

func c17load(path string) []byte {
	cacheable := strings.HasPrefix(filepath.Base(path), "intact_") // the per-case file is rewritten for every case
	if d, ok := c17fileCache[path]; ok && cacheable {
		return d
	}
	d, err := os.ReadFile(path)
	if err != nil {
		panic(err)
	}
	if !cacheable {
		return d
	}
	if len(c17fileCache) > 8 {
		c17fileCache = map[string][]byte{}
	}
	c17fileCache[path] = d
	return d
}

const c17hangTimeout = 30 * time.Second

func c17exec(req c17req) c17resp {
	resp := c17resp{Seq: req.Seq}
	if req.Mode == "probe" {
		resp.NOK, resp.Class, resp.Msg = c17probe(req)
		resp.Outcome = "probe"
		return resp
	}
	var data []byte
	if req.Mode == "reader" {
		data = c17load(req.Path)
	}
	st := &c17state{exitCh: make(chan struct{}), done: make(chan struct{})}
	c17cur.Store(st)
	started := make(chan struct{})
	go func() {
		st.caseGID = c17gid()
		close(started)
		defer close(st.done)
		defer func() {
			if p := recover(); p != nil {
				st.mu.Lock()
				st.panicMsg = fmt.Sprint(p)
				st.mu.Unlock()
			}
		}()
		var it obiiter.IBioSequence
		var err error
		switch req.Mode {
		case "file":
			it, err = ReadSequencesFromFile(req.Path, OptionsParallelWorkers(2))
		case "fileimp":
			// format imposed by the user (--fasta / --fastq): the MIME sniffer is not on the path
			if strings.Contains(req.Path, ".fastq.") {
				it, err = ReadFastqFromFile(req.Path, OptionsParallelWorkers(2))
			} else {
				it, err = ReadFastaFromFile(req.Path, OptionsParallelWorkers(2))
			}
		case "reader":
			it, err = c17readFromReader(c17newFaultReader(data, req.K, req.ErrKind), OptionsParallelWorkers(2))
		default:
			panic("c17: bad mode " + req.Mode)
		}
		if err != nil {
			st.mu.Lock()
			st.err = err
			st.mu.Unlock()
			return
		}
		// batches may be delivered out of order (parallel header parsing); consumers order them by Order()
		type ordered struct {
			order int
			lines []string
		}
		var got []ordered
		n := 0
		for it.Next() {
			b := it.Get()
			o := ordered{order: b.Order()}
			for _, s := range b.Slice() {
				q := ""
				if s.HasQualities() {
					qq := s.Qualities()
					qb := make([]byte, len(qq))
					for i, v := range qq {
						qb[i] = byte(v) + 33
					}
					q = string(qb)
				}
				o.lines = append(o.lines, fmt.Sprintf("%s\x00%s\x00%s\n", s.Id(), string(s.Sequence()), q))
				n++
			}
			got = append(got, o)
		}
		sort.SliceStable(got, func(i, j int) bool { return got[i].order < got[j].order })
		h := sha1.New()
		for _, o := range got {
			for _, l := range o.lines {
				if st.first == "" {
					st.first = fmt.Sprintf("%q", l)
				}
				io.WriteString(h, l)
			}
		}
		st.mu.Lock()
		st.n, st.digest, st.drained = n, hex.EncodeToString(h.Sum(nil)), true
		st.mu.Unlock()
	}()
	<-started
	hung := false
	select {
	case <-st.done:
		// let a fatal that is being raised concurrently in a pipeline goroutine register
		for i := 0; i < 4; i++ {
			runtime.Gosched()
		}
	case <-st.exitCh:
	case <-time.After(func() time.Duration {
		if req.LongTO {
			return 4 * c17hangTimeout
		}
		return c17hangTimeout
	}()):
		hung = true
	}
	st.mu.Lock()
	defer st.mu.Unlock()
	switch {
	case st.exited:
		resp.Outcome = "fatal"
		resp.Msg = st.fatalMsg
		if st.exitGID == st.caseGID {
			resp.Where = "caller"
		} else {
			resp.Where = "pipeline"
			resp.Dirty = true
		}
	case hung:
		resp.Outcome, resp.Dirty = "hang", true
	case st.panicMsg != "":
		resp.Outcome, resp.Msg, resp.Dirty = "panic", st.panicMsg, true
	case st.err != nil:
		resp.Outcome, resp.Msg = "error", st.err.Error()
	case st.drained:
		resp.Outcome, resp.NRec, resp.Equal = "ok", st.n, st.digest == req.Want
		if !resp.Equal && len(st.first) < 400 {
			resp.Msg = "first record: " + st.first
		}
	default:
		resp.Outcome, resp.Msg, resp.Dirty = "panic", "case goroutine ended without a verdict", true
	}
	return resp
}

func c17errClass(err error) string {
	switch {
	case err == nil:
		return "no-decoder-error"
	case errors.Is(err, io.ErrUnexpectedEOF) || err.Error() == io.ErrUnexpectedEOF.Error():
		return "ErrUnexpectedEOF"
	case errors.Is(err, c17errEIO) || strings.HasSuffix(err.Error(), "EIO"):
		return "EIO"
	}
	return "other-decoder-error"
}

// c17probe labels a violation: how many decoded bytes does the stream opened by Buf deliver before which
// class of error. Used for the violation key only, never for the verdict.
func c17probe(req c17req) (nok int64, class string, msg string) {
	defer func() {
		if p := recover(); p != nil {
			class, msg = "probe-panic", fmt.Sprint(p)
		}
	}()
	data := c17load(req.Path)
	var rd io.Reader = bytes.NewReader(data)
	if req.K >= 0 {
		rd = c17newFaultReader(data, req.K, req.ErrKind)
	}
	b, err := Buf(rd)
	if err == ErrNoContent {
		// Buf could not read a first character of a non-empty file and calls it "no content": ask the
		// decompression library itself what its first read says
		var rd2 io.Reader = bytes.NewReader(data)
		if req.K >= 0 {
			rd2 = c17newFaultReader(data, req.K, req.ErrKind)
		}
		raw := c17rawFirstReadErr(rd2)
		if raw == nil || raw == io.EOF {
			return 0, "no-decoder-error", "the decompression library reports a clean end of stream before any decoded byte"
		}
		return 0, "first-read-error", "Buf: " + err.Error() + "; decompressor: " + raw.Error()
	}
	if err != nil {
		return 0, "open-error", err.Error()
	}
	// Read path only (the readers under test use Read; pgzip's WriteTo behaves differently)
	nok, err = io.Copy(io.Discard, struct{ io.Reader }{b})
	if err != nil {
		msg = err.Error()
	}
	return nok, c17errClass(err), msg
}

// c17rawFirstReadErr: error of the first read of the decompressor that Buf selects for this stream (labels only).
func c17rawFirstReadErr(rd io.Reader) error {
	br := bufio.NewReaderSize(rd, 65536)
	has := func(m ...byte) bool {
		p, err := br.Peek(len(m))
		return err == nil && bytes.Equal(p, m)
	}
	var dec io.Reader = br
	var err error
	switch {
	case has(0x1f, 0x8b):
		dec, err = pgzip.NewReader(br)
	case has(0x28, 0xb5, 0x2f, 0xfd):
		dec, err = zstd.NewReader(br)
	case has(0xfd, 0x37, 0x7a, 0x58, 0x5a, 0x00):
		dec, err = xz.NewReader(br)
	case has(0x42, 0x5a, 0x68):
		dec, err = dsbzip2.NewReader(br, &dsbzip2.ReaderConfig{})
	}
	if err != nil {
		return err
	}
	one := make([]byte, 1)
	for i := 0; i < 100; i++ {
		n, err := dec.Read(one)
		if n > 0 {
			return nil
		}
		if err != nil {
			return err
		}
	}
	return io.ErrNoProgress
}

func c17childMain() {
	log.SetOutput(io.Discard)
	log.AddHook(c17hook{})
	log.StandardLogger().ExitFunc = c17exit
	out := os.NewFile(3, "c17resp")
	if pf := os.Getenv("VERIF_C17_CPUPROFILE"); pf != "" {
		if f, err := os.Create(fmt.Sprintf("%s.%d", pf, os.Getpid())); err == nil {
			pprof.StartCPUProfile(f)
			defer pprof.StopCPUProfile()
		}
	}
	in := bufio.NewReaderSize(os.Stdin, 1<<16)
	for {
		line, err := in.ReadBytes('\n')
		if err != nil {
			return
		}
		var req c17req
		if err := json.Unmarshal(line, &req); err != nil {
			fmt.Fprintln(os.Stderr, "c17 child: bad request:", err)
			os.Exit(3)
		}
		resp := c17exec(req)
		b, _ := json.Marshal(resp)
		if _, err := out.Write(append(b, '\n')); err != nil {
			return
		}
	}
}

// ------------------------------------------------------------------------------------------ supervisor side

type c17tail struct {
	mu  sync.Mutex
	buf []byte
}

func (t *c17tail) Write(p []byte) (int, error) {
	t.mu.Lock()
	t.buf = append(t.buf, p...)
	if len(t.buf) > 8192 {
		t.buf = t.buf[len(t.buf)-8192:]
	}
	t.mu.Unlock()
	return len(p), nil
}

func (t *c17tail) String() string {
	t.mu.Lock()
	defer t.mu.Unlock()
	return string(t.buf)
}

type c17child struct {
	cmd    *exec.Cmd
	in     io.WriteCloser
	outf   *os.File
	lines  chan []byte
	stderr *c17tail
	served int
}

func c17spawn() (*c17child, error) {
	pr, pw, err := os.Pipe()
	if err != nil {
		return nil, err
	}
	cmd := exec.Command(os.Args[0], "-test.run", "^TestVerifC17$", "-test.count=1", "-test.timeout", "0")
	cmd.Env = append(os.Environ(), "VERIF_C17_CHILD=1", "GOMAXPROCS=4", "GOGC=1000")
	cmd.ExtraFiles = []*os.File{pw}
	tail := &c17tail{}
	cmd.Stderr = tail
	stdin, err := cmd.StdinPipe()
	if err != nil {
		return nil, err
	}
	if err := cmd.Start(); err != nil {
		return nil, err
	}
	pw.Close()
	c := &c17child{cmd: cmd, in: stdin, outf: pr, lines: make(chan []byte, 1), stderr: tail}
	go func() {
		rd := bufio.NewReaderSize(pr, 1<<16)
		for {
			l, err := rd.ReadBytes('\n')
			if err != nil {
				close(c.lines)
				return
			}
			c.lines <- l
		}
	}()
	return c, nil
}

func (c *c17child) kill() {
	c.in.Close() // end of requests: the child returns from its serving loop and exits
	done := make(chan struct{})
	go func() { c.cmd.Wait(); close(done) }()
	select {
	case <-done:
	case <-time.After(5 * time.Second):
		c.cmd.Process.Kill()
		<-done
	}
	c.outf.Close()
}

// call sends one request. crashed=true: the child died (or stopped answering) while serving it.
func (c *c17child) call(req c17req) (resp c17resp, crashed bool) {
	b, _ := json.Marshal(req)
	if _, err := c.in.Write(append(b, '\n')); err != nil {
		return c.crashInfo(req, "write to child failed: "+err.Error()), true
	}
	c.served++
	select {
	case l, ok := <-c.lines:
		if !ok {
			return c.crashInfo(req, ""), true
		}
		if err := json.Unmarshal(l, &resp); err != nil || resp.Seq != req.Seq {
			return c.crashInfo(req, "protocol error: "+string(l)), true
		}
		return resp, false
	case <-time.After(5*c17hangTimeout + 30*time.Second):
		c.cmd.Process.Kill()
		r := c17resp{Seq: req.Seq, Outcome: "hang", Msg: "child unresponsive", Dirty: true}
		return r, true
	}
}

func (c *c17child) crashInfo(req c17req, why string) c17resp {
	c.in.Close()
	err := c.cmd.Wait()
	msg := why
	if err != nil {
		msg += " child exit: " + err.Error()
	} else {
		msg += " child exit: status 0"
	}
	st := c.stderr.String()
	for _, l := range strings.Split(st, "\n") {
		if strings.HasPrefix(l, "panic:") || strings.HasPrefix(l, "fatal error:") || strings.Contains(l, "SIG") {
			msg += " | " + l
			break
		}
	}
	return c17resp{Seq: req.Seq, Outcome: "crash", Msg: strings.TrimSpace(msg), Dirty: true}
}

// ---- binary

func c17repoRoot() (string, error) {
	wd, err := os.Getwd()
	if err != nil {
		return "", err
	}
	root := filepath.Clean(filepath.Join(wd, "..", ".."))
	if _, err := os.Stat(filepath.Join(root, "go.mod")); err != nil {
		return "", fmt.Errorf("c17: %s is not the module root: %v", root, err)
	}
	return root, nil
}

// c17buildBinary builds obiconvert from the tree under test into dir, once for all shards.
func c17buildBinary(dir string) (string, error) {
	bin := filepath.Join(dir, "c17-obiconvert")
	failed := bin + ".failed"
	lock := bin + ".lock"
	if _, err := os.Stat(bin); err == nil {
		return bin, nil
	}
	f, err := os.OpenFile(lock, os.O_CREATE|os.O_EXCL|os.O_WRONLY, 0o644)
	if err == nil {
		f.Close()
		root, err := c17repoRoot()
		if err != nil {
			os.WriteFile(failed, []byte(err.Error()), 0o644)
			return "", err
		}
		tmp := fmt.Sprintf("%s.tmp%d", bin, os.Getpid())
		cmd := exec.Command("go", "build", "-o", tmp, "./cmd/obitools/obiconvert")
		cmd.Dir = root
		env := os.Environ()
		for _, kv := range []string{"GOFLAGS=-mod=mod", "GOPROXY=off", "GOSUMDB=off", "GOTOOLCHAIN=local", "GOWORK=off"} {
			if os.Getenv(strings.SplitN(kv, "=", 2)[0]) == "" {
				env = append(env, kv)
			}
		}
		cmd.Env = env
		out, err := cmd.CombinedOutput()
		if err != nil {
			msg := fmt.Sprintf("go build obiconvert failed: %v\n%s", err, out)
			os.WriteFile(failed, []byte(msg), 0o644)
			return "", errors.New(msg)
		}
		if err := os.Rename(tmp, bin); err != nil {
			os.WriteFile(failed, []byte(err.Error()), 0o644)
			return "", err
		}
		return bin, nil
	}
	for i := 0; i < 6000; i++ {
		if _, err := os.Stat(bin); err == nil {
			return bin, nil
		}
		if b, err := os.ReadFile(failed); err == nil {
			return "", fmt.Errorf("c17: binary build failed in another shard: %s", b)
		}
		time.Sleep(100 * time.Millisecond)
	}
	return "", errors.New("c17: timed out waiting for the obiconvert binary")
}

// c17parseOut reads obiconvert's FASTA / FASTQ output into (count, digest).
func c17parseOut(out []byte) (int, string) {
	lines := strings.Split(string(out), "\n")
	var recs []c17rec
	i := 0
	for i < len(lines) && lines[i] == "" {
		i++
	}
	if i >= len(lines) {
		return 0, c17digestRecs(nil)
	}
	idOf := func(h string) string {
		h = h[1:]
		if j := strings.IndexAny(h, " \t"); j >= 0 {
			h = h[:j]
		}
		return h
	}
	if lines[i][0] == '@' {
		for ; i+3 < len(lines); i += 4 {
			if lines[i] == "" || lines[i][0] != '@' {
				recs = append(recs, c17rec{id: "?malformed"})
				break
			}
			recs = append(recs, c17rec{id: idOf(lines[i]), seq: strings.ToLower(lines[i+1]), qual: lines[i+3]})
		}
	} else {
		var cur *c17rec
		for ; i < len(lines); i++ {
			l := lines[i]
			if l == "" {
				continue
			}
			if l[0] == '>' {
				recs = append(recs, c17rec{id: idOf(l)})
				cur = &recs[len(recs)-1]
			} else if cur != nil {
				cur.seq += strings.ToLower(l)
			} else {
				recs = append(recs, c17rec{id: "?malformed"})
			}
		}
	}
	return len(recs), c17digestRecs(recs)
}

type c17binres struct {
	exit  int // -1: killed / signal, -2 timeout
	nrec  int
	equal bool
	msg   string
}

func c17runBinary(bin, path string, stdin bool, want string) c17binres {
	res := c17runBinaryTO(bin, path, stdin, want, 90*time.Second)
	if res.exit == -2 {
		res = c17runBinaryTO(bin, path, stdin, want, 360*time.Second)
	}
	return res
}

func c17runBinaryTO(bin, path string, stdin bool, want string, to time.Duration) c17binres {
	ctx, cancel := context.WithTimeout(context.Background(), to)
	defer cancel()
	var cmd *exec.Cmd
	if stdin {
		cmd = exec.CommandContext(ctx, bin)
		f, err := os.Open(path)
		if err != nil {
			panic(err)
		}
		defer f.Close()
		cmd.Stdin = f
	} else {
		cmd = exec.CommandContext(ctx, bin, path)
	}
	var so bytes.Buffer
	tail := &c17tail{}
	cmd.Stdout = &so
	cmd.Stderr = tail
	err := cmd.Run()
	res := c17binres{}
	if ctx.Err() != nil {
		res.exit = -2
		res.msg = "timeout"
		return res
	}
	if err != nil {
		var ee *exec.ExitError
		if errors.As(err, &ee) {
			res.exit = ee.ExitCode()
		} else {
			panic(err)
		}
	}
	lines := strings.Split(strings.TrimSpace(tail.String()), "\n")
	for j := len(lines) - 1; j >= 0; j-- {
		if strings.Contains(lines[j], "level=fatal") || strings.Contains(lines[j], "level=error") || strings.HasPrefix(lines[j], "panic:") {
			res.msg = lines[j]
			break
		}
	}
	if res.exit == 0 {
		n, d := c17parseOut(so.Bytes())
		res.nrec, res.equal = n, d == want
	}
	return res
}

// c17gzClass labels a faulted gzip file with an independent decoder (compress/gzip), for keys of the stdin
// driver only.
func c17refClass(codec string, data []byte) string {
	c, _ := c17refDecode(codec, data)
	return c
}

// c17refDecode: class of the faulted image and number of bytes decodable before the fault, by an independent
// decoder (compress/gzip, compress/bzip2). Labels only.
func c17refDecode(codec string, data []byte) (string, int64) {
	var rd io.Reader
	switch codec {
	case "gz":
		z, err := stdgzip.NewReader(bytes.NewReader(data))
		if err != nil {
			if errors.Is(err, io.ErrUnexpectedEOF) || err == io.EOF {
				return "truncated-header", 0
			}
			return "invalid-header", 0
		}
		z.Multistream(true)
		rd = z
	case "bz2":
		rd = stdbzip2.NewReader(bytes.NewReader(data))
	default:
		return "unclassified", 0
	}
	n, err := io.Copy(io.Discard, rd)
	switch {
	case err == nil:
		return "reference-decoder-accepts", n
	case errors.Is(err, io.ErrUnexpectedEOF):
		return "truncated-stream", n
	case errors.Is(err, stdgzip.ErrChecksum):
		return "checksum-mismatch", n
	case errors.Is(err, stdgzip.ErrHeader):
		return "invalid-header", n
	}
	return "corrupt-stream", n
}

func c17mix(k int) uint32 {
	x := uint32(k)*2654435761 + 0x9e3779b9
	x ^= x >> 15
	x *= 2246822519
	x ^= x >> 13
	return x
}

// c17stdinClass labels a faulted gzip image for the keys of the stdin driver (independent decoder).
func c17stdinClass(codec string, data []byte) string {
	if len(data) < 2 || data[0] != 0x1f || data[1] != 0x8b {
		return "not-recognised-as-gzip"
	}
	switch c, n := c17refDecode(codec, data); c {
	case "truncated-header":
		return "truncated"
	case "truncated-stream":
		// zlib's gzread cannot report a truncation when the input runs out exactly as its 16 KiB output
		// buffer fills (what remains decodable is then held inside inflate: at most one match, 258 bytes):
		// gzerror() stays Z_OK. Kept apart so that this quirk of the library does not share a key with
		// the reader ignoring gzerror().
		if n >= 16384 && n%16384 <= 258 {
			return "truncated-at-zlib-output-buffer-boundary"
		}
		return "truncated"
	}
	return "corrupt"
}

// ------------------------------------------------------------------------------------------ test

type c17worker struct {
	id    int
	child *c17child
	seq   int
}

type c17item struct {
	idx int
	c   c17case
}

func TestVerifC17(t *testing.T) {
	if os.Getenv("VERIF_C17_CHILD") == "1" {
		c17childMain()
		return
	}
	log.SetOutput(io.Discard)
	r := verifkit.New("C17")
	defer r.Write()

	// work directory
	work := os.Getenv("VERIF_WORKDIR")
	var tmpRoot string
	if work == "" {
		d, err := os.MkdirTemp("", "c17-")
		if err != nil {
			t.Fatal(err)
		}
		work, tmpRoot = d, d
	}
	shardDir := filepath.Join(work, fmt.Sprintf("c17-shard%d", r.Shard))
	if err := os.MkdirAll(shardDir, 0o755); err != nil {
		t.Fatal(err)
	}
	defer func() {
		os.RemoveAll(shardDir)
		if tmpRoot != "" {
			os.RemoveAll(tmpRoot)
		}
	}()

	bin, err := c17buildBinary(work)
	if err != nil {
		t.Fatal(err)
	}

	thorough := verifkit.Thorough()
	binRate := 16
	if thorough {
		binRate = 4
	}
	nworkers := 5
	if s := os.Getenv("VERIF_C17_WORKERS"); s != "" {
		if n, err := strconv.Atoi(s); err == nil && n > 0 {
			nworkers = n
		}
	}
	codecs := []string{"gz", "bz2", "xz", "zst"}
	baseNames := []string{"fa300", "fq2k"}
	if thorough {
		baseNames = []string{"fa300", "fa1m2", "fq2k", "fq300"}
	}
	if bs := os.Getenv("VERIF_C17_BASES"); bs != "" { // debugging knob: restrict the base files
		baseNames = strings.Split(bs, ",")
		r.Cap("base files restricted by VERIF_C17_BASES=" + bs)
	}
	r.Bound("codecs", codecs)
	r.Bound("base_files", baseNames)
	r.Bound("binary_subset", fmt.Sprintf("1 in %d of the file-driver cases (hash of the case index); stdin driver: all", binRate))
	r.Bound("large_file_positions", "fa1m2 (sampled): truncation at every length in the first and last 2 KiB of the compressed image and every 4 KiB in between; read errors in the first and last 256 B and every 4 KiB; no bit flips")

	// ---- failure of the harness itself (never a verdict)
	var failMu sync.Mutex
	failMsg := ""
	fail := func(format string, a ...any) {
		failMu.Lock()
		if failMsg == "" {
			failMsg = fmt.Sprintf(format, a...)
		}
		failMu.Unlock()
	}
	failed := func() bool {
		failMu.Lock()
		defer failMu.Unlock()
		return failMsg != ""
	}

	// ---- lazily built bases / compressed images / on-disk intact copies
	var mu sync.Mutex
	bases := map[string]*c17base{}
	images := map[string][]byte{}
	intactPath := map[string]string{}
	getBase := func(n string) *c17base {
		mu.Lock()
		defer mu.Unlock()
		if b, ok := bases[n]; ok {
			return b
		}
		b := c17makeBase(n)
		bases[n] = b
		return b
	}
	getImage := func(bn, codec string) []byte {
		b := getBase(bn)
		mu.Lock()
		defer mu.Unlock()
		k := bn + "." + codec
		if d, ok := images[k]; ok {
			return d
		}
		d := c17compress(codec, b.Plain)
		images[k] = d
		return d
	}
	getIntact := func(bn, codec string) string {
		img := getImage(bn, codec)
		mu.Lock()
		defer mu.Unlock()
		k := bn + "." + codec
		if p, ok := intactPath[k]; ok {
			return p
		}
		p := filepath.Join(shardDir, "intact_"+bn+"."+codec)
		if err := os.WriteFile(p, img, 0o644); err != nil {
			fail("%v", err)
		}
		intactPath[k] = p
		if kd := os.Getenv("VERIF_C17_KEEP"); kd != "" {
			os.WriteFile(filepath.Join(kd, "intact_"+bn+"."+codec), img, 0o644)
		}
		return p
	}

	// ---- child management (one child per worker)
	call := func(w *c17worker, req c17req) c17resp {
		if w.child != nil && w.child.served >= 300 {
			w.child.kill()
			w.child = nil
			r.Count("child_recycled", 1)
		}
		if w.child == nil {
			c, err := c17spawn()
			if err != nil {
				fail("spawn: %v", err)
				return c17resp{Outcome: "harness-error"}
			}
			w.child = c
			r.Count("child_spawned", 1)
		}
		w.seq++
		req.Seq = w.seq
		resp, crashed := w.child.call(req)
		if crashed || resp.Dirty {
			if !crashed {
				w.child.kill()
			}
			w.child = nil
		}
		return resp
	}

	positionsW := func(n int, large bool, lo, dense int) []int {
		var out []int
		for p := lo; p < n; p++ {
			if !large || p < dense || p >= n-dense || p%4096 == 0 {
				out = append(out, p)
			}
		}
		return out
	}
	positions := func(n int, large bool, lo int) []int { return positionsW(n, large, lo, 2048) }
	rdPositions := func(n int, large bool) []int { return positionsW(n, large, 0, 256) }

	normMsg := func(m string) string {
		if len(m) > 48 {
			m = m[:48]
		}
		return strings.Map(func(c rune) rune {
			if c >= '0' && c <= '9' {
				return '#'
			}
			return c
		}, m)
	}
	var nnotes atomic.Int64
	note := func(format string, a ...any) {
		if nnotes.Add(1) <= 4 {
			r.Note(format, a...)
		}
	}

	evalCase := func(w *c17worker, c c17case) {
		b := getBase(c.Base)
		img := getImage(c.Base, c.Codec)
		fault := c17faultName[c.Fault]
		var faulted []byte
		switch c.Fault {
		case "trunc":
			faulted = img[:c.Pos]
		case "flip":
			faulted = append([]byte{}, img...)
			faulted[c.Pos/8] ^= 1 << uint(c.Pos%8)
		case "none", "rderr":
			faulted = img
		default:
			fail("unknown fault %q", c.Fault)
			return
		}
		casePath := filepath.Join(shardDir, fmt.Sprintf("c17case_w%d.%s.%s", w.id, b.Fmt, c.Codec))
		r.Eval(1)
		r.Count("cases_"+c.Driver+"_"+c.Fault, 1)
		if c.Fault != "none" {
			r.Count("faulted_cases_executed", 1)
		}

		switch c.Driver {
		case "file", "fileimp", "reader":
			var req c17req
			if c.Driver == "file" || c.Driver == "fileimp" {
				if err := os.WriteFile(casePath, faulted, 0o644); err != nil {
					fail("%v", err)
					return
				}
				req = c17req{Mode: c.Driver, Path: casePath, K: -1, Want: b.Want}
			} else {
				k := c.Pos
				if c.Fault == "none" {
					k = -1
				}
				req = c17req{Mode: "reader", Path: getIntact(c.Base, c.Codec), K: k, ErrKind: c.ErrKind, Want: b.Want}
			}
			resp := call(w, req)
			if resp.Outcome == "hang" {
				// confirm on a fresh child with a 4x timeout (the machine may just be overloaded)
				r.Count("hang_confirmation_runs", 1)
				req.LongTO = true
				resp = call(w, req)
				req.LongTO = false
			}
			if resp.Outcome == "harness-error" {
				return
			}
			r.Trans(1)
			r.Count("outcome_"+resp.Outcome, 1)
			r.State(fmt.Sprintf("%s.%s|%s|%s|%s|%d|%v|%s", c.Base, c.Codec, c.Driver, c.Fault, resp.Outcome, resp.NRec, resp.Equal, normMsg(resp.Msg)))
			drv := "ReadSequencesFromFile"
			if c.Driver == "fileimp" {
				drv = "ReadFastxFromFile(imposed-format)"
			}
			if c.Driver == "reader" {
				drv = "Buf+OBIMimeTypeGuesser+ReadFastx(reader)"
			}
			inproc := "failure"
			label := "unlabelled"
			switch resp.Outcome {
			case "ok":
				if resp.Equal {
					inproc = "success-full"
					r.Count("accepted_with_complete_records", 1)
					if c.Fault == "none" {
						r.Count("control_ok", 1)
					}
					if c.Fault == "trunc" {
						// the statement: an input cut short AT ANY BYTE POSITION is reported, even when
						// every record could still be decoded (trailer / index / footer missing)
						r.Count("truncated_but_accepted_with_all_records", 1)
						r.Violate(fmt.Sprintf("%s/truncation/accepted-although-truncated:%s:%s", drv, c.Codec, c17cutName(len(img), c.Pos)),
							fmt.Sprintf("%s: the compressed file is cut at %d of %d bytes, reading succeeds silently (all %d records decoded, no error, no fatal)", c, c.Pos, len(img), resp.NRec), c)
					}
				} else {
					inproc = "success-partial"
					r.Count("silent_partial", 1)
					preq := req
					preq.Mode = "probe"
					p := call(w, preq)
					site := "mime-sniffer"
					switch {
					case p.Class == "first-read-error":
						site = "Buf"
					case p.Class == "open-error":
						site = "caller-of-Buf"
					case p.Class == "no-decoder-error":
						site = "decompression-library"
					case p.NOK >= 1024*1024:
						site = "chunk-reader"
					}
					label = p.Class + "@" + site
					r.Violate(fmt.Sprintf("%s/%s/silent-partial:%s", drv, fault, label),
						fmt.Sprintf("%s: reading succeeded (no error, no fatal) and delivered %d records, not the %d original ones (%s); the stream opened by Buf gives %d decoded bytes then %s (%s)",
							c, resp.NRec, b.N, resp.Msg, p.NOK, p.Class, p.Msg), c)
				}
			case "hang":
				r.Violate(fmt.Sprintf("%s/%s/hang", drv, fault), fmt.Sprintf("%s: neither a fatal exit nor the end of the record stream within %v (confirmed by a second run on a fresh process)", c, 4*c17hangTimeout), c)
			case "crash", "panic":
				r.Count("crash_or_panic_counted_as_reported", 1)
				note("crash/panic outcome (counts as a reported failure): %s: %s", c, resp.Msg)
			}
			if c.Fault == "none" && inproc != "success-full" {
				fail("control case %s failed: %+v", c, resp)
				return
			}
			if c.Driver == "file" && c.Bin {
				br := c17runBinary(bin, casePath, false, b.Want)
				r.Count("binary_runs", 1)
				r.Trans(1)
				bcl := "failure"
				switch {
				case br.exit == -2:
					r.Violate(fmt.Sprintf("obiconvert/%s/hang", fault), fmt.Sprintf("%s: obiconvert <file> did not end within 360 s (second attempt)", c), c)
				case br.exit == 0 && br.equal:
					bcl = "success-full"
					if c.Fault == "trunc" {
						r.Violate(fmt.Sprintf("obiconvert/truncation/accepted-although-truncated:%s:%s", c.Codec, c17cutName(len(img), c.Pos)),
							fmt.Sprintf("%s: the compressed file is cut at %d of %d bytes, `obiconvert <file>` exits 0 (all records written)", c, c.Pos, len(img)), c)
					}
				case br.exit == 0:
					bcl = "success-partial"
					r.Violate(fmt.Sprintf("obiconvert/%s/exit0-partial:%s", fault, label),
						fmt.Sprintf("%s: `obiconvert <file>` ends with exit status 0 after writing %d of %d records", c, br.nrec, b.N), c)
				}
				r.Count("binary_"+bcl, 1)
				if bcl == inproc {
					r.Count("binary_agrees_with_inprocess", 1)
				} else {
					r.Count("binary_disagrees_with_inprocess", 1)
					note("binary/in-process disagreement: %s: in-process %s (%s %s), binary %s (exit %d %s)", c, inproc, resp.Outcome, resp.Msg, bcl, br.exit, br.msg)
				}
				if c.Fault == "none" && bcl != "success-full" {
					fail("binary control case %s failed: %+v", c, br)
				}
			}
		case "stdin":
			if err := os.WriteFile(casePath, faulted, 0o644); err != nil {
				fail("%v", err)
				return
			}
			br := c17runBinary(bin, casePath, true, b.Want)
			r.Count("binary_runs", 1)
			r.Trans(1)
			r.State(fmt.Sprintf("%s.%s|stdin|%s|%d|%d|%v", c.Base, c.Codec, c.Fault, br.exit, br.nrec, br.equal))
			switch {
			case br.exit == -2:
				r.Count("outcome_hang", 1)
				r.Violate(fmt.Sprintf("obiconvert-stdin/%s/hang", fault), fmt.Sprintf("%s: `obiconvert < file` did not end within 360 s (second attempt)", c), c)
			case br.exit == 0 && br.equal:
				r.Count("accepted_with_complete_records", 1)
				r.Count("stdin_exit0_full", 1)
				if c.Fault == "none" {
					r.Count("control_ok", 1)
				}
				if c.Fault == "trunc" {
					r.Violate(fmt.Sprintf("obiconvert-stdin/truncation/accepted-although-truncated:%s:%s", c.Codec, c17cutName(len(img), c.Pos)),
						fmt.Sprintf("%s: the compressed stream is cut at %d of %d bytes, `obiconvert < file` exits 0 (all records written)", c, c.Pos, len(img)), c)
				}
			case br.exit == 0:
				r.Count("silent_partial", 1)
				r.Count("stdin_exit0_partial", 1)
				r.Violate(fmt.Sprintf("obiconvert-stdin/%s/exit0-partial:%s@kseq-gzread", fault, c17stdinClass(c.Codec, faulted)),
					fmt.Sprintf("%s: `obiconvert < file` ends with exit status 0 after writing %d of %d records (reference gzip decoder: %s)", c, br.nrec, b.N, c17refClass(c.Codec, faulted)), c)
			default:
				r.Count("stdin_exit_nonzero", 1)
			}
			if c.Fault == "none" && !(br.exit == 0 && br.equal) {
				fail("stdin control case %s failed: %+v", c, br)
			}
		default:
			fail("unknown driver %q", c.Driver)
		}
	}

	if rc := r.ReplayCase(); rc != nil {
		var c c17case
		if err := json.Unmarshal(rc, &c); err != nil {
			t.Fatal(err)
		}
		w := &c17worker{}
		evalCase(w, c)
		if w.child != nil {
			w.child.kill()
		}
		if failed() {
			t.Fatal(failMsg)
		}
		return
	}

	// ---- enumeration: a generator feeds the work items of this shard to nworkers workers
	items := make(chan c17item, 64)
	var stop atomic.Bool
	var wg sync.WaitGroup
	for i := 0; i < nworkers; i++ {
		wg.Add(1)
		go func(id int) {
			defer wg.Done()
			w := &c17worker{id: id}
			defer func() {
				if w.child != nil {
					w.child.kill()
				}
			}()
			for it := range items {
				if stop.Load() {
					continue
				}
				if failed() || r.Expired() {
					stop.Store(true)
					continue
				}
				evalCase(w, it.c)
			}
		}(i)
	}
	k := 0
	sizes := map[string]int{}
	visit := func(c c17case) bool {
		idx := k
		k++
		if !r.Mine(idx) {
			return true
		}
		if c.Driver == "file" && (c.Fault == "none" || int(c17mix(idx)%uint32(binRate)) == 0) {
			c.Bin = true
		}
		items <- c17item{idx, c}
		return !stop.Load()
	}
	func() {
		for _, bn := range baseNames {
			b := getBase(bn)
			for _, codec := range codecs {
				img := getImage(bn, codec)
				sizes[bn+"."+codec] = len(img)
				if !visit(c17case{Base: bn, Codec: codec, Driver: "file", Fault: "none"}) {
					return
				}
				if !visit(c17case{Base: bn, Codec: codec, Driver: "reader", Fault: "none"}) {
					return
				}
				for _, p := range positions(len(img), b.Large, 1) {
					if !visit(c17case{Base: bn, Codec: codec, Driver: "file", Fault: "trunc", Pos: p}) {
						return
					}
					if !visit(c17case{Base: bn, Codec: codec, Driver: "fileimp", Fault: "trunc", Pos: p}) {
						return
					}
				}
				if !visit(c17case{Base: bn, Codec: codec, Driver: "fileimp", Fault: "none"}) {
					return
				}
				if !b.Large {
					for bit := 0; bit < 8*len(img); bit++ {
						if !visit(c17case{Base: bn, Codec: codec, Driver: "file", Fault: "flip", Pos: bit}) {
							return
						}
						if bit%4 == 0 && !visit(c17case{Base: bn, Codec: codec, Driver: "fileimp", Fault: "flip", Pos: bit}) {
							return
						}
					}
				}
				// read error on the compressed stream (an io.ErrUnexpectedEOF there is the truncation above)
				for _, p := range rdPositions(len(img), b.Large) {
					if !visit(c17case{Base: bn, Codec: codec, Driver: "reader", Fault: "rderr", Pos: p, ErrKind: "EIO"}) {
						return
					}
				}
			}
			// read errors on the uncompressed stream
			sizes[bn+".plain"] = len(b.Plain)
			if !visit(c17case{Base: bn, Codec: "plain", Driver: "reader", Fault: "none"}) {
				return
			}
			for _, p := range rdPositions(len(b.Plain), b.Large) {
				for _, ek := range []string{"EIO", "UEOF"} {
					if !visit(c17case{Base: bn, Codec: "plain", Driver: "reader", Fault: "rderr", Pos: p, ErrKind: ek}) {
						return
					}
				}
			}
			// stdin of the command (C kseq / zlib gzread): gzip only
			img := getImage(bn, "gz")
			if !visit(c17case{Base: bn, Codec: "gz", Driver: "stdin", Fault: "none"}) {
				return
			}
			for _, p := range positions(len(img), b.Large, 1) {
				if !visit(c17case{Base: bn, Codec: "gz", Driver: "stdin", Fault: "trunc", Pos: p}) {
					return
				}
			}
			if !b.Large {
				for bit := 0; bit < 8*len(img); bit++ {
					if !visit(c17case{Base: bn, Codec: "gz", Driver: "stdin", Fault: "flip", Pos: bit}) {
						return
					}
				}
			}
		}
	}()
	close(items)
	wg.Wait()
	if failed() {
		t.Fatal("c17 harness failure: " + failMsg)
	}
	r.Bound("file_sizes_bytes", sizes)
	r.Bound("work_items_all_shards", k)
	r.Sample(c17case{Base: "fa300", Codec: "gz", Driver: "file", Fault: "trunc", Pos: sizes["fa300.gz"] / 2})
	r.Sample(c17case{Base: "fq2k", Codec: "zst", Driver: "file", Fault: "flip", Pos: 8*40 + 3})
	r.Sample(c17case{Base: "fq2k", Codec: "plain", Driver: "reader", Fault: "rderr", Pos: 1000, ErrKind: "EIO"})
	r.Sample(c17case{Base: "fa300", Codec: "gz", Driver: "stdin", Fault: "trunc", Pos: 100})
	r.RequireNonVacuous("faulted_cases_executed")
	r.RequireNonVacuous("binary_runs")
	r.RequireNonVacuous("control_ok")
}
