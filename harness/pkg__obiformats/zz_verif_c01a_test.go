//go:build verif

package obiformats

// C01-E2 / C03 end-to-end (engine A) — the chunk reader goroutine, 1..3 parser workers racing on the
// chunk channel, the re-sequencing of chunks parsed out of order and (end-to-end scenario) the
// formatting workers and the re-sequencing writer run under the controlled scheduler: every
// interleaving within the bounds must deliver exactly the records of the file, in file order.
//
// Scenarios "entry-<format>": the exported entry points themselves, ReadFasta / ReadFastq / ReadGenbank /
// ReadEMBL(reader, options) with 1..3 parser workers, with and without OptionsFullFileBatch — the
// goroutine set-up and tear-down of the entry point (worker registration, WaitAndClose, SortBatches,
// CompleteFileIterator) is part of what is explored. The production read buffers (1 MiB / 128 MiB) are
// not parameters: these scenarios see one chunk; the multi-chunk races are the hand-wired scenarios.

import (
	"bytes"
	"encoding/json"
	"fmt"
	"io"
	"os"
	"sort"
	"strings"
	"testing"

	"git.metabarcoding.org/obitools/obitools4/obitools4/pkg/obiiter"
	"git.metabarcoding.org/obitools/obitools4/obitools4/pkg/verifkit"
	"git.metabarcoding.org/obitools/obitools4/obitools4/pkg/vsched"
	log "github.com/sirupsen/logrus"
)

type c01aParam struct {
	Format    string   `json:"format"`                    // fasta, fastq, genbank, embl, fasta-to-fasta, entry-{fasta,fastq,genbank,embl}
	FullBatch bool     `json:"full_file_batch,omitempty"` // entry-*: OptionsFullFileBatch(true)
	NRec      int      `json:"nrec"`
	Buf       int      `json:"buffer_size"`
	Workers   int      `json:"workers"`
	Mode      string   `json:"mode"`
	Bound     int      `json:"bound"`
	Policy    int      `json:"policy"`
	Choices   []int    `json:"choices,omitempty"`
	Conflicts []string `json:"conflicts,omitempty"` // racy-access sites that were scheduling points (replay)
}

type c01aRec struct{ id, seq, qual, taxid string }

func c01aRecords(n int) []c01aRec {
	var out []c01aRec
	bases := "acgtacggtcatgcatgcaatcgatcgtagctagctagcatcgatcgtacgatcga"
	for i := 0; i < n; i++ {
		l := 5 + 7*i%23
		s := bases[i : i+l]
		q := strings.Repeat("I", l)
		if i%2 == 1 {
			q = "@" + q[1:] // a quality line starting with '@'
		}
		tax := ""
		if i%2 == 0 {
			tax = fmt.Sprint(9600 + i)
		}
		out = append(out, c01aRec{fmt.Sprintf("r%d", i), s, q, tax})
	}
	return out
}

func c01aFile(format string, recs []c01aRec) string {
	format = strings.TrimPrefix(format, "entry-")
	var sb strings.Builder
	for _, r := range recs {
		switch format {
		case "fasta", "fasta-to-fasta":
			fmt.Fprintf(&sb, ">%s\n%s\n", r.id, r.seq)
		case "fastq":
			fmt.Fprintf(&sb, "@%s\n%s\n+\n%s\n", r.id, r.seq, r.qual)
		case "genbank":
			fmt.Fprintf(&sb, "LOCUS       %s %d bp DNA\nDEFINITION  def of %s.\nFEATURES             Location/Qualifiers\n     source          1..%d\n", r.id, len(r.seq), r.id, len(r.seq))
			if r.taxid != "" {
				fmt.Fprintf(&sb, "                     /db_xref=\"taxon:%s\"\n", r.taxid)
			}
			fmt.Fprintf(&sb, "ORIGIN\n        1 %s\n//\n", r.seq)
		case "embl":
			fmt.Fprintf(&sb, "ID   %s; SV 1; linear; DNA; STD; UNC; %d BP.\nDE   def of %s.\n", r.id, len(r.seq), r.id)
			if r.taxid != "" {
				fmt.Fprintf(&sb, "FT   source          1..%d\nFT                   /db_xref=\"taxon:%s\"\n", len(r.seq), r.taxid)
			}
			var blocks []string
			for i := 0; i < len(r.seq); i += 10 {
				blocks = append(blocks, r.seq[i:min(i+10, len(r.seq))])
			}
			fmt.Fprintf(&sb, "SQ   Sequence %d BP;\n     %s %9d\n//\n", len(r.seq), strings.Join(blocks, " "), len(r.seq))
		}
	}
	return sb.String()
}

type c01aMem struct {
	buf    bytes.Buffer
	closed int
}

func (m *c01aMem) Write(p []byte) (int, error) { return m.buf.Write(p) }
func (m *c01aMem) Close() error                { m.closed++; return nil }

// c01aBody builds reader -> parser workers -> SortBatches (-> writer) and returns what was delivered.
// c01aLines prints the records of a batch the way c01aExpected does.
func c01aLines(sb *strings.Builder, b obiiter.BioSequenceBatch) {
	for _, s := range b.Slice() {
		fmt.Fprintf(sb, "%s %s", s.Id(), s.String())
		if s.HasQualities() {
			q := s.Qualities()
			qs := make([]byte, len(q))
			for i := range q {
				qs[i] = q[i] + 33
			}
			fmt.Fprintf(sb, " %s", qs)
		}
		if t, ok := s.GetAttribute("taxid"); ok {
			fmt.Fprintf(sb, " taxid=%v", t)
		}
		sb.WriteString("\n")
	}
}

// c01aEntry reads the file through the exported entry point and returns what was delivered.
func c01aEntry(p c01aParam, data string) string {
	opts := []WithOption{OptionFastSeqDoNotParseHeader(), OptionsParallelWorkers(p.Workers), OptionsSource("src"), OptionsReadQualities(true)}
	if p.FullBatch {
		opts = append(opts, OptionsFullFileBatch(true))
	}
	var it obiiter.IBioSequence
	var err error
	sorted := false // does the entry point promise batches in file order?
	switch p.Format {
	case "entry-fasta":
		it, err = ReadFasta(strings.NewReader(data), opts...)
		sorted = true
	case "entry-fastq":
		it, err = ReadFastq(strings.NewReader(data), opts...)
		sorted = true
	case "entry-genbank":
		it, err = ReadGenbank(strings.NewReader(data), opts...)
	case "entry-embl":
		it, err = ReadEMBL(strings.NewReader(data), opts...)
	}
	if err != nil {
		return "error: " + err.Error()
	}
	type bt struct {
		order int
		lines string
	}
	var bs []bt
	var sb strings.Builder
	for it.Next() {
		b := it.Get()
		if sorted && b.Order() != len(bs) {
			fmt.Fprintf(&sb, "!! batch %d delivered at rank %d\n", b.Order(), len(bs))
		}
		var l strings.Builder
		c01aLines(&l, b)
		bs = append(bs, bt{b.Order(), l.String()})
	}
	if p.FullBatch && len(bs) > 1 {
		fmt.Fprintf(&sb, "!! full file batch mode delivered %d batches\n", len(bs))
	}
	// the flat-file readers leave the ordering of their batches to the consumer (Order numbers)
	sort.SliceStable(bs, func(i, j int) bool { return bs[i].order < bs[j].order })
	for i, b := range bs {
		if i > 0 && bs[i-1].order == b.order {
			fmt.Fprintf(&sb, "!! two batches carry order %d\n", b.order)
		}
		sb.WriteString(b.lines)
	}
	return sb.String()
}

func c01aBody(p c01aParam, data string) string {
	if strings.HasPrefix(p.Format, "entry-") {
		return c01aEntry(p, data)
	}
	out := obiiter.MakeIBioSequence()
	var splitter LastSeqRecord
	switch p.Format {
	case "fasta", "fasta-to-fasta":
		splitter = EndOfLastFastaEntry
	case "fastq":
		splitter = EndOfLastFastqEntry
	default:
		splitter = EndOfLastFlatFileEntry
	}
	chk := ReadSeqFileChunk("src", strings.NewReader(data), make([]byte, p.Buf), splitter)
	for i := 0; i < p.Workers; i++ {
		out.Add(1)
		switch p.Format {
		case "fasta", "fasta-to-fasta":
			vsched.Go(func() { _ParseFastaFile(chk, out) })
		case "fastq":
			vsched.Go(func() { _ParseFastqFile(chk, out, 33, true) })
		case "genbank":
			vsched.Go(func() { _ParseGenbankFile(chk, out, false) })
		case "embl":
			vsched.Go(func() { _ParseEmblFile(chk, out, false) })
		}
	}
	vsched.Go(func() { out.WaitAndClose() })
	sorted := out.SortBatches()
	if p.Format == "fasta-to-fasta" {
		mf := &c01aMem{}
		w, err := WriteFasta(sorted, mf, OptionsParallelWorkers(2), OptionCloseFile())
		if err != nil {
			return "error: " + err.Error()
		}
		w.Consume()
		obiiter.WaitForLastPipe()
		return fmt.Sprintf("closed=%d\n%s", mf.closed, mf.buf.String())
	}
	var sb strings.Builder
	next := 0
	for sorted.Next() {
		b := sorted.Get()
		if b.Order() != next {
			fmt.Fprintf(&sb, "!! batch %d delivered at rank %d\n", b.Order(), next)
		}
		next++
		c01aLines(&sb, b)
	}
	return sb.String()
}

func c01aExpected(p c01aParam, recs []c01aRec) string {
	var sb strings.Builder
	if p.Format == "fasta-to-fasta" {
		sb.WriteString("closed=1\n")
		for _, r := range recs {
			fmt.Fprintf(&sb, ">%s \n%s\n", r.id, r.seq)
		}
		return sb.String()
	}
	base := strings.TrimPrefix(p.Format, "entry-")
	for _, r := range recs {
		fmt.Fprintf(&sb, "%s %s", r.id, r.seq)
		if base == "fastq" {
			fmt.Fprintf(&sb, " %s", r.qual)
		}
		if base == "genbank" || base == "embl" {
			t := r.taxid
			if t == "" {
				t = "1" // records without taxon cross-reference get taxid 1
			}
			fmt.Fprintf(&sb, " taxid=%s", t)
		}
		sb.WriteString("\n")
	}
	return sb.String()
}

// c01aSite: first components of the violation keys of a scenario.
func c01aSite(p c01aParam) string {
	if base, ok := strings.CutPrefix(p.Format, "entry-"); ok {
		site := "reader-entry/" + base
		if p.FullBatch {
			site += "+full-file-batch"
		}
		return site
	}
	return "reader-workers/" + p.Format
}

// c01aExplore = vsched.Explore, except that a failure of the engine's self check "the same schedule run twice gives the same
// trace and the same verdict" (a panic of the engine; it never fails on the pinned tree) is returned instead of ending
// the shard: a tree whose behaviour depends on what earlier executions left behind (package-level state: a counter, a
// cache, a sync.Once) is reported as a violation (control-run/not-deterministic) and the job is given up.
func c01aExplore(cfg vsched.Config, body func(x *vsched.Exec)) (st *vsched.Stats, diverged string) {
	defer func() {
		if e := recover(); e != nil {
			if s, ok := e.(string); ok && strings.HasPrefix(s, "vsched: replay of a") {
				st, diverged = &vsched.Stats{Outcomes: map[string]int64{}, TraceHashes: map[uint64]struct{}{}}, s
				return
			}
			panic(e)
		}
	}()
	return vsched.Explore(cfg, body), ""
}

func TestVerifC01A(t *testing.T) {
	log.SetOutput(io.Discard)
	log.StandardLogger().ExitFunc = vsched.Exit
	r := verifkit.New("C01")
	defer r.Write()

	check := func(p c01aParam, recs []c01aRec) func(x *vsched.Exec) string {
		want := c01aExpected(p, recs)
		return func(x *vsched.Exec) string {
			if x.Outcome() != "" {
				return x.Outcome() + "|" + x.Detail()
			}
			got, _ := x.Obs.(string)
			if p.Format == "fasta-to-fasta" {
				// the header formatter decides what follows the id; compare ids and sequences only
				norm := func(s string) string {
					var o []string
					for _, l := range strings.Split(s, "\n") {
						if strings.HasPrefix(l, ">") {
							l = strings.Fields(l)[0]
						}
						o = append(o, l)
					}
					return strings.Join(o, "\n")
				}
				if norm(got) != norm(want) {
					return "differs|written file differs from the input records\n--- got\n" + got + "--- expected\n" + want
				}
				return ""
			}
			if got != want {
				return "differs|records delivered differ from the records of the file\n--- got\n" + got + "--- expected\n" + want
			}
			return ""
		}
	}

	if rc := r.ReplayCase(); rc != nil {
		var p c01aParam
		if err := json.Unmarshal(rc, &p); err != nil {
			t.Fatal(err)
		}
		recs := c01aRecords(p.NRec)
		data := c01aFile(p.Format, recs)
		x := vsched.RunOncePolicy(p.Policy, p.Choices, 20000, vsched.ConflictSet(p.Conflicts), nil, func(x *vsched.Exec) { x.Obs = c01aBody(p, data) })
		msg := check(p, recs)(x)
		r.Eval(1)
		if msg != "" {
			r.Violate(c01aSite(p)+"/replay", msg, p)
		}
		fmt.Println("replay:", msg)
		return
	}

	var jobs []c01aParam
	formats := []string{"fasta", "fastq", "genbank", "embl", "fasta-to-fasta"}
	for _, f := range formats {
		for _, n := range []int{2, 4} {
			for _, w := range []int{1, 2, 3} {
				if w == 3 && !verifkit.Thorough() {
					continue
				}
				for _, bs := range []int{0, 1} {
					for pol := 0; pol <= 1; pol++ {
						bound := 1
						if verifkit.Thorough() {
							bound = 2
						}
						jobs = append(jobs, c01aParam{Format: f, NRec: n, Buf: bs, Workers: w, Mode: "delay", Bound: bound, Policy: pol})
					}
				}
				if n == 2 && w <= 2 && (verifkit.Thorough() || f == "fasta" || f == "fastq") {
					jobs = append(jobs, c01aParam{Format: f, NRec: n, Buf: 0, Workers: w, Mode: "full"})
				}
			}
		}
	}
	// the exported entry points: 2-record files, 1..3 workers, with / without full file batch
	for _, f := range []string{"entry-fasta", "entry-fastq", "entry-genbank", "entry-embl"} {
		flat := f == "entry-genbank" || f == "entry-embl"
		for _, w := range []int{1, 2, 3} {
			if w == 3 && !verifkit.Thorough() {
				continue
			}
			for _, fb := range []bool{false, true} {
				for pol := 0; pol <= 1; pol++ {
					if flat && pol == 1 && !verifkit.Thorough() {
						continue // quick: one default scheduler for the 128 MiB readers (each execution costs 30-60 ms)
					}
					bound := 1
					if verifkit.Thorough() && !(flat && w == 3) {
						bound = 2 // (ReadGenbank / ReadEMBL with 3 workers stay at 1: 128 MiB are allocated per execution)
					}
					jobs = append(jobs, c01aParam{Format: f, FullBatch: fb, NRec: 2, Buf: -1, Workers: w, Mode: "delay", Bound: bound, Policy: pol})
				}
				// all interleavings (thorough, one worker): the 1 MiB readers only (ReadGenbank / ReadEMBL allocate 128 MiB per
				// call); with two workers the full exploration of an entry point exceeds 2 x 10^5 executions
				if !flat && w == 1 && verifkit.Thorough() {
					jobs = append(jobs, c01aParam{Format: f, FullBatch: fb, NRec: 2, Buf: -1, Workers: w, Mode: "full"})
				}
			}
		}
	}
	if only := os.Getenv("C01A_ONLY"); only != "" { // development aid (never set by ./check): keep the scenarios whose name starts with it
		var keep []c01aParam
		for _, p := range jobs {
			if strings.HasPrefix(p.Format, only) {
				keep = append(keep, p)
			}
		}
		jobs = keep
	}
	r.Bound("jobs", len(jobs))
	r.Bound("exploration", "delay bounding (quick 1, thorough 2) from two default schedulers for every (format, records, buffer, workers); full (all interleavings, sleep sets + HB cache) for 2-record files; entry points Read{Fasta,Fastq,Genbank,EMBL}(reader): delay bounding for 1..3 workers x full file batch off/on, full for one worker (thorough, 1 MiB readers)")
	for k, p := range jobs {
		if !r.Mine(k) {
			continue
		}
		if r.Expired() {
			break
		}
		recs := c01aRecords(p.NRec)
		data := c01aFile(p.Format, recs)
		// buffer sizes: index 0 = the smallest buffer that holds the longest record (+2), 1 = about two records
		longest := 0
		for i := range recs {
			if l := len(c01aFile(p.Format, recs[i:i+1])); l > longest {
				longest = l
			}
		}
		switch p.Buf {
		case -1: // entry points: the production buffer, not a parameter
		case 0:
			p.Buf = longest + 2
		default:
			p.Buf = 2*longest + 3
		}
		if k < 3 {
			r.Sample(map[string]any{"param": p, "file": data})
		}
		cfg := vsched.Config{Name: p.Format, Preemptions: p.Bound, DelayBounding: p.Mode == "delay", Full: p.Mode == "full",
			Policy: p.Policy, Horizon: 20000, MaxExec: 150000, Expired: r.Expired, Check: check(p, recs)}
		st, div := c01aExplore(cfg, func(x *vsched.Exec) { x.Obs = c01aBody(p, data) })
		if div != "" {
			r.Violate(c01aSite(p)+"/control-run/not-deterministic", fmt.Sprintf("%s nrec=%d buffer=%d workers=%d fullfilebatch=%v mode=%s policy=%d: %s", p.Format, p.NRec, p.Buf, p.Workers, p.FullBatch, p.Mode, p.Policy, div), p)
			r.Cap(fmt.Sprintf("exploration of %s nrec=%d workers=%d mode=%s given up: the same schedule does not give the same execution twice", p.Format, p.NRec, p.Workers, p.Mode))
			continue
		}
		r.Eval(st.Executions)
		r.Trace(st.Executions)
		r.Trans(st.Points)
		r.Replayed(st.ReplaysChecked)
		r.Count("hb_states", st.States)
		r.Count("jobs_"+p.Mode, 1)
		r.Count("schedules_executed", st.Executions)
		for o, n := range st.Outcomes {
			r.Count("outcome_"+o, n)
		}
		for h := range st.TraceHashes {
			r.StateH(h)
		}
		if st.Capped {
			r.Cap(fmt.Sprintf("execution cap / deadline reached for %s nrec=%d workers=%d mode=%s", p.Format, p.NRec, p.Workers, p.Mode))
		}
		seen := map[string]bool{}
		for _, v := range st.Violations {
			parts := strings.SplitN(v.Desc, "|", 2)
			key := c01aSite(p) + "/" + parts[0]
			if (p.Format == "genbank" || p.Format == "embl") && parts[0] == "differs" && strings.Contains(parts[1], "taxid=") {
				key += ":taxid"
			}
			if seen[key] {
				continue
			}
			seen[key] = true
			q := p
			q.Choices = v.Choices
			q.Conflicts = v.Conflicts
			r.Violate(key, fmt.Sprintf("%s nrec=%d buffer=%d workers=%d fullfilebatch=%v mode=%s policy=%d schedule=%v: %s", p.Format, p.NRec, p.Buf, p.Workers, p.FullBatch, p.Mode, p.Policy, v.Choices, parts[1]), q)
		}
	}
	r.RequireNonVacuous("schedules_executed") // what the harness did; how the executions ended is the tree's answer
}
