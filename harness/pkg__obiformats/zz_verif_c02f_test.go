//go:build verif

package obiformats

// C02, file-level path (added by the audit). The record round trip of zz_verif_c02_test.go goes through
// the chunk-level API; the commands go through
//
//	WriteFasta / WriteFastq / WriteSequence (format chosen from the first record)  -> io.WriteCloser
//	ReadFasta / ReadFastq (stream) / ReadSequencesFromFile (format guessed from the content)
//	+ IParseFastSeqHeaderBatch with the header parser taken from the reader options (or MakeOptions' default)
//
// and these read what the chunk-level API gets as parameters from elsewhere: the FASTQ reader takes its
// quality shift from obioptions.InputQualityShift(), the writer from obioptions.OutputQualityShift(), the
// header format / parser from the options, the record boundaries from EndOfLastFasta/FastqEntry (every
// file of two records or more is cut in front of its last record, whatever its size).
//
// The pipelines run real goroutines: a log.Fatal may be raised in any of them. In pipeline mode the logrus
// ExitFunc records the message and ends the calling goroutine (runtime.Goexit); the driver waits for
// "pipeline drained" or "fatal recorded" (or declares a hang after 1200 separate 50 ms waits).

import (
	"bytes"
	"fmt"
	"math"
	"os"
	"path/filepath"
	"runtime"
	"sort"
	"strings"
	"sync"
	"sync/atomic"
	"time"

	"git.metabarcoding.org/obitools/obitools4/obitools4/pkg/obiiter"
	"git.metabarcoding.org/obitools/obitools4/obitools4/pkg/obiseq"
)

var (
	c02pipeMode     atomic.Bool
	c02fatalCh      = make(chan string, 64)
	c02fatalMu      sync.Mutex
	c02pipeProblems int    // fatal / hang outcomes of pipelines in this process (goroutines are left behind)
	c02tmpDir       string // scratch directory of this shard (reader "auto" needs a real file)
	c02tmpSeq       int
)

// c02pipeProblem is what c02pipe panics with in the driver's caller: recovered by c02try.
type c02pipeProblem struct{ msg string }

func c02setLastFatal(m string) {
	c02fatalMu.Lock()
	c02lastFatal = m
	c02fatalMu.Unlock()
}

func c02getLastFatal() string {
	c02fatalMu.Lock()
	defer c02fatalMu.Unlock()
	return c02lastFatal
}

// c02exitFunc is the logrus ExitFunc of the whole test.
func c02exitFunc(int) {
	if c02pipeMode.Load() {
		select {
		case c02fatalCh <- c02getLastFatal():
		default:
		}
		runtime.Goexit()
	}
	panic(c02exit{})
}

// c02pipe runs f (which builds, feeds and drains a real pipeline) in its own goroutine.
func c02pipe(f func()) {
	for len(c02fatalCh) > 0 {
		<-c02fatalCh
	}
	c02pipeMode.Store(true)
	defer c02pipeMode.Store(false)
	done := make(chan interface{}, 1)
	go func() {
		defer func() { done <- recover() }()
		f()
	}()
	finished := false
	for tick := 0; tick < 1200 && !finished; tick++ {
		select {
		case p := <-done:
			if p != nil {
				c02pipeProblems++
				panic(p)
			}
			finished = true
		case m := <-c02fatalCh:
			c02pipeProblems++
			panic(c02pipeProblem{"fatal: " + m})
		case <-time.After(50 * time.Millisecond):
		}
	}
	if !finished {
		c02pipeProblems++
		panic(c02pipeProblem{"hang: the pipeline neither ended nor died"})
	}
	select { // a fatal in a goroutine that did not prevent termination
	case m := <-c02fatalCh:
		c02pipeProblems++
		panic(c02pipeProblem{"fatal: " + m})
	default:
	}
}

// ---------------------------------------------------------------- in-memory sink

type c02sink struct {
	mu     sync.Mutex
	buf    bytes.Buffer
	closes int
}

func (s *c02sink) Write(p []byte) (int, error) {
	s.mu.Lock()
	defer s.mu.Unlock()
	s.buf.Write(p)
	return len(p), nil
}

func (s *c02sink) Close() error {
	s.mu.Lock()
	defer s.mu.Unlock()
	s.closes++
	return nil
}

// ---------------------------------------------------------------- writer side

func c02fileWrite(c c02case, seqs obiseq.BioSequenceSlice) []byte {
	sink := &c02sink{}
	c02pipe(func() {
		size := c.Batch
		if size <= 0 {
			size = len(seqs)
		}
		it := obiiter.IBatchOver("c02", seqs, size)
		opts := []WithOption{OptionsParallelWorkers(c.Workers), OptionCloseFile()}
		if c.HdrOpt != "default" {
			opts = append(opts, OptionsFastSeqHeaderFormat(FormatFastSeqJsonHeader))
		}
		var out obiiter.IBioSequence
		var err error
		switch c.Writer {
		case "fasta":
			out, err = WriteFasta(it, sink, opts...)
		case "fastq":
			out, err = WriteFastq(it, sink, opts...)
		case "auto":
			out, err = WriteSequence(it, sink, opts...)
		default:
			panic("c02: unknown writer " + c.Writer)
		}
		if err != nil {
			panic(fmt.Sprintf("writer error: %v", err))
		}
		// the returned iterator ends only when the file is completely written and closed
		for out.Next() {
		}
	})
	sink.mu.Lock()
	defer sink.mu.Unlock()
	if sink.closes != 1 {
		panic(fmt.Sprintf("writer closed the output %d times", sink.closes))
	}
	return append([]byte{}, sink.buf.Bytes()...)
}

// ---------------------------------------------------------------- reader side

func c02fileRead(c c02case, text []byte) obiseq.BioSequenceSlice {
	var got obiseq.BioSequenceSlice
	c02pipe(func() {
		opts := []WithOption{OptionsParallelWorkers(c.Workers)}
		if c.HdrOpt != "default" {
			if c.Parser == "json" {
				opts = append(opts, OptionsFastSeqHeaderParser(ParseFastSeqJsonHeader))
			} else {
				opts = append(opts, OptionsFastSeqHeaderParser(ParseGuessedFastSeqHeader))
			}
		}
		var it obiiter.IBioSequence
		var err error
		switch c.Reader {
		case "fasta":
			it, err = ReadFasta(bytes.NewReader(text), opts...)
		case "fastq":
			it, err = ReadFastq(bytes.NewReader(text), opts...)
		case "auto", "kseq":
			c02tmpSeq++
			fn := filepath.Join(c02tmpDir, fmt.Sprintf("f%d.seq", c02tmpSeq%8))
			if e := os.WriteFile(fn, text, 0o600); e != nil {
				panic(e)
			}
			if c.Reader == "kseq" {
				// the reader behind the standard input of every command (ReadFastSeqFromStdin), on a file
				it, err = ReadFastSeqFromFile(fn, opts...)
			} else {
				it, err = ReadSequencesFromFile(fn, opts...)
			}
		default:
			panic("c02: unknown reader " + c.Reader)
		}
		if err != nil {
			panic(fmt.Sprintf("reader error: %v", err))
		}
		// batches come out of the header-parsing workers in any order: their number gives the file order
		// (what every consumer that cares uses: SortBatches, the writers)
		type ob struct {
			order int
			sl    obiseq.BioSequenceSlice
		}
		var bs []ob
		for it.Next() {
			b := it.Get()
			bs = append(bs, ob{b.Order(), b.Slice()})
		}
		sort.SliceStable(bs, func(i, j int) bool { return bs[i].order < bs[j].order })
		for i, b := range bs {
			if i > 0 && b.order == bs[i-1].order {
				panic(fmt.Sprintf("two batches numbered %d", b.order))
			}
			got = append(got, b.sl...)
		}
	})
	return got
}

// c02autoFormat: the format WriteSequence must choose for these records.
func c02autoFormat(recs []c02rec) string {
	if len(recs) > 0 && len(recs[0].Qual) > 0 {
		return "fastq"
	}
	return "fasta"
}

// ================================================================ enumerations added by the audit

type c02ctx struct {
	eval     func(c c02case)
	mine     func() bool
	count    func(name string, n int64)
	bound    func(name string, v interface{})
	expired  func() bool
	capf     func(what string)
	thorough bool
	lap      func(what string)
}

var c02fmts = []string{"fasta", "fastq"}
var c02parsers = []string{"json", "guessed"}

// ---------------------------------------------------------------- E1.f numbers

// c02intSet: 0, +-(2^k-1), +-2^k, +-(2^k+1) for every k with |x| <= 2^53, and the decimal boundaries.
func c02intSet() []int64 {
	seen := map[int64]bool{}
	var out []int64
	add := func(x int64) {
		if x < 0 && -x > 1<<53 || x > 1<<53 {
			return
		}
		if !seen[x] {
			seen[x] = true
			out = append(out, x)
		}
	}
	add(0)
	for k := 0; k <= 53; k++ {
		p := int64(1) << uint(k)
		for _, x := range []int64{p - 1, p, p + 1} {
			add(x)
			add(-x)
		}
	}
	p := int64(1)
	for k := 0; k <= 15; k++ {
		for _, x := range []int64{p - 1, p, p + 1} {
			add(x)
			add(-x)
		}
		p *= 10
	}
	return out
}

// c02floatSet: integer-valued floats (the values of c02intSet held as float64), every power of two from
// 2^-1074 to 2^1023, the format switches of the JSON encoder (1e21, 1e-6), 2^63 / 2^64 neighbourhood,
// extreme and "17 digit" values, both signs.
func c02floatSet() []float64 {
	seen := map[uint64]bool{}
	var out []float64
	add := func(x float64) {
		for _, y := range []float64{x, -x} {
			b := mathFloat64bits(y)
			if !seen[b] {
				seen[b] = true
				out = append(out, y)
			}
		}
	}
	for _, i := range c02intSet() {
		add(float64(i))
	}
	p := 5e-324 // 2^-1074
	for k := -1074; k <= 1023; k++ {
		add(p)
		p *= 2
	}
	for _, x := range []float64{0.5, 1.5, 0.1, 0.1 + 0.2, 1.0 / 3.0, 3.141592653589793, 2.5, 123456789.125,
		1e15, 1e16, 1e17, 1e18, 1e19, 1e20, 1e21, 1e22, 1e23, 9.999999999999999e20, 1.0000000000000001e21,
		1e-4, 1e-5, 1e-6, 1e-7, 1e-8, 9.999999999999999e-7, 1.0000000000000002e-6,
		9223372036854775807, 9223372036854775808, 9223372036854777856, 18446744073709551615, 18446744073709551616, 1.8446744073709556e19,
		9007199254740992, 9007199254740994, 4503599627370495.5,
		1.7976931348623157e308, 2.2250738585072014e-308, 2.225073858507201e-308, 5e-324,
		1 - 1.0/(1<<53), 1 + 1.0/(1<<52), 4.35, 0.000001234, 1.234e-7, 100, 1e2, 1e100, 1.5e300} {
		add(x)
	}
	return out
}

func (x *c02ctx) sweepNumbers() {
	ints := c02intSet()
	floats := c02floatSet()
	x.bound("number_sweep_ints", len(ints))
	x.bound("number_sweep_floats", len(floats))
	ran := false
	run := func(ann []c02kv, counter string) {
		for _, f := range c02fmts {
			for _, p := range c02parsers {
				if !x.mine() {
					continue
				}
				ran = true
				x.count(counter, 1)
				x.eval(c02case{Kind: "rt", Fmt: f, Parser: p, Shift: 33,
					Recs: []c02rec{{Id: "a", Seq: "acgt", Qual: []int{1, 2, 3, 4}, Ann: ann}}})
			}
		}
	}
	for _, i := range ints {
		run([]c02kv{{"v", c02int(i)}}, "rt.numbers.int")
		run([]c02kv{{"v", c02val{T: "ints", IS: []int{1, int(i), -1}}}}, "rt.numbers.int")
		run([]c02kv{{"v", c02val{T: "mapint", MI: map[string]int{"k": int(i), "l": 1}}}}, "rt.numbers.int")
		run([]c02kv{{"v", c02val{T: "list", L: []c02val{c02int(i), c02str("s")}}},
			{"w", c02val{T: "nested", N: []c02kv{{"k", c02int(i)}}}}}, "rt.numbers.int")
	}
	for _, f := range floats {
		ran = false
		fv := c02val{T: "float", F: f}
		if f == 0 && mathSignbit(f) {
			fv = c02val{T: "float", NZ: true}
		}
		run([]c02kv{{"v", fv}}, "rt.numbers.float")
		run([]c02kv{{"v", c02val{T: "floats", FS: []float64{0.25, f, -1}}}}, "rt.numbers.float")
		run([]c02kv{{"v", c02val{T: "mapfloat", MF: map[string]float64{"k": f, "l": 0.25}}}}, "rt.numbers.float")
		run([]c02kv{{"v", c02val{T: "list", L: []c02val{fv, c02str("s")}}},
			{"w", c02val{T: "nested", N: []c02kv{{"k", fv}}}}}, "rt.numbers.float")
		if !ran {
			continue
		}
		if f == mathFloor(f) && (f >= 9.223372036854775807e18 || f <= -9.223372036854775807e18) {
			x.count("rt.numbers.integral-float-beyond-int64", 1)
		}
		if f == mathFloor(f) && f > -9e15 && f < 9e15 {
			x.count("rt.numbers.integral-float-within-2^53", 1)
		}
	}
}

// ---------------------------------------------------------------- E1.g value trees

// c02trees: every value tree of depth <= d whose inner nodes are a map of 1 or 2 entries (keys k, "}) or a
// list of 1 or 2 elements, over the given leaves.
func c02trees(leaves []c02val, d int) []c02val {
	if d == 0 {
		return leaves
	}
	sub := c02trees(leaves, d-1)
	out := append([]c02val{}, leaves...)
	for _, a := range sub {
		out = append(out, c02val{T: "nested", N: []c02kv{{"k", a}}})
		out = append(out, c02val{T: "list", L: []c02val{a}})
	}
	for _, a := range sub {
		for _, b := range sub {
			out = append(out, c02val{T: "nested", N: []c02kv{{"k", a}, {`"}`, b}}})
			out = append(out, c02val{T: "list", L: []c02val{a, b}})
		}
	}
	return out
}

func (x *c02ctx) sweepTrees() {
	leaves := []c02val{c02int(7), c02str(`}"{\`), {T: "null"}, {T: "float", F: 0.5}}
	if x.thorough {
		leaves = append(leaves, c02str(""), c02val{T: "bool", B: true})
	}
	depth := 2
	x.bound("value_tree_depth", depth)
	x.bound("value_tree_leaves", len(leaves))
	trees := c02trees(leaves, depth)
	x.bound("value_trees", len(trees))
	for _, tv := range trees {
		for _, f := range c02fmts {
			for _, p := range c02parsers {
				if !x.mine() {
					continue
				}
				x.count("rt.value-trees", 1)
				x.eval(c02case{Kind: "rt", Fmt: f, Parser: p, Shift: 33,
					Recs: []c02rec{{Id: "a", Seq: "acgt", Ann: []c02kv{{"t", tv}, {"z", c02int(1)}}}}})
			}
		}
	}
	// chains: every alternation of maps and lists down to depth maxChain around each leaf
	maxChain := 7
	if x.thorough {
		maxChain = 11
	}
	x.bound("value_chain_max_depth", maxChain)
	for d := 3; d <= maxChain; d++ {
		for bits := 0; bits < 1<<uint(d); bits++ {
			for _, leaf := range leaves {
				v := leaf
				for i := 0; i < d; i++ {
					if bits>>uint(i)&1 == 0 {
						v = c02val{T: "nested", N: []c02kv{{`{`, v}}}
					} else {
						v = c02val{T: "list", L: []c02val{v}}
					}
				}
				if !x.mine() {
					continue
				}
				x.count("rt.value-chains", 1)
				x.eval(c02case{Kind: "rt", Fmt: c02fmts[bits&1], Parser: c02parsers[(bits>>1)&1], Shift: 33,
					Recs: []c02rec{{Id: "a", Seq: "acgt", Ann: []c02kv{{"t", v}}}}})
			}
		}
	}
}

// ---------------------------------------------------------------- E1.i/j/k file-level

func (x *c02ctx) fileOK() bool {
	if c02pipeProblems > 20 {
		x.capf("file-level: more than 20 pipelines died or hung in this shard, the remaining file-level cases are skipped")
		return false
	}
	return true
}

// c02shiftCombos: (shift, other) pairs for FASTQ.
var c02shiftCombos = [][2]int{{33, 0}, {33, 64}, {64, 33}, {64, 0}}

func (x *c02ctx) fileCase(c c02case) {
	c.Kind, c.Level = "rt", "file"
	if c.Writer == "auto" {
		c.Fmt = c02autoFormat(c.Recs)
	} else {
		c.Fmt = c.Writer
	}
	if c.Reader == "" {
		c.Reader = c.Fmt
	}
	x.count("rt.file-level", 1)
	if c.Other != 0 && c.Fmt == "fastq" {
		x.count("rt.file-level.fastq-with-in/out-shift-options-different", 1)
	}
	if c.Writer == "auto" {
		x.count("rt.file-level.writer-chooses-format", 1)
	}
	if c.Reader == "auto" {
		x.count("rt.file-level.reader-guesses-format", 1)
	}
	if c.Reader == "kseq" {
		x.count("rt.file-level.reader-of-the-standard-input(kseq)", 1)
	}
	x.eval(c)
}

func (x *c02ctx) sweepFileStructural(asets map[string][]c02kv) {
	ids := []string{"a", "@b"}
	lens := []int{1, 61}
	if x.thorough {
		ids = []string{"a", "A:1/2", "x>y", "@b"}
		lens = []int{1, 59, 60, 61, 120, 121, 600}
	}
	anames := []string{"none", "all"}
	if x.thorough {
		anames = []string{"none", "all", "strs", "nested", "float", "mapstr"}
	}
	x.bound("file_level_ids", ids)
	x.bound("file_level_seq_lengths", lens)
	x.bound("file_level_annotation_sets", anames)
	x.bound("file_level_shift_option_pairs(shift,other)", c02shiftCombos)
	def := "a definition; with=things {and} \"quotes\""
	for _, id := range ids {
		for _, n := range lens {
			seq := c02seqOfLen(0, n)
			for _, qk := range []string{"none", "zero", "max", "ramp", "over"} {
				for _, an := range anames {
					for di, d := range []string{"", def} {
						rec := c02rec{Id: id, Seq: seq, Qual: c02quals(qk, n), Def: d, Ann: asets[an]}
						for _, writer := range []string{"fasta", "fastq", "auto"} {
							if writer == "fasta" && qk != "none" && qk != "ramp" {
								continue // FASTA drops the qualities: one representative
							}
							combos := c02shiftCombos
							if writer == "fasta" || writer == "auto" && qk == "none" {
								combos = c02shiftCombos[:1]
							}
							for _, sc := range combos {
								for _, reader := range []string{"", "auto", "kseq"} {
									for pi, p := range []string{"json", "guessed", "default"} {
										for _, w := range []int{1, 2} {
											if reader == "kseq" && !(n == 1 || n == 61) || reader == "kseq" && !(id == "a" || id == "@b") || reader == "kseq" && !(an == "none" || an == "all") {
												// the C reader never releases its handle (close_fast_sek is not called):
												// it gets the quick-tier sub-space in both tiers
												continue
											}
											if !x.thorough && (pi+di+w)%2 == 0 && reader != "" {
												// quick: reader "auto" with half of (parser, definition, workers)
												continue
											}
											if !x.mine() || !x.fileOK() {
												continue
											}
											c := c02case{Parser: p, Shift: sc[0], Other: sc[1], Writer: writer, Reader: reader,
												Workers: w, Recs: []c02rec{rec}}
											if p == "default" {
												c.Parser, c.HdrOpt = "guessed", "default"
											}
											x.fileCase(c)
										}
									}
								}
							}
						}
					}
				}
			}
		}
		if x.expired() {
			return
		}
	}
}

func (x *c02ctx) sweepFileSets(rpool []c02rec) {
	tuples := [][]int{}
	for i := range rpool {
		for j := range rpool {
			tuples = append(tuples, []int{i, j})
			if x.thorough {
				for l := range rpool {
					tuples = append(tuples, []int{i, j, l})
				}
			}
		}
	}
	for _, tp := range tuples {
		recs := make([]c02rec, len(tp))
		for i, k := range tp {
			recs[i] = rpool[k]
		}
		for _, writer := range []string{"fasta", "fastq", "auto"} {
			combos := [][2]int{{33, 0}, {64, 33}, {33, 64}}
			if writer == "fasta" || writer == "auto" && c02autoFormat(recs) == "fasta" {
				combos = combos[:1]
			}
			for _, sc := range combos {
				for _, reader := range []string{"", "auto", "kseq"} {
					for _, p := range c02parsers {
						for _, w := range []int{1, 2} {
							for _, b := range []int{1, 0} {
								if !x.mine() || !x.fileOK() {
									continue
								}
								x.count("rt.file-level.record-sets", 1)
								x.fileCase(c02case{Parser: p, Shift: sc[0], Other: sc[1], Writer: writer, Reader: reader,
									Workers: w, Batch: b, Recs: recs})
							}
						}
					}
				}
			}
		}
		if x.expired() {
			return
		}
	}
	if x.lap != nil {
		x.lap("file-level pairs/triples")
	}
	// long sets: the pool repeated (ids made distinct), several batch sizes and worker counts
	nlong := 230
	x.bound("file_level_long_set_records", nlong)
	long := make([]c02rec, nlong)
	for i := range long {
		long[i] = rpool[(i*5+i/6)%len(rpool)]
		long[i].Id = fmt.Sprintf("%s.%d", long[i].Id, i)
	}
	for _, writer := range []string{"fasta", "fastq", "auto"} {
		for _, b := range []int{1, 7, 100, 0} {
			for _, w := range []int{1, 2, 4} {
				for _, sc := range [][2]int{{33, 0}, {64, 33}} {
					if writer == "fasta" && sc[0] == 64 {
						continue
					}
					if !x.mine() || !x.fileOK() {
						continue
					}
					x.count("rt.file-level.long-sets", 1)
					x.fileCase(c02case{Parser: "guessed", Shift: sc[0], Other: sc[1], Writer: writer, Workers: w, Batch: b, Recs: long})
				}
			}
		}
	}
}

// sweepFileStrings: two-record files; the LAST record (the one EndOfLast*Entry must find the start of)
// carries the string at one of six positions.
func (x *c02ctx) sweepFileStrings(alpha []string, maxLen int, extras []string) {
	x.bound("file_level_string_max_len", maxLen)
	first := c02rec{Id: "r0", Seq: "acgt", Qual: []int{31, 31, 31, 31}, Ann: []c02kv{{"k", c02str("v")}}}
	one := func(s string) {
		blank := strings.ContainsAny(s, " \t\n\r")
		type variant struct {
			id, def string
			ann     []c02kv
		}
		vs := []variant{
			{"r1", "", []c02kv{{"k", c02str(s)}}},
			{"r1", "", []c02kv{{"m", c02val{T: "mapstr", MS: map[string]string{"x": s}}}, {"z", c02int(1)}}},
		}
		if s != "" {
			vs = append(vs, variant{"r1", s, []c02kv{{"z", c02int(1)}}})
			vs = append(vs, variant{"r1", "", []c02kv{{s, c02int(1)}}})
			vs = append(vs, variant{"r1", "", []c02kv{{"m", c02val{T: "mapint", MI: map[string]int{s: 1}}}}})
			if !blank {
				vs = append(vs, variant{s, "", []c02kv{{"z", c02int(1)}}})
				vs = append(vs, variant{s, "", nil})
			}
		}
		long := len([]rune(s)) > 3 // thorough only: value, definition and key positions, Go reader
		for vi, v := range vs {
			if long && (vi == 1 || vi >= 4) {
				continue
			}
			for _, writer := range c02fmts {
				readers := []string{"", "kseq"}
				if x.thorough {
					readers = []string{"", "kseq", "auto"}
				}
				if long {
					readers = []string{""}
				}
				for _, reader := range readers {
					if reader == "kseq" && v.id != "r1" && strings.ContainsAny(v.id, "\x00") {
						continue // C strings: an identifier holding a NUL byte is not given to the C reader
					}
					if !x.mine() || !x.fileOK() {
						continue
					}
					x.count("rt.file-level.string-sweep", 1)
					// qualities of the last record: bytes '@' '>' '!' '+' at shift 33 (what a record start looks like)
					last := c02rec{Id: v.id, Seq: "acgt", Qual: []int{31, 29, 0, 10}, Def: v.def, Ann: v.ann}
					x.fileCase(c02case{Parser: "guessed", Shift: 33, Writer: writer, Reader: reader, Workers: 1, Recs: []c02rec{first, last}})
				}
			}
		}
	}
	n := 0
	c02runeStrings(alpha, 0, maxLen, func(s string) {
		n++
		if n&0xff == 0 && x.expired() {
			return
		}
		one(s)
	})
	for _, s := range extras {
		one(s)
	}
}

// ---------------------------------------------------------------- E1.h identifiers

func (x *c02ctx) sweepIds(alpha []string, maxLen int, extras []string) {
	one := func(s string) {
		if s == "" || strings.ContainsAny(s, " \t\n\r") {
			return // identifiers without blanks
		}
		for _, f := range c02fmts {
			for _, p := range c02parsers {
				if !x.mine() {
					continue
				}
				x.count("rt.id-sweep", 1)
				x.eval(c02case{Kind: "rt", Fmt: f, Parser: p, Shift: 33,
					Recs: []c02rec{{Id: s, Seq: "acgt", Qual: []int{31, 29, 0, 10}, Ann: []c02kv{{"k", c02str("v")}}},
						{Id: s, Seq: "a", Def: "d"}}})
			}
		}
	}
	c02runeStrings(alpha, 1, maxLen, one)
	for _, s := range extras {
		one(s)
	}
}

// ---------------------------------------------------------------- E3 title lines over JSON tokens

var c02tokens = []string{`{`, `}`, `"a"`, `:`, `,`, `1`, ` `, `[`, `]`, `"}\"{"`, `null`, `-1.50e+2`, `"é\n\/"`, `x`, `"definition"`, `true`, `k=`, `;`}

func (x *c02ctx) sweepTokenTitles() {
	rawLen, preLen := 4, 3
	if x.thorough {
		rawLen, preLen = 5, 4
	}
	prefixes := []string{"", `{"a":`, `{"a":[`, `{"b":{"a":`, `x {"a":1,`, `{"a":1} `, `{"definition":"d","a":`}
	x.bound("title_tokens", c02tokens)
	x.bound("title_token_prefixes", prefixes)
	x.bound("title_token_max_len", rawLen)
	x.bound("title_token_prefixed_suffix_max_len", preLen)
	idx := make([]int, 0, 8)
	var rec func(pre string, left int)
	n := 0
	rec = func(pre string, left int) {
		n++
		if n&0xfff == 0 {
			x.expired()
		}
		var b strings.Builder
		b.WriteString(pre)
		for _, i := range idx {
			b.WriteString(c02tokens[i])
		}
		title := b.String()
		// the FASTA reader strips blanks in front of the title and an empty title is no title
		for _, p := range c02parsers {
			if x.mine() {
				x.count("title.token-cases", 1)
				x.eval(c02case{Kind: "title", Parser: p, Title: title})
			}
		}
		if left == 0 {
			return
		}
		for i := range c02tokens {
			idx = append(idx, i)
			rec(pre, left-1)
			idx = idx[:len(idx)-1]
		}
	}
	for _, pre := range prefixes {
		l := preLen
		if pre == "" {
			l = rawLen
		}
		rec(pre, l)
	}
}

func mathFloat64bits(f float64) uint64 { return math.Float64bits(f) }
func mathSignbit(f float64) bool       { return math.Signbit(f) }
func mathFloor(f float64) float64      { return math.Floor(f) }
