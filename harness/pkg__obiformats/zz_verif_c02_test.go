//go:build verif

package obiformats

// C02 — write -> read round trip of sequence records (FASTA / FASTQ with the JSON title line).
//
// Two bounded-exhaustive enumerations on the real code:
//
//  E1 "rt"    records (id x sequence x qualities x annotation map x definition) are formatted with
//             FormatFasta / FormatFastq (FormatFastaBatch / FormatFastqBatch for sets of several
//             records) and FormatFastSeqJsonHeader, re-read with FastaChunkParser / FastqChunkParser
//             and ParseFastSeqJsonHeader / ParseGuessedFastSeqHeader, compared with a reference model
//             of the record, then formatted again (must be byte identical).
//  E2 "title" every title line over a small alphabet is parsed; when the parser accepts it (no
//             fatal) the record is formatted, re-read and formatted again: annotations (definition
//             included) must be unchanged and the second text identical to the first.
//
// log.Fatal is turned into a panic by ExitFunc and recovered: a fatal is one recorded outcome.
//
// Added by the audit (enumerations in zz_verif_c02f_test.go, command level in
// harness/pkg__obitools__obiconvert/zz_verif_c02_test.go):
//
//   - c02case.Other: the OPPOSITE quality-shift option differs from the one an operation must use
//     (writing: output=Shift,input=Other; reading: input=Shift,output=Other), and the written quality
//     bytes are checked to be min(q,93)+output shift;
//   - Level "file": WriteFasta / WriteFastq / WriteSequence -> ReadFasta / ReadFastq /
//     ReadSequencesFromFile (format guessed) / ReadFastSeqFromFile (kseq, the reader behind the standard
//     input of every command) with the header format / parser taken from the options or their defaults,
//     1-4 workers, several batch partitions; keys of that path start with file: / file(kseq):
//   - value kinds []float64, []string, map[string]float64, map[string]bool, []interface{}, nil; number
//     sweep (every power of two, integer-valued floats, floats >= 2^63, encoder format switches), every
//     value tree of depth <= 2, map/list chains, identifiers over the string alphabet, keys with blanks;
//   - E3: title lines made of JSON tokens (other number spellings, null, lists, escapes, text around the
//     object, OBI-style key=value; for the guessed parser).

import (
	"bytes"
	"encoding/json"
	"fmt"
	"io"
	"os"
	"reflect"
	"runtime/debug"
	"sort"
	"strings"
	"testing"
	"time"

	"git.metabarcoding.org/obitools/obitools4/obitools4/pkg/obiiter"
	"git.metabarcoding.org/obitools/obitools4/obitools4/pkg/obioptions"
	"git.metabarcoding.org/obitools/obitools4/obitools4/pkg/obiseq"
	"git.metabarcoding.org/obitools/obitools4/obitools4/pkg/verifkit"
	log "github.com/sirupsen/logrus"
)

// ---------------------------------------------------------------- case description (replayable)

// c02val is one annotation value, typed as the toolkit would hold it in memory.
type c02val struct {
	T  string            `json:"t"` // str int float bool mapint mapstr ints nested | floats strs mapfloat mapbool list null
	S  string            `json:"s,omitempty"`
	I  int64             `json:"i,omitempty"`
	F  float64           `json:"f,omitempty"`
	NZ bool              `json:"negzero,omitempty"` // float -0.0 (not representable by omitempty F)
	B  bool              `json:"b,omitempty"`
	MI map[string]int    `json:"mi,omitempty"`
	MS map[string]string `json:"ms,omitempty"`
	IS []int             `json:"is,omitempty"`
	N  []c02kv           `json:"n,omitempty"`
	// kinds added by the audit (values the commands really hold: []float64, []string, map[string]float64,
	// map[string]bool, []interface{} of anything, nil)
	FS []float64          `json:"fs,omitempty"`
	SS []string           `json:"ss,omitempty"`
	MF map[string]float64 `json:"mf,omitempty"`
	MB map[string]bool    `json:"mb,omitempty"`
	L  []c02val           `json:"l,omitempty"`
}

type c02kv struct {
	K string `json:"k"`
	V c02val `json:"v"`
}

type c02rec struct {
	Id   string  `json:"id"`
	Seq  string  `json:"seq"`
	Qual []int   `json:"qual,omitempty"` // nil: record without qualities
	Def  string  `json:"def,omitempty"`
	Ann  []c02kv `json:"ann,omitempty"`
}

type c02case struct {
	Kind   string   `json:"kind"`   // "rt" | "title"
	Fmt    string   `json:"fmt"`    // "fasta" | "fastq"
	Parser string   `json:"parser"` // "json" | "guessed"
	Shift  int      `json:"shift"`  // quality shift of the written text = shift the reader is told to use
	Recs   []c02rec `json:"recs,omitempty"`
	Title  string   `json:"title,omitempty"`
	// Other: value of the OPPOSITE global quality-shift option while an operation runs (0: same as Shift).
	// Writing runs with output=Shift,input=Other; reading with input=Shift,output=Other: code that looks
	// at the wrong one of the two options is then visible.
	Other int `json:"other,omitempty"`
	// File-level path (Level == "file"): WriteFasta/WriteFastq/WriteSequence -> sink -> ReadFasta/ReadFastq/
	// ReadSequencesFromFile + the header parser chosen through the reader options.
	Level   string `json:"level,omitempty"`   // "" chunk-level API | "file"
	Writer  string `json:"writer,omitempty"`  // fasta | fastq | auto (WriteSequence: FASTQ iff the first record has qualities)
	Reader  string `json:"reader,omitempty"`  // fasta | fastq (ReadFasta / ReadFastq on a stream) | auto (ReadSequencesFromFile: format guessed)
	Workers int    `json:"workers,omitempty"` // parallel workers of writer and reader
	Batch   int    `json:"batch,omitempty"`   // records per batch handed to the writer (0: one batch)
	HdrOpt  string `json:"hdropt,omitempty"`  // "" header format/parser given explicitly through the options | "default": left to MakeOptions
}

// ---------------------------------------------------------------- fatal interception

type c02exit struct{}

var c02lastFatal string

type c02hook struct{}

func (c02hook) Levels() []log.Level { return []log.Level{log.FatalLevel, log.PanicLevel} }
func (c02hook) Fire(e *log.Entry) error {
	c02setLastFatal(e.Message)
	return nil
}

// c02try runs f; a log.Fatal (or a panic) inside f is reported, not propagated.
func c02try(f func()) (fatal bool, msg string) {
	defer func() {
		if p := recover(); p != nil {
			fatal = true
			if _, ok := p.(c02exit); ok {
				msg = "fatal: " + c02getLastFatal()
			} else if pp, ok := p.(c02pipeProblem); ok {
				msg = pp.msg // a fatal raised in (or a hang of) a goroutine of a file-level pipeline
			} else {
				msg = fmt.Sprintf("panic: %v", p)
			}
		}
	}()
	f()
	return false, ""
}

// c02fatalClass maps a fatal / panic message to a short stable class.
func c02fatalClass(msg string) string {
	switch {
	case strings.HasPrefix(msg, "panic:"):
		return "panic"
	case strings.HasPrefix(msg, "hang:"):
		return "hang"
	case strings.Contains(msg, "not starting with @") || strings.Contains(msg, "does not start with '>'") || strings.Contains(msg, "first character is not"):
		return "fatal-record-start"
	case strings.Contains(msg, "guessed format"):
		return "fatal-format-not-guessed"
	case strings.Contains(msg, "annotation parsing error"):
		return "fatal-annotation-parsing-error"
	case strings.Contains(msg, "quality lenght not equal"):
		return "fatal-quality-length"
	case strings.Contains(msg, "quality is empty"):
		return "fatal-quality-empty"
	case strings.Contains(msg, "invalid character"):
		return "fatal-invalid-sequence-character"
	case strings.Contains(msg, "does not have an identifier") || strings.Contains(msg, "identifier is empty"):
		return "fatal-no-identifier"
	case strings.Contains(msg, "sequence is empty"):
		return "fatal-empty-sequence"
	case strings.Contains(msg, "not followed by"):
		return "fatal-record-structure"
	case strings.Contains(msg, "cannot contain '>'"):
		return "fatal-gt-in-sequence"
	}
	return "fatal-other"
}

// ---------------------------------------------------------------- reference model of a record

func (v c02val) goValue() interface{} {
	switch v.T {
	case "str":
		return v.S
	case "int":
		return int(v.I)
	case "float":
		if v.NZ {
			z := 0.0
			return -z
		}
		return v.F
	case "bool":
		return v.B
	case "mapint":
		m := make(map[string]int, len(v.MI))
		for k, x := range v.MI {
			m[k] = x
		}
		return m
	case "mapstr":
		m := make(map[string]string, len(v.MS))
		for k, x := range v.MS {
			m[k] = x
		}
		return m
	case "ints":
		return append([]int{}, v.IS...)
	case "nested":
		m := make(map[string]interface{}, len(v.N))
		for _, kv := range v.N {
			m[kv.K] = kv.V.goValue()
		}
		return m
	case "floats":
		return append([]float64{}, v.FS...)
	case "strs":
		return append([]string{}, v.SS...)
	case "mapfloat":
		m := make(map[string]float64, len(v.MF))
		for k, x := range v.MF {
			m[k] = x
		}
		return m
	case "mapbool":
		m := make(map[string]bool, len(v.MB))
		for k, x := range v.MB {
			m[k] = x
		}
		return m
	case "list":
		l := make([]interface{}, len(v.L))
		for i, e := range v.L {
			l[i] = e.goValue()
		}
		return l
	case "null":
		return nil
	}
	panic("c02: unknown value type " + v.T)
}

// model: the JSON data model (string, float64, bool, map[string]any, []any), numbers by value.
func (v c02val) model() interface{} {
	switch v.T {
	case "str":
		return v.S
	case "int":
		return float64(v.I)
	case "float":
		if v.NZ {
			z := 0.0
			return -z
		}
		return v.F
	case "bool":
		return v.B
	case "mapint":
		m := map[string]interface{}{}
		for k, x := range v.MI {
			m[k] = float64(x)
		}
		return m
	case "mapstr":
		m := map[string]interface{}{}
		for k, x := range v.MS {
			m[k] = x
		}
		return m
	case "ints":
		l := make([]interface{}, len(v.IS))
		for i, x := range v.IS {
			l[i] = float64(x)
		}
		return l
	case "nested":
		m := map[string]interface{}{}
		for _, kv := range v.N {
			m[kv.K] = kv.V.model()
		}
		return m
	case "floats":
		l := make([]interface{}, len(v.FS))
		for i, x := range v.FS {
			l[i] = x
		}
		return l
	case "strs":
		l := make([]interface{}, len(v.SS))
		for i, x := range v.SS {
			l[i] = x
		}
		return l
	case "mapfloat":
		m := map[string]interface{}{}
		for k, x := range v.MF {
			m[k] = x
		}
		return m
	case "mapbool":
		m := map[string]interface{}{}
		for k, x := range v.MB {
			m[k] = x
		}
		return m
	case "list":
		l := make([]interface{}, len(v.L))
		for i, e := range v.L {
			l[i] = e.model()
		}
		return l
	case "null":
		return nil
	}
	panic("c02: unknown value type " + v.T)
}

func (v c02val) strings(out *[]string) {
	switch v.T {
	case "str":
		*out = append(*out, v.S)
	case "mapint":
		for k := range v.MI {
			*out = append(*out, k)
		}
	case "mapstr":
		for k, x := range v.MS {
			*out = append(*out, k, x)
		}
	case "nested":
		for _, kv := range v.N {
			*out = append(*out, kv.K)
			kv.V.strings(out)
		}
	case "strs":
		*out = append(*out, v.SS...)
	case "mapfloat":
		for k := range v.MF {
			*out = append(*out, k)
		}
	case "mapbool":
		for k := range v.MB {
			*out = append(*out, k)
		}
	case "list":
		for _, e := range v.L {
			e.strings(out)
		}
	}
}

// c02norm maps whatever the implementation holds to the JSON data model.
func c02norm(v interface{}) interface{} {
	switch x := v.(type) {
	case nil:
		return nil
	case string:
		return x
	case bool:
		return x
	case float64:
		return x
	case float32:
		return float64(x)
	case int:
		return float64(x)
	case int64:
		return float64(x)
	case map[string]interface{}:
		m := make(map[string]interface{}, len(x))
		for k, e := range x {
			m[k] = c02norm(e)
		}
		return m
	case []interface{}:
		l := make([]interface{}, len(x))
		for i, e := range x {
			l[i] = c02norm(e)
		}
		return l
	}
	rv := reflect.ValueOf(v)
	switch rv.Kind() {
	case reflect.Int, reflect.Int8, reflect.Int16, reflect.Int32, reflect.Int64:
		return float64(rv.Int())
	case reflect.Uint, reflect.Uint8, reflect.Uint16, reflect.Uint32, reflect.Uint64:
		return float64(rv.Uint())
	case reflect.Map:
		m := map[string]interface{}{}
		for _, k := range rv.MapKeys() {
			m[fmt.Sprint(k.Interface())] = c02norm(rv.MapIndex(k).Interface())
		}
		return m
	case reflect.Slice, reflect.Array:
		l := make([]interface{}, rv.Len())
		for i := range l {
			l[i] = c02norm(rv.Index(i).Interface())
		}
		return l
	}
	return fmt.Sprintf("<%T:%v>", v, v)
}

func c02equal(a, b interface{}) bool {
	switch x := a.(type) {
	case map[string]interface{}:
		y, ok := b.(map[string]interface{})
		if !ok || len(x) != len(y) {
			return false
		}
		for k, e := range x {
			f, ok := y[k]
			if !ok || !c02equal(e, f) {
				return false
			}
		}
		return true
	case []interface{}:
		y, ok := b.([]interface{})
		if !ok || len(x) != len(y) {
			return false
		}
		for i := range x {
			if !c02equal(x[i], y[i]) {
				return false
			}
		}
		return true
	case float64:
		y, ok := b.(float64)
		return ok && x == y
	case string:
		y, ok := b.(string)
		return ok && x == y
	case bool:
		y, ok := b.(bool)
		return ok && x == y
	case nil:
		return b == nil
	}
	return false
}

// c02show renders a model value deterministically (own renderer: the JSON encoders are under test).
func c02show(v interface{}) string {
	switch x := v.(type) {
	case map[string]interface{}:
		keys := make([]string, 0, len(x))
		for k := range x {
			keys = append(keys, k)
		}
		sort.Strings(keys)
		var b strings.Builder
		b.WriteByte('{')
		for i, k := range keys {
			if i > 0 {
				b.WriteByte(',')
			}
			fmt.Fprintf(&b, "%q:%s", k, c02show(x[k]))
		}
		b.WriteByte('}')
		return b.String()
	case []interface{}:
		var b strings.Builder
		b.WriteByte('[')
		for i, e := range x {
			if i > 0 {
				b.WriteByte(',')
			}
			b.WriteString(c02show(e))
		}
		b.WriteByte(']')
		return b.String()
	case string:
		return fmt.Sprintf("%q", x)
	case float64:
		return fmt.Sprintf("%v", x)
	}
	return fmt.Sprintf("%v", v)
}

type c02expect struct {
	id   string
	seq  string
	qual []byte // nil: unconstrained
	ann  map[string]interface{}
}

func c02build(rc c02rec) (*obiseq.BioSequence, c02expect) {
	s := obiseq.NewBioSequence(rc.Id, []byte(rc.Seq), rc.Def)
	exp := c02expect{id: rc.Id, seq: strings.ToLower(rc.Seq), ann: map[string]interface{}{}}
	if rc.Qual != nil {
		q := make([]byte, len(rc.Qual))
		exp.qual = make([]byte, len(rc.Qual))
		for i, x := range rc.Qual {
			q[i] = byte(x)
			if x > 93 {
				x = 93 // the writer clamps: the clamped value is what a reader can get back
			}
			exp.qual[i] = byte(x)
		}
		s.SetQualities(q)
	}
	for _, kv := range rc.Ann {
		s.SetAttribute(kv.K, kv.V.goValue())
		exp.ann[kv.K] = kv.V.model()
	}
	if rc.Def != "" {
		exp.ann["definition"] = rc.Def
	}
	return s, exp
}

func c02annOf(s *obiseq.BioSequence) map[string]interface{} {
	m := map[string]interface{}{}
	if s.HasAnnotation() {
		for k, v := range s.Annotations() {
			m[k] = c02norm(v)
		}
	}
	return m
}

// c02strclass: which escape-relevant characters occur in the strings of the case.
func c02strclass(ss []string) string {
	dq, bs := false, false
	for _, s := range ss {
		if strings.Contains(s, `"`) {
			dq = true
		}
		if strings.Contains(s, `\`) {
			bs = true
		}
	}
	switch {
	case dq: // with or without backslashes: the escaped quote is what the written text contains
		return ":strings-with-dquote"
	case bs:
		return ":strings-with-backslash"
	}
	return ""
}

// ---------------------------------------------------------------- pipeline pieces

func c02format(c c02case, seqs obiseq.BioSequenceSlice) []byte {
	c02setShifts(c.Shift, c.Other, true)
	if c.Level == "file" {
		return c02fileWrite(c, seqs)
	}
	if len(seqs) == 1 {
		if c.Fmt == "fasta" {
			return []byte(FormatFasta(seqs[0], FormatFastSeqJsonHeader))
		}
		return []byte(FormatFastq(seqs[0], FormatFastSeqJsonHeader))
	}
	batch := obiiter.MakeBioSequenceBatch("c02", 0, seqs)
	if c.Fmt == "fasta" {
		return append([]byte{}, FormatFastaBatch(batch, FormatFastSeqJsonHeader, false).Bytes()...)
	}
	return append([]byte{}, FormatFastqBatch(batch, FormatFastSeqJsonHeader, false).Bytes()...)
}

func c02parse(c c02case, text []byte) obiseq.BioSequenceSlice {
	c02setShifts(c.Shift, c.Other, false)
	if c.Level == "file" {
		return c02fileRead(c, text)
	}
	var seqs obiseq.BioSequenceSlice
	var err error
	if c.Fmt == "fasta" {
		seqs, err = FastaChunkParser()("c02", bytes.NewReader(text))
	} else {
		seqs, err = FastqChunkParser(byte(c.Shift), true)("c02", bytes.NewReader(text))
	}
	if err != nil {
		panic(fmt.Sprintf("chunk parser error: %v", err))
	}
	hp := ParseFastSeqJsonHeader
	if c.Parser == "guessed" {
		hp = ParseGuessedFastSeqHeader
	}
	for _, s := range seqs {
		hp(s)
	}
	return seqs
}

func c02setShift(shift int) {
	obioptions.SetOutputQualityShift(shift)
	obioptions.SetInputQualityShift(shift)
}

// c02setShifts: the option the running operation must use gets shift, the opposite one gets other.
func c02setShifts(shift, other int, writing bool) {
	if other == 0 {
		other = shift
	}
	if writing {
		obioptions.SetOutputQualityShift(shift)
		obioptions.SetInputQualityShift(other)
	} else {
		obioptions.SetInputQualityShift(shift)
		obioptions.SetOutputQualityShift(other)
	}
}

type c02result struct {
	key, desc string // violation (key == "" : none)
	state     string // canonical outcome
	accepted  bool   // title: parser accepted the line
	hasAnnot  bool   // title: JSON annotations were decoded
}

func c02clip(b []byte) string {
	if len(b) > 400 {
		return fmt.Sprintf("%q…(%d bytes)", b[:400], len(b))
	}
	return fmt.Sprintf("%q", b)
}

// ---------------------------------------------------------------- E1: record round trip

func c02checkRT(c c02case) (res c02result) {
	// building the records and reading the re-read ones back (obiseq constructors / accessors, a nil record in
	// the slice a parser returns ...) are calls into the tree under test as well: a panic or a log.Fatal there is
	// an outcome of the case, not the end of the shard
	if bad, msg := c02try(func() { res = c02checkRT0(c) }); bad {
		res = c02result{key: "records/" + c02fatalClass(msg) + "-outside-format-and-parse",
			desc: fmt.Sprintf("[%s/%s level=%q] building the records or inspecting the re-read ones dies: %s", c.Fmt, c.Parser, c.Level, msg)}
	}
	if res.key != "" && c.Level == "file" {
		// a defect of the file-level path never hides behind a chunk-level key, one of the reader behind the
		// standard input (kseq, C code) never behind a key of the Go readers
		pre := "file:"
		if c.Reader == "kseq" {
			pre = "file(kseq):"
			if c.Fmt == "fastq" && c02hasHighQualityByte(c) {
				// what makes it fail is known (kseq.h keeps quality bytes 33..127 only): ONE key for every
				// symptom (records lost, fatal, qualities of the next record ...), the symptom is in desc
				res.desc = "[" + res.key + "] " + res.desc
				res.key = pre + "quality-byte>127"
				return
			}
		}
		res.key = pre + res.key
	}
	return
}

func c02checkRT0(c c02case) (res c02result) {
	var strs []string
	seqs := make(obiseq.BioSequenceSlice, 0, len(c.Recs))
	exps := make([]c02expect, 0, len(c.Recs))
	for _, rc := range c.Recs {
		s, e := c02build(rc)
		seqs = append(seqs, s)
		exps = append(exps, e)
		strs = append(strs, rc.Id, rc.Def)
		for _, kv := range rc.Ann {
			strs = append(strs, kv.K)
			kv.V.strings(&strs)
		}
	}
	cls := c02strclass(strs)
	where := c.Fmt + "/" + c.Parser
	if c.Level == "file" {
		where = fmt.Sprintf("file:%s>%s/%s%s w=%d b=%d", c.Writer, c.Reader, c.Parser, c.HdrOpt, c.Workers, c.Batch)
	}
	if c.Other != 0 {
		where += fmt.Sprintf(" other-shift-option=%d", c.Other)
	}

	var t1 []byte
	if bad, msg := c02try(func() { t1 = c02format(c, seqs) }); bad {
		res.key = "write/" + c02fatalClass(msg) + cls
		res.desc = fmt.Sprintf("[%s] formatting the records dies: %s", where, msg)
		return
	}
	res.state = string(t1)

	if c.Writer == "auto" {
		want := map[string]byte{"fasta": '>', "fastq": '@'}[c02autoFormat(c.Recs)]
		if len(t1) == 0 || t1[0] != want || c.Fmt != c02autoFormat(c.Recs) {
			res.key = "write/auto-format"
			res.desc = fmt.Sprintf("[%s] WriteSequence must write %s (first record has qualities: %v); text: %s", where, c02autoFormat(c.Recs), len(c.Recs[0].Qual) > 0, c02clip(t1))
			return
		}
	}

	// the written quality bytes (FASTQ, single record): min(q,93) + the OUTPUT quality shift
	if c.Fmt == "fastq" && len(c.Recs) == 1 && c.Recs[0].Qual != nil {
		lines := bytes.Split(bytes.TrimRight(t1, "\n"), []byte("\n"))
		ql := lines[len(lines)-1]
		for i, q := range c.Recs[0].Qual {
			if q <= 93 && (i >= len(ql) || int(ql[i]) != q+c.Shift) {
				res.key = "write/quality-byte-not-q+output-shift"
				res.desc = fmt.Sprintf("[%s output shift=%d] quality %d at %d written as bytes %v, want byte %d", where, c.Shift, q, i, ql, q+c.Shift)
				return
			}
		}
		for i, q := range c.Recs[0].Qual {
			if q > 93 && (i >= len(ql) || int(ql[i]) != 93+c.Shift) {
				res.key = "write/quality>93-not-clamped"
				res.desc = fmt.Sprintf("[%s shift=%d] quality %d at %d written as byte %v, want %d", where, c.Shift, q, i, ql, 93+c.Shift)
				return
			}
		}
	}

	var got obiseq.BioSequenceSlice
	if bad, msg := c02try(func() { got = c02parse(c, t1) }); bad {
		res.key = "reread/" + c02fatalClass(msg) + cls
		res.desc = fmt.Sprintf("[%s] reading back the toolkit's own output dies (%s); written text: %s", where, msg, c02clip(t1))
		return
	}
	if len(got) != len(exps) {
		res.key = "reread/record-count" + cls
		res.desc = fmt.Sprintf("[%s] %d records written, %d read back; text: %s", where, len(exps), len(got), c02clip(t1))
		return
	}
	for i, g := range got {
		e := exps[i]
		pre := fmt.Sprintf("[%s shift=%d] record %d/%d", where, c.Shift, i+1, len(got))
		if g.Id() != e.id {
			res.key = "reread/id" + cls
			res.desc = fmt.Sprintf("%s: id %q read back as %q; text: %s", pre, e.id, g.Id(), c02clip(t1))
			return
		}
		if string(g.Sequence()) != e.seq {
			res.key = "reread/sequence"
			res.desc = fmt.Sprintf("%s: sequence (len %d) read back as (len %d) %q, want %q", pre, len(e.seq), g.Len(), g.Sequence(), e.seq)
			return
		}
		if c.Fmt == "fastq" && e.qual != nil {
			if !g.HasQualities() || !bytes.Equal(g.Qualities(), e.qual) {
				res.key = "reread/qualities" + c02qualDiff(g.Qualities(), e.qual)
				res.desc = fmt.Sprintf("%s: qualities %v read back as %v (has=%v)", pre, e.qual, []byte(g.Qualities()), g.HasQualities())
				return
			}
		}
		ga := c02annOf(g)
		if !c02equal(ga, e.ann) {
			class := "annotation-value"
			valueOnly := false
			gd, _ := ga["definition"].(string)
			switch {
			case len(ga) == 1 && len(c.Recs[i].Ann) > 0 && strings.HasPrefix(gd, "{"):
				class = "annotations-lost(json-not-recognised)"
			case len(ga) != len(e.ann):
				class = "annotation-keys"
			default:
				for k, ev := range e.ann {
					gv, ok := ga[k]
					if !ok {
						class = "annotation-keys"
						break
					}
					if !c02equal(gv, ev) {
						if k == "definition" {
							class = "definition"
						} else {
							vt := c02typeOf(c.Recs[i], k)
							class = "annotation-value(" + vt + ")"
							if vt == "int" || vt == "float" || vt == "bool" || vt == "ints" {
								valueOnly = true // no string involved in the differing value
							}
						}
					}
				}
			}
			res.key = "reread/" + class + cls
			if valueOnly {
				res.key = "reread/" + class
			}
			res.desc = fmt.Sprintf("%s: annotations %s read back as %s; text: %s", pre, c02show(e.ann), c02show(ga), c02clip(t1))
			return
		}
	}

	var t2 []byte
	if bad, msg := c02try(func() { t2 = c02format(c, got) }); bad {
		res.key = "rewrite/" + c02fatalClass(msg) + cls
		res.desc = fmt.Sprintf("[%s] formatting the re-read records dies: %s", where, msg)
		return
	}
	if !bytes.Equal(t1, t2) {
		res.key = "rewrite/not-byte-identical" + c02diffPart(c.Fmt, t1, t2, cls)
		res.desc = fmt.Sprintf("[%s shift=%d] first write %s, write after read %s", where, c.Shift, c02clip(t1), c02clip(t2))
	}
	return
}

// c02hasHighQualityByte: some quality of the case is written as a byte above 127 (shift 64, quality >= 64).
func c02hasHighQualityByte(c c02case) bool {
	for _, rc := range c.Recs {
		for _, q := range rc.Qual {
			if q > 93 {
				q = 93
			}
			if q+c.Shift > 127 {
				return true
			}
		}
	}
	return false
}

// c02qualDiff names how re-read qualities differ from the written ones.
func c02qualDiff(got, want []byte) string {
	if len(got) == 0 {
		return ":none-read"
	}
	if len(got) != len(want) {
		return ":length"
	}
	d := got[0] - want[0] // bytes: modulo 256, as the reader computes
	for i := range got {
		if got[i]-want[i] != d {
			return ":values"
		}
	}
	return fmt.Sprintf(":constant-offset(%+d)", int(int8(d))) // the reader did not subtract the shift the writer added
}

// c02diffPart tells which part of a record the first differing line of two written texts belongs to
// (the string class of the case only matters for the title line).
func c02diffPart(format string, t1, t2 []byte, cls string) string {
	l1 := bytes.Split(t1, []byte("\n"))
	l2 := bytes.Split(t2, []byte("\n"))
	for i, l := range l1 {
		if i < len(l2) && bytes.Equal(l, l2[i]) {
			continue
		}
		if format == "fastq" {
			return []string{"(title)" + cls, "(sequence)", "(separator)", "(qualities)"}[i%4]
		}
		if bytes.HasPrefix(l, []byte(">")) {
			return "(title)" + cls
		}
		return "(sequence)"
	}
	return "(length)"
}

func c02typeOf(rc c02rec, key string) string {
	for _, kv := range rc.Ann {
		if kv.K == key {
			return kv.V.T
		}
	}
	return "?"
}

// c02hasBigInt: an integer typed value with |x| > 2^53 somewhere in v.
func c02hasBigInt(v interface{}) bool {
	switch x := v.(type) {
	case int:
		return x > 1<<53 || x < -(1<<53)
	case int64:
		return x > 1<<53 || x < -(1<<53)
	case map[string]interface{}:
		for _, e := range x {
			if c02hasBigInt(e) {
				return true
			}
		}
	case map[string]int:
		for _, e := range x {
			if c02hasBigInt(e) {
				return true
			}
		}
	case []interface{}:
		for _, e := range x {
			if c02hasBigInt(e) {
				return true
			}
		}
	}
	return false
}

// ---------------------------------------------------------------- E2: accepted title lines

func c02checkTitle(c c02case) (res c02result) {
	if bad, msg := c02try(func() { res = c02checkTitle0(c) }); bad {
		res = c02result{key: "title:records/" + c02fatalClass(msg) + "-outside-format-and-parse",
			desc: fmt.Sprintf("title %q: inspecting the parsed record dies: %s", c.Title, msg)}
	}
	return
}

func c02checkTitle0(c c02case) (res c02result) {
	c02setShift(33)
	cls := c02strclass([]string{c.Title})
	c.Fmt = "fasta"
	c.Shift = 33
	text0 := []byte(">s " + c.Title + "\nacgt")
	var r1 obiseq.BioSequenceSlice
	if bad, msg := c02try(func() { r1 = c02parse(c, text0) }); bad {
		res.state = "rejected:" + c02fatalClass(msg)
		return // not accepted by the parser: outside the clause
	}
	if len(r1) != 1 {
		res.state = fmt.Sprintf("rejected:%d-records", len(r1))
		return
	}
	if r1[0].HasAnnotation() && c02hasBigInt(map[string]interface{}(r1[0].Annotations())) {
		// the OBI-style parser (guessed selection, title not starting with '{') turns every integral number
		// into an int: beyond 2^53 that is outside the quantifier (ints |x| <= 2^53), beyond 2^63 not a value
		res.state = "outside:int-beyond-2^53"
		return
	}
	res.accepted = true
	a1 := c02annOf(r1[0])
	res.state = c02show(a1)
	for k := range a1 {
		if k != "definition" {
			res.hasAnnot = true
		}
	}
	where := "title" // the key does not depend on the header parser selection

	var t2 []byte
	if bad, msg := c02try(func() { t2 = c02format(c, r1) }); bad {
		res.key = where + ":write/" + c02fatalClass(msg) + cls
		res.desc = fmt.Sprintf("title %q accepted (annotations %s) but formatting dies: %s", c.Title, res.state, msg)
		return
	}
	var r2 obiseq.BioSequenceSlice
	if bad, msg := c02try(func() { r2 = c02parse(c, t2) }); bad {
		res.key = where + ":reread/" + c02fatalClass(msg) + cls
		res.desc = fmt.Sprintf("title %q accepted (annotations %s), formatted as %s, re-parsing dies: %s", c.Title, res.state, c02clip(t2), msg)
		return
	}
	if len(r2) != 1 {
		res.key = where + ":reread/record-count" + cls
		res.desc = fmt.Sprintf("title %q formatted as %s gives %d records", c.Title, c02clip(t2), len(r2))
		return
	}
	a2 := c02annOf(r2[0])
	if !c02equal(a1, a2) {
		res.key = where + ":reread/annotations-changed" + cls
		res.desc = fmt.Sprintf("title %q parsed as %s, formatted as %s, re-parsed as %s", c.Title, res.state, c02clip(t2), c02show(a2))
		return
	}
	var t3 []byte
	if bad, msg := c02try(func() { t3 = c02format(c, r2) }); bad {
		res.key = where + ":rewrite/" + c02fatalClass(msg) + cls
		res.desc = fmt.Sprintf("title %q: second formatting dies: %s", c.Title, msg)
		return
	}
	if !bytes.Equal(t2, t3) {
		res.key = where + ":rewrite/not-byte-identical" + cls
		res.desc = fmt.Sprintf("title %q: first write %s, write after read %s", c.Title, c02clip(t2), c02clip(t3))
	}
	return
}

// ---------------------------------------------------------------- enumeration helpers

func c02str(s string) c02val { return c02val{T: "str", S: s} }
func c02int(i int64) c02val  { return c02val{T: "int", I: i} }

// c02runeStrings: every string of minLen..maxLen symbols over the rune alphabet.
func c02runeStrings(alpha []string, minLen, maxLen int, f func(s string)) {
	var rec func(prefix string, l int)
	rec = func(prefix string, l int) {
		if l == 0 {
			f(prefix)
			return
		}
		for _, a := range alpha {
			rec(prefix+a, l-1)
		}
	}
	for l := minLen; l <= maxLen; l++ {
		rec("", l)
	}
}

const c02iupac = "acgtryswkmbdhvn"

func c02seqOfLen(pattern int, n int) string {
	b := make([]byte, n)
	for i := range b {
		switch pattern {
		case 0: // cyclic IUPAC
			b[i] = c02iupac[i%len(c02iupac)]
		case 1: // upper case input, other phase
			b[i] = "ACGTRYSWKMBDHVN"[(i*7+3)%15]
		default: // homopolymer n (worst case for line based scanners: looks like nothing else)
			b[i] = 'n'
		}
	}
	return string(b)
}

func c02quals(kind string, n int) []int {
	if kind == "none" {
		return nil
	}
	q := make([]int, n)
	for i := range q {
		switch kind {
		case "zero":
			q[i] = 0
		case "max":
			q[i] = 93
		case "ramp":
			q[i] = i % 94
		case "over": // above the representable range: must be clamped to 93 by the writer
			q[i] = []int{94, 93, 200, 0, 255}[i%5]
		}
	}
	return q
}

func c02annotSets() map[string][]c02kv {
	p53 := int64(1) << 53
	return map[string][]c02kv{
		"none":  nil,
		"ints":  {{"i0", c02int(0)}, {"i1", c02int(1)}, {"im1", c02int(-1)}, {"ip53", c02int(p53)}, {"im53", c02int(-p53)}, {"count", c02int(2)}},
		"float": {{"f", c02val{T: "float", F: 0.5}}, {"big", c02val{T: "float", F: 1e21}}, {"nz", c02val{T: "float", NZ: true}}, {"small", c02val{T: "float", F: -1.25e-7}}},
		"bool":  {{"yes", c02val{T: "bool", B: true}}, {"no", c02val{T: "bool", B: false}}},
		"mapint": {{"merged_sample", c02val{T: "mapint", MI: map[string]int{"s1": 1, "s 2": 20, "": 3}}},
			{"emptymap", c02val{T: "mapint", MI: map[string]int{}}}},
		"mapstr": {{"obiclean_status", c02val{T: "mapstr", MS: map[string]string{"s1": "h", "s2": "", "é": "x y"}}}},
		"ints[]": {{"coord", c02val{T: "ints", IS: []int{1, -2, 0, 1 << 40}}}, {"empty", c02val{T: "ints", IS: []int{}}}},
		"nested": {{"n", c02val{T: "nested", N: []c02kv{
			{"m", c02val{T: "mapint", MI: map[string]int{"x": 1}}},
			{"l", c02val{T: "ints", IS: []int{3, 4}}},
			{"s", c02str("v")}, {"b", c02val{T: "bool", B: true}}, {"f", c02val{T: "float", F: 2.5}},
			{"d", c02val{T: "nested", N: []c02kv{{"deep", c02int(7)}}}},
		}}}},
		"strs": {{"empty", c02str("")}, {"sp", c02str(" lead and trail ")}, {"semi", c02str("a=1; b=2;")}, {"gt", c02str(">x @y")}},
		"all": {{"a", c02int(-3)}, {"b", c02val{T: "float", F: 0.5}}, {"c", c02val{T: "bool", B: true}}, {"d", c02str("x y")},
			{"e", c02val{T: "mapint", MI: map[string]int{"k": 1}}}, {"f", c02val{T: "mapstr", MS: map[string]string{"k": "v"}}},
			{"g", c02val{T: "ints", IS: []int{1, 2}}}, {"h", c02val{T: "nested", N: []c02kv{{"k", c02str("{}")}}}}},
	}
}

// ---------------------------------------------------------------- the test

func TestVerifC02(t *testing.T) {
	log.SetOutput(io.Discard)
	log.AddHook(c02hook{})
	log.StandardLogger().ExitFunc = c02exitFunc
	r := verifkit.New("C02")
	defer r.Write()
	defer c02setShift(33)
	var err error
	if c02tmpDir, err = os.MkdirTemp("", "c02-"); err != nil {
		t.Fatal(err)
	}
	defer os.RemoveAll(c02tmpDir)
	// every file-level reader allocates 1-4 MiB of buffers: with the default GC target (live heap x 2, a few
	// MiB here) that is one collection per case; a 1 GiB... no: a larger target only trades memory for time
	defer debug.SetGCPercent(debug.SetGCPercent(2000))

	eval := func(c c02case) {
		var res c02result
		if c.Kind == "title" {
			res = c02checkTitle(c)
			if res.accepted {
				r.Count("title.accepted", 1)
				if res.hasAnnot {
					r.Count("title.accepted-with-json-annotations", 1)
				}
			} else if strings.HasPrefix(res.state, "outside:") {
				r.Count("title.outside-the-quantifier(int-beyond-2^53)", 1)
			} else {
				r.Count("title.rejected-by-parser(fatal)", 1)
			}
			r.Count("title.cases", 1)
		} else {
			res = c02checkRT(c)
			r.Count("rt.cases", 1)
			r.Count("rt.records", int64(len(c.Recs)))
		}
		r.Eval(1)
		r.Trans(3) // format, parse, format
		if res.state != "" {
			r.State(c.Kind + "|" + res.state)
		}
		if res.key != "" {
			r.Violate(res.key, res.desc, c)
		}
	}

	if rc := r.ReplayCase(); rc != nil {
		var c c02case
		if err := json.Unmarshal(rc, &c); err != nil {
			t.Fatal(err)
		}
		eval(c)
		r.Replayed(1)
		return
	}

	thorough := verifkit.Thorough()
	k := 0
	mine := func() bool { k++; return r.Mine(k - 1) }
	fmts := []string{"fasta", "fastq"}
	parsers := []string{"json", "guessed"}

	// ---------- E1.a string sweep: every string over the alphabet at 5 positions of the record
	alpha := []string{"a", `"`, `\`, "{", "}", ";", "=", ">", "@", " ", "é"}
	maxLen := 3
	if thorough {
		maxLen = 4
	}
	r.Bound("string_alphabet", strings.Join(alpha, ""))
	r.Bound("string_max_len", maxLen)
	extras := []string{"\n", "\t", "\r", "a\nb", "\x00", "\x7f", " ", "<&>", "'", "日本", "\U0001F9EC", `A`, "null", "true", "1", `":"`, `","`, `\\"}`, `x\"}y`, `{"a":1}`, `}{`, `"}"`}
	r.Bound("extra_strings", len(extras))
	sweep := func(s string, isExtra bool) {
		blank := strings.ContainsAny(s, " \t\n\r")
		var variants [][]c02kv
		var defs []string
		variants = append(variants, []c02kv{{"k", c02str(s)}}) // top-level value
		defs = append(defs, "")
		variants = append(variants, []c02kv{{"m", c02val{T: "mapstr", MS: map[string]string{"x": s}}}, {"z", c02int(1)}}) // nested value
		defs = append(defs, "")
		variants = append(variants, []c02kv{{"z", c02int(1)}}) // as definition
		defs = append(defs, s)
		_ = blank
		if s != "" && s != "definition" { // keys may hold blanks: JSON strings, as the values
			variants = append(variants, []c02kv{{s, c02int(1)}}) // top-level key
			defs = append(defs, "")
			variants = append(variants, []c02kv{{"m", c02val{T: "mapint", MI: map[string]int{s: 1}}}}) // nested key
			defs = append(defs, "")
		}
		for vi, ann := range variants {
			if defs[vi] == "" && vi == 2 {
				continue // empty definition == no definition: covered by the structural sweep
			}
			for _, f := range fmts {
				for _, p := range parsers {
					if !mine() {
						continue
					}
					r.Count("rt.string-sweep", 1)
					if strings.ContainsAny(s, `"\{}`) {
						r.Count("rt.string-sweep.with-quote-backslash-or-brace", 1)
					}
					eval(c02case{Kind: "rt", Fmt: f, Parser: p, Shift: 33,
						Recs: []c02rec{{Id: "a", Seq: "acgt", Def: defs[vi], Ann: ann}}})
				}
			}
		}
	}
	c02runeStrings(alpha, 0, maxLen, func(s string) { sweep(s, false) })
	for _, s := range extras {
		sweep(s, true)
	}
	if thorough {
		// one symbol more at the top-level value position only
		r.Bound("string_max_len_top_level_value", maxLen+1)
		c02runeStrings(alpha, maxLen+1, maxLen+1, func(s string) {
			if !mine() {
				return
			}
			r.Count("rt.string-sweep", 1)
			eval(c02case{Kind: "rt", Fmt: "fasta", Parser: "json", Shift: 33,
				Recs: []c02rec{{Id: "a", Seq: "acgt", Ann: []c02kv{{"k", c02str(s)}}}}})
		})
	}
	if r.Expired() {
		return
	}

	// ---------- E1.b pairs of string values (interaction of two values in one header)
	pairLen := 1
	if thorough {
		pairLen = 2
	}
	r.Bound("string_pair_max_len", pairLen)
	var pool []string
	c02runeStrings(alpha, 0, pairLen, func(s string) { pool = append(pool, s) })
	for _, s1 := range pool {
		for _, s2 := range pool {
			for _, f := range fmts {
				if !mine() {
					continue
				}
				r.Count("rt.string-pairs", 1)
				eval(c02case{Kind: "rt", Fmt: f, Parser: "json", Shift: 33,
					Recs: []c02rec{{Id: "a", Seq: "acgt", Def: s2, Ann: []c02kv{{"k1", c02str(s1)}, {"k2", c02str(s2)}}}}})
			}
		}
		if r.Expired() {
			return
		}
	}

	// ---------- E1.c structural sweep
	ids := []string{"a", "A:1/2", "x>y", "@b"}
	lens := []int{1, 59, 60, 61, 120, 121}
	if thorough {
		lens = []int{1, 2, 59, 60, 61, 119, 120, 121, 180, 181, 600}
	}
	qkinds := []string{"none", "zero", "max", "ramp", "over"}
	asets := c02annotSets()
	anames := make([]string, 0, len(asets))
	for n := range asets {
		anames = append(anames, n)
	}
	sort.Strings(anames)
	defsS := []string{"", "a definition; with=things {and} \"quotes\""}
	r.Bound("ids", ids)
	r.Bound("seq_lengths", lens)
	r.Bound("quality_kinds", qkinds)
	r.Bound("annotation_sets", anames)
	r.Bound("quality_shifts", []int{33, 64})
	for _, id := range ids {
		for _, n := range lens {
			for pat := 0; pat < 3; pat++ {
				seq := c02seqOfLen(pat, n)
				for _, qk := range qkinds {
					for _, an := range anames {
						for _, def := range defsS {
							for _, shift := range []int{33, 64} {
								for _, f := range fmts {
									if f == "fasta" && (qk != "none" && qk != "ramp" || shift == 64) {
										continue // FASTA carries no qualities: one representative is enough
									}
									for pi, p := range parsers {
										other := 0
										if f == "fastq" && pi == 0 {
											// json parser cases: the INPUT shift option differs from the output one while writing
											other = 97 - shift
										}
										if !mine() {
											continue
										}
										if other != 0 {
											r.Count("rt.structural.fastq-written-with-input-shift-option-different", 1)
										}
										r.Count("rt.structural", 1)
										if qk == "over" && f == "fastq" {
											r.Count("rt.structural.clamp-cases", 1)
										}
										if n > 60 {
											r.Count("rt.structural.folded-sequences", 1)
										}
										eval(c02case{Kind: "rt", Fmt: f, Parser: p, Shift: shift, Other: other,
											Recs: []c02rec{{Id: id, Seq: seq, Qual: c02quals(qk, n), Def: def, Ann: asets[an]}}})
									}
								}
							}
						}
					}
				}
			}
		}
		if r.Expired() {
			return
		}
	}

	// ---------- E1.d every IUPAC sequence of length <= L (all symbols at all positions)
	seqL := 2
	if thorough {
		seqL = 3
	}
	r.Bound("all_iupac_sequences_max_len", seqL)
	verifkit.Strings(c02iupac+"ACGTN", 1, seqL, func(s string) {
		for _, f := range fmts {
			if !mine() {
				continue
			}
			r.Count("rt.all-short-sequences", 1)
			eval(c02case{Kind: "rt", Fmt: f, Parser: "guessed", Shift: 33,
				Recs: []c02rec{{Id: "s", Seq: s, Qual: c02quals("ramp", len(s)), Ann: []c02kv{{"count", c02int(1)}}}}})
		}
	})

	// ---------- E1.e sets of records: every ordered pair (thorough: and triple) from a pool
	rpool := []c02rec{
		{Id: "r1", Seq: "acgt"},
		{Id: "r2", Seq: c02seqOfLen(0, 61), Qual: c02quals("zero", 61), Ann: asets["ints"]},
		{Id: "@r3", Seq: "n", Qual: c02quals("max", 1), Def: "only a definition"},
		{Id: "r>4", Seq: c02seqOfLen(2, 120), Qual: c02quals("ramp", 120), Ann: asets["strs"], Def: "d"},
		{Id: "r5", Seq: c02seqOfLen(1, 60), Ann: asets["nested"]},
		{Id: "r6", Seq: "acgtacgt", Qual: []int{31, 29, 0, 10, 31, 29, 0, 10}, Ann: []c02kv{{"k", c02str(">r7 {\"a\":1}")}, {"q", c02str("@r7 +")}}},
	}
	r.Bound("record_pool", len(rpool))
	tuples := [][]int{}
	for i := range rpool {
		for j := range rpool {
			tuples = append(tuples, []int{i, j})
			if thorough {
				for l := range rpool {
					tuples = append(tuples, []int{i, j, l})
				}
			}
		}
	}
	for _, tp := range tuples {
		recs := make([]c02rec, len(tp))
		for i, x := range tp {
			recs[i] = rpool[x]
		}
		for _, f := range fmts {
			for _, p := range parsers {
				for _, shift := range []int{33, 64} {
					if !mine() {
						continue
					}
					r.Count("rt.record-sets", 1)
					eval(c02case{Kind: "rt", Fmt: f, Parser: p, Shift: shift, Recs: recs})
				}
			}
		}
	}
	if r.Expired() {
		return
	}

	// ---------- enumerations added by the audit (zz_verif_c02f_test.go)
	x := &c02ctx{eval: eval, mine: mine, thorough: thorough,
		count:   func(n string, k int64) { r.Count(n, k) },
		bound:   func(n string, v interface{}) { r.Bound(n, v) },
		expired: func() bool { return r.Expired() },
		capf:    func(w string) { r.Cap(w) }}
	t0 := time.Now()
	lap := func(what string) { t.Logf("c02 section %-28s %6.1fs", what, time.Since(t0).Seconds()); t0 = time.Now() }
	x.lap = lap
	lap("E1.a-e (chunk level)")
	x.sweepNumbers()
	lap("numbers")
	x.sweepTrees()
	lap("value trees")
	x.sweepIds(alpha, maxLen, extras)
	lap("ids")
	if r.Expired() {
		return
	}
	x.sweepFileStructural(asets)
	lap("file-level structural")
	x.sweepFileSets(rpool)
	lap("file-level record sets")
	x.sweepFileStrings(alpha, maxLen, extras)
	lap("file-level strings")
	if r.Expired() {
		return
	}
	x.sweepTokenTitles()
	lap("token titles")
	if r.Expired() {
		return
	}

	// ---------- E2 title lines
	talpha := `{}"\a:1, `
	tlen, plen := 6, 6
	if thorough {
		tlen, plen = 8, 7
	}
	r.Bound("title_alphabet", talpha)
	r.Bound("title_max_len", tlen)
	// raw titles, and titles that already open a JSON object / string (reaches escapes in values)
	prefixes := []string{"", `{"a":`, `{"a":"`}
	sufLen := map[string]int{"": tlen, `{"a":`: plen, `{"a":"`: plen}
	r.Bound("title_prefixed_suffix_max_len", plen)
	r.Bound("title_prefixes", prefixes)
	n := 0
	for _, pre := range prefixes {
		verifkit.Strings(talpha, 0, sufLen[pre], func(s string) {
			n++
			if n&0xfff == 0 && r.Expired() {
				return
			}
			if !r.Exhaustive {
				return
			}
			for _, p := range parsers {
				if p == "guessed" && len(s) > sufLen[pre]-1 {
					continue // guessed parser: one symbol less
				}
				if !mine() {
					continue
				}
				if strings.HasPrefix(pre+s, "{") {
					r.Count("title.cases-opening-a-json-object", 1)
				}
				eval(c02case{Kind: "title", Parser: p, Title: pre + s})
			}
		})
	}

	r.RequireNonVacuous("rt.string-sweep.with-quote-backslash-or-brace")
	r.RequireNonVacuous("rt.structural.clamp-cases")
	r.RequireNonVacuous("rt.structural.folded-sequences")
	r.RequireNonVacuous("title.cases-opening-a-json-object") // cases generated; how many of them the parser accepts is the tree's answer
	r.RequireNonVacuous("rt.file-level.fastq-with-in/out-shift-options-different")
	r.RequireNonVacuous("rt.file-level.writer-chooses-format")
	r.RequireNonVacuous("rt.file-level.reader-guesses-format")
	r.RequireNonVacuous("rt.numbers.integral-float-beyond-int64")
	r.RequireNonVacuous("title.token-cases")
}
