//go:build verif

package obiformats

// C04 — writers emit every batch once, in increasing batch number, as well-formed
// FASTA / FASTQ / JSON / CSV, and close the output after the last one.
//
// E1 (engine B, this file): for each of the real WriteFasta / WriteFastq / WriteJSON / WriteCSV,
// every arrival history of the writer goroutine is forced without a scheduler:
//
//   - a hand-fed iterator (MakeIBioSequence; Add(1); go WaitAndClose; Push from ONE goroutine; Done)
//     feeds the writer configured with ONE formatting worker. All channels on the path are
//     unbuffered and the single worker sends chunk k to the writer goroutine before it takes
//     batch k+1, so the order of arrival at the re-sequencing buffer is exactly the push order;
//   - enumerated: every number of batches n, every permutation of 0..n-1 as arrival order, every
//     vector of batch sizes (0 = empty batch, 1, 2 records) i.e. every subset of empty batches and
//     every partition of the records r0..r(k-1) over the non-empty ones;
//   - each history runs with a plain sink, through gzip (OptionsCompressed) and, for JSON / CSV, in
//     the "stdout" mode of obiconvert --json-output / obicsv (OptionDontCloseFile).
//
// The dispatcher WriteSequence (universal_write.go: peeks the first batch, PushBack, then WriteFasta
// or WriteFastq) is driven the same way with records without and with qualities.
//
// Oracle (reference model = concatenation of the per-batch renderings in increasing batch number):
//   FASTA/FASTQ  ids re-parsed from the output are r0..r(k-1) in order and the bytes equal the
//                concatenation of FormatFastaBatch / FormatFastqBatch of batch 0,1,..,n-1;
//   JSON         the whole output decodes (encoding/json) as ONE array of objects whose ids are
//                r0..r(k-1) in order;
//   CSV (n>=1)   encoding/csv gives exactly one header row then one row per record in order;
//   close        when obiiter.WaitForLastPipe() returns (what every obitools main waits for before
//                exiting) the sink has been closed exactly once and nothing was written after it.
//
// Audit extensions (same oracle, further dimensions; each is a "family" of replayable cases):
//
//   modes     every writer also runs without closing (OptionDontCloseFile: stdout mode) plain and
//             through gzip: all the bytes must have reached the sink when WaitForLastPipe returns;
//   csv-auto  the records of batch i carry an attribute k<i>: the header must be the one of batch
//             number 0 (not of the first batch to arrive) and every row must have its width;
//   file      the file-name entry points Write{Fasta,Fastq,JSON,CSV,Sequences}ToFile on real files:
//             fresh file / existing longer file (overwritten) / OptionsAppendFile on an existing file
//             x single / paired output (WritePairedReadsTo: mates m0.. in the second file, same
//             rank, both complete) x every arrival history; both files complete and no descriptor
//             left open on them when WaitForLastPipe returns;
//   zerolen   every subset of records with a zero-length sequence x OptionsSkipEmptySequence (FASTA /
//             FASTQ: the record is left out, a batch of such records gives an empty chunk; JSON / CSV:
//             the record is emitted) x every arrival history;
//   content   annotation values / annotation keys / definitions / ids made of every string of up to
//             k tokens that need escaping (quote, backslash, "u", hex digits, control characters,
//             newline, separators, html characters, non-ascii) through WriteJSON and WriteCSV;
//   csvopt    every combination of the CSV column options (id, count, taxon, definition, sequence,
//             quality) x key lists (present / missing attributes) x NA values: the header is the
//             declared one and every row has exactly its number of fields.

import (
	"bytes"
	stdgzip "compress/gzip"
	"encoding/csv"
	stdjson "encoding/json"
	"fmt"
	"io"
	"os"
	"path/filepath"
	"runtime"
	"sort"
	"strings"
	"sync"
	"testing"
	"time"
	"unicode/utf8"

	"git.metabarcoding.org/obitools/obitools4/obitools4/pkg/obiiter"
	"git.metabarcoding.org/obitools/obitools4/obitools4/pkg/obiseq"
	"git.metabarcoding.org/obitools/obitools4/obitools4/pkg/verifkit"
	log "github.com/sirupsen/logrus"
)

// ---------------------------------------------------------------- case (replayable)

type c04case struct {
	Writer  string `json:"writer"`  // fasta | fastq | json | csv | sequence | sequence+q (WriteSequence dispatcher, records without / with qualities)
	Arrival []int  `json:"arrival"` // batch numbers in the order they reach the writer goroutine
	Sizes   []int  `json:"sizes"`   // Sizes[i] = number of records of batch number i (0 = empty batch)

	// audit extensions; the zero values give the original family (arrival histories on a sink)
	Family  string      `json:"family,omitempty"`  // "" | file | zerolen | content | csvopt
	Mode    string      `json:"mode,omitempty"`    // replay: run this mode only
	Zero    []int       `json:"zero,omitempty"`    // zerolen: Zero[r]=1 -> record r has a zero-length sequence
	Skip    bool        `json:"skip,omitempty"`    // OptionsSkipEmptySequence(true)
	Value   string      `json:"value,omitempty"`   // content: the string needing escapes
	Place   string      `json:"place,omitempty"`   // content: value | key | definition | id
	Pre     string      `json:"pre,omitempty"`     // file: fresh | overwrite | append
	Paired  bool        `json:"paired,omitempty"`  // file: paired records, WritePairedReadsTo
	Workers int         `json:"workers,omitempty"` // file: formatting workers (0 = 1); above 1 the arrival order is left to the Go scheduler
	Csv     *c04csvSpec `json:"csv,omitempty"`     // csvopt
}

type c04csvSpec struct {
	Id         bool     `json:"id"`
	Count      bool     `json:"count"`
	Taxon      bool     `json:"taxon"`
	Definition bool     `json:"definition"`
	Sequence   bool     `json:"sequence"`
	Quality    bool     `json:"quality"`
	Keys       []string `json:"keys"`
	NA         string   `json:"na"`
}

func (c c04case) zero(r int) bool { return r < len(c.Zero) && c.Zero[r] != 0 }

// c04firstRecord gives the index of the first record of batch number b.
func (c c04case) firstRecord(b int) int {
	r := 0
	for i := 0; i < b; i++ {
		r += c.Sizes[i]
	}
	return r
}

var c04writers = []string{"fasta", "fastq", "json", "csv", "csv-auto", "sequence", "sequence+q"}

// c04format gives the format the output must have. WriteSequence looks at the first batch it
// receives: FASTQ when that batch is not empty and its first record has qualities, FASTA otherwise.
func c04format(c c04case) string {
	switch c.Writer {
	case "sequence":
		return "fasta"
	case "sequence+q":
		// (a zero-length record has no qualities)
		if len(c.Arrival) > 0 && c.Sizes[c.Arrival[0]] > 0 && !c.zero(c.firstRecord(c.Arrival[0])) {
			return "fastq"
		}
		return "fasta"
	}
	return c.Writer
}

// ---------------------------------------------------------------- in-memory sink

type c04sink struct {
	mu              sync.Mutex
	buf             bytes.Buffer
	writes          int
	closes          int
	lenAtFirstClose int
	bytesAfterClose int
}

func (s *c04sink) Write(p []byte) (int, error) {
	s.mu.Lock()
	defer s.mu.Unlock()
	if s.closes > 0 {
		s.bytesAfterClose += len(p)
	}
	s.writes++
	s.buf.Write(p)
	return len(p), nil
}

func (s *c04sink) Close() error {
	s.mu.Lock()
	defer s.mu.Unlock()
	if s.closes == 0 {
		s.lenAtFirstClose = s.buf.Len()
	}
	s.closes++
	return nil
}

type c04obs struct {
	out             []byte
	closes          int
	bytesAfterClose int
	lenAtFirstClose int
}

// ---------------------------------------------------------------- fatal / hang interception

var (
	c04fatalCh  = make(chan string, 16)
	c04poisoned string // set after a hang or a fatal: the global pipe registry is no longer usable
)

func c04installExit() {
	log.SetOutput(io.Discard)
	log.StandardLogger().ExitFunc = func(int) {
		select {
		case c04fatalCh <- "log.Fatal":
		default:
		}
		runtime.Goexit()
	}
}

// c04report hands an abnormal end of a run ("panic:...", "error:...") to c04await.
func c04report(what string) {
	select {
	case c04fatalCh <- what:
	default:
	}
}

// c04recover is deferred in every goroutine of the harness that calls into the tree under test (writers,
// Push, Next, constructors of the input): a panic there is an outcome of the run, reported like a fatal,
// never the death of the shard.
func c04recover() {
	if p := recover(); p != nil {
		if e, ok := p.(*log.Entry); ok {
			c04report("panic:" + e.Message)
		} else {
			c04report(fmt.Sprintf("panic:%v", p))
		}
	}
}

// c04problem: what c04await reports for a message of c04fatalCh.
func c04problem(f string) string {
	if strings.HasPrefix(f, "panic:") || strings.HasPrefix(f, "error:") {
		return f
	}
	return "fatal:" + f
}

// ---------------------------------------------------------------- input construction

var c04bases = []string{"acgt", "ttgca", "gattaca", "cc", "atatatat", "g", "tgca", "caggt", "aac", "ggtt", "acacgt", "t", "cgcg", "tagc"}

func c04id(r int) string     { return fmt.Sprintf("r%d", r) }
func c04mateId(r int) string { return fmt.Sprintf("m%d", r) }

// c04recId is the identifier of record r (family content, place id: the value is part of it).
func c04recId(c c04case, r int) string {
	if c.Family == "content" && c.Place == "id" {
		return c04id(r) + c.Value
	}
	return c04id(r)
}

func c04qual(n, r int) []byte {
	q := make([]byte, n)
	for x := range q {
		q[x] = byte(10 + (r+x)%30)
	}
	return q
}

// c04batches builds fresh batches: batch number i holds Sizes[i] records, ids r0.. in batch order
// (and, for paired cases, their mates m0..).
func c04batches(c c04case) (batches []obiiter.BioSequenceBatch, ids []string, mateIds []string) {
	r := 0
	withQual := c.Writer == "fastq" || c.Writer == "sequence+q"
	for i, sz := range c.Sizes {
		sl := make(obiseq.BioSequenceSlice, 0, sz)
		for j := 0; j < sz; j++ {
			s := c04bases[r%len(c04bases)]
			if c.zero(r) {
				s = ""
			}
			def := ""
			if c.Family == "content" && c.Place == "definition" {
				def = c.Value
			}
			if c.Family == "csvopt" && r%3 != 1 {
				def = fmt.Sprintf("record %d, so to say", r)
			}
			seq := obiseq.NewBioSequence(c04recId(c, r), []byte(s), def)
			if withQual || (c.Family == "csvopt" && r%2 == 0) {
				seq.SetQualities(c04qual(len(s), r))
			}
			switch {
			case c.Writer == "csv-auto":
				// the attribute columns differ from batch to batch: batch i has c and k<i>
				seq.SetAttribute("c", r)
				seq.SetAttribute(fmt.Sprintf("k%d", i), i)
			case c.Family == "content" && c.Place == "value":
				seq.SetAttribute("k", c.Value)
			case c.Family == "content" && c.Place == "key":
				seq.SetAttribute(c.Value, "v")
			case c.Family == "csvopt":
				switch r % 3 {
				case 0:
					seq.SetTaxid(9606)
					seq.SetAttribute("scientific_name", "Homo sapiens")
				case 1:
					seq.SetTaxid(7)
				}
				if r%2 == 1 {
					seq.SetCount(3 + r)
				}
				if r%2 == 0 {
					seq.SetAttribute("k1", fmt.Sprintf("v%d", r))
				}
				seq.SetAttribute("k,2", r)
			}
			if c.Paired {
				ms := "tt" + c04bases[(r+3)%len(c04bases)]
				mate := obiseq.NewBioSequence(c04mateId(r), []byte(ms), "")
				if withQual {
					mate.SetQualities(c04qual(len(ms), r+1))
				}
				seq.PairTo(mate)
			}
			sl = append(sl, seq)
			ids = append(ids, c04recId(c, r))
			mateIds = append(mateIds, c04mateId(r))
			r++
		}
		batches = append(batches, obiiter.MakeBioSequenceBatch("c04", i, sl))
	}
	return
}

// c04caseOpts: the content-related options of the case (used by the run and by the reference).
func c04caseOpts(c c04case) []WithOption {
	var o []WithOption
	if c.Skip {
		o = append(o, OptionsSkipEmptySequence(true))
	}
	switch c.Family {
	case "content":
		if c.Writer == "csv" {
			switch c.Place {
			case "value":
				o = append(o, CSVKeys([]string{"k"}))
			case "key":
				o = append(o, CSVKeys([]string{c.Value}))
			case "definition":
				o = append(o, CSVDefinition(true))
			}
		}
	case "csvopt":
		sp := c.Csv
		o = append(o, CSVId(sp.Id), CSVCount(sp.Count), CSVTaxon(sp.Taxon), CSVDefinition(sp.Definition),
			CSVSequence(sp.Sequence), CSVQuality(sp.Quality), CSVKeys(append([]string{}, sp.Keys...)), CSVNAValue(sp.NA))
	}
	return o
}

// c04csvModelHeader: the declared columns, written down independently of CSVHeader.
func c04csvModelHeader(c c04case) []string {
	sp := c04csvSpec{Id: true, Sequence: true}
	switch c.Family {
	case "content":
		switch c.Place {
		case "value":
			sp.Keys = []string{"k"}
		case "key":
			sp.Keys = []string{c.Value}
		case "definition":
			sp.Definition = true
		}
	case "csvopt":
		sp = *c.Csv
	}
	h := []string{}
	if sp.Id {
		h = append(h, "id")
	}
	if sp.Count {
		h = append(h, "count")
	}
	if sp.Taxon {
		h = append(h, "taxid", "scientific_name")
	}
	if sp.Definition {
		h = append(h, "definition")
	}
	h = append(h, sp.Keys...)
	if sp.Sequence {
		h = append(h, "sequence")
	}
	if sp.Quality {
		h = append(h, "quality")
	}
	return h
}

// ---------------------------------------------------------------- running the real writer

const (
	c04plain     = "plain"
	c04gzip      = "gzip"
	c04noclose   = "stdout-mode"
	c04gznoclose = "gzip+stdout-mode"
)

func c04closing(mode string) bool    { return mode == c04plain || mode == c04gzip }
func c04compressed(mode string) bool { return mode == c04gzip || mode == c04gznoclose }

// c04await waits for the run. Hang detection must not depend on one wall-clock reading (the sandbox
// clock can jump while the process is frozen): a hang is declared only after 1200 separate 50 ms
// sleeps, each of which this process really had to sit through, all ended without the run finishing.
func c04await(done chan struct{}) (problem string) {
	finished := false
	for tick := 0; tick < 1200 && !finished; tick++ {
		select {
		case <-done:
			finished = true
		case f := <-c04fatalCh:
			return c04problem(f)
		case <-time.After(50 * time.Millisecond):
		}
	}
	if !finished {
		return "hang"
	}
	select { // a fatal in a goroutine that did not prevent termination
	case f := <-c04fatalCh:
		return c04problem(f)
	default:
	}
	return ""
}

// c04run pushes the batches of c in arrival order through the real writer and returns what the
// sink saw at the time WaitForLastPipe returned. problem != "" : hang / fatal (run unusable).
func c04run(c c04case, mode string) (obs c04obs, problem string) {
	sink := &c04sink{}
	opts := []WithOption{OptionsParallelWorkers(1)}
	if c04closing(mode) {
		opts = append(opts, OptionCloseFile())
	} else {
		opts = append(opts, OptionDontCloseFile())
	}
	if c04compressed(mode) {
		opts = append(opts, OptionsCompressed(true))
	}

	done := make(chan struct{})
	go func() {
		defer c04recover()
		batches, _, _ := c04batches(c)
		opts = append(opts, c04caseOpts(c)...)
		it := obiiter.MakeIBioSequence()
		it.Add(1)
		go it.WaitAndClose()

		var out obiiter.IBioSequence
		var err error
		if c.Writer == "sequence" || c.Writer == "sequence+q" {
			// WriteSequence blocks on the first batch before it chooses the format: feed from a
			// second goroutine (still ONE pusher, so the arrival order is the push order).
			go func() {
				defer c04recover()
				for _, o := range c.Arrival {
					it.Push(batches[o])
				}
				it.Done()
			}()
			out, err = WriteSequence(it, sink, opts...)
			if err != nil {
				c04report("error:the writer returns the error " + err.Error())
				return
			}
			for out.Next() {
			}
			obiiter.WaitForLastPipe()
			close(done)
			return
		}
		fedAhead := false
		if c.Writer == "csv-auto" {
			// WriteCSV in auto-column mode blocks on the first batch before it returns: feed from a
			// second goroutine (still ONE pusher, so the arrival order is the push order)
			fedAhead = true
			go func() {
				defer c04recover()
				for _, o := range c.Arrival {
					it.Push(batches[o])
				}
				it.Done()
			}()
		}
		switch c.Writer {
		case "fasta":
			out, err = WriteFasta(it, sink, opts...)
		case "fastq":
			out, err = WriteFastq(it, sink, opts...)
		case "json":
			out, err = WriteJSON(it, sink, opts...)
		case "csv":
			out, err = WriteCSV(it, sink, opts...)
		case "csv-auto": // obicsv --auto: the attribute columns are deduced from the first batch
			out, err = WriteCSV(it, sink, append(append([]WithOption{}, opts...), CSVAutoColumn(true))...)
		default:
			panic("c04: unknown writer " + c.Writer)
		}
		if err != nil {
			c04report("error:the writer returns the error " + err.Error())
			return
		}
		go func() { // consumer of the pass-through iterator
			defer c04recover()
			for out.Next() {
			}
		}()
		if !fedAhead {
			for _, o := range c.Arrival {
				it.Push(batches[o])
			}
			it.Done()
		}
		obiiter.WaitForLastPipe()
		close(done)
	}()

	if problem = c04await(done); problem != "" {
		return obs, problem
	}
	sink.mu.Lock()
	defer sink.mu.Unlock()
	obs = c04obs{out: append([]byte{}, sink.buf.Bytes()...), closes: sink.closes,
		bytesAfterClose: sink.bytesAfterClose, lenAtFirstClose: sink.lenAtFirstClose}
	return obs, ""
}

// ---------------------------------------------------------------- file-name entry points

var (
	c04tmpDir  string
	c04fileSeq int
	c04stale   = bytes.Repeat([]byte("#STALE#\n"), 512) // 4 KiB: longer than any output of the family
)

func c04entryName(w string) string {
	return map[string]string{"fasta": "WriteFastaToFile", "fastq": "WriteFastqToFile", "json": "WriteJSONToFile",
		"csv": "WriteCSVToFile", "sequence": "WriteSequencesToFile", "sequence+q": "WriteSequencesToFile"}[w]
}

// c04openOn counts the descriptors of this process that are open on one of the paths.
func c04openOn(paths ...string) int {
	n := 0
	ents, err := os.ReadDir("/proc/self/fd")
	if err != nil {
		return 0
	}
	for _, e := range ents {
		l, err := os.Readlink("/proc/self/fd/" + e.Name())
		if err != nil {
			continue
		}
		for _, p := range paths {
			if l == p {
				n++
			}
		}
	}
	return n
}

type c04fileObs struct {
	r1, r2    []byte
	r1missing string // "" or why the output file cannot be read after the run
	r2exists  bool
	open      int
}

// c04runFile drives Write*ToFile on real files: Pre = fresh (no file), overwrite (an existing,
// longer file), append (OptionsAppendFile on an existing file); Paired: WritePairedReadsTo.
func c04runFile(c c04case) (obs c04fileObs, problem string) {
	if c04tmpDir == "" {
		d, err := os.MkdirTemp("", "verif-c04-")
		if err != nil {
			panic(err)
		}
		if d, err = filepath.EvalSymlinks(d); err != nil {
			panic(err)
		}
		c04tmpDir = d
	}
	c04fileSeq++
	fn1 := filepath.Join(c04tmpDir, fmt.Sprintf("o%d_R1.out", c04fileSeq))
	fn2 := filepath.Join(c04tmpDir, fmt.Sprintf("o%d_R2.out", c04fileSeq))
	defer os.Remove(fn1)
	defer os.Remove(fn2)
	if c.Pre != "fresh" {
		for _, fn := range []string{fn1, fn2} {
			if err := os.WriteFile(fn, c04stale, 0o644); err != nil {
				panic(err)
			}
		}
	}
	workers := 1
	if c.Workers > 1 {
		workers = c.Workers
	}

	done := make(chan struct{})
	go func() {
		defer c04recover()
		batches, _, _ := c04batches(c)
		opts := []WithOption{OptionsParallelWorkers(workers), OptionsAppendFile(c.Pre == "append")}
		if c.Paired {
			opts = append(opts, WritePairedReadsTo(fn2))
		}
		opts = append(opts, c04caseOpts(c)...)
		it := obiiter.MakeIBioSequence()
		it.Add(1)
		go it.WaitAndClose()
		if c.Paired {
			it.MarkAsPaired()
		}
		// WriteSequencesToFile blocks on the first batch: one feeder goroutine for every entry point
		// (ONE pusher, one formatting worker per writer: the arrival order is the push order, for
		// the second writer of a paired output as well)
		go func() {
			defer c04recover()
			for _, o := range c.Arrival {
				it.Push(batches[o])
			}
			it.Done()
		}()
		var out obiiter.IBioSequence
		var err error
		switch c.Writer {
		case "fasta":
			out, err = WriteFastaToFile(it, fn1, opts...)
		case "fastq":
			out, err = WriteFastqToFile(it, fn1, opts...)
		case "json":
			out, err = WriteJSONToFile(it, fn1, opts...)
		case "csv":
			out, err = WriteCSVToFile(it, fn1, opts...)
		case "sequence", "sequence+q":
			out, err = WriteSequencesToFile(it, fn1, opts...)
		default:
			panic("c04: no file entry point for " + c.Writer)
		}
		if err != nil {
			c04report("error:the entry point returns the error " + err.Error())
			return
		}
		for out.Next() {
		}
		obiiter.WaitForLastPipe()
		close(done)
	}()
	if problem = c04await(done); problem != "" {
		return obs, problem
	}
	obs.open = c04openOn(fn1, fn2)
	var err error
	if obs.r1, err = os.ReadFile(fn1); err != nil {
		obs.r1missing = err.Error() // the entry point did not leave a readable file: a verdict on the tree
	}
	if obs.r2, err = os.ReadFile(fn2); err == nil {
		obs.r2exists = true
	}
	return obs, ""
}

// ---------------------------------------------------------------- oracle

// c04seqDiag classifies a wrong record sequence.
func c04seqDiag(got, want []string) string {
	if len(got) == len(want) {
		same := true
		for i := range got {
			if got[i] != want[i] {
				same = false
				break
			}
		}
		if same {
			return ""
		}
	}
	cnt := map[string]int{}
	for _, g := range got {
		cnt[g]++
	}
	wantSet := map[string]bool{}
	for _, w := range want {
		wantSet[w] = true
	}
	for g, n := range cnt {
		if !wantSet[g] {
			return "records-garbled"
		}
		if n > 1 {
			return "records-duplicated"
		}
	}
	for _, w := range want {
		if cnt[w] == 0 {
			return "records-missing"
		}
	}
	return "records-misordered"
}

// c04fastaIds / c04fastqIds: boring independent readers of the ids.
func c04fastaIds(text []byte) ([]string, bool) {
	ids := []string{}
	if len(text) == 0 {
		return ids, true
	}
	if text[len(text)-1] != '\n' {
		return nil, false
	}
	lines := strings.Split(string(text[:len(text)-1]), "\n")
	for i, l := range lines {
		switch {
		case l == "":
			return nil, false // blank line
		case l[0] == '>':
			// a title line is followed by at least one line of sequence
			if i+1 >= len(lines) || lines[i+1] == "" || lines[i+1][0] == '>' {
				return nil, false
			}
			ids = append(ids, strings.SplitN(l[1:], " ", 2)[0])
		case i == 0:
			return nil, false // sequence before the first title line
		}
	}
	return ids, true
}

func c04fastqIds(text []byte) ([]string, bool) {
	ids := []string{}
	if len(text) == 0 {
		return ids, true
	}
	if text[len(text)-1] != '\n' {
		return nil, false
	}
	lines := strings.Split(string(text[:len(text)-1]), "\n")
	if len(lines)%4 != 0 {
		return nil, false
	}
	for i := 0; i < len(lines); i += 4 {
		if !strings.HasPrefix(lines[i], "@") || lines[i+2] != "+" || len(lines[i+1]) != len(lines[i+3]) {
			return nil, false
		}
		ids = append(ids, strings.SplitN(lines[i][1:], " ", 2)[0])
	}
	return ids, true
}

func c04sameRow(a, b []string) bool {
	if len(a) != len(b) {
		return false
	}
	for i := range a {
		if a[i] != b[i] {
			return false
		}
	}
	return true
}

// c04content checks the decoded text against the property; returns (failure class, detail).
// mate: the text is the second file of a paired output (the mates m0.. of the records).
func c04content(c c04case, text []byte, mate bool) (string, string) {
	formats := []string{c04format(c)}
	if mate && c.Workers > 1 && c.Writer == "sequence+q" {
		// the second WriteSequence of a paired output reads what the formatting workers of the first
		// one hand over: with several workers ANY batch can be the first it sees, and an empty one
		// makes it choose FASTA. Which format is chosen is not the business of this property.
		formats = []string{"fastq"}
		for _, sz := range c.Sizes {
			if sz == 0 {
				formats = []string{"fastq", "fasta"}
			}
		}
	}
	var f0, d0 string
	for i, format := range formats {
		f, d := c04contentAs(c, text, mate, format)
		if f == "" {
			return "", ""
		}
		if i == 0 {
			f0, d0 = f, d
		}
	}
	return f0, d0
}

// c04guarded runs f (calls into the tree under test made for the reference side of the oracle) in a goroutine
// of its own: a panic or a log.Fatal in there is returned ("" when f completed), it does not end the shard.
func c04guarded(f func()) (crash string) {
	done := make(chan struct{})
	go func() {
		defer close(done)
		defer func() {
			if r := recover(); r != nil {
				if e, ok := r.(*log.Entry); ok {
					crash = "panic: " + e.Message
				} else {
					crash = fmt.Sprintf("panic: %v", r)
				}
			}
		}()
		f()
	}()
	<-done
	select {
	case f := <-c04fatalCh:
		crash = "fatal: " + f
	default:
	}
	return
}

func c04contentAs(c c04case, text []byte, mate bool, format string) (string, string) {
	var want []string
	var ref bytes.Buffer // fasta / fastq: the batches formatted one by one in increasing batch number
	if crash := c04guarded(func() {
		var batches []obiiter.BioSequenceBatch
		var mateIds []string
		batches, want, mateIds = c04batches(c)
		if mate {
			want = mateIds
			for i := range batches {
				batches[i] = batches[i].PairedWith()
			}
		}
		if format == "fasta" || format == "fastq" {
			opt := MakeOptions(nil)
			for _, b := range batches {
				if format == "fasta" {
					ref.Write(FormatFastaBatch(b, opt.FormatFastSeqHeader(), c.Skip).Bytes())
				} else {
					ref.Write(FormatFastqBatch(b, opt.FormatFastSeqHeader(), c.Skip).Bytes())
				}
			}
		}
	}); crash != "" {
		kind := crash
		if i := strings.Index(kind, ":"); i >= 0 {
			kind = kind[:i]
		}
		return "control-run/reference-formatting-" + kind, "building the input batches again and formatting them one by one (the reference of the comparison) dies: " + crash
	}
	switch format {
	case "fasta", "fastq":
		if len(c.Zero) > 0 { // a zero-length record is left out (OptionsSkipEmptySequence)
			kept := []string{}
			for r, id := range want {
				if !c.zero(r) {
					kept = append(kept, id)
				}
			}
			want = kept
		}
		var got []string
		ok := true
		if format == "fasta" {
			got, ok = c04fastaIds(text)
		} else {
			got, ok = c04fastqIds(text)
		}
		if !ok {
			return "malformed-" + format, fmt.Sprintf("output %q", text)
		}
		if d := c04seqDiag(got, want); d != "" {
			return d, fmt.Sprintf("ids in output %v want %v", got, want)
		}
		if !bytes.Equal(text, ref.Bytes()) {
			return "bytes-differ", fmt.Sprintf("output %q want %q", text, ref.Bytes())
		}
	case "json":
		var arr []map[string]any
		dec := stdjson.NewDecoder(bytes.NewReader(text))
		if err := dec.Decode(&arr); err != nil {
			return "invalid-json", fmt.Sprintf("%v; output %q", err, c04clip(text))
		}
		var extra any
		if err := dec.Decode(&extra); err != io.EOF {
			return "invalid-json", fmt.Sprintf("data after the array; output %q", c04clip(text))
		}
		if arr == nil { // the document was the literal null
			return "invalid-json", fmt.Sprintf("not an array; output %q", c04clip(text))
		}
		got := []string{}
		for _, o := range arr {
			id, _ := o["id"].(string)
			got = append(got, id)
		}
		if d := c04seqDiag(got, want); d != "" {
			return d, fmt.Sprintf("ids in array %q want %q", got, want)
		}
	case "csv-auto":
		if len(c.Sizes) == 0 {
			return "", ""
		}
		// one header line, then one row per record in order. The attribute columns are those of batch
		// number 0, whatever the batch that arrives first (when batch 0 is empty: no attribute column,
		// or those of the first non-empty batch in batch order - both are functions of the input)
		rd := csv.NewReader(bytes.NewReader(text))
		rd.FieldsPerRecord = -1
		rows, err := rd.ReadAll()
		if err != nil {
			return "invalid-csv", fmt.Sprintf("%v; output %q", err, c04clip(text))
		}
		idcol := -1
		if len(rows) > 0 {
			for i, h := range rows[0] {
				if h == "id" {
					idcol = i
				}
			}
		}
		if len(rows) == 0 || idcol < 0 {
			return "header-missing", fmt.Sprintf("first row is not a header; output %q", c04clip(text))
		}
		if !mate {
			allowed := [][]string{}
			if c.Sizes[0] > 0 {
				allowed = append(allowed, []string{"id", "c", "k0", "sequence"})
			} else {
				allowed = append(allowed, []string{"id", "sequence"})
				for i, sz := range c.Sizes {
					if sz > 0 {
						allowed = append(allowed, []string{"id", "c", fmt.Sprintf("k%d", i), "sequence"})
						break
					}
				}
			}
			okh := false
			for _, a := range allowed {
				okh = okh || c04sameRow(rows[0], a)
			}
			if !okh {
				return "header-not-from-batch-0", fmt.Sprintf("header %v, want %v; output %q", rows[0], allowed, c04clip(text))
			}
		}
		got := []string{}
		for _, row := range rows[1:] {
			if c04sameRow(row, rows[0]) {
				return "header-repeated", fmt.Sprintf("output %q", c04clip(text))
			}
			if len(row) != len(rows[0]) {
				return "row-width", fmt.Sprintf("row %v has %d fields, header has %d", row, len(row), len(rows[0]))
			}
			got = append(got, row[idcol])
		}
		if d := c04seqDiag(got, want); d != "" {
			return d, fmt.Sprintf("ids in rows %v want %v", got, want)
		}
	case "csv":
		if len(c.Sizes) == 0 {
			return "", "" // the statement constrains CSV only for a stream of at least one batch
		}
		rd := csv.NewReader(bytes.NewReader(text))
		rd.FieldsPerRecord = -1
		rows, err := rd.ReadAll()
		if err != nil {
			return "invalid-csv", fmt.Sprintf("%v; output %q", err, c04clip(text))
		}
		header := c04csvModelHeader(c)
		// the column that identifies the record: id, else sequence, else none (rows are counted)
		idcol, seqcol := -1, -1
		for i, h := range header {
			if h == "id" && idcol < 0 {
				idcol = i
			}
			if h == "sequence" {
				seqcol = i
			}
		}
		if idcol < 0 && seqcol >= 0 {
			idcol = seqcol
			for r := range want {
				want[r] = c04bases[r%len(c04bases)]
				if c.zero(r) {
					want[r] = ""
				}
			}
		}
		if len(rows) == 0 || !c04sameRow(rows[0], header) {
			return "header-missing", fmt.Sprintf("first row is not the declared header %q; output %q", header, c04clip(text))
		}
		got := []string{}
		for _, row := range rows[1:] {
			if c04sameRow(row, header) {
				return "header-repeated", fmt.Sprintf("output %q", c04clip(text))
			}
			if len(row) != len(header) {
				return "row-width", fmt.Sprintf("row %q has %d fields, header %q has %d", row, len(row), header, len(header))
			}
			if idcol >= 0 {
				got = append(got, row[idcol])
			}
		}
		if idcol < 0 {
			if len(rows)-1 != len(want) {
				return "records-missing", fmt.Sprintf("%d rows for %d records; output %q", len(rows)-1, len(want), c04clip(text))
			}
		} else if d := c04seqDiag(got, want); d != "" {
			return d, fmt.Sprintf("identifying column of the rows %q want %q", got, want)
		}
	}
	return "", ""
}

func c04clip(b []byte) string {
	s := string(b)
	s = strings.ReplaceAll(s, "\n", "⏎")
	s = strings.Join(strings.Fields(s), " ")
	if len(s) > 400 {
		s = s[:400] + "…"
	}
	return s
}

// c04check evaluates one run (one mode). Returns failure classes with details (usually 0 or 1).
func c04check(c c04case, mode string) (fails [][2]string, problem string) {
	obs, problem := c04run(c, mode)
	if problem != "" {
		return nil, problem
	}
	if strings.HasPrefix(c.Writer, "sequence") && len(c.Sizes) == 0 {
		// WriteSequence on a stream without any batch starts no writer at all: there is no
		// "last batch" after which the statement asks for anything
		return nil, ""
	}
	text := obs.out
	if c04compressed(mode) {
		zr, err := stdgzip.NewReader(bytes.NewReader(obs.out))
		if err != nil {
			fails = append(fails, [2]string{"gzip-stream-invalid", fmt.Sprintf("%v (%d bytes)", err, len(obs.out))})
			text = nil
		} else {
			t, err := io.ReadAll(zr)
			if err != nil {
				fails = append(fails, [2]string{"gzip-stream-invalid", fmt.Sprintf("%v (%d bytes)", err, len(obs.out))})
				text = nil
			} else {
				text = t
			}
		}
	}
	if len(fails) == 0 {
		if f, d := c04content(c, text, false); f != "" {
			fails = append(fails, [2]string{f, d})
		}
	}
	if c04closing(mode) {
		switch {
		case obs.closes == 0:
			fails = append(fails, [2]string{"not-closed", "output not closed when WaitForLastPipe returned"})
		case obs.closes > 1:
			fails = append(fails, [2]string{"closed-twice", fmt.Sprintf("Close called %d times", obs.closes)})
		}
		if obs.bytesAfterClose > 0 {
			fails = append(fails, [2]string{"write-after-close", fmt.Sprintf("%d bytes written after Close (closed at byte %d)", obs.bytesAfterClose, obs.lenAtFirstClose)})
		}
	}
	return fails, ""
}

// c04checkFile evaluates one run of a file-name entry point. A failure is (class, detail, scope):
// scope "file" = it depends on the state of the file before the run, "history" = on the arrival,
// "any" = on neither.
func c04checkFile(c c04case) (fails [][3]string, problem string) {
	obs, problem := c04runFile(c)
	if problem != "" {
		return nil, problem
	}
	if strings.HasPrefix(c.Writer, "sequence") && len(c.Sizes) == 0 {
		return nil, ""
	}
	one := func(text []byte, which string, mate bool) {
		switch c.Pre {
		case "overwrite":
			if bytes.Contains(text, []byte("#STALE#")) {
				fails = append(fails, [3]string{which + "stale-content-kept",
					fmt.Sprintf("the %d bytes of the existing file were not discarded: file is %q", len(c04stale), c04clip(text)), "file"})
				return
			}
		case "append":
			if !bytes.HasPrefix(text, c04stale) {
				fails = append(fails, [3]string{which + "existing-content-lost", fmt.Sprintf("file is %q", c04clip(text)), "file"})
				return
			}
			text = text[len(c04stale):]
		}
		if f, d := c04content(c, text, mate); f != "" {
			fails = append(fails, [3]string{which + f, d, "history"})
		}
	}
	if obs.r1missing != "" {
		fails = append(fails, [3]string{"file-missing", "the output file cannot be read when WaitForLastPipe returned: " + obs.r1missing, "file"})
	} else {
		one(obs.r1, "", false)
	}
	if c.Paired {
		if !obs.r2exists {
			fails = append(fails, [3]string{"R2:file-missing", "the file of the paired reads does not exist", "file"})
		} else {
			one(obs.r2, "R2:", true)
		}
	}
	if obs.open > 0 {
		fails = append(fails, [3]string{"descriptor-left-open", fmt.Sprintf("%d descriptor(s) still open on the output file(s) when WaitForLastPipe returned", obs.open), "any"})
	}
	return fails, ""
}

// ---------------------------------------------------------------- content family: strings needing escapes

var c04tokens = []string{"\\", "u", "0041", "\"", "\x01", "\x1f", "\n", "\t", "<&>", "é", ",", "x", " ", "}"}

var c04places = []string{"value", "key", "definition", "id"}

// c04valueClass names what in the value is known to matter to an encoder.
func c04valueClass(v string) string {
	ctl := false
	for _, ch := range v {
		if ch < 0x20 && ch != '\n' && ch != '\t' {
			ctl = true
		}
	}
	bu := strings.Contains(v, "\\u")
	switch {
	case ctl && bu:
		return "control-char+backslash-u"
	case ctl:
		return "control-char"
	case bu:
		return "backslash-u"
	}
	return "other-characters"
}

// c04preflight runs the real formatter of the writer on every batch in a goroutine of its own, so
// that a panic or a log.Fatal of the formatter is an observed outcome instead of the death of the
// shard. Returns the concatenated document as the writer would frame it.
func c04preflight(c c04case) (doc []byte, crash string) {
	done := make(chan struct{})
	go func() {
		defer close(done)
		defer func() {
			if r := recover(); r != nil {
				if e, ok := r.(*log.Entry); ok {
					crash = "panic: " + e.Message
				} else {
					crash = fmt.Sprintf("panic: %v", r)
				}
			}
		}()
		batches, _, _ := c04batches(c)
		opt := MakeOptions(c04caseOpts(c))
		var buf bytes.Buffer
		switch c.Writer {
		case "json":
			buf.WriteString("[\n")
			first := true
			for _, b := range batches {
				t := FormatJSONBatch(b)
				if len(t) == 0 {
					continue
				}
				if !first {
					buf.WriteString(",\n")
				}
				buf.Write(t)
				first = false
			}
			buf.WriteString("\n]\n")
		case "csv":
			for _, b := range batches {
				buf.Write(FormatCVSBatch(b, opt))
			}
		}
		doc = buf.Bytes()
	}()
	<-done
	select {
	case f := <-c04fatalCh:
		crash = "fatal: " + f
	default:
	}
	return
}

// ---------------------------------------------------------------- reference model of the buffer

// c04model runs the arrival history on the boring model of a re-sequencing buffer and returns the
// emission order plus the length of the longest drain (number of buffered chunks flushed at once).
func c04model(arrival []int) (emitted []int, maxDrain int, maxBuffered int) {
	next := 0
	buf := map[int]bool{}
	for _, o := range arrival {
		if o == next {
			emitted = append(emitted, o)
			next++
			d := 0
			for buf[next] {
				delete(buf, next)
				emitted = append(emitted, next)
				next++
				d++
			}
			if d > maxDrain {
				maxDrain = d
			}
		} else {
			buf[o] = true
			if len(buf) > maxBuffered {
				maxBuffered = len(buf)
			}
		}
	}
	return
}

func c04inputClass(c c04case) string {
	sorted := sort.IntsAreSorted(c.Arrival)
	empty := false
	for _, s := range c.Sizes {
		if s == 0 {
			empty = true
		}
	}
	switch {
	case sorted && !empty:
		return "in-order"
	case sorted && empty:
		return "in-order+empty-batch"
	case !sorted && !empty:
		return "out-of-order"
	}
	return "out-of-order+empty-batch"
}

func c04writerName(w string) string {
	return map[string]string{"fasta": "WriteFasta", "fastq": "WriteFastq", "json": "WriteJSON", "csv": "WriteCSV", "csv-auto": "WriteCSV(auto-columns)",
		"sequence": "WriteSequence", "sequence+q": "WriteSequence"}[w]
}

func c04valid(c c04case) error {
	if c04writerName(c.Writer) == "" {
		return fmt.Errorf("unknown writer %q", c.Writer)
	}
	if len(c.Arrival) != len(c.Sizes) {
		return fmt.Errorf("arrival and sizes differ in length")
	}
	seen := map[int]bool{}
	total := 0
	for i, a := range c.Arrival {
		if a < 0 || a >= len(c.Sizes) || seen[a] {
			return fmt.Errorf("arrival is not a permutation")
		}
		seen[a] = true
		if c.Sizes[i] < 0 {
			return fmt.Errorf("negative batch size")
		}
		total += c.Sizes[i]
	}
	switch c.Family {
	case "":
	case "file":
		if c04entryName(c.Writer) == "" {
			return fmt.Errorf("no file entry point for writer %q", c.Writer)
		}
		if c.Pre != "fresh" && c.Pre != "overwrite" && c.Pre != "append" {
			return fmt.Errorf("pre must be fresh, overwrite or append")
		}
	case "zerolen":
		if len(c.Zero) != total {
			return fmt.Errorf("zero must have one entry per record")
		}
		if c.Writer == "csv-auto" {
			return fmt.Errorf("zerolen is not defined for csv-auto")
		}
		if !c.Skip && c.Writer != "json" && c.Writer != "csv" {
			return fmt.Errorf("a zero-length record without OptionsSkipEmptySequence ends the program by design (log.Fatal): not a case")
		}
	case "content":
		if c.Writer != "json" && c.Writer != "csv" {
			return fmt.Errorf("content is defined for json and csv")
		}
		if !utf8.ValidString(c.Value) || strings.Contains(c.Value, "\r") {
			return fmt.Errorf("value must be valid UTF-8 without carriage return")
		}
		ok := false
		for _, p := range c04places {
			ok = ok || p == c.Place
		}
		if !ok {
			return fmt.Errorf("unknown place %q", c.Place)
		}
	case "csvopt":
		if c.Writer != "csv" || c.Csv == nil {
			return fmt.Errorf("csvopt needs writer csv and a csv spec")
		}
		if len(c04csvModelHeader(c)) < 2 {
			return fmt.Errorf("fewer than 2 declared columns")
		}
	default:
		return fmt.Errorf("unknown family %q", c.Family)
	}
	if c.Family != "zerolen" && len(c.Zero) > 0 {
		return fmt.Errorf("zero only with family zerolen")
	}
	return nil
}

func c04has2(sv []int) bool {
	for _, x := range sv {
		if x > 1 {
			return true
		}
	}
	return false
}

// c04sizeVectors: every vector of n batch sizes over 0..maxv.
func c04sizeVectors(n, maxv int) [][]int {
	var out [][]int
	v := make([]int, n)
	var rec func(i int)
	rec = func(i int) {
		if i == n {
			out = append(out, append([]int{}, v...))
			return
		}
		for x := 0; x <= maxv; x++ {
			v[i] = x
			rec(i + 1)
		}
	}
	rec(0)
	return out
}

func c04sum(v []int) int {
	t := 0
	for _, x := range v {
		t += x
	}
	return t
}

// c04bitVectors: every 0/1 vector of length k.
func c04bitVectors(k int) [][]int {
	return c04sizeVectors(k, 1)
}

// ---------------------------------------------------------------- driver

func TestVerifC04(t *testing.T) {
	c04installExit()
	r := verifkit.New("C04")
	defer r.Write()
	defer func() {
		if c04tmpDir != "" {
			os.RemoveAll(c04tmpDir)
		}
	}()

	// bounds: n <= nFull with every size vector over {0,1,2}; n <= nSub with every vector over {0,1}
	// (every subset of empty batches); n <= nFew with at most 2 empty batches.
	nFull, nSub, nFew := 5, 5, 5
	// the modes without Close (all writers; through gzip too) run for n <= nModes
	nModes := 4
	// families: file entry points n <= nFile, zero-length records n <= nZero, strings needing escapes
	// of <= kReal tokens through the writers and <= kFmt tokens through their formatters
	nFile, nZero, kReal, kFmt := 3, 3, 2, 3
	if verifkit.Thorough() {
		nFull, nSub, nFew = 6, 6, 7
		nModes = 5
		nFile, nZero, kReal, kFmt = 4, 4, 3, 4
	}

	poison := func(c c04case, name, problem, class, mode string) {
		pc := problem
		if i := strings.Index(pc, ":"); i >= 0 {
			pc = pc[:i]
		}
		c04poisoned = pc
		r.Violate(fmt.Sprintf("%s/%s:%s", name, pc, class),
			fmt.Sprintf("%s (%s) arrival=%v sizes=%v: %s", name, mode, c.Arrival, c.Sizes, problem), c)
	}

	// original family: one arrival history on the in-memory sink, every mode
	evalHistory := func(c c04case) {
		n := len(c.Sizes)
		emitted, maxDrain, _ := c04model(c.Arrival)
		if len(emitted) != n {
			panic("c04: model did not emit every batch")
		}
		class := c04inputClass(c)
		r.Eval(1)
		r.State(fmt.Sprintf("%s|%v|%v", c.Writer, c.Arrival, c.Sizes))
		r.Count("class:"+class, 1)
		if !sort.IntsAreSorted(c.Arrival) {
			r.Count("out_of_order_arrival", 1)
		}
		if maxDrain >= 1 {
			r.Count("drain>=1", 1)
		}
		if maxDrain >= 2 {
			r.Count("drain>=2", 1)
		}
		modes := []string{c04plain, c04gzip}
		if c.Writer == "json" || c.Writer == "csv" || c.Writer == "csv-auto" || n <= nModes {
			modes = append(modes, c04noclose)
		}
		if n <= nModes {
			modes = append(modes, c04gznoclose)
		}
		if c.Mode != "" {
			modes = []string{c.Mode}
		}
		plainFails := map[string]bool{}
		for _, mode := range modes {
			fails, problem := c04check(c, mode)
			r.Count("runs:"+mode, 1)
			r.Trans(int64(n))
			if problem != "" {
				poison(c, c04writerName(c.Writer), problem, class, mode)
				return
			}
			if len(fails) == 0 {
				r.Count("ok:"+mode, 1)
			}
			for _, f := range fails {
				key := fmt.Sprintf("%s/%s:%s", c04writerName(c.Writer), f[0], class)
				if mode == c04plain {
					plainFails[f[0]] = true
				} else {
					if plainFails[f[0]] {
						continue // same failure as the plain run of the same history: one key
					}
					// a failure of one mode only does not depend on the history class
					key = fmt.Sprintf("%s/%s[%s-only]", c04writerName(c.Writer), f[0], mode)
				}
				r.Violate(key, fmt.Sprintf("%s (%s) arrival=%v sizes=%v: %s", c04writerName(c.Writer), mode, c.Arrival, c.Sizes, f[1]), c)
			}
		}
	}

	// families on the sink with content-related options (zerolen, csvopt, content through the writer)
	evalSink := func(c c04case, class string) {
		r.Eval(1)
		r.Count("family:"+c.Family, 1)
		fails, problem := c04check(c, c04plain)
		r.Trans(int64(len(c.Sizes)))
		if problem != "" {
			poison(c, c04writerName(c.Writer), problem, class, c04plain)
			return
		}
		if len(fails) == 0 {
			r.Count("ok:"+c.Family, 1)
		}
		for _, f := range fails {
			r.Violate(fmt.Sprintf("%s/%s:%s", c04writerName(c.Writer), f[0], class),
				fmt.Sprintf("%s arrival=%v sizes=%v zero=%v skip=%v value=%q place=%s csv=%+v: %s", c04writerName(c.Writer), c.Arrival, c.Sizes, c.Zero, c.Skip, c.Value, c.Place, c.Csv, f[1]), c)
		}
	}

	evalFile := func(c c04case) {
		r.Eval(1)
		r.Count("family:file", 1)
		r.Count("file:"+c.Pre, 1)
		if c.Paired {
			r.Count("file:paired", 1)
		}
		if c.Workers > 1 {
			r.Count("file:3-workers(schedules sampled)", 1)
		}
		name := c04entryName(c.Writer)
		if c.Paired {
			name += "[paired]"
		}
		fails, problem := c04checkFile(c)
		r.Trans(int64(len(c.Sizes)))
		if problem != "" {
			poison(c, name, problem, c.Pre+","+c04inputClass(c), "file")
			return
		}
		if len(fails) == 0 {
			r.Count("ok:file", 1)
		}
		for _, f := range fails {
			key := fmt.Sprintf("%s/%s:%s", name, f[0], c04inputClass(c))
			switch f[2] {
			case "file":
				key = fmt.Sprintf("%s/%s:%s", name, f[0], c.Pre)
			case "any":
				key = fmt.Sprintf("%s/%s", name, f[0])
			}
			r.Violate(key,
				fmt.Sprintf("%s file=%s paired=%v workers=%d arrival=%v sizes=%v: %s", name, c.Pre, c.Paired, c.Workers, c.Arrival, c.Sizes, f[1]), c)
		}
	}

	// content: the formatter first (a crash of the formatter is an outcome, not the death of the
	// shard), then - real = true - the whole writer
	evalContent := func(c c04case, real bool) {
		where := "annotation"
		if c.Place == "id" {
			where = "id"
		}
		class := c04valueClass(c.Value) + "-in-" + where
		r.Count("class:"+class, 1)
		doc, crash := c04preflight(c)
		r.Count("family:content(formatter)", 1)
		if crash != "" {
			r.Eval(1)
			if strings.HasPrefix(crash, "fatal") {
				c04poisoned = "fatal"
			}
			kind := crash
			if i := strings.Index(kind, ":"); i >= 0 {
				kind = kind[:i]
			}
			r.Violate(fmt.Sprintf("%s/formatter-%s:%s", c04writerName(c.Writer), kind, class),
				fmt.Sprintf("%s: formatting a record whose %s is %q: %s", c04writerName(c.Writer), c.Place, c.Value, crash), c)
			return
		}
		if real {
			evalSink(c, class)
			return
		}
		r.Eval(1)
		if f, d := c04content(c, doc, false); f != "" {
			r.Violate(fmt.Sprintf("%s/%s:%s", c04writerName(c.Writer), f, class),
				fmt.Sprintf("%s (formatter output framed as the writer does) %s=%q: %s", c04writerName(c.Writer), c.Place, c.Value, d), c)
		} else {
			r.Count("ok:content(formatter)", 1)
		}
	}

	eval := func(c c04case) {
		if c04poisoned != "" {
			r.Cap("cases skipped after a " + c04poisoned + " (global pipe registry unusable in this process)")
			return
		}
		switch c.Family {
		case "":
			evalHistory(c)
		case "file":
			evalFile(c)
		case "zerolen":
			evalSink(c, "zero-length-records,"+c04inputClass(c))
		case "csvopt":
			evalSink(c, "column-options")
		case "content":
			evalContent(c, c.Mode != "formatter")
		}
	}

	if rc := r.ReplayCase(); rc != nil {
		var c c04case
		if err := stdjson.Unmarshal(rc, &c); err != nil {
			t.Fatal(err)
		}
		if err := c04valid(c); err != nil {
			t.Fatal(err)
		}
		eval(c)
		return
	}

	r.Bound("n_batches_all_size_vectors_0_1_2", nFull)
	r.Bound("n_batches_all_subsets_of_empty_batches", nSub)
	r.Bound("n_batches_at_most_2_empty_batches", nFew)
	r.Bound("n_batches_modes_without_close", nModes)
	r.Bound("n_batches_file_entry_points", nFile)
	r.Bound("n_batches_zero_length_records", nZero)
	r.Bound("tokens_per_string_through_writer", kReal)
	r.Bound("tokens_per_string_through_formatter", kFmt)
	r.Bound("tokens", c04tokens)
	r.Bound("formatting_workers", 1)
	r.Bound("formatting_workers_file_entry_points", "1 (arrival order forced) and 3 (push order forced, arrival order left to the Go scheduler: sampled)")
	r.Bound("modes", "plain+close, gzip+close, plain without close, gzip without close")
	r.RequireNonVacuous("out_of_order_arrival")
	r.RequireNonVacuous("drain>=2")
	r.RequireNonVacuous("class:out-of-order+empty-batch")
	r.RequireNonVacuous("file:paired")
	r.RequireNonVacuous("family:zerolen")
	r.RequireNonVacuous("family:csvopt")
	r.RequireNonVacuous("family:content(formatter)")

	sizeVectors := func(n int) [][]int {
		var out [][]int
		maxv := 1
		if n <= nFull {
			maxv = 2
		}
		for _, v := range c04sizeVectors(n, maxv) {
			empties := 0
			for _, x := range v {
				if x == 0 {
					empties++
				}
			}
			if n > nSub && empties > 2 {
				continue
			}
			out = append(out, v)
		}
		return out
	}

	k := 0
	stopped := func() bool {
		if c04poisoned != "" {
			r.Cap("enumeration stopped after a " + c04poisoned)
			return true
		}
		return r.Expired()
	}

	// ---- families of the audit first (small), then the arrival histories by increasing n

	// file-name entry points
	for n := 0; n <= nFile; n++ {
		svs := c04sizeVectors(n, 2)
		verifkit.Permutations(n, func(p []int) {
			for _, sv := range svs {
				for _, w := range []string{"fasta", "fastq", "json", "csv", "sequence", "sequence+q"} {
					if strings.HasPrefix(w, "sequence") && n == 0 {
						continue
					}
					for _, pre := range []string{"fresh", "overwrite", "append"} {
						for _, paired := range []bool{false, true} {
							for _, workers := range []int{1, 3} {
								if r.Mine(k) && !r.Expired() {
									eval(c04case{Writer: w, Arrival: append([]int{}, p...), Sizes: sv, Family: "file", Pre: pre, Paired: paired, Workers: workers})
								}
								k++
							}
						}
					}
				}
			}
		})
		if stopped() {
			return
		}
	}

	// zero-length sequences
	for n := 1; n <= nZero; n++ {
		svs := c04sizeVectors(n, 2)
		verifkit.Permutations(n, func(p []int) {
			for _, sv := range svs {
				for _, zv := range c04bitVectors(c04sum(sv)) {
					if c04sum(zv) == 0 {
						continue // no zero-length record: the original family
					}
					for _, w := range []string{"fasta", "fastq", "sequence", "sequence+q", "json", "csv"} {
						skips := []bool{true}
						if w == "json" || w == "csv" {
							skips = []bool{false, true}
						}
						for _, skip := range skips {
							if r.Mine(k) && !r.Expired() {
								eval(c04case{Writer: w, Arrival: append([]int{}, p...), Sizes: sv, Family: "zerolen", Zero: zv, Skip: skip})
							}
							k++
						}
					}
				}
			}
		})
		if stopped() {
			return
		}
	}

	// CSV column options (one out-of-order history with a drain: batches of 1 and 2 records)
	for bits := 0; bits < 64; bits++ {
		for _, keys := range [][]string{{}, {"k1"}, {"k1", "absent"}, {"k,2", "k1"}} {
			for _, na := range []string{"NA", "", "n,a"} {
				sp := &c04csvSpec{Id: bits&1 != 0, Count: bits&2 != 0, Taxon: bits&4 != 0, Definition: bits&8 != 0,
					Sequence: bits&16 != 0, Quality: bits&32 != 0, Keys: keys, NA: na}
				c := c04case{Writer: "csv", Arrival: []int{1, 0}, Sizes: []int{1, 2}, Family: "csvopt", Csv: sp}
				if len(c04csvModelHeader(c)) < 2 {
					continue // a single column may give blank lines, which CSV readers skip: not constrained
				}
				if r.Mine(k) && !r.Expired() {
					eval(c)
				}
				k++
			}
		}
	}
	if stopped() {
		return
	}

	// strings needing escapes
	for ntok := 0; ntok <= kFmt; ntok++ {
		idx := make([]int, ntok)
		for {
			var sb strings.Builder
			for _, i := range idx {
				sb.WriteString(c04tokens[i])
			}
			v := sb.String()
			for _, w := range []string{"json", "csv"} {
				for _, place := range c04places {
					if r.Mine(k) && !r.Expired() {
						c := c04case{Writer: w, Arrival: []int{1, 0}, Sizes: []int{1, 1}, Family: "content", Value: v, Place: place}
						if ntok > kReal {
							c.Mode = "formatter"
						}
						eval(c)
					}
					k++
				}
			}
			// next tuple
			j := ntok - 1
			for j >= 0 {
				idx[j]++
				if idx[j] < len(c04tokens) {
					break
				}
				idx[j] = 0
				j--
			}
			if j < 0 {
				break
			}
		}
		if stopped() {
			return
		}
	}

	// arrival histories
	sampled := 0
	for n := 0; n <= nFew; n++ {
		svs := sizeVectors(n)
		stop := false
		verifkit.Permutations(n, func(p []int) {
			if stop {
				return
			}
			for _, sv := range svs {
				for _, w := range c04writers {
					if strings.HasPrefix(w, "sequence") && (c04has2(sv) || n == 0) {
						// dispatcher: every subset of empty batches, batches of one record; on a
						// stream without any batch WriteSequence starts no writer (nothing to check)
						continue
					}
					if r.Mine(k) {
						c := c04case{Writer: w, Arrival: append([]int{}, p...), Sizes: sv}
						eval(c)
						if sampled < 6 && n >= 3 && !sort.IntsAreSorted(p) {
							r.Sample(c)
							sampled++
						}
					}
					k++
				}
			}
			if r.Expired() || c04poisoned != "" {
				stop = true
			}
		})
		if stop {
			if c04poisoned != "" {
				r.Cap("enumeration stopped after a " + c04poisoned)
			}
			return
		}
	}
}
