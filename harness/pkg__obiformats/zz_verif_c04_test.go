//go:build verif

package obiformats

// C04 — writers emit every batch once, in increasing batch number, as well-formed
// FASTA / FASTQ / JSON / CSV, and close the output after the last one.
//
// E1 (engine B, this file): for each of the real WriteFasta / WriteFastq / WriteJSON / WriteCSV,
// every arrival history of the writer goroutine is forced without a scheduler:
//
//   - a hand-fed iterator (MakeIBioSequence; Add(1); go WaitAndClose; Push from ONE goroutine; Done)
//     feeds the writer configured with ONE formatting worker. All channels on the path are
//     unbuffered and the single worker sends chunk k to the writer goroutine before it takes
//     batch k+1, so the order of arrival at the re-sequencing buffer is exactly the push order;
//   - enumerated: every number of batches n, every permutation of 0..n-1 as arrival order, every
//     vector of batch sizes (0 = empty batch, 1, 2 records) i.e. every subset of empty batches and
//     every partition of the records r0..r(k-1) over the non-empty ones;
//   - each history runs with a plain sink, through gzip (OptionsCompressed) and, for JSON / CSV, in
//     the "stdout" mode of obiconvert --json-output / obicsv (OptionDontCloseFile).
//
// The dispatcher WriteSequence (universal_write.go: peeks the first batch, PushBack, then WriteFasta
// or WriteFastq) is driven the same way with records without and with qualities.
//
// Oracle (reference model = concatenation of the per-batch renderings in increasing batch number):
//   FASTA/FASTQ  ids re-parsed from the output are r0..r(k-1) in order and the bytes equal the
//                concatenation of FormatFastaBatch / FormatFastqBatch of batch 0,1,..,n-1;
//   JSON         the whole output decodes (encoding/json) as ONE array of objects whose ids are
//                r0..r(k-1) in order;
//   CSV (n>=1)   encoding/csv gives exactly one header row then one row per record in order;
//   close        when obiiter.WaitForLastPipe() returns (what every obitools main waits for before
//                exiting) the sink has been closed exactly once and nothing was written after it.

import (
	"bytes"
	stdgzip "compress/gzip"
	"encoding/csv"
	stdjson "encoding/json"
	"fmt"
	"io"
	"runtime"
	"sort"
	"strings"
	"sync"
	"testing"
	"time"

	"git.metabarcoding.org/obitools/obitools4/obitools4/pkg/obiiter"
	"git.metabarcoding.org/obitools/obitools4/obitools4/pkg/obiseq"
	"git.metabarcoding.org/obitools/obitools4/obitools4/pkg/verifkit"
	log "github.com/sirupsen/logrus"
)

// ---------------------------------------------------------------- case (replayable)

type c04case struct {
	Writer  string `json:"writer"`  // fasta | fastq | json | csv | sequence | sequence+q (WriteSequence dispatcher, records without / with qualities)
	Arrival []int  `json:"arrival"` // batch numbers in the order they reach the writer goroutine
	Sizes   []int  `json:"sizes"`   // Sizes[i] = number of records of batch number i (0 = empty batch)
}

var c04writers = []string{"fasta", "fastq", "json", "csv", "csv-auto", "sequence", "sequence+q"}

// c04format gives the format the output must have. WriteSequence looks at the first batch it
// receives: FASTQ when that batch is not empty and its first record has qualities, FASTA otherwise.
func c04format(c c04case) string {
	switch c.Writer {
	case "sequence":
		return "fasta"
	case "sequence+q":
		if len(c.Arrival) > 0 && c.Sizes[c.Arrival[0]] > 0 {
			return "fastq"
		}
		return "fasta"
	}
	return c.Writer
}

// ---------------------------------------------------------------- in-memory sink

type c04sink struct {
	mu              sync.Mutex
	buf             bytes.Buffer
	writes          int
	closes          int
	lenAtFirstClose int
	bytesAfterClose int
}

func (s *c04sink) Write(p []byte) (int, error) {
	s.mu.Lock()
	defer s.mu.Unlock()
	if s.closes > 0 {
		s.bytesAfterClose += len(p)
	}
	s.writes++
	s.buf.Write(p)
	return len(p), nil
}

func (s *c04sink) Close() error {
	s.mu.Lock()
	defer s.mu.Unlock()
	if s.closes == 0 {
		s.lenAtFirstClose = s.buf.Len()
	}
	s.closes++
	return nil
}

type c04obs struct {
	out             []byte
	closes          int
	bytesAfterClose int
	lenAtFirstClose int
}

// ---------------------------------------------------------------- fatal / hang interception

var (
	c04fatalCh  = make(chan string, 16)
	c04poisoned string // set after a hang or a fatal: the global pipe registry is no longer usable
)

func c04installExit() {
	log.SetOutput(io.Discard)
	log.StandardLogger().ExitFunc = func(int) {
		select {
		case c04fatalCh <- "log.Fatal":
		default:
		}
		runtime.Goexit()
	}
}

// ---------------------------------------------------------------- input construction

var c04bases = []string{"acgt", "ttgca", "gattaca", "cc", "atatatat", "g", "tgca", "caggt", "aac", "ggtt", "acacgt", "t", "cgcg", "tagc"}

func c04id(r int) string { return fmt.Sprintf("r%d", r) }

// c04batches builds fresh batches: batch number i holds Sizes[i] records, ids r0.. in batch order.
func c04batches(c c04case) (batches []obiiter.BioSequenceBatch, ids []string) {
	r := 0
	for i, sz := range c.Sizes {
		sl := make(obiseq.BioSequenceSlice, 0, sz)
		for j := 0; j < sz; j++ {
			s := c04bases[r%len(c04bases)]
			seq := obiseq.NewBioSequence(c04id(r), []byte(s), "")
			if c.Writer == "fastq" || c.Writer == "sequence+q" {
				q := make([]byte, len(s))
				for x := range q {
					q[x] = byte(10 + (r+x)%30)
				}
				seq.SetQualities(q)
			}
			sl = append(sl, seq)
			ids = append(ids, c04id(r))
			r++
		}
		batches = append(batches, obiiter.MakeBioSequenceBatch("c04", i, sl))
	}
	return
}

// ---------------------------------------------------------------- running the real writer

const (
	c04plain   = "plain"
	c04gzip    = "gzip"
	c04noclose = "stdout-mode"
)

// c04run pushes the batches of c in arrival order through the real writer and returns what the
// sink saw at the time WaitForLastPipe returned. problem != "" : hang / fatal (run unusable).
func c04run(c c04case, mode string) (obs c04obs, problem string) {
	batches, _ := c04batches(c)
	sink := &c04sink{}
	opts := []WithOption{OptionsParallelWorkers(1)}
	if mode == c04noclose {
		opts = append(opts, OptionDontCloseFile())
	} else {
		opts = append(opts, OptionCloseFile())
	}
	if mode == c04gzip {
		opts = append(opts, OptionsCompressed(true))
	}

	done := make(chan struct{})
	go func() {
		it := obiiter.MakeIBioSequence()
		it.Add(1)
		go it.WaitAndClose()

		var out obiiter.IBioSequence
		var err error
		if c.Writer == "sequence" || c.Writer == "sequence+q" {
			// WriteSequence blocks on the first batch before it chooses the format: feed from a
			// second goroutine (still ONE pusher, so the arrival order is the push order).
			go func() {
				for _, o := range c.Arrival {
					it.Push(batches[o])
				}
				it.Done()
			}()
			out, err = WriteSequence(it, sink, opts...)
			if err != nil {
				panic(err)
			}
			for out.Next() {
			}
			obiiter.WaitForLastPipe()
			close(done)
			return
		}
		fedAhead := false
		if c.Writer == "csv-auto" {
			// WriteCSV in auto-column mode blocks on the first batch before it returns: feed from a
			// second goroutine (still ONE pusher, so the arrival order is the push order)
			fedAhead = true
			go func() {
				for _, o := range c.Arrival {
					it.Push(batches[o])
				}
				it.Done()
			}()
		}
		switch c.Writer {
		case "fasta":
			out, err = WriteFasta(it, sink, opts...)
		case "fastq":
			out, err = WriteFastq(it, sink, opts...)
		case "json":
			out, err = WriteJSON(it, sink, opts...)
		case "csv":
			out, err = WriteCSV(it, sink, opts...)
		case "csv-auto": // obicsv --auto: the attribute columns are deduced from the first batch
			out, err = WriteCSV(it, sink, append(append([]WithOption{}, opts...), CSVAutoColumn(true))...)
		default:
			panic("c04: unknown writer " + c.Writer)
		}
		if err != nil {
			panic(err)
		}
		go func() { // consumer of the pass-through iterator
			for out.Next() {
			}
		}()
		if !fedAhead {
			for _, o := range c.Arrival {
				it.Push(batches[o])
			}
			it.Done()
		}
		obiiter.WaitForLastPipe()
		close(done)
	}()

	// Hang detection must not depend on one wall-clock reading (the sandbox clock can jump while
	// the process is frozen): a hang is declared only after 1200 separate 50 ms sleeps, each of
	// which this process really had to sit through, all ended without the run finishing.
	finished := false
	for tick := 0; tick < 1200 && !finished; tick++ {
		select {
		case <-done:
			finished = true
		case f := <-c04fatalCh:
			return obs, "fatal:" + f
		case <-time.After(50 * time.Millisecond):
		}
	}
	if !finished {
		return obs, "hang"
	}
	select { // a fatal in a goroutine that did not prevent termination
	case f := <-c04fatalCh:
		return obs, "fatal:" + f
	default:
	}
	sink.mu.Lock()
	defer sink.mu.Unlock()
	obs = c04obs{out: append([]byte{}, sink.buf.Bytes()...), closes: sink.closes,
		bytesAfterClose: sink.bytesAfterClose, lenAtFirstClose: sink.lenAtFirstClose}
	return obs, ""
}

// ---------------------------------------------------------------- oracle

// c04seqDiag classifies a wrong record sequence.
func c04seqDiag(got, want []string) string {
	if len(got) == len(want) {
		same := true
		for i := range got {
			if got[i] != want[i] {
				same = false
				break
			}
		}
		if same {
			return ""
		}
	}
	cnt := map[string]int{}
	for _, g := range got {
		cnt[g]++
	}
	wantSet := map[string]bool{}
	for _, w := range want {
		wantSet[w] = true
	}
	for g, n := range cnt {
		if !wantSet[g] {
			return "records-garbled"
		}
		if n > 1 {
			return "records-duplicated"
		}
	}
	for _, w := range want {
		if cnt[w] == 0 {
			return "records-missing"
		}
	}
	return "records-misordered"
}

// c04fastaIds / c04fastqIds: boring independent readers of the ids.
func c04fastaIds(text []byte) []string {
	ids := []string{}
	for _, l := range strings.Split(string(text), "\n") {
		if strings.HasPrefix(l, ">") {
			ids = append(ids, strings.SplitN(l[1:], " ", 2)[0])
		}
	}
	return ids
}

func c04fastqIds(text []byte) ([]string, bool) {
	ids := []string{}
	if len(text) == 0 {
		return ids, true
	}
	if text[len(text)-1] != '\n' {
		return nil, false
	}
	lines := strings.Split(string(text[:len(text)-1]), "\n")
	if len(lines)%4 != 0 {
		return nil, false
	}
	for i := 0; i < len(lines); i += 4 {
		if !strings.HasPrefix(lines[i], "@") || lines[i+2] != "+" || len(lines[i+1]) != len(lines[i+3]) {
			return nil, false
		}
		ids = append(ids, strings.SplitN(lines[i][1:], " ", 2)[0])
	}
	return ids, true
}

// c04content checks the decoded text against the property; returns (failure class, detail).
func c04content(c c04case, text []byte) (string, string) {
	batches, want := c04batches(c)
	format := c04format(c)
	switch format {
	case "fasta", "fastq":
		var ref bytes.Buffer
		opt := MakeOptions(nil)
		for _, b := range batches { // increasing batch number
			if format == "fasta" {
				ref.Write(FormatFastaBatch(b, opt.FormatFastSeqHeader(), false).Bytes())
			} else {
				ref.Write(FormatFastqBatch(b, opt.FormatFastSeqHeader(), false).Bytes())
			}
		}
		var got []string
		ok := true
		if format == "fasta" {
			got = c04fastaIds(text)
		} else {
			got, ok = c04fastqIds(text)
		}
		if !ok {
			return "malformed-fastq", fmt.Sprintf("output %q", text)
		}
		if d := c04seqDiag(got, want); d != "" {
			return d, fmt.Sprintf("ids in output %v want %v", got, want)
		}
		if !bytes.Equal(text, ref.Bytes()) {
			return "bytes-differ", fmt.Sprintf("output %q want %q", text, ref.Bytes())
		}
	case "json":
		var arr []map[string]any
		dec := stdjson.NewDecoder(bytes.NewReader(text))
		if err := dec.Decode(&arr); err != nil {
			return "invalid-json", fmt.Sprintf("%v; output %q", err, c04clip(text))
		}
		var extra any
		if err := dec.Decode(&extra); err != io.EOF {
			return "invalid-json", fmt.Sprintf("data after the array; output %q", c04clip(text))
		}
		if arr == nil { // the document was the literal null
			return "invalid-json", fmt.Sprintf("not an array; output %q", c04clip(text))
		}
		got := []string{}
		for _, o := range arr {
			id, _ := o["id"].(string)
			got = append(got, id)
		}
		if d := c04seqDiag(got, want); d != "" {
			return d, fmt.Sprintf("ids in array %v want %v", got, want)
		}
	case "csv-auto":
		if len(c.Sizes) == 0 {
			return "", ""
		}
		// which attribute columns the header holds is not constrained; one header line (holding the id
		// column), then one row per record in order
		rd := csv.NewReader(bytes.NewReader(text))
		rd.FieldsPerRecord = -1
		rows, err := rd.ReadAll()
		if err != nil {
			return "invalid-csv", fmt.Sprintf("%v; output %q", err, c04clip(text))
		}
		idcol := -1
		if len(rows) > 0 {
			for i, h := range rows[0] {
				if h == "id" {
					idcol = i
				}
			}
		}
		if len(rows) == 0 || idcol < 0 {
			return "header-missing", fmt.Sprintf("first row is not a header; output %q", c04clip(text))
		}
		got := []string{}
		for _, row := range rows[1:] {
			if strings.Join(row, ",") == strings.Join(rows[0], ",") {
				return "header-repeated", fmt.Sprintf("output %q", c04clip(text))
			}
			if len(row) != len(rows[0]) {
				return "invalid-csv", fmt.Sprintf("row %v has %d fields, header has %d", row, len(row), len(rows[0]))
			}
			got = append(got, row[idcol])
		}
		if d := c04seqDiag(got, want); d != "" {
			return d, fmt.Sprintf("ids in rows %v want %v", got, want)
		}
	case "csv":
		if len(c.Sizes) == 0 {
			return "", "" // the statement constrains CSV only for a stream of at least one batch
		}
		rd := csv.NewReader(bytes.NewReader(text))
		rd.FieldsPerRecord = -1
		rows, err := rd.ReadAll()
		if err != nil {
			return "invalid-csv", fmt.Sprintf("%v; output %q", err, c04clip(text))
		}
		header := CSVHeader(MakeOptions(nil))
		idcol := -1
		for i, h := range header {
			if h == "id" {
				idcol = i
			}
		}
		isHeader := func(row []string) bool {
			if len(row) != len(header) {
				return false
			}
			for i := range row {
				if row[i] != header[i] {
					return false
				}
			}
			return true
		}
		if len(rows) == 0 || !isHeader(rows[0]) {
			return "header-missing", fmt.Sprintf("first row is not the header; output %q", c04clip(text))
		}
		got := []string{}
		for _, row := range rows[1:] {
			if isHeader(row) {
				return "header-repeated", fmt.Sprintf("output %q", c04clip(text))
			}
			if len(row) != len(header) {
				return "invalid-csv", fmt.Sprintf("row %v has %d fields, header has %d", row, len(row), len(header))
			}
			got = append(got, row[idcol])
		}
		if d := c04seqDiag(got, want); d != "" {
			return d, fmt.Sprintf("ids in rows %v want %v", got, want)
		}
	}
	return "", ""
}

func c04clip(b []byte) string {
	s := string(b)
	s = strings.ReplaceAll(s, "\n", "⏎")
	s = strings.Join(strings.Fields(s), " ")
	if len(s) > 400 {
		s = s[:400] + "…"
	}
	return s
}

// c04check evaluates one run (one mode). Returns failure classes with details (usually 0 or 1).
func c04check(c c04case, mode string) (fails [][2]string, problem string) {
	obs, problem := c04run(c, mode)
	if problem != "" {
		return nil, problem
	}
	if strings.HasPrefix(c.Writer, "sequence") && len(c.Sizes) == 0 {
		// WriteSequence on a stream without any batch starts no writer at all: there is no
		// "last batch" after which the statement asks for anything
		return nil, ""
	}
	text := obs.out
	if mode == c04gzip {
		zr, err := stdgzip.NewReader(bytes.NewReader(obs.out))
		if err != nil {
			fails = append(fails, [2]string{"gzip-stream-invalid", fmt.Sprintf("%v (%d bytes)", err, len(obs.out))})
			text = nil
		} else {
			t, err := io.ReadAll(zr)
			if err != nil {
				fails = append(fails, [2]string{"gzip-stream-invalid", fmt.Sprintf("%v (%d bytes)", err, len(obs.out))})
				text = nil
			} else {
				text = t
			}
		}
	}
	if len(fails) == 0 {
		if f, d := c04content(c, text); f != "" {
			fails = append(fails, [2]string{f, d})
		}
	}
	if mode != c04noclose {
		switch {
		case obs.closes == 0:
			fails = append(fails, [2]string{"not-closed", "output not closed when WaitForLastPipe returned"})
		case obs.closes > 1:
			fails = append(fails, [2]string{"closed-twice", fmt.Sprintf("Close called %d times", obs.closes)})
		}
		if obs.bytesAfterClose > 0 {
			fails = append(fails, [2]string{"write-after-close", fmt.Sprintf("%d bytes written after Close (closed at byte %d)", obs.bytesAfterClose, obs.lenAtFirstClose)})
		}
	}
	return fails, ""
}

// ---------------------------------------------------------------- reference model of the buffer

// c04model runs the arrival history on the boring model of a re-sequencing buffer and returns the
// emission order plus the length of the longest drain (number of buffered chunks flushed at once).
func c04model(arrival []int) (emitted []int, maxDrain int, maxBuffered int) {
	next := 0
	buf := map[int]bool{}
	for _, o := range arrival {
		if o == next {
			emitted = append(emitted, o)
			next++
			d := 0
			for buf[next] {
				delete(buf, next)
				emitted = append(emitted, next)
				next++
				d++
			}
			if d > maxDrain {
				maxDrain = d
			}
		} else {
			buf[o] = true
			if len(buf) > maxBuffered {
				maxBuffered = len(buf)
			}
		}
	}
	return
}

func c04inputClass(c c04case) string {
	sorted := sort.IntsAreSorted(c.Arrival)
	empty := false
	for _, s := range c.Sizes {
		if s == 0 {
			empty = true
		}
	}
	switch {
	case sorted && !empty:
		return "in-order"
	case sorted && empty:
		return "in-order+empty-batch"
	case !sorted && !empty:
		return "out-of-order"
	}
	return "out-of-order+empty-batch"
}

func c04writerName(w string) string {
	return map[string]string{"fasta": "WriteFasta", "fastq": "WriteFastq", "json": "WriteJSON", "csv": "WriteCSV", "csv-auto": "WriteCSV(auto-columns)",
		"sequence": "WriteSequence", "sequence+q": "WriteSequence"}[w]
}

func c04valid(c c04case) error {
	if c04writerName(c.Writer) == "" {
		return fmt.Errorf("unknown writer %q", c.Writer)
	}
	if len(c.Arrival) != len(c.Sizes) {
		return fmt.Errorf("arrival and sizes differ in length")
	}
	seen := map[int]bool{}
	for _, a := range c.Arrival {
		if a < 0 || a >= len(c.Sizes) || seen[a] {
			return fmt.Errorf("arrival is not a permutation")
		}
		seen[a] = true
	}
	return nil
}

func c04has2(sv []int) bool {
	for _, x := range sv {
		if x > 1 {
			return true
		}
	}
	return false
}

// ---------------------------------------------------------------- driver

func TestVerifC04(t *testing.T) {
	c04installExit()
	r := verifkit.New("C04")
	defer r.Write()

	eval := func(c c04case) {
		if c04poisoned != "" {
			r.Cap("cases skipped after a " + c04poisoned + " (global pipe registry unusable in this process)")
			return
		}
		n := len(c.Sizes)
		emitted, maxDrain, _ := c04model(c.Arrival)
		if len(emitted) != n {
			panic("c04: model did not emit every batch")
		}
		class := c04inputClass(c)
		r.Eval(1)
		r.State(fmt.Sprintf("%s|%v|%v", c.Writer, c.Arrival, c.Sizes))
		r.Count("class:"+class, 1)
		if !sort.IntsAreSorted(c.Arrival) {
			r.Count("out_of_order_arrival", 1)
		}
		if maxDrain >= 1 {
			r.Count("drain>=1", 1)
		}
		if maxDrain >= 2 {
			r.Count("drain>=2", 1)
		}
		modes := []string{c04plain, c04gzip}
		if c.Writer == "json" || c.Writer == "csv" || c.Writer == "csv-auto" {
			modes = append(modes, c04noclose)
		}
		plainFails := map[string]bool{}
		for _, mode := range modes {
			fails, problem := c04check(c, mode)
			r.Count("runs:"+mode, 1)
			r.Trans(int64(n))
			if problem != "" {
				pc := problem
				if i := strings.Index(pc, ":"); i >= 0 {
					pc = pc[:i]
				}
				c04poisoned = pc
				r.Violate(fmt.Sprintf("%s/%s:%s", c04writerName(c.Writer), pc, class),
					fmt.Sprintf("%s (%s) arrival=%v sizes=%v: %s", c04writerName(c.Writer), mode, c.Arrival, c.Sizes, problem), c)
				return
			}
			if len(fails) == 0 {
				r.Count("ok:"+mode, 1)
			}
			for _, f := range fails {
				key := fmt.Sprintf("%s/%s:%s", c04writerName(c.Writer), f[0], class)
				if mode == c04plain {
					plainFails[f[0]] = true
				} else {
					if plainFails[f[0]] {
						continue // same failure as the plain run of the same history: one key
					}
					key += "[" + mode + "-only]"
				}
				r.Violate(key, fmt.Sprintf("%s (%s) arrival=%v sizes=%v: %s", c04writerName(c.Writer), mode, c.Arrival, c.Sizes, f[1]), c)
			}
		}
	}

	if rc := r.ReplayCase(); rc != nil {
		var c c04case
		if err := stdjson.Unmarshal(rc, &c); err != nil {
			t.Fatal(err)
		}
		if err := c04valid(c); err != nil {
			t.Fatal(err)
		}
		eval(c)
		return
	}

	// bounds: n <= nFull with every size vector over {0,1,2}; n <= nSub with every vector over {0,1}
	// (every subset of empty batches); n <= nFew with at most 2 empty batches.
	nFull, nSub, nFew := 5, 5, 5
	if verifkit.Thorough() {
		nFull, nSub, nFew = 6, 6, 7
	}
	r.Bound("n_batches_all_size_vectors_0_1_2", nFull)
	r.Bound("n_batches_all_subsets_of_empty_batches", nSub)
	r.Bound("n_batches_at_most_2_empty_batches", nFew)
	r.Bound("formatting_workers", 1)
	r.Bound("modes", "plain+close, gzip+close, (json,csv) plain without close")
	r.RequireNonVacuous("out_of_order_arrival")
	r.RequireNonVacuous("drain>=2")
	r.RequireNonVacuous("class:out-of-order+empty-batch")

	sizeVectors := func(n int) [][]int {
		var out [][]int
		maxv := 1
		if n <= nFull {
			maxv = 2
		}
		v := make([]int, n)
		var rec func(i int)
		rec = func(i int) {
			if i == n {
				empties := 0
				for _, x := range v {
					if x == 0 {
						empties++
					}
				}
				if n > nSub && empties > 2 {
					return
				}
				out = append(out, append([]int{}, v...))
				return
			}
			for x := 0; x <= maxv; x++ {
				v[i] = x
				rec(i + 1)
			}
		}
		rec(0)
		return out
	}

	k := 0
	sampled := 0
	for n := 0; n <= nFew; n++ {
		svs := sizeVectors(n)
		stop := false
		verifkit.Permutations(n, func(p []int) {
			if stop {
				return
			}
			for _, sv := range svs {
				for _, w := range c04writers {
					if strings.HasPrefix(w, "sequence") && (c04has2(sv) || n == 0) {
						// dispatcher: every subset of empty batches, batches of one record; on a
						// stream without any batch WriteSequence starts no writer (nothing to check)
						continue
					}
					if r.Mine(k) {
						c := c04case{Writer: w, Arrival: append([]int{}, p...), Sizes: sv}
						eval(c)
						if sampled < 6 && n >= 3 && !sort.IntsAreSorted(p) {
							r.Sample(c)
							sampled++
						}
					}
					k++
				}
			}
			if r.Expired() || c04poisoned != "" {
				stop = true
			}
		})
		if stop {
			if c04poisoned != "" {
				r.Cap("enumeration stopped after a " + c04poisoned)
			}
			return
		}
	}
}
