//go:build verif

package obiformats

// Engine A harnesses on the two stream components of package obiformats that route batches:
//
//   files-reader (C03): ReadSequencesBatchFromFiles with 1..2 concurrent readers over 2..3 "files"
//     (the reader is a parameter: a stub returning hand-fed iterators) — every record exactly once,
//     batch numbers exactly 0..m-1, termination.
//   dispatcher (C16): Distribute on a key + WriterDispatcher with a formater that drains each output
//     into memory — every record routed to exactly one output chosen from the record alone, outputs
//     in input order, termination.

import (
	"encoding/json"
	"fmt"
	"io"
	"os"
	"runtime"
	"runtime/debug"
	"sort"
	"strings"
	"testing"

	"git.metabarcoding.org/obitools/obitools4/obitools4/pkg/obiiter"
	"git.metabarcoding.org/obitools/obitools4/obitools4/pkg/obiseq"
	"git.metabarcoding.org/obitools/obitools4/obitools4/pkg/verifkit"
	"git.metabarcoding.org/obitools/obitools4/obitools4/pkg/vsched"
	vsync "git.metabarcoding.org/obitools/obitools4/obitools4/pkg/vsched/vsync"
	log "github.com/sirupsen/logrus"
)

type c03fParam struct {
	Scn       string   `json:"scn"`
	Files     [][]int  `json:"files,omitempty"` // per file: sizes of its batches
	Readers   int      `json:"readers,omitempty"`
	Arrival   string   `json:"arrival,omitempty"` // files-reader: "" = each file delivers its batches in order, "reversed", "rotated" (numbered, out of order: what the parallel title-line parsers of the real readers do)
	Parts     []int    `json:"parts,omitempty"`   // dispatcher: sizes of the input batches
	Batch     int      `json:"batch,omitempty"`
	Mode      string   `json:"mode"`
	Bound     int      `json:"bound"`
	Policy    int      `json:"policy"`
	Choices   []int    `json:"choices,omitempty"`
	Conflicts []string `json:"conflicts,omitempty"` // racy-access sites that were scheduling points (replay)
}

func c03fFeed(prefix string, parts []int, keyOf func(k int) string) obiiter.IBioSequence {
	return c03fFeedArrival(prefix, parts, keyOf, "")
}

func c03fFeedArrival(prefix string, parts []int, keyOf func(k int) string, arrival string) obiiter.IBioSequence {
	it := obiiter.MakeIBioSequence()
	it.Add(1)
	vsched.Go(func() { it.WaitAndClose() })
	vsched.Go(func() {
		k := 0
		batches := make([]obiiter.BioSequenceBatch, 0, len(parts))
		for b, sz := range parts {
			sl := obiseq.MakeBioSequenceSlice()
			for i := 0; i < sz; i++ {
				s := obiseq.NewBioSequence(fmt.Sprintf("%s%d", prefix, k), []byte("acgt"), "")
				if keyOf != nil {
					s.SetAttribute("sample", keyOf(k))
				}
				sl = append(sl, s)
				k++
			}
			batches = append(batches, obiiter.MakeBioSequenceBatch(prefix, b, sl))
		}
		switch arrival {
		case "reversed":
			for i, j := 0, len(batches)-1; i < j; i, j = i+1, j-1 {
				batches[i], batches[j] = batches[j], batches[i]
			}
		case "rotated":
			if len(batches) > 1 {
				batches = append(batches[1:], batches[0])
			}
		}
		for _, b := range batches {
			it.Push(b)
		}
		it.Done()
	})
	return it
}

func c03fBody(p c03fParam) string {
	switch p.Scn {
	case "files-reader":
		names := make([]string, len(p.Files))
		for i := range names {
			names[i] = fmt.Sprintf("f%d", i)
		}
		reader := func(name string, options ...WithOption) (obiiter.IBioSequence, error) {
			var i int
			fmt.Sscanf(name, "f%d", &i)
			return c03fFeedArrival(name+"_", p.Files[i], nil, p.Arrival), nil
		}
		it := ReadSequencesBatchFromFiles(names, reader, p.Readers)
		var lines []string
		for it.Next() {
			b := it.Get()
			var ids []string
			for _, s := range b.Slice() {
				ids = append(ids, s.Id())
			}
			lines = append(lines, fmt.Sprintf("%d:%s", b.Order(), strings.Join(ids, ",")))
		}
		return strings.Join(lines, "\n")
	case "dispatcher":
		keyOf := func(k int) string { return []string{"A", "B", "A", "C", "B", "A"}[k%6] }
		src := c03fFeed("r", p.Parts, keyOf)
		d := src.Distribute(obiseq.AnnotationClassifier("sample", "NA"), p.Batch)
		var mu vsync.Mutex
		files := map[string][]string{}
		formater := func(iterator obiiter.IBioSequence, filename string, options ...WithOption) (obiiter.IBioSequence, error) {
			out := obiiter.MakeIBioSequence()
			out.Add(1)
			vsched.Go(func() { out.WaitAndClose() })
			vsched.Go(func() {
				for iterator.Next() {
					b := iterator.Get()
					mu.Lock()
					for _, s := range b.Slice() {
						files[filename] = append(files[filename], fmt.Sprintf("%d:%s", b.Order(), s.Id()))
					}
					mu.Unlock()
					out.Push(b)
				}
				out.Done()
			})
			return out, nil
		}
		WriterDispatcher("out_%s.fasta", d, formater)
		var names []string
		for n := range files {
			names = append(names, n)
		}
		sort.Strings(names)
		var lines []string
		for _, n := range names {
			lines = append(lines, n+" = "+strings.Join(files[n], " "))
		}
		return strings.Join(lines, "\n")
	}
	panic("unknown scenario")
}

func c03fOracle(p c03fParam, got string) (string, string) {
	switch p.Scn {
	case "files-reader":
		want := map[string]bool{}
		total := 0
		nb := 0
		for i, f := range p.Files {
			k := 0
			for _, sz := range f {
				nb++
				for j := 0; j < sz; j++ {
					want[fmt.Sprintf("f%d_%d", i, k)] = true
					k++
					total++
				}
			}
		}
		seenOrder := map[int]int{}
		seen := map[string]int{}
		lines := 0
		// per file, records must come in the order of the file
		last := map[string]int{}
		for _, l := range strings.Split(got, "\n") {
			if l == "" {
				continue
			}
			lines++
			var o int
			parts := strings.SplitN(l, ":", 2)
			fmt.Sscanf(parts[0], "%d", &o)
			seenOrder[o]++
		}
		sorted := strings.Split(got, "\n")
		sort.SliceStable(sorted, func(a, b int) bool {
			var x, y int
			fmt.Sscanf(sorted[a], "%d:", &x)
			fmt.Sscanf(sorted[b], "%d:", &y)
			return x < y
		})
		for _, l := range sorted {
			if l == "" {
				continue
			}
			parts := strings.SplitN(l, ":", 2)
			for _, id := range strings.Split(parts[1], ",") {
				if id == "" {
					continue
				}
				seen[id]++
				var fi, k int
				fmt.Sscanf(id, "f%d_%d", &fi, &k)
				key := fmt.Sprintf("f%d", fi)
				if prev, ok := last[key]; ok && k < prev {
					return "reordered", fmt.Sprintf("records of %s out of file order:\n%s", key, got)
				}
				last[key] = k
			}
		}
		if p.Readers == 1 {
			// one reader = ordered input (the default of every command: several files WITHOUT --no-order):
			// the stream is the concatenation of the files in the order of the list
			var gotIds, wantIds []string
			for _, l := range sorted {
				if l == "" {
					continue
				}
				for _, id := range strings.Split(strings.SplitN(l, ":", 2)[1], ",") {
					if id != "" {
						gotIds = append(gotIds, id)
					}
				}
			}
			for i, f := range p.Files {
				k := 0
				for _, sz := range f {
					for j := 0; j < sz; j++ {
						wantIds = append(wantIds, fmt.Sprintf("f%d_%d", i, k))
						k++
					}
				}
			}
			if len(gotIds) == len(wantIds) && strings.Join(gotIds, ",") != strings.Join(wantIds, ",") {
				sg := append([]string{}, gotIds...)
				sw := append([]string{}, wantIds...)
				sort.Strings(sg)
				sort.Strings(sw)
				if strings.Join(sg, ",") == strings.Join(sw, ",") {
					return "reordered:files-not-in-list-order", fmt.Sprintf("one reader: records delivered as %v, the files in list order give %v:\n%s", gotIds, wantIds, got)
				}
			}
		}
		for id := range want {
			if seen[id] == 0 {
				return "lost", fmt.Sprintf("record %s never delivered:\n%s", id, got)
			}
			if seen[id] > 1 {
				return "duplicated", fmt.Sprintf("record %s delivered %d times:\n%s", id, seen[id], got)
			}
		}
		for id := range seen {
			if !want[id] {
				return "wrong", fmt.Sprintf("unexpected record %s:\n%s", id, got)
			}
		}
		if lines != nb {
			return "numbering", fmt.Sprintf("%d batches delivered for %d input batches:\n%s", lines, nb, got)
		}
		for i := 0; i < lines; i++ {
			if seenOrder[i] != 1 {
				return "numbering", fmt.Sprintf("batch numbers are not exactly 0..%d:\n%s", lines-1, got)
			}
		}
		return "", ""
	case "dispatcher":
		keyOf := func(k int) string { return []string{"A", "B", "A", "C", "B", "A"}[k%6] }
		n := 0
		for _, sz := range p.Parts {
			n += sz
		}
		want := map[string][]string{}
		for k := 0; k < n; k++ {
			f := "out_" + keyOf(k) + ".fasta"
			want[f] = append(want[f], fmt.Sprintf("r%d", k))
		}
		gotf := map[string][]string{}
		for _, l := range strings.Split(got, "\n") {
			if l == "" {
				continue
			}
			parts := strings.SplitN(l, " = ", 2)
			type rec struct {
				o  int
				id string
			}
			var recs []rec
			for _, e := range strings.Fields(parts[1]) {
				var o int
				var id string
				sp := strings.SplitN(e, ":", 2)
				fmt.Sscanf(sp[0], "%d", &o)
				id = sp[1]
				recs = append(recs, rec{o, id})
			}
			sort.SliceStable(recs, func(a, b int) bool { return recs[a].o < recs[b].o })
			for _, r := range recs {
				gotf[parts[0]] = append(gotf[parts[0]], r.id)
			}
		}
		for f, w := range want {
			g := gotf[f]
			if strings.Join(g, ",") != strings.Join(w, ",") {
				class := "wrong-routing"
				if len(g) < len(w) {
					class = "record-lost"
				}
				return class, fmt.Sprintf("output %s holds %v, expected %v\nall outputs:\n%s", f, g, w, got)
			}
		}
		for f := range gotf {
			if _, ok := want[f]; !ok {
				return "wrong-routing", fmt.Sprintf("unexpected output %s:\n%s", f, got)
			}
		}
		return "", ""
	}
	return "harness", "no oracle"
}

// c03fExplore = vsched.Explore, except that a failure of the engine's self check "the same schedule run twice gives the same
// trace and the same verdict" (a panic of the engine; it never fails on the pinned tree) is returned instead of ending
// the shard: a tree whose behaviour depends on what earlier executions left behind (package-level state: a counter, a
// cache, a sync.Once) is reported as a violation (control-run/not-deterministic) and the job is given up.
func c03fExplore(cfg vsched.Config, body func(x *vsched.Exec)) (st *vsched.Stats, diverged string) {
	defer func() {
		if e := recover(); e != nil {
			if s, ok := e.(string); ok && strings.HasPrefix(s, "vsched: replay of a") {
				st, diverged = &vsched.Stats{Outcomes: map[string]int64{}, TraceHashes: map[uint64]struct{}{}}, s
				return
			}
			panic(e)
		}
	}()
	return vsched.Explore(cfg, body), ""
}

func TestVerifC03F(t *testing.T) {
	log.SetOutput(io.Discard)
	log.StandardLogger().ExitFunc = vsched.Exit
	scn := os.Getenv("VERIF_SCN")
	if scn == "" {
		scn = "files-reader"
	}
	r := verifkit.New("C03")
	defer r.Write()
	// the explorer identifies locations by address: no collection (address re-use) inside an execution
	defer debug.SetGCPercent(debug.SetGCPercent(-1))
	nexec := 0
	reset := func() {
		nexec++
		if nexec%256 == 0 {
			runtime.GC()
		}
	}

	check := func(p c03fParam) func(x *vsched.Exec) string {
		return func(x *vsched.Exec) (msg string) {
			if x.Outcome() != "" {
				return x.Outcome() + "|" + x.Detail()
			}
			got, _ := x.Obs.(string)
			// the observation is built from what the tree delivers (record ids, output names): one the oracle
			// cannot take apart is a verdict on the tree, not the end of the shard
			defer func() {
				if e := recover(); e != nil {
					msg = fmt.Sprintf("unparsable-observation|the oracle cannot take the delivered records apart (%v):\n%s", e, got)
				}
			}()
			c, d := c03fOracle(p, got)
			if c == "" {
				return ""
			}
			return c + "|" + d
		}
	}

	if rc := r.ReplayCase(); rc != nil {
		var p c03fParam
		if err := json.Unmarshal(rc, &p); err != nil {
			t.Fatal(err)
		}
		x := vsched.RunOncePolicy(p.Policy, p.Choices, 20000, vsched.ConflictSet(p.Conflicts), nil, func(x *vsched.Exec) { x.Obs = c03fBody(p) })
		msg := check(p)(x)
		r.Eval(1)
		if msg != "" {
			r.Violate(p.Scn+"/replay", msg, p)
		}
		fmt.Println("replay:", msg)
		return
	}

	var jobs []c03fParam
	bound := 1
	if verifkit.Thorough() {
		bound = 2
	}
	if scn == "files-reader" {
		fileSets := [][][]int{{{1}, {1}}, {{2, 1}, {1}}, {{1, 1}, {0, 2}}, {{1}, {}, {2}}, {{}, {}}}
		if verifkit.Thorough() {
			fileSets = append(fileSets, [][]int{{1, 1}, {1, 1}, {1}}, [][]int{{3}, {1, 0, 1}})
		}
		for _, fs := range fileSets {
			multi := false
			for _, f := range fs {
				if len(f) > 1 {
					multi = true
				}
			}
			for _, rd := range []int{1, 2} {
				for pol := 0; pol <= 1; pol++ {
					jobs = append(jobs, c03fParam{Scn: scn, Files: fs, Readers: rd, Mode: "delay", Bound: bound, Policy: pol})
					if multi {
						// the real readers number their batches and deliver them out of order
						jobs = append(jobs, c03fParam{Scn: scn, Files: fs, Readers: rd, Arrival: "reversed", Mode: "delay", Bound: bound, Policy: pol})
						if verifkit.Thorough() {
							jobs = append(jobs, c03fParam{Scn: scn, Files: fs, Readers: rd, Arrival: "rotated", Mode: "delay", Bound: bound, Policy: pol})
						}
					}
				}
				if len(fs) <= 2 && verifkit.Thorough() {
					jobs = append(jobs, c03fParam{Scn: scn, Files: fs, Readers: rd, Mode: "full"})
				}
			}
		}
	} else {
		partsSets := [][]int{{1}, {2, 1}, {3}, {0, 2, 2}, {6}, {}}
		if verifkit.Thorough() {
			partsSets = append(partsSets, []int{2, 2, 2}, []int{1, 0, 5})
		}
		for _, ps := range partsSets {
			for _, bs := range []int{1, 2} {
				for pol := 0; pol <= 1; pol++ {
					jobs = append(jobs, c03fParam{Scn: scn, Parts: ps, Batch: bs, Mode: "delay", Bound: bound, Policy: pol})
				}
			}
		}
	}
	r.Bound("jobs", len(jobs))
	r.Bound("scenario", scn)
	for k, p := range jobs {
		if !r.Mine(k) {
			continue
		}
		if r.Expired() {
			break
		}
		if k < 2 {
			r.Sample(p)
		}
		cfg := vsched.Config{Name: p.Scn, Preemptions: p.Bound, DelayBounding: p.Mode == "delay", Full: p.Mode == "full",
			Policy: p.Policy, Horizon: 20000, MaxExec: 300000, Expired: r.Expired, Check: check(p), Reset: reset}
		vsched.MapOrderChoices = true
		st, div := c03fExplore(cfg, func(x *vsched.Exec) { x.Obs = c03fBody(p) })
		vsched.MapOrderChoices = false
		if div != "" {
			r.Violate("obiformats/"+p.Scn+"/control-run/not-deterministic", fmt.Sprintf("%s files=%v arrival=%q readers=%d parts=%v batch=%d mode=%s policy=%d: %s", p.Scn, p.Files, p.Arrival, p.Readers, p.Parts, p.Batch, p.Mode, p.Policy, div), p)
			r.Cap(fmt.Sprintf("exploration of %s %v %v mode=%s given up: the same schedule does not give the same execution twice", p.Scn, p.Files, p.Parts, p.Mode))
			continue
		}
		r.Eval(st.Executions)
		r.Trace(st.Executions)
		r.Trans(st.Points)
		r.Replayed(st.ReplaysChecked)
		r.Count("hb_states", st.States)
		r.Count("jobs_"+p.Mode, 1)
		r.Count("schedules_executed", st.Executions)
		for o, n := range st.Outcomes {
			r.Count("outcome_"+o, n)
		}
		for h := range st.TraceHashes {
			r.StateH(h)
		}
		if st.Capped {
			r.Cap(fmt.Sprintf("execution cap / deadline reached for %s %v %v mode=%s", p.Scn, p.Files, p.Parts, p.Mode))
		}
		seen := map[string]bool{}
		for _, v := range st.Violations {
			parts := strings.SplitN(v.Desc, "|", 2)
			key := "obiformats/" + p.Scn + "/" + parts[0]
			if p.Arrival != "" && !strings.Contains(parts[0], "files-not-in-list-order") {
				key += ":batches-of-a-file-arrive-out-of-order"
			}
			if seen[key] {
				continue
			}
			seen[key] = true
			q := p
			q.Choices = v.Choices
			q.Conflicts = v.Conflicts
			r.Violate(key, fmt.Sprintf("%s files=%v arrival=%q readers=%d parts=%v batch=%d mode=%s policy=%d: %s [schedule=%v]", p.Scn, p.Files, p.Arrival, p.Readers, p.Parts, p.Batch, p.Mode, p.Policy, parts[1], v.Choices), q)
		}
	}
	r.RequireNonVacuous("schedules_executed") // what the harness did; how the executions ended is the tree's answer
}
