//go:build verif

package obiformats

// C18 — output write failures are reported, never followed by a successful exit (in-process part).
//
// Fault enumeration on the real writers. The io.WriteCloser handed to WriteFasta / WriteFastq /
// WriteJSON / WriteCSV (and, for the re-sequencing drain loop in isolation, to WriteSeqFileChunk) is
// a sink that fails
//
//	persist@k  the sink accepts exactly k bytes, the Write crossing offset k is short and returns an
//	           error, every later Write returns (0, error); Close succeeds (disk full, /dev/full)
//	oneshot@k  the Write crossing offset k is short and returns an error once; later Writes succeed
//	close      every Write succeeds, Close returns an error
//
// for EVERY byte offset k of the bytes the sink receives in the fault-free run of the same history
// (for gzip: offsets of the compressed stream), x {plain, gzip} x every split of the result into
// 1..3 batches x every arrival order of the batches at the writer (hand-fed iterator + 1 worker =>
// the arrival order at the writer goroutine is exactly the push order).
//
// The process model is the one of every obitools main: "the command exits 0" <=> no log.Fatal was
// raised before obiiter.WaitForLastPipe() returned. log.Fatal is intercepted by logrus' ExitFunc,
// which records the FIRST exit code and returns. Returning (instead of runtime.Goexit / blocking
// the goroutine) lets the pipeline wind down by itself, so that the global pipe WaitGroup of obiiter
// is balanced again for the next case and no goroutine is leaked over ~10^6 cases; whatever the code
// does after the first recorded exit is ignored by the oracle (the real process would be dead).
//
// Oracle (no more than the statement): either an exit with a non-zero code was recorded, or every
// byte of the fault-free output of the same history reached the sink and Close did not fail.
//
// Violation keys: <writer>:<plain|gzip>/<phase>/silent-success where phase is the place of the
// failing sink operation: "write" (a Write issued while batches are being written; for gzip any
// Write of the compressed stream), "final-flush" (the Write issued by the bufio flush inside
// obiutils.Wfile.Close, recognised on the call stack), "close" (the Close fault);
// chunkwriter/<main-write|drain-write|close>/silent-success for WriteSeqFileChunk driven alone
// (position of the failing chunk computed from the arrival order); <target>/hang on a deadlock.
//
// Gzip cases run in child processes of this test binary (see c18child): the parallel gzip writer
// leaks a goroutine and a 1 MiB buffer whenever its Close gives up on an error.
//
// Added by the audit (see c18variant, c18runFS):
//
//   - writer configurations the commands really use but that were never enumerated: WriteJSON /
//     WriteCSV with OptionDontCloseFile (what Write{JSON,CSV}ToStdout pass: the sink is flushed by
//     Wfile.Close but never closed), WriteCSV in auto-column mode (first batch peeked and pushed
//     back by the constructor), the universal writer WriteSequence (format chosen on the first
//     batch) -> writers json-nc csv-nc csv-auto seq-fa seq-fq;
//   - fault kind persist+close: the sink stops accepting bytes at offset k AND its Close fails;
//   - entry "file": the exported Write{Fasta,Fastq,JSON,CSV,Sequences}ToFile wrappers on REAL files
//     (single, paired output through WritePairedReadsTo, append mode through OptionsAppendFile on a
//     pre-filled file) and entry "dispatch": WriterDispatcher over a real Distribute (what
//     obidistribute and the on-disk chunks of obiuniq do). The disk-full fault is produced by the
//     kernel: RLIMIT_FSIZE = k makes every write(2) that would take a regular file beyond k bytes
//     short / fail with EFBIG (SIGXFSZ ignored), exactly the persist@k shape, for EVERY k, on every
//     file of the case at once (the pre-filled file of the append cases reaches the limit first).
//     Oracle: a non-zero exit was recorded, or every file holds the bytes of the fault-free run.
//     Keys: <entry>:<writer>[+paired][+append]:<plain|gzip>/<role of the short file>/silent-success.

import (
	"bufio"
	"encoding/json"
	"errors"
	"fmt"
	"hash/fnv"
	"io"
	"os"
	"os/exec"
	"os/signal"
	"path/filepath"
	"runtime"
	"sort"
	"strings"
	"sync"
	"syscall"
	"testing"
	"time"

	"git.metabarcoding.org/obitools/obitools4/obitools4/pkg/obiiter"
	"git.metabarcoding.org/obitools/obitools4/obitools4/pkg/obiseq"
	"git.metabarcoding.org/obitools/obitools4/obitools4/pkg/verifkit"
	log "github.com/sirupsen/logrus"
)

// ---------------------------------------------------------------- case description (replayable)

type c18case struct {
	Writer  string `json:"writer"`           // fasta fastq json csv chunk
	Gzip    bool   `json:"gzip"`             // OptionsCompressed
	Data    string `json:"data"`             // S M L G (see c18dataset)
	Split   []int  `json:"split"`            // number of records of each batch, in batch order
	Arrival []int  `json:"arrival"`          // arrival order of the batches at the writer
	Fault   string `json:"fault"`            // none persist oneshot close persist+close fsize
	K       int    `json:"k"`                // byte offset of the fault in the sink's stream (fsize: RLIMIT_FSIZE)
	Entry   string `json:"entry,omitempty"`  // "" failing sink | file (Write*ToFile) | dispatch (WriterDispatcher)
	Paired  bool   `json:"paired,omitempty"` // file: WritePairedReadsTo(second file)
	Append  string `json:"append,omitempty"` // file/dispatch: append mode, this file is pre-filled
	Class   string `json:"class,omitempty"`  // dispatch: rot2 | count
}

func (c c18case) hist() string {
	z := "plain"
	if c.Gzip {
		z = "gzip"
	}
	if c.Entry != "" {
		return fmt.Sprintf("%s data=%s split=%v arrival=%v", c.target(), c.Data, c.Split, c.Arrival)
	}
	return fmt.Sprintf("%s:%s data=%s split=%v arrival=%v", c.Writer, z, c.Data, c.Split, c.Arrival)
}

func (c c18case) target() string {
	if c.Entry != "" {
		t := c.Entry
		if c.Entry == "dispatch" {
			t += "(" + c.Class + ")"
		}
		t += ":" + c.Writer
		if c.Paired {
			t += "+paired"
		}
		if c.Append != "" {
			t += "+append(" + c.Append + ")"
		}
		if c.Gzip {
			return t + ":gzip"
		}
		return t + ":plain"
	}
	if c.Writer == "chunk" {
		return "chunkwriter"
	}
	if c.Gzip {
		return c.Writer + ":gzip"
	}
	return c.Writer + ":plain"
}

// ---------------------------------------------------------------- exit interception

type c18exitRec struct {
	mu   sync.Mutex
	set  bool
	code int
	n    int
}

var c18exit c18exitRec

func (e *c18exitRec) reset() {
	e.mu.Lock()
	e.set, e.code, e.n = false, 0, 0
	e.mu.Unlock()
}

func (e *c18exitRec) record(code int) {
	e.mu.Lock()
	if !e.set {
		e.set, e.code = true, code
	}
	e.n++
	e.mu.Unlock()
}

func (e *c18exitRec) get() (bool, int, int) {
	e.mu.Lock()
	defer e.mu.Unlock()
	return e.set, e.code, e.n
}

// ---------------------------------------------------------------- the faulting sink

var c18errNoSpace = errors.New("c18: no space left on device (injected)")
var c18errIO = errors.New("c18: input/output error (injected)")
var c18errClose = errors.New("c18: close failed (injected)")

type c18sink struct {
	mu         sync.Mutex
	fault      string
	k          int
	buf        []byte // bytes that reached the sink
	ends       []int  // cumulative offset after each Write call (fault-free runs only)
	record     bool
	ops        int
	fired      bool
	firedWrite int    // index of the Write call that failed first
	firedPhase string // write | final-flush | close
	frozen     []byte // content at the time of the first recorded exit (informative)
	closeCalls int
	closeFail  bool
}

// c18phase tells, from the call stack of the failing sink operation, whether it was issued by the
// flush done inside obiutils.Wfile.Close (the bytes still sitting in the bufio buffer).
func c18phase() string {
	pcs := make([]uintptr, 64)
	n := runtime.Callers(3, pcs)
	frames := runtime.CallersFrames(pcs[:n])
	for {
		f, more := frames.Next()
		if strings.HasSuffix(f.Function, "obiutils.(*Wfile).Close") {
			return "final-flush"
		}
		if !more {
			break
		}
	}
	return "write"
}

func (s *c18sink) Write(p []byte) (int, error) {
	s.mu.Lock()
	defer s.mu.Unlock()
	idx := s.ops
	s.ops++
	switch s.fault {
	case "persist", "persist+close":
		if s.fired {
			return 0, c18errNoSpace
		}
		if len(s.buf)+len(p) > s.k {
			n := s.k - len(s.buf)
			s.buf = append(s.buf, p[:n]...)
			s.fired, s.firedWrite, s.firedPhase = true, idx, c18phase()
			return n, c18errNoSpace
		}
	case "oneshot":
		if !s.fired && len(s.buf) <= s.k && s.k < len(s.buf)+len(p) {
			n := s.k - len(s.buf)
			s.buf = append(s.buf, p[:n]...)
			s.fired, s.firedWrite, s.firedPhase = true, idx, c18phase()
			return n, c18errIO
		}
	}
	s.buf = append(s.buf, p...)
	if s.record {
		s.ends = append(s.ends, len(s.buf))
	}
	return len(p), nil
}

func (s *c18sink) Close() error {
	s.mu.Lock()
	defer s.mu.Unlock()
	s.ops++
	s.closeCalls++
	if s.fault == "close" && s.closeCalls == 1 {
		s.fired, s.firedPhase, s.closeFail = true, "close", true
		return c18errClose
	}
	if s.fault == "persist+close" && s.closeCalls == 1 {
		if !s.fired {
			s.fired, s.firedPhase = true, "close"
		}
		s.closeFail = true
		return c18errClose
	}
	return nil
}

// ---------------------------------------------------------------- data sets

// c18dna is a fixed pseudo-random (LCG, constant seed) DNA string: poorly compressible, so that the
// gzip stream is long enough to have interior offsets.
func c18dna(n int, seed uint32) []byte {
	out := make([]byte, n)
	x := seed*2654435761 + 12345
	for i := range out {
		x = x*1664525 + 1013904223
		out[i] = "acgt"[(x>>24)&3]
	}
	return out
}

type c18rec struct {
	id  string
	seq []byte
}

var c18dataCache = map[string][]*obiseq.BioSequence{}

// c18dataset: S  whole result smaller than the 4 KiB bufio buffer of Wfile (only the flush done by
//
//	   Close ever reaches the sink)
//	M  about three buffers, each record a little larger than one buffer
//	L  one record larger than 64 KiB between two small ones
//	G  one record larger than the 1 MiB block of the parallel gzip writer (gzip only)
func c18dataset(name string, qual bool) []*obiseq.BioSequence {
	key := fmt.Sprintf("%s/%v", name, qual)
	if d, ok := c18dataCache[key]; ok {
		return d
	}
	var lens []int
	switch name {
	case "S":
		lens = []int{23, 31, 17}
	case "M":
		lens = []int{4100, 4200, 4150}
	case "L":
		lens = []int{40, 66000, 50}
	case "G":
		lens = []int{60, 1200000, 45}
	default:
		panic("c18: unknown data set " + name)
	}
	var out []*obiseq.BioSequence
	for i, l := range lens {
		seq := c18dna(l, uint32(i+1)*uint32(len(name)+7))
		s := obiseq.NewBioSequence(fmt.Sprintf("%s%d", strings.ToLower(name), i+1), seq, "")
		if qual {
			q := make(obiseq.Quality, l)
			for j := range q {
				q[j] = uint8(20 + (j*7+i)%20)
			}
			s.SetQualities(q)
		}
		s.SetAttribute("count", i+2)
		out = append(out, s)
	}
	c18dataCache[key] = out
	return out
}

// c18pairedset is c18dataset whose records carry a mate (other bases, same identifier); it is a
// separate set of objects, so that the unpaired cases never see a paired record.
func c18pairedset(name string, qual bool) []*obiseq.BioSequence {
	key := fmt.Sprintf("%s/%v/paired", name, qual)
	if d, ok := c18dataCache[key]; ok {
		return d
	}
	delete(c18dataCache, fmt.Sprintf("%s/%v", name, qual))
	fwd := c18dataset(name, qual)
	delete(c18dataCache, fmt.Sprintf("%s/%v", name, qual)) // the unpaired cases get their own objects
	for i, s := range fwd {
		l := s.Len() + 3 + i
		m := obiseq.NewBioSequence(s.Id(), c18dna(l, uint32(i+11)*uint32(len(name)+5)), "")
		if qual {
			q := make(obiseq.Quality, l)
			for j := range q {
				q[j] = uint8(15 + (j*5+i)%25)
			}
			m.SetQualities(q)
		}
		m.SetAttribute("count", i+2)
		s.PairTo(m)
	}
	c18dataCache[key] = fwd
	return fwd
}

func c18withQual(c c18case) bool {
	return c.Writer == "fastq" || c.Writer == "seq-fq" // qualities only where the format carries them
}

func c18batches(c c18case) []obiiter.BioSequenceBatch {
	data := c18dataset(c.Data, c18withQual(c))
	if c.Paired {
		data = c18pairedset(c.Data, c18withQual(c))
	}
	var out []obiiter.BioSequenceBatch
	p := 0
	for i, n := range c.Split {
		sl := make(obiseq.BioSequenceSlice, n)
		copy(sl, data[p:p+n])
		p += n
		out = append(out, obiiter.MakeBioSequenceBatch("c18", i, sl))
	}
	if p != len(data) {
		panic("c18: split does not cover the data set")
	}
	return out
}

// ---------------------------------------------------------------- running one case on the real code

type c18outcome struct {
	Hung       bool               `json:"hung"`   // deadlocked
	GaveUp     bool               `json:"gaveup"` // still running after c18activeCap (no verdict)
	Exited     bool               `json:"exited"` // an exit was raised (first one recorded)
	Code       int                `json:"code"`
	NExit      int                `json:"nexit"`
	N          int                `json:"n"` // bytes that reached the sink
	H          uint64             `json:"h"` // FNV-1a of these bytes
	Ends       []int              `json:"ends,omitempty"`
	Ops        int                `json:"ops"`
	Fired      bool               `json:"fired"`
	FiredWrite int                `json:"fw"`
	Phase      string             `json:"phase"`
	CloseCalls int                `json:"cc"`
	CloseFail  bool               `json:"cf"`
	Dirty      bool               `json:"dirty,omitempty"` // the call made by the harness goroutine panicked or the constructor refused: process state unknown
	Note       string             `json:"note,omitempty"`  // what happened then
	RSS        int64              `json:"rss,omitempty"`   // child mode: resident set of the child
	Files      map[string]c18fdig `json:"files,omitempty"` // real-file entries: content of every file
}

type c18ref struct {
	n     int
	h     uint64
	ends  []int
	files map[string]c18fdig
}

func c18hash(b []byte) uint64 {
	h := fnv.New64a()
	h.Write(b)
	return h.Sum64()
}

// c18wait waits for the end of a case. A case is declared hung only when it is DEADLOCKED: two
// goroutine dumps taken 3 s apart in which no goroutine (other than the watchdog and the runtime's
// own) is running, runnable, sleeping or in a system call. A slow machine therefore never produces a
// hang verdict; a case still active after c18activeCap ends the shard as "not exhaustive".
const c18firstLook = 20 * time.Second
const c18activeCap = 20 * time.Minute

func c18allBlocked() (bool, string) {
	buf := make([]byte, 4<<20)
	dump := string(buf[:runtime.Stack(buf, true)])
	blocks := strings.Split(dump, "\n\n")
	for i, b := range blocks {
		if i == 0 {
			continue // the calling goroutine
		}
		hdr := b
		if j := strings.IndexByte(b, '\n'); j >= 0 {
			hdr = b[:j]
		}
		lb, rb := strings.IndexByte(hdr, '['), strings.LastIndexByte(hdr, ']')
		if lb < 0 || rb < lb {
			continue
		}
		st := hdr[lb+1 : rb]
		active := strings.HasPrefix(st, "running") || strings.HasPrefix(st, "runnable") ||
			strings.HasPrefix(st, "sleep") || strings.HasPrefix(st, "syscall")
		if active && !strings.Contains(b, "os/signal.") && !strings.Contains(b, "runtime.ensureSigM") {
			return false, dump
		}
	}
	return true, dump
}

func c18wait(done chan struct{}, c c18case) (hung, gaveUp bool) {
	t0 := time.Now()
	first := time.NewTimer(c18firstLook)
	select {
	case <-done:
		first.Stop()
		return false, false
	case <-first.C:
	}
	what := fmt.Sprintf("%s fault=%s@%d", c.hist(), c.Fault, c.K)
	delay := time.Duration(0)
	for {
		select {
		case <-done:
			return false, false
		case <-time.After(delay):
		}
		delay = 5 * time.Second
		if b1, _ := c18allBlocked(); b1 {
			select {
			case <-done:
				return false, false
			case <-time.After(3 * time.Second):
			}
			if b2, dump := c18allBlocked(); b2 {
				select {
				case <-done:
					return false, false
				default:
				}
				fmt.Fprintf(os.Stderr, "c18: DEADLOCK on %s\n%s\n", what, dump)
				return true, false
			}
		}
		if time.Since(t0) > c18activeCap {
			_, dump := c18allBlocked()
			fmt.Fprintf(os.Stderr, "c18: still active after %v: %s\n%s\n", c18activeCap, what, dump)
			return false, true
		}
	}
}

// c18variant describes the writer configurations reachable through the failing sink.
//
//	fasta fastq json csv   WriteX(iterator, sink, 1 worker, OptionCloseFile)           (as before)
//	json-nc csv-nc         the same with OptionDontCloseFile: what WriteJSONToStdout and
//	                       WriteCSVToStdout pass (Wfile.Close flushes, the sink is never closed)
//	csv-auto               WriteCSV with CSVAutoColumn(true): the constructor reads the first batch
//	                       to find the columns and pushes it back
//	seq-fa seq-fq          WriteSequence, the universal writer of Write SequencesTo{File,Stdout}:
//	                       reads the first batch, pushes it back, hands over to WriteFasta/WriteFastq
type c18variant struct {
	base    string // fasta fastq json csv seq
	noClose bool   // OptionDontCloseFile
	auto    bool   // CSVAutoColumn
	early   bool   // the constructor itself reads the iterator: the feeder must already run
}

func c18variantOf(w string) c18variant {
	switch w {
	case "fasta", "fastq", "json", "csv":
		return c18variant{base: w}
	case "json-nc":
		return c18variant{base: "json", noClose: true}
	case "csv-nc":
		return c18variant{base: "csv", noClose: true}
	case "csv-auto":
		return c18variant{base: "csv", auto: true, early: true}
	case "seq-fa", "seq-fq":
		return c18variant{base: "seq", early: true}
	}
	panic("c18: unknown writer " + w)
}

// c18mishap: what the harness goroutine itself met while calling the code under test. A panic of the
// implementation (recovered here; the harness's own panics, prefixed "c18:", are re-raised) is what ends a
// command with exit status 2; an error returned by a writer constructor is what every main turns into
// log.Fatal (exit status 1). Both are recorded as the exit of the modelled process and the outcome is marked
// dirty (pipes may stay registered: nothing more can be decided in this process).
type c18mishap struct {
	mu   sync.Mutex
	note string
}

func (m *c18mishap) set(code int, format string, a ...any) {
	m.mu.Lock()
	if m.note == "" {
		m.note = fmt.Sprintf(format, a...)
	}
	m.mu.Unlock()
	c18exit.record(code)
}

func (m *c18mishap) get() string {
	m.mu.Lock()
	defer m.mu.Unlock()
	return m.note
}

func (m *c18mishap) guard() {
	if p := recover(); p != nil {
		if s, ok := p.(string); ok && strings.HasPrefix(s, "c18:") {
			panic(p)
		}
		m.set(2, "the call panicked: %.300s", fmt.Sprint(p))
	}
}

func c18run(c c18case, record bool) c18outcome {
	if c.Entry != "" {
		return c18runFS(c)
	}
	sink := &c18sink{fault: c.Fault, k: c.K, record: record}
	c18exit.reset()
	done := make(chan struct{})
	mishap := &c18mishap{}
	go func() {
		defer close(done)
		defer mishap.guard()
		if c.Writer == "chunk" {
			// WriteSeqFileChunk alone: chunks are handed to the channel in the arrival order.
			batches := c18batches(c)
			ch := WriteSeqFileChunk(sink, true)
			for _, b := range c.Arrival {
				ch <- SeqFileChunk{Source: "c18", Raw: FormatFastaBatch(batches[b], FormatFastSeqJsonHeader, false), Order: b}
			}
			close(ch)
			obiiter.WaitForLastPipe()
			return
		}
		v := c18variantOf(c.Writer)
		batches := c18batches(c)
		in := obiiter.MakeIBioSequence()
		in.Add(1)
		go in.WaitAndClose()
		feed := func() {
			for _, b := range c.Arrival {
				in.Push(batches[b])
			}
			in.Done()
		}
		if v.early {
			go feed() // the channel of the iterator is unbuffered: the arrival order is unchanged
		}
		opts := []WithOption{OptionsParallelWorkers(1), OptionsCompressed(c.Gzip)}
		if v.noClose {
			opts = append(opts, OptionDontCloseFile())
		} else {
			opts = append(opts, OptionCloseFile())
		}
		var out obiiter.IBioSequence
		var err error
		switch v.base {
		case "fasta":
			out, err = WriteFasta(in, sink, opts...)
		case "fastq":
			out, err = WriteFastq(in, sink, opts...)
		case "json":
			out, err = WriteJSON(in, sink, opts...)
		case "csv":
			out, err = WriteCSV(in, sink, append(opts, CSVCount(true), CSVAutoColumn(v.auto))...)
		case "seq":
			out, err = WriteSequence(in, sink, opts...)
		}
		if err != nil {
			mishap.set(1, "the writer constructor returned the error %q", err.Error())
			if v.early {
				for in.Next() { // let the feeder finish
				}
			}
			return
		}
		if !v.early {
			go feed()
		}
		out.Consume()             // what CLIWrite...(iterator, true) does (Recycle)
		obiiter.WaitForLastPipe() // what every main does before returning (exit 0)
	}()
	var o c18outcome
	o.Hung, o.GaveUp = c18wait(done, c)
	o.Exited, o.Code, o.NExit = c18exit.get()
	o.Note = mishap.get()
	o.Dirty = o.Note != ""
	sink.mu.Lock()
	o.N, o.H = len(sink.buf), c18hash(sink.buf)
	o.Ends = sink.ends
	o.Ops = sink.ops
	o.Fired, o.FiredWrite, o.Phase = sink.fired, sink.firedWrite, sink.firedPhase
	o.CloseCalls, o.CloseFail = sink.closeCalls, sink.closeFail
	sink.mu.Unlock()
	return o
}

// ---------------------------------------------------------------- real files, fault made by the kernel

// c18prefill is the size of the content already present in the file named by c18case.Append.
const c18prefill = 1500

type c18fdig struct {
	N int    `json:"n"`
	H uint64 `json:"h"`
}

var c18rlimMax uint64
var c18rlimOnce sync.Once

func c18setFsize(k int) {
	c18rlimOnce.Do(func() {
		var old syscall.Rlimit
		if err := syscall.Getrlimit(syscall.RLIMIT_FSIZE, &old); err != nil {
			panic(err)
		}
		c18rlimMax = old.Max
	})
	lim := syscall.Rlimit{Cur: c18rlimMax, Max: c18rlimMax}
	if k >= 0 {
		lim.Cur = uint64(k)
	}
	if err := syscall.Setrlimit(syscall.RLIMIT_FSIZE, &lim); err != nil {
		panic(fmt.Sprintf("c18: setrlimit(RLIMIT_FSIZE,%d): %v", k, err))
	}
}

func c18scratch() string {
	base := os.Getenv("C18_SCRATCH")
	if base == "" {
		if st, err := os.Stat("/dev/shm"); err == nil && st.IsDir() {
			base = "/dev/shm"
		} else {
			base = os.TempDir()
		}
	}
	d, err := os.MkdirTemp(base, "c18fs")
	if err != nil {
		panic(err)
	}
	return d
}

// c18appendName is the base name of the pre-filled file of an append case.
func c18appendName(c c18case, ext string) string {
	if c.Entry == "dispatch" {
		n := "chunk_" + c.Append + ".fastx"
		if c.Gzip {
			n += ".gz"
		}
		return n
	}
	return map[string]string{"fwd": "out.", "rev": "rev."}[c.Append] + ext
}

var c18ext = map[string]string{"fasta": "fasta", "fastq": "fastq", "json": "json", "csv": "csv", "seq-fa": "fastx", "seq-fq": "fastx"}

// c18runFS drives the exported file-name entry points on real files. With Fault == "fsize" every
// regular file of the process is limited to K bytes while the writers run.
func c18runFS(c c18case) c18outcome {
	dir := c18scratch()
	defer os.RemoveAll(dir)
	ext := c18ext[c.Writer]
	fwd, rev := filepath.Join(dir, "out."+ext), filepath.Join(dir, "rev."+ext)
	if c.Append != "" {
		if err := os.WriteFile(filepath.Join(dir, c18appendName(c, ext)), c18dna(c18prefill, 77), 0o600); err != nil {
			panic(err)
		}
	}
	c18exit.reset()
	done := make(chan struct{})
	if c.Fault == "fsize" {
		c18setFsize(c.K)
	}
	mishap := &c18mishap{}
	go func() {
		defer close(done)
		defer mishap.guard()
		batches := c18batches(c)
		in := obiiter.MakeIBioSequence()
		in.Add(1)
		go in.WaitAndClose()
		go func() {
			for _, b := range c.Arrival {
				in.Push(batches[b])
			}
			in.Done()
		}()
		opts := []WithOption{OptionsCompressed(c.Gzip)}
		if c.Append != "" {
			opts = append(opts, OptionsAppendFile(true))
		}
		var formater SequenceBatchWriterToFile
		switch c.Writer {
		case "fasta":
			formater = WriteFastaToFile
		case "fastq":
			formater = WriteFastqToFile
		case "json":
			formater = WriteJSONToFile
		case "csv":
			formater = func(it obiiter.IBioSequence, fn string, o ...WithOption) (obiiter.IBioSequence, error) {
				return WriteCSVToFile(it, fn, append(o, CSVCount(true))...)
			}
		case "seq-fa", "seq-fq":
			formater = WriteSequencesToFile
		default:
			panic("c18: unknown writer " + c.Writer)
		}
		switch c.Entry {
		case "file":
			opts = append(opts, OptionsParallelWorkers(1))
			if c.Paired {
				opts = append(opts, WritePairedReadsTo(rev))
			}
			out, err := formater(in, fwd, opts...)
			if err != nil {
				mishap.set(1, "the writer constructor returned the error %q", err.Error())
				for in.Next() { // let the feeder finish
				}
				return
			}
			out.Recycle() // CLIWriteBioSequences(iterator, true)
		case "dispatch":
			var cls *obiseq.BioSequenceClassifier
			switch c.Class {
			case "rot2":
				cls = obiseq.RotateClassifier(2) // records 1 and 3 -> chunk_1 (two batches), record 2 -> chunk_2
			case "count":
				cls = obiseq.AnnotationClassifier("count", "NA") // one file per record: chunk_2, chunk_3, chunk_4
			default:
				panic("c18: unknown classifier " + c.Class)
			}
			if c.Writer != "seq-fa" && c.Writer != "seq-fq" {
				opts = append(opts, OptionsParallelWorkers(2)) // obidistribute; the on-disk chunks pass no option
			}
			WriterDispatcher(filepath.Join(dir, "chunk_%s.fastx"), in.Distribute(cls, 1), formater, opts...)
		default:
			panic("c18: unknown entry " + c.Entry)
		}
		obiiter.WaitForLastPipe()
	}()
	var o c18outcome
	o.Hung, o.GaveUp = c18wait(done, c)
	c18setFsize(-1)
	o.Exited, o.Code, o.NExit = c18exit.get()
	o.Note = mishap.get()
	o.Dirty = o.Note != ""
	o.Files = map[string]c18fdig{}
	ents, _ := os.ReadDir(dir)
	for _, e := range ents {
		b, err := os.ReadFile(filepath.Join(dir, e.Name()))
		if err != nil {
			panic(err)
		}
		o.Files[e.Name()] = c18fdig{len(b), c18hash(b)}
		o.N += len(b)
	}
	return o
}

// c18judgeFS: oracle of the real-file entries. ref = files of the fault-free run of the same history.
func c18judgeFS(c c18case, ref c18ref, o c18outcome) (fired bool, key, desc string) {
	top := 0
	for _, d := range ref.files {
		if d.N > top {
			top = d.N
		}
	}
	fired = c.Fault == "fsize" && c.K < top
	what := fmt.Sprintf("%s file size limit=%d (largest file of the fault-free run: %d bytes)", c.hist(), c.K, top)
	if o.Hung {
		return fired, c.target() + "/hang", what + ": the writer pipeline deadlocked"
	}
	if o.Exited && o.Code != 0 {
		return fired, "", ""
	}
	var names []string
	for n := range ref.files {
		names = append(names, n)
	}
	sort.Strings(names)
	var bad, roles []string
	for _, n := range names {
		if got := o.Files[n]; got != ref.files[n] {
			bad = append(bad, fmt.Sprintf("%s holds %d of %d bytes", n, got.N, ref.files[n].N))
			role := "chunk-file"
			if c.Entry == "file" {
				role = map[bool]string{true: "reverse-file", false: "forward-file"}[strings.HasPrefix(n, "rev.")]
			}
			if len(roles) == 0 || roles[len(roles)-1] != role {
				roles = append(roles, role)
			}
		}
	}
	if len(bad) == 0 {
		return fired, "", ""
	}
	st := "no exit was raised before WaitForLastPipe returned (exit status 0)"
	if o.Exited {
		st = "exit code 0 was raised"
	}
	return fired, fmt.Sprintf("%s/%s/silent-success", c.target(), strings.Join(roles, "+")),
		fmt.Sprintf("%s: %s but %s", what, strings.Join(bad, ", "), st)
}

// c18drainPos tells whether the chunk written by the i-th sink Write of WriteSeqFileChunk (chunks
// are written in order 0,1,2..) is written by the drain loop: it is, unless it arrives after every
// chunk of lower order.
func c18drainPos(arrival []int, i int) bool {
	pos := map[int]int{}
	for p, b := range arrival {
		pos[b] = p
	}
	for j := 0; j < i; j++ {
		if pos[j] > pos[i] {
			return true
		}
	}
	return false
}

// c18judge applies the oracle. key == "" : the property holds on this case.
func c18judge(c c18case, ref c18ref, o c18outcome) (key, desc string) {
	what := fmt.Sprintf("%s fault=%s@%d of %d bytes", c.hist(), c.Fault, c.K, ref.n)
	if o.Hung {
		return c.target() + "/hang", what + ": the writer pipeline did not finish and no exit was recorded within the watchdog delay"
	}
	if o.Exited && o.Code != 0 {
		return "", ""
	}
	complete := o.N == ref.n && o.H == ref.h
	if complete && !o.CloseFail {
		return "", ""
	}
	phase := o.Phase
	if phase == "" {
		phase = "nofault"
	}
	if c.Writer == "chunk" && phase == "write" {
		if c18drainPos(c.Arrival, o.FiredWrite) {
			phase = "drain-write"
		} else {
			phase = "main-write"
		}
	}
	if c.Gzip && phase == "final-flush" {
		phase = "write" // the parallel gzip writer emits nearly everything while it is being closed
	}
	if c.Fault == "persist+close" && phase != "close" {
		phase += "+close-fails" // a defect that needs both failures must not hide behind the persist key
	}
	st := "no exit was raised before WaitForLastPipe returned (exit status 0)"
	if o.Exited {
		st = "exit code 0 was raised"
	}
	lost := fmt.Sprintf("%d of %d bytes reached the output", o.N, ref.n)
	if o.N == ref.n && !complete {
		lost = "the bytes that reached the output differ from the result"
	}
	if o.CloseFail {
		lost += ", Close returned an error"
	}
	return fmt.Sprintf("%s/%s/silent-success", c.target(), phase),
		fmt.Sprintf("%s: failing sink operation #%d (%s); %s but %s", what, o.FiredWrite, phase, lost, st)
}

// ---------------------------------------------------------------- enumeration

type c18hist struct {
	writer  string
	gz      bool
	data    string
	split   []int
	arrival []int
}

func (h c18hist) String() string {
	return c18case{Writer: h.writer, Gzip: h.gz, Data: h.data, Split: h.split, Arrival: h.arrival}.hist()
}

func c18offsets(total int, ends []int, all bool, stride int) []int {
	if all {
		out := make([]int, total+1)
		for i := range out {
			out[i] = i
		}
		return out
	}
	set := map[int]bool{0: true, 1: true, total: true, total - 1: true}
	for _, e := range ends {
		for d := -2; d <= 2; d++ {
			set[e+d] = true
		}
	}
	for k := 0; k <= total; k += stride {
		set[k] = true
	}
	var out []int
	for k := range set {
		if k >= 0 && k <= total {
			out = append(out, k)
		}
	}
	sort.Ints(out)
	return out
}

// ---------------------------------------------------------------- child processes for gzip cases
//
// The parallel gzip writer (klauspost/pgzip) never stops its result-listener goroutine when Close
// gives up on an error: each gzip case whose fault fires leaves one goroutine and a 1 MiB block
// buffer behind (harmless for a command that exits, fatal for 10^5 cases in one process). Gzip
// cases are therefore executed by a child process (this test binary, C18_CHILD=1) that is replaced
// as soon as its resident set exceeds c18childRSS. The child runs exactly the same c18run.

const c18childRSS = 128 << 20
const c18marker = "C18OUT "

func c18rss() int64 {
	b, err := os.ReadFile("/proc/self/statm")
	if err != nil {
		return 0
	}
	f := strings.Fields(string(b))
	if len(f) < 2 {
		return 0
	}
	var pages int64
	fmt.Sscan(f[1], &pages)
	return pages * int64(os.Getpagesize())
}

func c18childMain() {
	in := bufio.NewReaderSize(os.Stdin, 1<<16)
	out := bufio.NewWriter(os.Stdout)
	for {
		line, err := in.ReadBytes('\n')
		if len(line) > 1 {
			var c c18case
			if e := json.Unmarshal(line, &c); e != nil {
				fmt.Fprintf(os.Stderr, "c18 child: bad case %q: %v\n", line, e)
				os.Exit(3)
			}
			o := c18run(c, c.Fault == "none")
			o.RSS = c18rss()
			b, _ := json.Marshal(o)
			out.WriteString(c18marker)
			out.Write(b)
			out.WriteByte('\n')
			out.Flush()
			if o.Hung || o.GaveUp || o.Dirty {
				os.Exit(0) // the pipe WaitGroup of this process is no longer balanced
			}
		}
		if err != nil {
			return
		}
	}
}

// c18errChildDied: the child process (this binary, running the code under test on one case) ended without
// an answer: the code under test killed it (crash of a pipeline goroutine, exit that is not a logrus exit).
var c18errChildDied = errors.New("child ended without an answer")

type c18child struct {
	cmd   *exec.Cmd
	stdin io.WriteCloser
	out   *bufio.Reader
	n     int
}

func (ch *c18child) stop() {
	if ch.cmd == nil {
		return
	}
	ch.stdin.Close()
	done := make(chan struct{})
	go func() { ch.cmd.Wait(); close(done) }()
	select {
	case <-done:
	case <-time.After(30 * time.Second):
		ch.cmd.Process.Kill()
		<-done
	}
	ch.cmd = nil
}

func (ch *c18child) run(c c18case) (c18outcome, error) {
	if ch.cmd == nil {
		cmd := exec.Command(os.Args[0], "-test.run", "^TestVerifC18$", "-test.count=1", "-test.timeout", "0")
		cmd.Env = append(os.Environ(), "C18_CHILD=1", "VERIF_OUT=/dev/null", "VERIF_REPLAY=")
		cmd.Stderr = os.Stderr
		stdin, err := cmd.StdinPipe()
		if err != nil {
			return c18outcome{}, err
		}
		stdout, err := cmd.StdoutPipe()
		if err != nil {
			return c18outcome{}, err
		}
		if err := cmd.Start(); err != nil {
			return c18outcome{}, err
		}
		ch.cmd, ch.stdin, ch.out, ch.n = cmd, stdin, bufio.NewReaderSize(stdout, 1<<16), 0
	}
	b, _ := json.Marshal(c)
	if _, err := ch.stdin.Write(append(b, '\n')); err != nil {
		ch.stop()
		return c18outcome{}, fmt.Errorf("child does not accept cases: %v", err)
	}
	for {
		line, err := ch.out.ReadString('\n')
		if strings.HasPrefix(line, c18marker) {
			var o c18outcome
			if e := json.Unmarshal([]byte(line[len(c18marker):]), &o); e != nil {
				ch.stop()
				return o, e
			}
			ch.n++
			if o.RSS > c18childRSS || o.Hung || o.GaveUp || o.Dirty {
				ch.stop()
			}
			return o, nil
		}
		if err != nil {
			ch.stop()
			return c18outcome{}, fmt.Errorf("%w for %s fault=%s@%d: %v", c18errChildDied, c.hist(), c.Fault, c.K, err)
		}
	}
}

func TestVerifC18(t *testing.T) {
	log.SetOutput(io.Discard)
	log.StandardLogger().ExitFunc = func(code int) { c18exit.record(code) }
	signal.Ignore(syscall.SIGXFSZ) // RLIMIT_FSIZE must surface as EFBIG on write(2), not as a signal
	if os.Getenv("C18_CHILD") != "" {
		c18childMain()
		return
	}
	r := verifkit.New("C18")
	defer r.Write()
	// vacuity: faults really injected by the harness (what the code under test does about them — an exit
	// recorded or not — is what is judged, not a guard)
	r.RequireNonVacuous("fault_fired")

	child := &c18child{}
	defer child.stop()
	replaying := r.ReplayCase() != nil

	poisoned := false
	eval := func(c c18case, ref c18ref) {
		if poisoned {
			return
		}
		var o c18outcome
		if c.Gzip && !replaying {
			var err error
			if o, err = child.run(c); errors.Is(err, c18errChildDied) {
				// a verdict on the tree (its crash report is in the log of the shard), not a harness failure; the
				// next case gets a fresh child
				r.Count("child_process_killed_by_the_code_under_test", 1)
				r.Violate(c.target()+"/crash", fmt.Sprintf("%s fault=%s@%d: the process running the case died without a verdict: %v", c.hist(), c.Fault, c.K, err), c)
				return
			} else if err != nil {
				t.Fatalf("c18: %v", err)
			}
			r.Count("cases_run_in_child_process", 1)
		} else {
			o = c18run(c, false)
			if o.Hung || o.GaveUp || o.Dirty {
				// the global pipe WaitGroup of obiiter is no longer balanced: nothing more can
				// be decided in this process
				poisoned = true
				r.Cap("a case did not finish: remaining cases of this shard skipped")
			}
		}
		r.Eval(1)
		r.Trans(int64(o.Ops))
		if o.GaveUp {
			r.Cap("a case was still running after 20 minutes (no verdict)")
			return
		}
		if c.Entry != "" {
			fired, key, desc := c18judgeFS(c, ref, o)
			r.Trans(int64(len(o.Files)))
			if fired {
				r.Count("fault_fired", 1)
				r.Count("fault_fired_realfile_"+c.Entry, 1)
				if c.Paired {
					r.Count("fault_fired_realfile_paired", 1)
				}
				if c.Append != "" {
					r.Count("fault_fired_realfile_append", 1)
				}
			} else {
				r.Count("fault_not_reached", 1)
			}
			if o.Exited && o.Code != 0 {
				r.Count("exit_recorded_nonzero", 1)
				r.Count("exit_recorded_nonzero_realfile", 1)
				if !fired {
					r.Count("exit_without_fault", 1)
				}
			}
			r.State(fmt.Sprintf("%s|%s|%d|%v|%d|%v", c.hist(), c.Fault, o.N, o.Exited, o.Code, o.Files))
			if key != "" {
				r.Violate(key, desc, c)
			}
			return
		}
		if c.Fault == "persist+close" && o.Fired {
			r.Count("fault_fired_persist+close", 1)
		}
		if o.Fired {
			r.Count("fault_fired", 1)
			r.Count("fault_fired_phase_"+o.Phase, 1)
		} else {
			r.Count("fault_not_reached", 1)
		}
		if o.Exited && o.Code != 0 {
			r.Count("exit_recorded_nonzero", 1)
			if !o.Fired {
				r.Count("exit_without_fault", 1)
			}
		}
		if c.Writer == "chunk" && o.Fired && o.Phase == "write" && c18drainPos(c.Arrival, o.FiredWrite) {
			r.Count("fault_fired_in_drain_loop_chunkwriter", 1)
		}
		r.State(fmt.Sprintf("%s|%s|%d|%v|%d|%v|%v", c.hist(), c.Fault, o.N, o.Exited, o.Code, o.CloseFail, o.Phase))
		key, desc := c18judge(c, ref, o)
		if key != "" {
			r.Violate(key, desc, c)
		}
	}

	referenceFS := func(c c18case) c18ref {
		c.Fault, c.K = "none", 0
		o := c18run(c, true)
		var o2 c18outcome
		if !(o.Dirty || o.Hung || o.GaveUp) {
			o2 = c18run(c, true)
		}
		if o.Dirty || o2.Dirty || o.Hung || o.GaveUp || o2.Hung || o2.GaveUp {
			poisoned = true
			r.Cap("a fault-free run left the process in an unknown state (" + o.Note + o2.Note + "): remaining cases of this shard skipped")
		}
		badFS := func(what string) c18ref {
			// a control run that misbehaves is a verdict on the tree under test, not a harness failure
			r.Violate("control-run/"+c.Entry+":"+c.Writer+"/fault-free-run-misbehaves", fmt.Sprintf("fault-free run of %s %s", c.hist(), what), c)
			return c18ref{n: -1}
		}
		if o.Hung || o.GaveUp || o.Exited || o.Dirty || o2.Dirty || len(o.Files) == 0 || fmt.Sprint(o.Files) != fmt.Sprint(o2.Files) {
			return badFS(fmt.Sprintf("is not usable as reference (hung=%v exit=%v/%d %s%s files=%v / %v)", o.Hung, o.Exited, o.Code, o.Note, o2.Note, o.Files, o2.Files))
		}
		want := 1
		if c.Paired {
			want = 2
		}
		if c.Entry == "dispatch" {
			want = map[string]int{"rot2": 2, "count": 3}[c.Class]
		}
		top := 0
		for n, d := range o.Files {
			if d.N == 0 || (c.Append != "" && n == c18appendName(c, c18ext[c.Writer]) && d.N <= c18prefill) {
				return badFS(fmt.Sprintf("left %s with %d bytes", n, d.N))
			}
			if d.N > top {
				top = d.N
			}
		}
		if len(o.Files) != want {
			return badFS(fmt.Sprintf("wrote %d files, %d expected: %v", len(o.Files), want, o.Files))
		}
		return c18ref{n: top, files: o.Files}
	}

	reference := func(h c18hist) c18ref {
		c := c18case{Writer: h.writer, Gzip: h.gz, Data: h.data, Split: h.split, Arrival: h.arrival, Fault: "none"}
		o := c18run(c, true)
		noClose := h.writer != "chunk" && c18variantOf(h.writer).noClose
		// A control run that misbehaves is a verdict on the tree under test (on the pinned tree it never does): the
		// history is reported once and skipped (n = -1), it must not end the shard as a harness failure.
		bad := ""
		if o.Dirty || o.Hung || o.GaveUp {
			// (a run that does not finish leaves the global pipe WaitGroup of obiiter unbalanced as well)
			poisoned = true
			r.Cap("a fault-free run left the process in an unknown state (" + o.Note + "): remaining cases of this shard skipped")
		}
		switch {
		case o.Dirty:
			bad = "fails although nothing failed: " + o.Note
		case noClose && o.CloseCalls != 0:
			bad = "closed a sink it was told to leave open"
		case o.Hung || o.GaveUp:
			bad = "does not terminate"
		case o.Exited:
			bad = fmt.Sprintf("ends in log.Fatal (exit status %d) although nothing failed", o.Code)
		case (o.CloseCalls == 0 && !noClose) || o.N == 0:
			bad = fmt.Sprintf("writes %d bytes and calls Close %d times", o.N, o.CloseCalls)
		}
		if bad == "" {
			o2 := c18run(c, true)
			if o2.Dirty || o2.Hung || o2.GaveUp {
				poisoned = true
				r.Cap("a fault-free run left the process in an unknown state (" + o2.Note + "): remaining cases of this shard skipped")
				bad = "fails on its second run although nothing failed: " + o2.Note
			} else if o.N != o2.N || o.H != o2.H {
				bad = "gives two different outputs in two runs"
			}
		}
		if bad != "" {
			r.Violate("control-run/"+h.writer+"/fault-free-run-misbehaves", fmt.Sprintf("fault-free run of %s %s", c.hist(), bad), c)
			return c18ref{n: -1}
		}
		return c18ref{n: o.N, h: o.H, ends: o.Ends}
	}

	if replaying {
		var c c18case
		if err := json.Unmarshal(r.ReplayCase(), &c); err != nil {
			t.Fatal(err)
		}
		if c.Entry != "" {
			if ref := referenceFS(c); ref.n >= 0 {
				eval(c, ref)
			}
			return
		}
		if ref := reference(c18hist{c.Writer, c.Gzip, c.Data, c.Split, c.Arrival}); ref.n >= 0 {
			eval(c, ref)
		}
		return
	}

	thorough := verifkit.Thorough()

	// histories: every composition of the 3 records into 1..3 batches x every arrival order
	type sa struct{ split, arrival []int }
	var allHist []sa
	for n := 1; n <= 3; n++ {
		verifkit.Compositions(3, n, 1, func(parts []int) {
			sp := append([]int{}, parts...)
			verifkit.Permutations(n, func(p []int) {
				allHist = append(allHist, sa{sp, append([]int{}, p...)})
			})
		})
	}
	onlyFull := []sa{}
	for _, h := range allHist {
		if len(h.split) != 2 {
			onlyFull = append(onlyFull, h) // [3] and the six orders of [1,1,1]
		}
	}
	r.Bound("histories_S_M", fmt.Sprintf("%d (all compositions of 3 records into 1..3 batches x all arrival orders)", len(allHist)))
	r.Bound("histories_L", fmt.Sprintf("%d (one batch; three batches in every arrival order)", len(onlyFull)))
	r.Bound("fault_kinds", "persist@k, oneshot@k for every enumerated k; close")
	r.Bound("datasets", "S<4KiB (3 records of 17..31 bp), M~3x4KiB (3 records of ~4.1 kbp), L (40 bp, 66 kbp, 50 bp), G gzip only (60 bp, 1.2 Mbp, 45 bp)")

	type plan struct {
		data    string
		hists   []sa
		gz      bool
		all     bool // every offset 0..total
		stride  int  // otherwise: sink write boundaries +-2 and every stride-th offset
		writers []string
	}
	W := []string{"fasta", "fastq", "json", "csv"}
	CW := append([]string{"chunk"}, W...)
	NV := []string{"json-nc", "csv-nc", "csv-auto", "seq-fa", "seq-fq"} // see c18variant
	NC := []string{"json-nc", "csv-nc"}
	drain := []sa{{[]int{1, 1, 1}, []int{1, 2, 0}}} // chunks 1 and 2 wait for chunk 0: two drained writes
	var plans []plan
	if thorough {
		plans = []plan{
			{"S", allHist, false, true, 0, CW},
			{"S", allHist, true, true, 0, W},
			{"M", allHist, false, true, 0, CW},
			{"M", allHist, true, true, 0, W},
			{"L", onlyFull, false, false, 127, W},
			{"L", onlyFull, true, false, 127, W},
			{"G", []sa{{[]int{3}, []int{0}}, {[]int{1, 1, 1}, []int{2, 0, 1}}}, true, false, 991, W},
			{"L", []sa{{[]int{3}, []int{0}}, drain[0], {[]int{1, 1, 1}, []int{2, 0, 1}}}, false, true, 0, W},
			{"L", drain, true, true, 0, W},
			{"S", allHist, false, true, 0, NV},
			{"S", allHist, true, true, 0, NV},
			{"M", []sa{{[]int{3}, []int{0}}, drain[0]}, false, true, 0, NC},
			{"M", allHist, false, false, 97, NV},
			{"M", allHist, true, false, 61, NV},
			{"L", onlyFull, false, false, 127, NC},
			{"L", onlyFull, true, false, 509, NC},
		}
		r.Bound("offsets", "every byte offset 0..total of the sink stream for S and M (all 11 histories, plain and gzip), for L plain on 3 histories and L gzip on 1 history; other L histories: every sink write boundary +-2 and every 127th offset; G: write boundaries +-2 and every 991st offset")
	} else {
		plans = []plan{
			{"S", allHist, false, true, 0, CW},
			{"S", allHist, true, true, 0, W},
			{"M", drain, false, true, 0, CW},
			{"M", allHist, false, false, 97, CW},
			{"M", allHist, true, false, 61, W},
			{"L", onlyFull, false, false, 509, W},
			{"L", onlyFull, true, false, 509, W},
			{"G", []sa{{[]int{1, 1, 1}, []int{2, 0, 1}}}, true, false, 1 << 30, []string{"fasta", "json"}},
			{"S", allHist, false, true, 0, NV},
			{"S", allHist, true, true, 0, NV},
			{"M", drain, false, true, 0, NC},
			{"M", allHist, false, false, 97, NV},
			{"M", allHist, true, false, 61, NV},
			{"L", drain, false, false, 509, NC},
		}
		r.Bound("offsets", "every byte offset 0..total of the sink stream for S (all 11 histories, plain and gzip) and for M plain on the history split=[1 1 1] arrival=[1 2 0]; other M histories: every sink write boundary +-2 and every 97th (gzip: 61st) offset; L: boundaries +-2 and every 509th offset; G: boundaries +-2")
	}
	coveredAll := map[string]bool{}
	for _, pl := range plans {
		if pl.all {
			for _, w := range pl.writers {
				for _, h := range pl.hists {
					coveredAll[c18hist{w, pl.gz, pl.data, h.split, h.arrival}.String()] = true
				}
			}
		}
	}

	k := 0
	tStart := time.Now()
	for pi, pl := range plans {
		if os.Getenv("C18_TIMING") != "" { // tuning aid only (never set by ./check)
			fmt.Fprintf(os.Stderr, "c18 timing: %.1fs %d cases done; entering plan %d %s gz=%v all=%v\n",
				time.Since(tStart).Seconds(), r.Evaluations, pi, pl.data, pl.gz, pl.all)
		}
		for _, w := range pl.writers {
			for _, gz := range []bool{pl.gz} {
				for _, h := range pl.hists {
					hh := c18hist{w, gz, pl.data, h.split, h.arrival}
					if f := os.Getenv("C18_FILTER"); f != "" && !strings.Contains(hh.String(), f) {
						continue // debugging aid only (never set by ./check)
					}
					if !pl.all && coveredAll[hh.String()] {
						continue // every offset of this history is enumerated by another plan
					}
					// every shard needs the reference: the work item numbering depends on its length
					ref := reference(hh)
					if poisoned {
						return
					}
					if ref.n < 0 {
						continue
					}
					r.Count("reference_runs", 1)
					offs := c18offsets(ref.n, ref.ends, pl.all, pl.stride)
					mk := func(f string, kk int) c18case {
						return c18case{Writer: w, Gzip: gz, Data: pl.data, Split: h.split, Arrival: h.arrival, Fault: f, K: kk}
					}
					noClose := w != "chunk" && c18variantOf(w).noClose // the sink is never closed
					if r.Mine(k) && !noClose {
						eval(mk("close", 0), ref)
					}
					k++
					if !noClose {
						// the sink stops accepting bytes at a write boundary (+-2) and its Close fails too
						for _, off := range c18offsets(ref.n, ref.ends, false, 1<<30) {
							if r.Mine(k) {
								eval(mk("persist+close", off), ref)
							}
							k++
						}
					}
					for _, off := range offs {
						if r.Mine(k) {
							eval(mk("persist", off), ref)
							if off < ref.n {
								eval(mk("oneshot", off), ref)
							}
						}
						k++
					}
					if r.Expired() {
						return
					}
					if poisoned {
						return
					}
				}
			}
		}
	}
	// ---- real files: Write*ToFile (single / paired / append) and WriterDispatcher, RLIMIT_FSIZE = k
	fsOffsets := func(c c18case, ref c18ref, all bool, stride int) []int {
		top := ref.n
		set := map[int]bool{}
		add := func(k int) {
			if k >= 0 && k <= top {
				set[k] = true
			}
		}
		lo := 0
		if c.Append != "" {
			// below the size of the pre-filled file every limit is the same case for that file
			add(0)
			add(1)
			lo = c18prefill - 2
		}
		if all {
			for k := lo; k <= top; k++ {
				add(k)
			}
		} else {
			for k := lo; k <= top; k += stride {
				add(k)
			}
			for d := -2; d <= 2; d++ {
				for _, f := range ref.files {
					add(f.N + d) // the limit just below / at / above the final size of each file
				}
				for b := 0; b <= top; b += 4096 { // flush points of the 4 KiB buffer
					add(b + d)
					add(c18prefill + b + d)
				}
			}
			add(0)
			add(1)
		}
		out := make([]int, 0, len(set))
		for k := range set {
			out = append(out, k)
		}
		sort.Ints(out)
		return out
	}
	type fsplan struct {
		data   string
		all    bool
		stride int
		gz     []bool
	}
	fsCovered := map[string]bool{} // (case, history) whose every k is enumerated by an earlier plan
	fsHist := []sa{{[]int{3}, []int{0}}, {[]int{1, 1, 1}, []int{1, 2, 0}}, {[]int{2, 1}, []int{1, 0}}}
	fsPlans := []fsplan{{"S", true, 0, []bool{false, true}}, {"M", false, 97, []bool{false, true}}}
	if thorough {
		// S: all 11 histories, every k; M: every k on the three histories above (plain), a finer
		// stride on all 11 histories (plain and gzip)
		fsPlans = []fsplan{{"S", true, 0, []bool{false, true}}, {"M", true, 0, []bool{false}}, {"M", false, 61, []bool{false, true}}}
	}
	var fsCases []c18case
	for _, w := range []string{"fasta", "fastq", "json", "csv", "seq-fa", "seq-fq"} {
		for _, m := range []struct {
			paired bool
			app    string
		}{{false, ""}, {false, "fwd"}, {true, ""}, {true, "rev"}} {
			fsCases = append(fsCases, c18case{Entry: "file", Writer: w, Paired: m.paired, Append: m.app})
		}
	}
	for _, w := range []string{"fasta", "fastq", "seq-fa", "seq-fq"} {
		for _, cl := range [][2]string{{"rot2", ""}, {"rot2", "1"}, {"count", ""}, {"count", "3"}} {
			fsCases = append(fsCases, c18case{Entry: "dispatch", Writer: w, Class: cl[0], Append: cl[1]})
		}
	}
	r.Bound("realfile_entries", "Write{Fasta,Fastq,JSON,CSV,Sequences}ToFile x {single, append on a pre-filled file, paired, paired+append on the pre-filled reverse file}; WriterDispatcher(Distribute(RotateClassifier(2) | AnnotationClassifier(count), batch size 1)) x {WriteFastaToFile, WriteFastqToFile, WriteSequencesToFile} x {truncate, append on one pre-filled file}; x {plain, gzip}")
	r.Bound("realfile_fault", fmt.Sprintf("RLIMIT_FSIZE=k on every regular file of the process (EFBIG, SIGXFSZ ignored); histories: %d (quick) / all 11 (thorough; M with every k: these %d, plain); S: every k in 0..largest file; M: every %dth k + 4 KiB flush points +-2 + final sizes +-2 (thorough: also every k, plain)", len(fsHist), len(fsHist), fsPlans[len(fsPlans)-1].stride))
	// armed only once this section is reached: a run stopped earlier by its deadline is reported as
	// not exhaustive, not as vacuous
	if os.Getenv("C18_FILTER") == "" {
		r.RequireNonVacuous("fault_fired_realfile_file")
		r.RequireNonVacuous("fault_fired_realfile_dispatch")
		r.RequireNonVacuous("fault_fired_realfile_paired")
		r.RequireNonVacuous("fault_fired_realfile_append")
	}
	for _, pl := range fsPlans {
		for _, gz := range pl.gz {
			for _, base := range fsCases {
				hists := fsHist
				if thorough && !(pl.data == "M" && pl.all) {
					hists = allHist
				}
				for _, h := range hists {
					c := base
					c.Gzip, c.Data, c.Split, c.Arrival = gz, pl.data, h.split, h.arrival
					if f := os.Getenv("C18_FILTER"); f != "" && !strings.Contains(c.hist(), f) {
						continue // debugging aid only (never set by ./check)
					}
					if pl.all {
						fsCovered[c.hist()] = true
					} else if fsCovered[c.hist()] {
						continue
					}
					ref := referenceFS(c) // every shard: the work item numbering depends on it
					if poisoned {
						return
					}
					if ref.n < 0 {
						continue
					}
					r.Count("reference_runs", 1)
					for _, off := range fsOffsets(c, ref, pl.all, pl.stride) {
						if r.Mine(k) {
							cc := c
							cc.Fault, cc.K = "fsize", off
							eval(cc, ref)
						}
						k++
					}
					if r.Expired() || poisoned {
						return
					}
				}
			}
		}
	}
	r.Sample(c18case{Entry: "file", Writer: "fastq", Paired: true, Append: "rev", Data: "S", Split: []int{3}, Arrival: []int{0}, Fault: "fsize", K: 1600})
	r.Sample(c18case{Writer: "fasta", Data: "S", Split: []int{3}, Arrival: []int{0}, Fault: "persist", K: 0})
	r.Sample(c18case{Writer: "json", Gzip: true, Data: "M", Split: []int{1, 1, 1}, Arrival: []int{2, 1, 0}, Fault: "oneshot", K: 10})
}
