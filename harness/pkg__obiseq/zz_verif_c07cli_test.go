//go:build verif

package obiseq

// C07, command level — the REAL obicomplement binary (cmd/obitools/obicomplement: reader -> ReverseComplementWorker(true)
// -> writer), built from the tree under test, on files holding EVERY string over the 19-symbol alphabet up to a
// length bound (FASTA, FASTQ with two quality vectors, lower / upper case) and every non-empty subset of
// pairing_mismatches positions for L = 1..5 (JSON and OBI title lines: the annotation reaches the code as a decoded
// map, not as the map[string]int that obipairing builds in memory).
//
// Oracle (same laws as E1, nothing more): every record of the output is the reverse complement of the input record
// with the same identifier (nucleotides case-insensitively, qualities reversed, mismatch positions p -> L-p+1);
// the output of obicomplement run on its own output is the input. Record order is not looked at (C03/C05), mates
// of a paired run are not constrained (only the forward file is checked).

import (
	"bufio"
	"bytes"
	"encoding/json"
	"fmt"
	"os"
	"os/exec"
	"path/filepath"
	"regexp"
	"sort"
	"strconv"
	"strings"
	"testing"
	"time"

	"git.metabarcoding.org/obitools/obitools4/obitools4/pkg/verifkit"
)

const c07cliAlphabet = "acgtrymkswbdhvn.-[]"

var c07cliComp = map[byte]byte{'a': 't', 'c': 'g', 'g': 'c', 't': 'a', 'r': 'y', 'y': 'r', 'm': 'k', 'k': 'm',
	's': 's', 'w': 'w', 'b': 'v', 'v': 'b', 'd': 'h', 'h': 'd', 'n': 'n', '.': '.', '-': '-', '[': ']', ']': '['}

type c07cliRec struct {
	id   string
	seq  string
	qual []byte         // nil: none
	pm   map[string]int // upper-cased key -> position; nil: none
}

type c07cliCase struct {
	Input  string   `json:"input"`  // alphabet | annotations
	Format string   `json:"format"` // fasta | fastq-q1 | fastq-q2 | fasta-json | fasta-obi
	Upper  bool     `json:"upper,omitempty"`
	Stdin  bool     `json:"stdin,omitempty"`
	Paired bool     `json:"paired,omitempty"`
	Args   []string `json:"args,omitempty"`
}

func (c c07cliCase) String() string {
	return fmt.Sprintf("obicomplement %s input=%s format=%s upper=%v stdin=%v paired=%v", strings.Join(c.Args, " "), c.Input, c.Format, c.Upper, c.Stdin, c.Paired)
}

func c07cliRoot() string {
	d, err := os.Getwd()
	if err != nil {
		panic(err)
	}
	for {
		if _, err := os.Stat(filepath.Join(d, "go.mod")); err == nil {
			return d
		}
		p := filepath.Dir(d)
		if p == d {
			panic("c07cli: module root not found")
		}
		d = p
	}
}

func c07cliRc(s string) string {
	b := []byte(strings.ToLower(s))
	o := make([]byte, len(b))
	for i, ch := range b {
		o[len(b)-1-i] = c07cliComp[ch]
	}
	return string(o)
}

func c07cliRevQ(q []byte) []byte {
	if q == nil {
		return nil
	}
	o := make([]byte, len(q))
	for i := range q {
		o[len(q)-1-i] = q[i]
	}
	return o
}

var c07cliLetters = [][2]byte{{'A', 'C'}, {'G', 'T'}, {'R', 'A'}, {'T', 'N'}, {'C', 'Y'}}

func c07cliKey(p int) string {
	l := c07cliLetters[(p-1)%len(c07cliLetters)]
	return fmt.Sprintf("(%c:%02d)->(%c:%02d)", l[0], 30+p, l[1], 10+p)
}

func c07cliRcKey(p int) string {
	l := c07cliLetters[(p-1)%len(c07cliLetters)]
	return fmt.Sprintf("(%c:%02d)->(%c:%02d)", c07cliComp[l[1]|0x20]&^0x20, 10+p, c07cliComp[l[0]|0x20]&^0x20, 30+p)
}

// c07cliRcRec is the reverse complement of a record according to the statement.
func c07cliRcRec(r c07cliRec, posOf map[string]int) c07cliRec {
	o := c07cliRec{id: r.id, seq: c07cliRc(r.seq), qual: c07cliRevQ(r.qual)}
	if r.pm != nil {
		o.pm = map[string]int{}
		for k, p := range r.pm {
			src := posOf[k] // source position that owns this key
			o.pm[c07cliRcKey(src)] = len(r.seq) - p + 1
		}
	}
	return o
}

func c07cliInputs(c c07cliCase, maxLen int) (recs []c07cliRec, posOf map[string]int) {
	posOf = map[string]int{}
	switch c.Input {
	case "alphabet":
		// a plain first record: the format sniffer looks at the beginning of the data
		recs = append(recs, c07cliRec{id: "s0", seq: "acgtacgt"})
		k := 0
		verifkit.Strings(c07cliAlphabet, 1, maxLen, func(s string) {
			k++
			recs = append(recs, c07cliRec{id: fmt.Sprintf("s%d", k), seq: s})
		})
		for i := range recs {
			if c.Upper {
				recs[i].seq = strings.ToUpper(recs[i].seq)
			}
			if strings.HasPrefix(c.Format, "fastq") {
				q := make([]byte, len(recs[i].seq))
				for j := range q {
					if c.Format == "fastq-q1" {
						q[j] = byte(j)
					} else {
						q[j] = byte(93 - j)
					}
				}
				recs[i].qual = q
			}
		}
	case "annotations":
		for L := 1; L <= 5; L++ {
			for mask := 1; mask < 1<<L; mask++ {
				r := c07cliRec{id: fmt.Sprintf("a%d_%d", L, mask), seq: "acgta"[:L], pm: map[string]int{}}
				for p := 1; p <= L; p++ {
					if mask&(1<<(p-1)) != 0 {
						r.pm[c07cliKey(p)] = p
					}
				}
				recs = append(recs, r)
			}
		}
		for p := 1; p <= 5; p++ {
			posOf[c07cliKey(p)] = p
		}
	}
	return
}

func c07cliWrite(fn string, recs []c07cliRec, format string) {
	var b bytes.Buffer
	for _, r := range recs {
		head := r.id
		if r.pm != nil {
			keys := make([]string, 0, len(r.pm))
			for k := range r.pm {
				keys = append(keys, k)
			}
			sort.Strings(keys)
			var parts []string
			for _, k := range keys {
				if format == "fasta-obi" {
					parts = append(parts, fmt.Sprintf("'%s':%d", k, r.pm[k]))
				} else {
					parts = append(parts, fmt.Sprintf("%q:%d", k, r.pm[k]))
				}
			}
			if format == "fasta-obi" {
				head += " count=1; pairing_mismatches={" + strings.Join(parts, ",") + "};"
			} else {
				head += ` {"count":1,"pairing_mismatches":{` + strings.Join(parts, ",") + `}}`
			}
		}
		if r.qual != nil {
			q := make([]byte, len(r.qual))
			for i := range q {
				q[i] = r.qual[i] + 33
			}
			fmt.Fprintf(&b, "@%s\n%s\n+\n%s\n", head, r.seq, q)
		} else {
			fmt.Fprintf(&b, ">%s\n%s\n", head, r.seq)
		}
	}
	if err := os.WriteFile(fn, b.Bytes(), 0o644); err != nil {
		panic(err)
	}
}

var c07cliObiMap = regexp.MustCompile(`pairing_mismatches=\{([^}]*)\}`)
var c07cliObiEntry = regexp.MustCompile(`['"]([^'"]+)['"]\s*:\s*([0-9.]+)`)

func c07cliHeader(line string) (id string, pm map[string]int, problem string) {
	id = line
	rest := ""
	if i := strings.IndexAny(line, " \t"); i >= 0 {
		id, rest = line[:i], strings.TrimSpace(line[i+1:])
	}
	if rest == "" {
		return
	}
	if strings.HasPrefix(rest, "{") {
		var m map[string]interface{}
		dec := json.NewDecoder(strings.NewReader(rest))
		if err := dec.Decode(&m); err != nil {
			return id, nil, "title line is not JSON: " + rest
		}
		if x, ok := m["pairing_mismatches"]; ok {
			mm, ok := x.(map[string]interface{})
			if !ok {
				return id, nil, "pairing_mismatches is not a map: " + rest
			}
			pm = map[string]int{}
			for k, v := range mm {
				f, ok := v.(float64)
				if !ok {
					return id, nil, "pairing_mismatches value is not a number: " + rest
				}
				pm[strings.ToUpper(k)] = int(f)
			}
		}
		return
	}
	if m := c07cliObiMap.FindStringSubmatch(rest); m != nil {
		pm = map[string]int{}
		for _, e := range c07cliObiEntry.FindAllStringSubmatch(m[1], -1) {
			f, _ := strconv.ParseFloat(e[2], 64)
			pm[strings.ToUpper(e[1])] = int(f)
		}
	}
	return
}

// c07cliParse reads back a FASTA / FASTQ file written by the binary.
func c07cliParse(fn string) (recs map[string]c07cliRec, order []string, problem string) {
	f, err := os.Open(fn)
	if err != nil {
		return nil, nil, err.Error()
	}
	defer f.Close()
	recs = map[string]c07cliRec{}
	sc := bufio.NewScanner(f)
	sc.Buffer(make([]byte, 1<<20), 1<<24)
	var lines []string
	for sc.Scan() {
		lines = append(lines, sc.Text())
	}
	add := func(r c07cliRec) {
		if _, dup := recs[r.id]; dup {
			problem = "identifier written twice: " + r.id
		}
		recs[r.id] = r
		order = append(order, r.id)
	}
	for i := 0; i < len(lines); {
		switch {
		case lines[i] == "":
			i++
		case lines[i][0] == '>':
			id, pm, p := c07cliHeader(lines[i][1:])
			if p != "" {
				problem = p
			}
			r := c07cliRec{id: id, pm: pm}
			i++
			for i < len(lines) && (lines[i] == "" || lines[i][0] != '>') {
				r.seq += lines[i]
				i++
			}
			add(r)
		case lines[i][0] == '@':
			if i+3 >= len(lines) || !strings.HasPrefix(lines[i+2], "+") {
				return recs, order, fmt.Sprintf("malformed FASTQ record at line %d", i+1)
			}
			id, pm, p := c07cliHeader(lines[i][1:])
			if p != "" {
				problem = p
			}
			q := []byte(lines[i+3])
			for j := range q {
				q[j] -= 33
			}
			add(c07cliRec{id: id, pm: pm, seq: lines[i+1], qual: q})
			i += 4
		default:
			return recs, order, fmt.Sprintf("unexpected line %d: %q", i+1, lines[i])
		}
	}
	return
}

// c07cliRun runs the binary; problem != "": non-zero exit or no end.
func c07cliRun(bin string, args []string, stdin, stdout string) (problem string) {
	cmd := exec.Command(bin, args...)
	if stdin != "" {
		fi, err := os.Open(stdin)
		if err != nil {
			panic(err)
		}
		defer fi.Close()
		cmd.Stdin = fi
	}
	var errb bytes.Buffer
	cmd.Stderr = &errb
	if stdout != "" {
		fo, err := os.Create(stdout)
		if err != nil {
			panic(err)
		}
		defer fo.Close()
		cmd.Stdout = fo
	}
	if err := cmd.Start(); err != nil {
		panic(err)
	}
	done := make(chan error, 1)
	go func() { done <- cmd.Wait() }()
	select {
	case err := <-done:
		if err != nil {
			msg := errb.String()
			if i := strings.Index(msg, "level=fatal"); i >= 0 {
				msg = msg[i:]
			} else if i := strings.Index(msg, "panic:"); i >= 0 {
				msg = msg[i:]
			}
			if len(msg) > 400 {
				msg = msg[:400]
			}
			return fmt.Sprintf("exit %v: %s", err, strings.TrimSpace(msg))
		}
		return ""
	case <-time.After(300 * time.Second):
		cmd.Process.Kill()
		return "no end after 300 s"
	}
}

func c07cliSame(got, want c07cliRec) (field, desc string) {
	if !strings.EqualFold(got.seq, want.seq) {
		return "seq", fmt.Sprintf("sequence %q, want %q", got.seq, want.seq)
	}
	if want.qual != nil && !bytes.Equal(got.qual, want.qual) {
		return "qual", fmt.Sprintf("qualities %v, want %v", got.qual, want.qual)
	}
	if want.pm != nil {
		g := got.pm
		if g == nil {
			g = map[string]int{}
		}
		if len(g) != len(want.pm) {
			return "pairing_mismatches", fmt.Sprintf("pairing_mismatches %v, want %v", g, want.pm)
		}
		for k, p := range want.pm {
			if g[k] != p {
				return "pairing_mismatches", fmt.Sprintf("pairing_mismatches %v, want %v", g, want.pm)
			}
		}
	}
	return "", ""
}

func TestVerifC07Cli(t *testing.T) {
	r := verifkit.New("C07")
	defer r.Write()
	dir, err := os.MkdirTemp("", "c07cli")
	if err != nil {
		t.Fatal(err)
	}
	defer os.RemoveAll(dir)

	bin := filepath.Join(dir, "obicomplement")
	bc := exec.Command("go", "build", "-o", bin, "./cmd/obitools/obicomplement")
	bc.Dir = c07cliRoot()
	if out, err := bc.CombinedOutput(); err != nil {
		if _, serr := os.Stat(bin); serr != nil {
			t.Fatalf("c07cli: cannot build obicomplement: %v\n%s", err, out)
		}
	}

	maxLen := 3
	if verifkit.Thorough() {
		maxLen = 4
	}
	r.Bound("cli_alphabet_max_length", maxLen)
	r.Bound("cli_annotation_max_length", 5)

	var cases []c07cliCase
	if rc := r.ReplayCase(); rc != nil {
		var c c07cliCase
		if err := json.Unmarshal(rc, &c); err != nil {
			t.Fatal(err)
		}
		cases = []c07cliCase{c}
	} else {
		cfgs := [][]string{{"--max-cpu", "1", "--batch-size", "1"}, {"--max-cpu", "3", "--batch-size", "7"}, {}}
		for _, format := range []string{"fasta", "fastq-q1", "fastq-q2"} {
			for _, up := range []bool{false, true} {
				for _, stdin := range []bool{false, true} {
					for _, a := range cfgs {
						cases = append(cases, c07cliCase{Input: "alphabet", Format: format, Upper: up, Stdin: stdin, Args: a})
					}
				}
			}
		}
		for _, format := range []string{"fasta-json", "fasta-obi"} {
			for _, stdin := range []bool{false, true} {
				for _, a := range cfgs {
					cases = append(cases, c07cliCase{Input: "annotations", Format: format, Stdin: stdin, Args: a})
					// OBI title lines on output: the second pass reads the annotation in its other decoded form
					cases = append(cases, c07cliCase{Input: "annotations", Format: format, Stdin: stdin, Args: append([]string{"-O"}, a...)})
				}
			}
		}
		for _, format := range []string{"fastq-q1", "fasta"} {
			for _, a := range cfgs {
				cases = append(cases, c07cliCase{Input: "alphabet", Format: format, Paired: true, Args: a})
			}
		}
	}

	type job struct {
		k int
		c c07cliCase
	}
	var mine []job
	for k, c := range cases {
		if r.Mine(k) {
			mine = append(mine, job{k, c})
		}
	}
	sem := make(chan struct{}, 4)
	done := make(chan struct{}, len(mine))
	for _, j := range mine {
		j := j
		sem <- struct{}{}
		go func() {
			defer func() { <-sem; done <- struct{}{} }()
			if r.Expired() {
				return
			}
			c07cliOne(r, bin, filepath.Join(dir, fmt.Sprintf("case%d", j.k)), j.c, maxLen)
		}()
	}
	for range mine {
		<-done
	}
	r.Sample(c07cliCase{Input: "annotations", Format: "fasta-json", Args: []string{"-O", "--max-cpu", "1", "--batch-size", "1"}})
	// guard on what the harness did (the cli_records_compared_* counters need a binary that ends and writes readable
	// output: they are reported, not required)
	r.RequireNonVacuous("cli_input_records_submitted")
}

func c07cliOne(r *verifkit.Result, bin, wd string, c c07cliCase, maxLen int) {
	os.MkdirAll(wd, 0o755)
	defer os.RemoveAll(wd)
	recs, posOf := c07cliInputs(c, maxLen)
	ext := ".fasta"
	if strings.HasPrefix(c.Format, "fastq") {
		ext = ".fastq"
	}
	in := filepath.Join(wd, "in"+ext)
	c07cliWrite(in, recs, c.Format)
	fail := func(key, desc string) { r.Violate(key, c.String()+": "+desc, c) }
	site := "obicomplement/" + c.Format
	if c.Paired {
		site += "/paired"
	}

	pass := func(n int, src string) (out string, ok bool) {
		args := append([]string{}, c.Args...)
		args = append(args, "--no-progressbar")
		stdin := ""
		if c.Paired {
			mate := filepath.Join(wd, fmt.Sprintf("mate%d%s", n, ext))
			c07cliWrite(mate, recs, c.Format) // same identifiers, same number of records
			out = filepath.Join(wd, fmt.Sprintf("out%d%s", n, ext))
			args = append(args, "--paired-with", mate, "-o", out, src)
			if p := c07cliRun(bin, args, "", ""); p != "" {
				fail(site+"/does-not-complete", fmt.Sprintf("pass %d: %s", n, p))
				return "", false
			}
			out = strings.TrimSuffix(out, ext) + "_R1" + ext
			if _, err := os.Stat(out); err != nil {
				fail(site+"/forward-file-not-written", fmt.Sprintf("pass %d: %v", n, err))
				return "", false
			}
			return out, true
		}
		out = filepath.Join(wd, fmt.Sprintf("out%d%s", n, ext))
		if c.Stdin {
			stdin = src
		} else {
			args = append(args, src)
		}
		if p := c07cliRun(bin, args, stdin, out); p != "" {
			fail(site+"/does-not-complete", fmt.Sprintf("pass %d: %s", n, p))
			return "", false
		}
		return out, true
	}

	r.Eval(1)
	r.Count("cli_input_records_submitted", int64(len(recs)))
	o1, ok := pass(1, in)
	if !ok {
		return
	}
	got1, _, problem := c07cliParse(o1)
	if problem != "" {
		fail(site+"/output-not-readable", "pass 1: "+problem)
		return
	}
	for _, rec := range recs {
		r.Trans(1)
		r.Count("cli_records_compared_with_the_reverse_complement", 1)
		r.State(fmt.Sprintf("cli:%s:%v:%s:%v", c.Format, c.Upper, rec.seq, rec.pm))
		g, found := got1[rec.id]
		if !found {
			fail(site+"/record-not-written", fmt.Sprintf("no record %s in the output (input %q)", rec.id, rec.seq))
			continue
		}
		want := c07cliRcRec(rec, posOf)
		if field, d := c07cliSame(g, want); field != "" {
			fail(site+"/not-the-reverse-complement:"+field, fmt.Sprintf("record %s (input %q qual %v mismatches %v): %s", rec.id, rec.seq, rec.qual, rec.pm, d))
		}
	}
	o2, ok := pass(2, o1)
	if !ok {
		return
	}
	got2, _, problem := c07cliParse(o2)
	if problem != "" {
		fail(site+"/output-not-readable", "pass 2: "+problem)
		return
	}
	for _, rec := range recs {
		r.Trans(1)
		r.Count("cli_records_compared_after_two_passes", 1)
		g, found := got2[rec.id]
		if !found {
			fail(site+"/record-not-written", fmt.Sprintf("no record %s after two passes (input %q)", rec.id, rec.seq))
			continue
		}
		want := rec
		if field, d := c07cliSame(g, want); field != "" {
			fail(site+"/twice-not-identity:"+field, fmt.Sprintf("record %s (input %q qual %v mismatches %v): %s", rec.id, rec.seq, rec.qual, rec.pm, d))
		}
	}
}
