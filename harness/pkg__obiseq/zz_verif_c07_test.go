//go:build verif

package obiseq

// C07 — reverse complement, subsequence and copy obey their algebraic laws and share no mutable state.
//
// E1  (algebra)  every string over the 19-symbol alphabet (15 IUPAC codes . - [ ]) up to a length bound, lower and
//                upper case, without / with two quality vectors: rc∘rc = id (cached, in-place and fresh routes),
//                rc(sub(s,f,t)) = sub(rc(s),L-t,L-f) for every window, circular sub = window of s+s for every
//                (from,to); pairing_mismatches positions under rc / sub / circular sub for every subset of positions.
// E2  (histories) explicit-state BFS over histories of Copy / ReverseComplement / Subsequence / mutate / Set* /
//                Recycle / third-party GetSlice+RecycleSlice on a small heap of objects derived from one source.
//                The package's sync.Pool objects are replaced (overlay generated from the current pool.go by
//                c07_poolgen.py) by a pool whose every Get answer (any pooled item, or New) is a branch.
//                Oracle: value-semantics model (each object owns its bytes) + after every step a probe that
//                flips every byte / annotation of every live object and requires all the others to stay put.
//                The sources carry pairing_mismatches (in-memory and JSON-decoded Go representation): the positions
//                of every derived object are the composition of the coordinate transforms of the statement.
//                The revcomp cache (known findings) is modelled exactly (c07world.link / hidden): the known keys are
//                used only for the documented answers of the cache, anything else gets its own key.
// (audit) E1 also drives ReverseComplementWorker, windows of s+s starting in the second copy, 4 Go representations
//                of the annotation, every circular (from,to) for annotations. The command level (real obicomplement
//                binary) is in zz_verif_c07cli_test.go.

import (
	"bytes"
	"encoding/json"
	"fmt"
	"hash/fnv"
	"io"
	"os"
	"reflect"
	"sort"
	"strconv"
	"strings"
	"testing"
	"unsafe"

	"git.metabarcoding.org/obitools/obitools4/obitools4/pkg/verifkit"
	log "github.com/sirupsen/logrus"
)

const c07Alphabet = "acgtrymkswbdhvn.-[]"

// IUPAC complement, written independently of the three tables of the repository.
var c07comp = map[byte]byte{'a': 't', 'c': 'g', 'g': 'c', 't': 'a', 'r': 'y', 'y': 'r', 'm': 'k', 'k': 'm',
	's': 's', 'w': 'w', 'b': 'v', 'v': 'b', 'd': 'h', 'h': 'd', 'n': 'n'}

type c07step struct {
	Op   string `json:"op"`
	A    int    `json:"a"`
	B    int    `json:"b,omitempty"`
	F    int    `json:"f,omitempty"`
	T    int    `json:"t,omitempty"`
	Circ bool   `json:"circ,omitempty"`
	Ch   []int  `json:"pool_answers,omitempty"` // per Pool.Get of this step: 0 = New(), k = k-th pooled item
}

type c07case struct {
	Kind  string    `json:"kind"` // "E1", "E1ann", "E2"
	S     string    `json:"s,omitempty"`
	Upper bool      `json:"upper,omitempty"`
	Q     int       `json:"q,omitempty"`   // 0 none, 1: q[i]=i, 2: q[i]=93-i
	Pos   []int     `json:"pos,omitempty"` // E1ann: annotated (1-based) positions
	Rep   int       `json:"rep,omitempty"` // E1ann: Go type of the annotation value (c07annReps)
	Root  string    `json:"root,omitempty"`
	Steps []c07step `json:"steps,omitempty"`
}

type c07fail func(key, desc string)

// c07fatal: a logrus Fatal inside the implementation must not end the process; it unwinds like a panic and is judged
// by whoever guards the call.
type c07fatal struct{ code int }

func (e c07fatal) String() string { return fmt.Sprintf("log.Fatal (exit status %d)", e.code) }

func c07installExit() {
	log.StandardLogger().ExitFunc = func(code int) { panic(c07fatal{code}) }
}

// c07try runs f; "" when it returned, else the panic message
func c07try(f func()) (msg string) {
	defer func() {
		if x := recover(); x != nil {
			if s, ok := x.(string); ok && strings.HasPrefix(s, "c07:") && !strings.HasPrefix(s, c07replayMismatch) {
				panic(x) // the harness's own
			}
			msg = fmt.Sprint(x)
			if msg == "" {
				msg = "panic"
			}
		}
	}()
	f()
	return ""
}

// prefix of the panic raised by the controlled pool when a recorded pool answer does not exist any more: the
// implementation did not put into / take from its pools what it did when the same history was run before
const c07replayMismatch = "c07: replayed pool answer"

func c07guard(what string, fail c07fail, f func()) {
	defer func() {
		if x := recover(); x != nil {
			fail(what+"/panic", fmt.Sprintf("%s panicked: %v", what, x))
		}
	}()
	f()
}

// ------------------------------------------------------------------------------------------------
// E1
// ------------------------------------------------------------------------------------------------

func c07quals(L, q int) []byte {
	if q == 0 {
		return nil
	}
	out := make([]byte, L)
	for i := range out {
		if q == 1 {
			out[i] = byte(i)
		} else {
			out[i] = byte(93 - i)
		}
	}
	return out
}

func c07mk(c c07case) *BioSequence {
	b := []byte(c.S)
	var seq *BioSequence
	if c.Upper {
		b = bytes.ToUpper(b)
		seq = NewEmptyBioSequence(0)
		seq.SetId("s")
		seq.Write(b)
	} else {
		seq = NewBioSequence("s", b, "")
	}
	if c.Q > 0 {
		seq.SetQualities(c07quals(len(b), c.Q))
	}
	return seq
}

func c07rev(b []byte) []byte {
	o := make([]byte, len(b))
	for i := range b {
		o[len(b)-1-i] = b[i]
	}
	return o
}

// c07e1 runs every algebraic law on one string variant; returns the number of law instances checked.
func c07e1(c c07case, fail c07fail) (laws int64) {
	L := len(c.S)
	orig := c.S
	if c.Upper {
		orig = strings.ToUpper(orig)
	}
	q := c07quals(L, c.Q)
	in := fmt.Sprintf("seq=%q upper=%v qual=%v", c.S, c.Upper, q)
	eqs := func(got *BioSequence, want string) bool { return got != nil && strings.EqualFold(got.String(), want) }
	eqq := func(got *BioSequence, want []byte) bool {
		return q == nil || (got != nil && bytes.Equal([]byte(got.Qualities()), want))
	}

	// rc∘rc = id, three routes
	c07guard("ReverseComplement", fail, func() {
		a := c07mk(c)
		b := a.ReverseComplement(false)
		laws++
		if a.String() != orig || !eqq(a, q) {
			fail("ReverseComplement/modifies-source(inplace=false)", fmt.Sprintf("%s: source is %q/%v after rc(false)", in, a.String(), a.Qualities()))
		}
		if b.Len() != L {
			fail("ReverseComplement/length", fmt.Sprintf("%s: rc has length %d", in, b.Len()))
		} else {
			for i := 0; i < L; i++ {
				ch := c.S[L-1-i]
				if cp, ok := c07comp[ch]; ok && (b.Sequence()[i]|0x20) != cp {
					fail("ReverseComplement/not-the-iupac-complement", fmt.Sprintf("%s: rc=%q, position %d should be the complement %q of %q", in, b.String(), i, cp, ch))
					break
				}
			}
		}
		laws++
		cc := b.ReverseComplement(false)
		if !eqs(cc, orig) {
			fail("ReverseComplement/twice-not-identity:seq", fmt.Sprintf("%s: rc(rc(s)) = %q (inplace=false twice)", in, cc.String()))
		} else if !eqq(cc, q) {
			fail("ReverseComplement/twice-not-identity:qual", fmt.Sprintf("%s: rc(rc(s)) qualities = %v (inplace=false twice)", in, cc.Qualities()))
		}
		laws++
		d := c07mk(c)
		r2 := d.ReverseComplement(true).ReverseComplement(true)
		if !eqs(r2, orig) {
			fail("ReverseComplement/twice-not-identity:seq", fmt.Sprintf("%s: rc(rc(s)) = %q (inplace=true twice)", in, r2.String()))
		} else if !eqq(r2, q) {
			fail("ReverseComplement/twice-not-identity:qual", fmt.Sprintf("%s: rc(rc(s)) qualities = %v (inplace=true twice)", in, r2.Qualities()))
		}
		laws++
		// fresh route: the intermediate is rebuilt from its values, so no cached link can answer
		x := c07mk(c).ReverseComplement(false)
		y := NewEmptyBioSequence(0)
		y.Write(append([]byte{}, x.Sequence()...))
		if q != nil {
			y.SetQualities(append([]byte{}, x.Qualities()...))
		}
		z := y.ReverseComplement(false)
		if !eqs(z, orig) {
			fail("ReverseComplement/twice-not-identity:seq", fmt.Sprintf("%s: rc(rc(s)) = %q (second rc on a rebuilt object)", in, z.String()))
		} else if !eqq(z, q) {
			fail("ReverseComplement/twice-not-identity:qual", fmt.Sprintf("%s: rc(rc(s)) qualities = %v (second rc on a rebuilt object)", in, z.Qualities()))
		}
	})

	// the SeqWorker wrapper used by the commands (obicomplement: inplace=true)
	c07guard("ReverseComplementWorker", fail, func() {
		want := string(c07rcRef([]byte(orig)))
		for _, inpl := range []bool{false, true} {
			laws++
			a := c07mk(c)
			out, err := ReverseComplementWorker(inpl)(a)
			if err != nil || len(out) != 1 || out[0] == nil {
				fail("ReverseComplementWorker/not-exactly-one-result", fmt.Sprintf("%s inplace=%v: %d results, error %v", in, inpl, len(out), err))
				continue
			}
			if !eqs(out[0], want) {
				fail(fmt.Sprintf("ReverseComplementWorker/not-the-reverse-complement:seq(inplace=%v)", inpl), fmt.Sprintf("%s: worker returned %q, want %q", in, out[0].String(), want))
			} else if !eqq(out[0], c07rev(q)) {
				fail(fmt.Sprintf("ReverseComplementWorker/not-the-reverse-complement:qual(inplace=%v)", inpl), fmt.Sprintf("%s: worker returned qualities %v, want %v", in, out[0].Qualities(), c07rev(q)))
			}
			if !inpl && (a.String() != orig || !eqq(a, q)) {
				fail("ReverseComplementWorker/modifies-source(inplace=false)", fmt.Sprintf("%s: source is %q/%v after the worker", in, a.String(), a.Qualities()))
			}
		}
	})

	// windows
	c07guard("Subsequence", fail, func() {
		a := c07mk(c)
		ra := c07mk(c).ReverseComplement(true)
		for f := 0; f < L; f++ {
			for t := f + 1; t <= L; t++ {
				laws++
				w := fmt.Sprintf("%s window=[%d,%d)", in, f, t)
				x, err := a.Subsequence(f, t, false)
				if err != nil || x == nil {
					fail("Subsequence/valid-window-refused", fmt.Sprintf("%s: %v", w, err))
					continue
				}
				if !eqs(x, orig[f:t]) {
					fail("Subsequence/linear-window-wrong:seq", fmt.Sprintf("%s: got %q want %q", w, x.String(), orig[f:t]))
				} else if q != nil && !eqq(x, q[f:t]) {
					fail("Subsequence/linear-window-wrong:qual", fmt.Sprintf("%s: got %v want %v", w, x.Qualities(), q[f:t]))
				}
				y := x.ReverseComplement(false)
				z, err := ra.Subsequence(L-t, L-f, false)
				if err != nil || z == nil {
					fail("Subsequence/valid-window-refused", fmt.Sprintf("%s on rc(s) window=[%d,%d): %v", in, L-t, L-f, err))
					continue
				}
				if !strings.EqualFold(y.String(), z.String()) {
					fail("rc-sub-commute:seq", fmt.Sprintf("%s: rc(sub(s,f,t))=%q but sub(rc(s),L-t,L-f)=%q", w, y.String(), z.String()))
				} else if q != nil && !bytes.Equal(y.Qualities(), z.Qualities()) {
					fail("rc-sub-commute:qual", fmt.Sprintf("%s: rc(sub(s,f,t)) qualities %v but sub(rc(s),L-t,L-f) qualities %v", w, y.Qualities(), z.Qualities()))
				}
			}
		}
		// circular: 0<=f<L, 1<=t<=L (wrap when f>=t) and L<t<=f+L (window of s+s crossing the junction)
		ss := orig + orig
		qq := append(append([]byte{}, q...), q...)
		for f := 0; f < L; f++ {
			for t := 1; t <= f+L; t++ {
				laws++
				lo, hi := f, t
				if f >= t {
					hi = L + t
				}
				w := fmt.Sprintf("%s circular from=%d to=%d", in, f, t)
				x, err := a.Subsequence(f, t, true)
				if err != nil || x == nil {
					fail("Subsequence/circular-window-refused", fmt.Sprintf("%s: %v", w, err))
					continue
				}
				if !eqs(x, ss[lo:hi]) {
					fail("Subsequence/circular-window-wrong:seq", fmt.Sprintf("%s: got %q want %q (window [%d,%d) of s+s)", w, x.String(), ss[lo:hi], lo, hi))
				} else if q != nil && !eqq(x, qq[lo:hi]) {
					fail("Subsequence/circular-window-wrong:qual", fmt.Sprintf("%s: got %v want %v", w, x.Qualities(), qq[lo:hi]))
				}
			}
		}
		if a.String() != orig || !eqq(a, q) {
			fail("Subsequence/modifies-source", fmt.Sprintf("%s: source is %q/%v after taking subsequences", in, a.String(), a.Qualities()))
		}
	})
	c07guard("Subsequence(circular,from>=length)", fail, func() {
		a := c07mk(c)
		ss := orig + orig
		qq := append(append([]byte{}, q...), q...)
		// windows of s+s that start in the second copy: L<=f<2L, f<t<=2L
		for f := L; f < 2*L; f++ {
			for t := f + 1; t <= 2*L; t++ {
				laws++
				w := fmt.Sprintf("%s circular from=%d to=%d", in, f, t)
				x, err := a.Subsequence(f, t, true)
				if err != nil || x == nil {
					fail("Subsequence/circular-window-refused:from-beyond-length", fmt.Sprintf("%s: %v", w, err))
					continue
				}
				if !eqs(x, ss[f:t]) {
					fail("Subsequence/circular-window-wrong:seq:from-beyond-length", fmt.Sprintf("%s: got %q want %q (window [%d,%d) of s+s)", w, x.String(), ss[f:t], f, t))
				} else if q != nil && !eqq(x, qq[f:t]) {
					fail("Subsequence/circular-window-wrong:qual:from-beyond-length", fmt.Sprintf("%s: got %v want %v", w, x.Qualities(), qq[f:t]))
				}
			}
		}
	})
	return laws
}

// ---- pairing_mismatches (1-based positions, keys "(A:30)->(C:20)") ----

// letters of the two reads at the mismatch of position p (obipairing writes upper-case IUPAC letters)
var c07annLetters = [][2]byte{{'A', 'C'}, {'G', 'T'}, {'R', 'A'}, {'T', 'N'}, {'C', 'Y'}, {'N', 'G'}}

func c07annKey(p int) string {
	l := c07annLetters[(p-1)%len(c07annLetters)]
	return fmt.Sprintf("(%c:%02d)->(%c:%02d)", l[0], 30+p, l[1], 10+p)
}

// c07annRcKey is what the key of position p becomes on the other strand (sides swapped, bases complemented).
func c07annRcKey(p int) string {
	l := c07annLetters[(p-1)%len(c07annLetters)]
	return fmt.Sprintf("(%c:%02d)->(%c:%02d)", c07comp[l[1]|0x20]&^0x20, 10+p, c07comp[l[0]|0x20]&^0x20, 30+p)
}

// Go types under which the annotation reaches the code: built by obipairing (map[string]int), read back from
// a JSON title line (map[string]interface{} of float64), from an OBI title line / other producers (interface{} of
// int, map[string]float64)
var c07annReps = []string{"map[string]int", "map[string]interface{}{float64}", "map[string]interface{}{int}", "map[string]float64"}

func c07mkAnn(c c07case) *BioSequence {
	s := NewBioSequence("s", []byte(c.S), "")
	var val interface{}
	switch c.Rep {
	case 0:
		m := map[string]int{}
		for _, p := range c.Pos {
			m[c07annKey(p)] = p
		}
		val = m
	case 1, 2:
		m := map[string]interface{}{}
		for _, p := range c.Pos {
			if c.Rep == 1 {
				m[c07annKey(p)] = float64(p)
			} else {
				m[c07annKey(p)] = p
			}
		}
		val = m
	default:
		m := map[string]float64{}
		for _, p := range c.Pos {
			m[c07annKey(p)] = float64(p)
		}
		val = m
	}
	s.SetAttribute("pairing_mismatches", val)
	return s
}

// positions of seq's pairing_mismatches keyed by the upper-cased key
func c07annGet(s *BioSequence) map[string]int {
	out := map[string]int{}
	if s == nil || !s.HasAttribute("pairing_mismatches") {
		return out
	}
	m, ok := s.GetIntMap("pairing_mismatches")
	if !ok {
		return out
	}
	for k, v := range m {
		out[strings.ToUpper(k)] = v
	}
	return out
}

func c07e1ann(c c07case, fail c07fail) (laws int64) {
	L := len(c.S)
	in := fmt.Sprintf("seq=%q pairing_mismatches (%s) at positions %v", c.S, c07annReps[c.Rep], c.Pos)
	c07guard("pairing_mismatches", fail, func() {
		a := c07mkAnn(c)
		// rc: p -> L-p+1
		laws++
		b := a.ReverseComplement(false)
		got := c07annGet(b)
		rcOK := true
		for _, p := range c.Pos {
			if v, ok := got[c07annRcKey(p)]; !ok || v != L-p+1 {
				rcOK = false
				fail("pairing_mismatches/ReverseComplement:position", fmt.Sprintf("%s: after rc the mismatch of position %d should be at %d; annotation is %v", in, p, L-p+1, got))
				break
			}
		}
		if len(got) != len(c.Pos) {
			rcOK = false
			fail("pairing_mismatches/ReverseComplement:position", fmt.Sprintf("%s: after rc annotation is %v", in, got))
		}
		if !reflect.DeepEqual(c07annGet(a), c07annGet(c07mkAnn(c))) {
			fail("pairing_mismatches/ReverseComplement:source-annotation-changed", fmt.Sprintf("%s: source annotation now %v", in, c07annGet(a)))
		}
		laws++
		r2 := c07mkAnn(c).ReverseComplement(true).ReverseComplement(true)
		if !reflect.DeepEqual(c07annGet(r2), c07annGet(c07mkAnn(c))) {
			fail("pairing_mismatches/ReverseComplement:twice-not-identity", fmt.Sprintf("%s: after rc twice annotation is %v", in, c07annGet(r2)))
		}
		ra := c07mkAnn(c).ReverseComplement(true)
		// linear windows
		for f := 0; f < L; f++ {
			for t := f + 1; t <= L; t++ {
				laws++
				w := fmt.Sprintf("%s window=[%d,%d)", in, f, t)
				x, err := a.Subsequence(f, t, false)
				if err != nil {
					continue // reported by E1
				}
				// direct oracle for a window [lo,hi) of a sequence whose mismatch of source position p carries key(p) at pos(p)
				direct := func(sub *BioSequence, lo, hi int, key func(int) string, pos func(int) int, what string) bool {
					good := true
					got := c07annGet(sub)
					for _, p := range c.Pos {
						v, ok := got[key(p)]
						q := pos(p)
						if q > lo && q <= hi {
							if !ok {
								good = false
								fail("pairing_mismatches/Subsequence:in-window-position-lost", fmt.Sprintf("%s%s: mismatch at position %d lies in the window and should be at %d; annotation of the subsequence is %v", w, what, q, q-lo, got))
							} else if v != q-lo {
								good = false
								fail("pairing_mismatches/Subsequence:in-window-position-wrong", fmt.Sprintf("%s%s: mismatch at position %d should be at %d; annotation of the subsequence is %v", w, what, q, q-lo, got))
							}
						} else if ok {
							good = false
							if v < 1 || v > hi-lo {
								fail("pairing_mismatches/Subsequence:out-of-window-entry-kept-at-invalid-position", fmt.Sprintf("%s%s: mismatch at position %d is outside the window but is kept at position %d of a subsequence of length %d", w, what, q, v, hi-lo))
							} else {
								fail("pairing_mismatches/Subsequence:out-of-window-entry-kept", fmt.Sprintf("%s%s: mismatch at position %d is outside the window but is kept at position %d", w, what, q, v))
							}
						}
					}
					return good
				}
				okx := direct(x, f, t, c07annKey, func(p int) int { return p }, "")
				// rc(sub) vs sub(rc); judged only when both subsequences carry the right annotation themselves
				z, err := ra.Subsequence(L-t, L-f, false)
				if err != nil || !rcOK {
					continue
				}
				okz := direct(z, L-t, L-f, c07annRcKey, func(p int) int { return L - p + 1 }, fmt.Sprintf(" taken on rc(s) as [%d,%d)", L-t, L-f))
				if okx && okz {
					y := x.ReverseComplement(false)
					gy, gz := c07annGet(y), c07annGet(z)
					if !reflect.DeepEqual(gy, gz) {
						fail("pairing_mismatches/rc-sub-commute", fmt.Sprintf("%s: rc(sub) annotation %v, sub(rc) annotation %v", w, gy, gz))
					}
				}
			}
		}
		// every circular (from,to), 0<=from<L, 1<=to<=from+L. to is taken modulo L (tt); from < tt: plain window
		// p -> p-from; else wrapped: p>from -> p-from ; p<=tt -> p+L-from
		for f := 0; f < L; f++ {
			for t := 1; t <= f+L; t++ {
				laws++
				w := fmt.Sprintf("%s circular from=%d to=%d", in, f, t)
				x, err := a.Subsequence(f, t, true)
				if err != nil {
					continue
				}
				tt := (t-1)%L + 1
				sublen := tt - f
				if f >= tt {
					sublen = L - f + tt
				}
				got := c07annGet(x)
				for _, p := range c.Pos {
					want := -1
					if f < tt {
						if p > f && p <= tt {
							want = p - f
						}
					} else if p > f {
						want = p - f
					} else if p <= tt {
						want = p + L - f
					}
					v, ok := got[c07annKey(p)]
					if want > 0 && (!ok || v != want) {
						fail("pairing_mismatches/Subsequence-circular:in-window-position-lost-or-wrong", fmt.Sprintf("%s: mismatch at source position %d should be at %d; annotation is %v", w, p, want, got))
					} else if want < 0 && ok && (v < 1 || v > sublen) {
						fail("pairing_mismatches/Subsequence-circular:out-of-window-entry-kept-at-invalid-position", fmt.Sprintf("%s: mismatch at source position %d is outside the window but kept at position %d of a subsequence of length %d", w, p, v, sublen))
					} else if want < 0 && ok {
						fail("pairing_mismatches/Subsequence-circular:out-of-window-entry-kept", fmt.Sprintf("%s: mismatch at source position %d is outside the window but kept at %d", w, p, v))
					}
				}
			}
		}
	})
	return laws
}

// ------------------------------------------------------------------------------------------------
// E2 — histories with a controlled pool
// ------------------------------------------------------------------------------------------------

type c07val struct {
	seq  []byte
	qual []byte // nil: no qualities
	feat string
	ann  string         // canonical rendering of the annotation map (pairing_mismatches excluded)
	pm   map[string]int // pairing_mismatches: upper-cased key -> 1-based position (nil or empty: none)
}

type c07obj struct {
	impl  *BioSequence
	m     c07val
	alive bool
}

type c07tp struct {
	b    []byte
	held bool
}

type c07world struct {
	lastMod map[int]string // last operation that modified the object in place ("" = none since creation)
	// model of the documented revcomp cache (known findings): link[h] = handle of the object that
	// ReverseComplement(h) is documented to answer with (h was made by ReverseComplement(false) from it, or the
	// private copy of it that a Copy of h already handed out); hidden[h] = value of the private copy of the
	// original that a Copy of a complemented object holds and that no handle designates yet.
	link   map[int]int
	hidden map[int]*c07val
	objs   []*c07obj
	tps    []*c07tp
	putBy  map[*[]byte]string
	events []string // live slices handed out by GetSlice so far in this history (cumulative: the world stays tainted)
	// pool answers of the current step
	choices []int
	pos     int
	used    []int
	arity   []int
	enum    bool
	curOp   string
	// E3: the two buffers of a caller that reuses them for every record (a reader): it passes empty views of them
	// (cb[0][:0] as sequence, cb[1][:0] as qualities) and keeps them; they are filled with 'Z' and must stay so
	cb     [2][]byte
	cbUsed bool
}

const c07cbLen = 8

func c07cbName(k int) string { return [2]string{"caller-sequence-buffer", "caller-quality-buffer"}[k] }

// cbDiff: "" when the caller's buffers still hold what the caller wrote in them
func (w *c07world) cbDiff() string {
	if !w.cbUsed {
		return ""
	}
	for k := range w.cb {
		for i, c := range w.cb[k] {
			if c != 'Z' {
				return fmt.Sprintf("%s[%d] now holds %q: the caller kept that buffer and only ever passed an EMPTY view of it (buf[:0])", c07cbName(k), i, c)
			}
		}
	}
	return ""
}

var c07cur *c07world

func c07data(b []byte) unsafe.Pointer {
	if cap(b) == 0 {
		return nil
	}
	return unsafe.Pointer(unsafe.SliceData(b))
}

func (w *c07world) liveOwner(b []byte) string {
	p := c07data(b)
	if p == nil {
		return ""
	}
	for i, o := range w.objs {
		if !o.alive {
			continue
		}
		if c07data(o.impl.sequence) == p {
			return fmt.Sprintf("obj%d.sequence", i)
		}
		if c07data(o.impl.qualities) == p {
			return fmt.Sprintf("obj%d.qualities", i)
		}
		if c07data(o.impl.feature) == p {
			return fmt.Sprintf("obj%d.feature", i)
		}
	}
	for j, t := range w.tps {
		if t.held && c07data(t.b) == p {
			return fmt.Sprintf("thirdparty%d", j)
		}
	}
	for k := range w.cb {
		if w.cbUsed && c07data(w.cb[k]) == p {
			return "caller." + c07cbName(k)
		}
	}
	return ""
}

func (w *c07world) fieldOf(p *[]byte) string {
	for _, o := range w.objs {
		switch p {
		case &o.impl.sequence:
			return "sequence"
		case &o.impl.qualities:
			return "qualities"
		case &o.impl.feature:
			return "feature"
		}
	}
	for _, t := range w.tps {
		if p == &t.b {
			return "thirdparty-variable"
		}
	}
	return "other"
}

func c07choose(p *C07CtlPool, n int) int {
	w := c07cur
	if w == nil || !w.enum {
		if n == 0 {
			return n
		}
		return n - 1
	}
	c := 0
	if w.pos < len(w.choices) {
		c = w.choices[w.pos]
	}
	if c > n {
		panic(fmt.Sprintf(c07replayMismatch+" %d but the pool holds %d items", c, n))
	}
	w.pos++
	w.used = append(w.used, c)
	w.arity = append(w.arity, n+1)
	if c == 0 {
		return n // New
	}
	it := p.Items[c-1]
	if bp, ok := it.(*[]byte); ok && bp != nil {
		w.tag(w.curOp)
		if own := w.liveOwner(*bp); own != "" {
			w.events = append(w.events, fmt.Sprintf("put-by=%s:hands-out-live=%s", w.putBy[bp], own[strings.Index(own, ".")+1:]))
		}
	}
	return c - 1
}

func c07bytePool() *C07CtlPool { return &_BioSequenceByteSlicePool }

func c07resetPools() {
	for _, p := range C07PoolSeen {
		p.Items = nil
	}
	_BioSequenceByteSlicePool.Items = nil
	BioSequenceAnnotationPool.Items = nil
}

func c07annCanon(s *BioSequence) string {
	if !s.HasAnnotation() {
		return "{}"
	}
	a := s.Annotations()
	keys := make([]string, 0, len(a))
	for k := range a {
		if k != "pairing_mismatches" { // modelled apart (c07val.pm)
			keys = append(keys, k)
		}
	}
	sort.Strings(keys)
	var sb strings.Builder
	sb.WriteByte('{')
	for _, k := range keys {
		sb.WriteString(k)
		sb.WriteByte('=')
		c07annVal(&sb, a[k])
		sb.WriteByte(';')
	}
	sb.WriteByte('}')
	return sb.String()
}

// c07annVal renders an annotation value deterministically (hand-written for the usual types: this is the hot spot
// of the sharing probe)
func c07annVal(sb *strings.Builder, v interface{}) {
	switch t := v.(type) {
	case int:
		sb.WriteString(strconv.Itoa(t))
	case string:
		sb.WriteString(t)
	case float64:
		sb.WriteString(strconv.FormatFloat(t, 'g', -1, 64))
	case map[string]int:
		keys := make([]string, 0, len(t))
		for k := range t {
			keys = append(keys, k)
		}
		sort.Strings(keys)
		sb.WriteString("map[")
		for _, k := range keys {
			sb.WriteString(k)
			sb.WriteByte(':')
			sb.WriteString(strconv.Itoa(t[k]))
			sb.WriteByte(' ')
		}
		sb.WriteByte(']')
	case map[string]interface{}:
		keys := make([]string, 0, len(t))
		for k := range t {
			keys = append(keys, k)
		}
		sort.Strings(keys)
		sb.WriteString("map{")
		for _, k := range keys {
			sb.WriteString(k)
			sb.WriteByte(':')
			c07annVal(sb, t[k])
			sb.WriteByte(' ')
		}
		sb.WriteByte('}')
	default:
		fmt.Fprintf(sb, "%T:%v", v, v)
	}
}

func c07rcRef(b []byte) []byte {
	o := make([]byte, len(b))
	for i, ch := range b {
		c := ch | 0x20
		switch {
		case ch == '[':
			c = ']'
		case ch == ']':
			c = '['
		case ch == '.' || ch == '-':
			c = ch
		default:
			if x, ok := c07comp[c]; ok {
				c = x
			}
		}
		o[len(b)-1-i] = c
	}
	return o
}

func c07default(n int) []byte { return bytes.Repeat([]byte{40}, n) }

// ---- pairing_mismatches along histories: the coordinate transforms of the statement ----

func c07pmClone(m map[string]int) map[string]int {
	o := make(map[string]int, len(m))
	for k, v := range m {
		o[k] = v
	}
	return o
}

func c07pmString(m map[string]int) string {
	keys := make([]string, 0, len(m))
	for k := range m {
		keys = append(keys, k)
	}
	sort.Strings(keys)
	var sb strings.Builder
	for _, k := range keys {
		fmt.Fprintf(&sb, "%s@%d,", k, m[k])
	}
	return sb.String()
}

func c07pmEqual(a, b map[string]int) bool {
	if len(a) != len(b) {
		return false
	}
	for k, v := range a {
		if w, ok := b[k]; !ok || w != v {
			return false
		}
	}
	return true
}

// key "(X:qq)->(Y:rr)" seen from the other strand: "(comp(Y):rr)->(comp(X):qq)"
func c07pmRcKey(k string) string {
	b := []byte(k)
	if len(b) != 14 {
		return k
	}
	cp := func(x byte) byte {
		if y, ok := c07comp[x|0x20]; ok {
			return y &^ 0x20
		}
		return x
	}
	b[1], b[9] = cp(b[9]), cp(b[1])
	b[3], b[4], b[11], b[12] = b[11], b[12], b[3], b[4]
	return string(b)
}

func c07pmRc(m map[string]int, L int) map[string]int {
	o := make(map[string]int, len(m))
	for k, p := range m {
		o[c07pmRcKey(k)] = L - p + 1
	}
	return o
}

// window [f,t) (circular: to taken modulo L, wrapped when from >= to) of a sequence of length L
func c07pmSub(m map[string]int, f, t int, circ bool, L int) map[string]int {
	o := make(map[string]int, len(m))
	if circ {
		f = f % L
		t = (t-1)%L + 1
	}
	for k, p := range m {
		switch {
		case f < t && p > f && p <= t:
			o[k] = p - f
		case f >= t && p > f:
			o[k] = p - f
		case f >= t && p <= t:
			o[k] = p + L - f
		}
	}
	return o
}

// observable value of an implementation object
func c07observe(s *BioSequence) (seq, qual []byte, feat, ann string) {
	return []byte(s.String()), append([]byte{}, s.Qualities()...), s.Features(), c07annCanon(s)
}

var c07forty = bytes.Repeat([]byte{40}, 64)

// mismatch of object i against its model ("" when equal); field tells which part differs.
// what: 1 = byte fields, 2 = annotations, 3 = both
func (w *c07world) diffw(i int, what int) (field, desc string) {
	o := w.objs[i]
	if what&1 != 0 {
		if seq := o.impl.Sequence(); !bytes.EqualFold(seq, o.m.seq) {
			return "sequence", fmt.Sprintf("obj%d sequence is %q, value-semantics model says %q", i, seq, o.m.seq)
		}
		wq := o.m.qual
		if wq == nil {
			wq = c07forty[:len(o.m.seq)]
		}
		if qual := o.impl.Qualities(); !bytes.Equal(qual, wq) {
			return "qualities", fmt.Sprintf("obj%d qualities are %v, model says %v", i, []byte(qual), wq)
		}
		if feat := o.impl.Features(); feat != o.m.feat {
			return "feature", fmt.Sprintf("obj%d features are %q, model says %q", i, feat, o.m.feat)
		}
	}
	if what&2 != 0 {
		if ann := c07annCanon(o.impl); ann != o.m.ann {
			return "annotations", fmt.Sprintf("obj%d annotations are %s, model says %s", i, ann, o.m.ann)
		}
		if pm := c07annGet(o.impl); !c07pmEqual(pm, o.m.pm) {
			return "annotations(pairing_mismatches)", fmt.Sprintf("obj%d pairing_mismatches are {%s}, the coordinate transforms give {%s}", i, c07pmString(pm), c07pmString(o.m.pm))
		}
	}
	return "", ""
}

func (w *c07world) diff(i int) (field, desc string) { return w.diffw(i, 3) }

type c07viol struct{ key, desc string }

const c07maxTP = 1

func (w *c07world) newObj(impl *BioSequence, m c07val) int {
	w.objs = append(w.objs, &c07obj{impl: impl, m: m, alive: true})
	return len(w.objs) - 1
}

// The default quality vector (answer of Qualities() for a sequence without qualities) is a window of ONE package-level
// array. A history in which the implementation managed to write into it is reported (the model says 40 everywhere), but
// it must not leak into the histories replayed afterwards: every history starts with that array healed.
func c07healDefaultQualities() {
	tmp := NewEmptyBioSequence(0)
	tmp.Write(make([]byte, 64))
	q := tmp.Qualities()
	q = q[:cap(q)]
	for i := range q {
		q[i] = 40
	}
}

func c07root(root string) *c07world {
	c07healDefaultQualities()
	c07resetPools()
	w := &c07world{putBy: map[*[]byte]string{}, link: map[int]int{}, hidden: map[int]*c07val{}}
	c07cur = w
	w.enum = false
	for k := range w.cb {
		w.cb[k] = bytes.Repeat([]byte{'Z'}, c07cbLen)
	}
	// roots "q" / "n": E2 (with pairing_mismatches); "qx" / "nx": E3 (no positional annotation: the length changes)
	withPm := len(root) == 1
	root = root[:1]
	var s *BioSequence
	m := c07val{seq: []byte("acg")}
	if root == "q" {
		m.qual = []byte{10, 20, 30}
		s = NewBioSequenceWithQualities("s", []byte("acg"), "", []byte{10, 20, 30})
	} else {
		s = NewBioSequence("s", []byte("acg"), "")
	}
	s.SetAttribute("k", 1)
	s.SetAttribute("m", map[string]int{"x": 1})
	// mismatches at positions 1 and 3: as obipairing builds them (root n) / as read back from a JSON title line (root q)
	if withPm {
		if root == "q" {
			s.SetAttribute("pairing_mismatches", map[string]interface{}{c07annKey(1): float64(1), c07annKey(3): float64(3)})
		} else {
			s.SetAttribute("pairing_mismatches", map[string]int{c07annKey(1): 1, c07annKey(3): 3})
		}
		m.pm = map[string]int{c07annKey(1): 1, c07annKey(3): 3}
	}
	m.ann = c07annCanon(s)
	w.newObj(s, m)
	w.tag("setup")
	return w
}

// copyLink: dst was made by Copy() of src. The documented cache gives the copy of a complemented object a
// private copy of the cached original (value of the original at the time of the Copy).
func (w *c07world) copyLink(src, dst int) {
	if e, ok := w.link[src]; ok {
		hv := &c07val{seq: []byte{}}
		if o := w.objs[e]; o.alive {
			hv.seq = append([]byte{}, o.m.seq...)
			if o.m.qual != nil {
				hv.qual = append([]byte{}, o.m.qual...)
			}
		}
		w.hidden[dst] = hv
	} else if h := w.hidden[src]; h != nil {
		hv := &c07val{seq: append([]byte{}, h.seq...)}
		if h.qual != nil {
			hv.qual = append([]byte{}, h.qual...)
		}
		w.hidden[dst] = hv
	}
}

func (w *c07world) tag(op string) {
	for _, it := range c07bytePool().Items {
		if bp, ok := it.(*[]byte); ok {
			if _, seen := w.putBy[bp]; !seen {
				w.putBy[bp] = op + "(&" + w.fieldOf(bp) + ")"
			}
		}
	}
}

func (w *c07world) existing(p *BioSequence, except int) int {
	for i, o := range w.objs {
		if i != except && o.impl == p {
			return i
		}
	}
	return -1
}

func c07hasCache(s *BioSequence) bool {
	f := reflect.ValueOf(s).Elem().FieldByName("revcomp")
	return f.IsValid() && f.Kind() == reflect.Ptr && !f.IsNil()
}

func c07cachePtr(s *BioSequence) *BioSequence {
	f := reflect.ValueOf(s).Elem().FieldByName("revcomp")
	if !f.IsValid() || f.Kind() != reflect.Ptr || f.IsNil() {
		return nil
	}
	return (*BioSequence)(unsafe.Pointer(f.Pointer()))
}

func c07windowVal(m c07val, f, t int, circ bool) c07val {
	L := len(m.seq)
	ss := append(append([]byte{}, m.seq...), m.seq...)
	lo, hi := f, t
	if circ && f >= t {
		hi = L + t
	}
	out := c07val{seq: append([]byte{}, ss[lo:hi]...)}
	if m.qual != nil {
		qq := append(append([]byte{}, m.qual...), m.qual...)
		out.qual = append([]byte{}, qq[lo:hi]...)
	}
	return out
}

// apply executes one step on the implementation and on the model and runs the oracle.
func (w *c07world) apply(st *c07step, check bool) (v *c07viol) {
	w.choices, w.pos, w.used, w.arity = st.Ch, 0, nil, nil
	w.enum = true
	defer func() { w.enum = false }()

	var arg *c07obj
	if st.Op != "TGet" && st.Op != "TPut" && st.Op != "New" {
		arg = w.objs[st.A]
	}
	opName := st.Op
	switch st.Op {
	case "RC", "RCin":
		opName = "ReverseComplement"
	case "Sub":
		opName = "Subsequence"
	case "SetQual":
		opName = "SetQualities"
	case "SetSeq":
		opName = "SetSequence"
	case "SetFeatBig", "SetFeatSmall":
		opName = "SetFeatures"
	case "ClearQual":
		opName = "ClearQualities"
	case "SetSeqE":
		opName = "SetSequence(empty)"
	case "SetQualE", "SetQualOwnE":
		opName = "SetQualities(empty)"
	case "WriteQual":
		opName = "WriteQualities"
	case "New":
		opName = "NewBioSequenceWithQualities(empty)"
	}
	w.curOp = opName
	result := -1        // handle whose value is (re)defined by this op
	cachedPath := false // the receiver of ReverseComplement holds a cached link
	rcDoc := false      // ReverseComplement answered with the (stale) private copy of the original, as the documented cache does
	var panicked interface{}
	if w.lastMod == nil {
		w.lastMod = map[int]string{}
	}
	prevMod := w.lastMod[st.A]
	switch st.Op {
	case "RCin", "MutSeq", "MutQual", "SetQual", "SetFeat", "SetAttr", "Clear", "ClearQual", "SetSeqE", "SetQualE", "SetQualOwnE", "Write", "WriteQual":
		defer func(a int, op string) { w.lastMod[a] = op }(st.A, st.Op)
	}
	func() {
		defer func() { panicked = recover() }()
		switch st.Op {
		case "Copy":
			r := arg.impl.Copy()
			if e := w.existing(r, -1); e >= 0 {
				v = &c07viol{"Copy/returns-existing-object", fmt.Sprintf("Copy(obj%d) returned the object obj%d", st.A, e)}
				return
			}
			result = w.newObj(r, c07val{seq: append([]byte{}, arg.m.seq...), qual: append([]byte(nil), arg.m.qual...), feat: arg.m.feat, ann: arg.m.ann, pm: c07pmClone(arg.m.pm)})
			if arg.m.qual == nil {
				w.objs[result].m.qual = nil
			}
			w.copyLink(st.A, result)
		case "RC", "RCin":
			cachedPath = c07hasCache(arg.impl)
			inplace := st.Op == "RCin"
			predLink, hasLink := w.link[st.A]
			predHidden := w.hidden[st.A]
			r := arg.impl.ReverseComplement(inplace)
			nm := c07val{seq: c07rcRef(arg.m.seq)}
			if arg.m.qual != nil {
				nm.qual = c07rev(arg.m.qual)
			}
			if r == nil {
				v = &c07viol{"ReverseComplement/nil-result", "nil result"}
				return
			}
			wq := nm.qual
			if wq == nil {
				wq = c07default(len(nm.seq))
			}
			except := -1
			if inplace {
				except = st.A
			}
			if e := w.existing(r, except); e >= 0 {
				// the result is an object the caller already holds under another handle
				seq, qual, _, _ := c07observe(r)
				what := fmt.Sprintf("ReverseComplement(obj%d, inplace=%v) returned the already existing object obj%d whose value is %q/%v; the reverse complement of obj%d is %q/%v",
					st.A, inplace, e, seq, qual, st.A, nm.seq, wq)
				if !hasLink || e != predLink {
					// NOT the documented behaviour of the cache (known findings): the answer is a live object that
					// the receiver was not complemented from
					switch {
					case hasLink:
						v = &c07viol{"ReverseComplement/returns-existing-object:not-the-object-the-receiver-was-complemented-from", what + fmt.Sprintf(" — obj%d was complemented from obj%d", st.A, predLink)}
					case predHidden != nil:
						v = &c07viol{"ReverseComplement/returns-existing-object:copy-shares-the-cached-original-of-its-source", what + fmt.Sprintf(" — obj%d is a copy of a complemented object: it should at least own a private copy of the cached original", st.A)}
					default:
						v = &c07viol{"ReverseComplement/returns-existing-object:receiver-was-never-complemented-from-it", what}
					}
					return
				}
				what = strings.Replace(what, "already existing object obj"+fmt.Sprint(e), "already existing object obj"+fmt.Sprint(e)+" (cached original)", 1)
				switch {
				case !w.objs[e].alive:
					v = &c07viol{"ReverseComplement/cached-original:returns-recycled-object", what + " — obj" + fmt.Sprint(e) + " had been recycled"}
				case !strings.EqualFold(string(seq), string(nm.seq)) || !bytes.Equal(qual, wq):
					key := "ReverseComplement/cached-original:stale-value"
					if prevMod == "RCin" {
						// the receiver itself was reverse-complemented in place since the link was made
						key += ":receiver-reverse-complemented-in-place"
					}
					v = &c07viol{key, what}
				default:
					v = &c07viol{"ReverseComplement/cached-original:result-is-a-live-object-held-elsewhere", what + " — every later modification or Recycle of one handle changes the other"}
				}
				return
			}
			// a fresh object (or the receiver itself, in place). When the receiver is a copy of a complemented
			// object the documented cache answers with the private copy of the original made by Copy: a wrong
			// value is the known finding only if it IS the value of that copy.
			if predHidden != nil && r != arg.impl {
				seq, qual, _, _ := c07observe(r)
				hq := predHidden.qual
				if hq == nil {
					hq = c07default(len(predHidden.seq))
				}
				right := strings.EqualFold(string(seq), string(nm.seq)) && bytes.Equal(qual, wq)
				rcDoc = !right && strings.EqualFold(string(seq), string(predHidden.seq)) && bytes.Equal(qual, hq)
			}
			delete(w.hidden, st.A)
			nm.feat = r.Features()
			nm.ann = c07annCanon(r)
			if predHidden != nil && r != arg.impl {
				nm.pm = c07annGet(r) // answered with the cached copy of the original: covered by the known finding
			} else {
				nm.pm = c07pmRc(arg.m.pm, len(arg.m.seq))
			}
			if inplace {
				if r != arg.impl {
					delete(w.link, st.A) // the handle now designates the object that was returned
				}
				arg.impl = r
				arg.m = nm
				result = st.A
			} else {
				result = w.newObj(r, nm)
				if predHidden != nil {
					w.link[st.A] = result // the private copy is now held by the caller
				} else if !hasLink {
					w.link[result] = st.A
				}
			}
		case "Sub":
			r, err := arg.impl.Subsequence(st.F, st.T, st.Circ)
			if err != nil || r == nil {
				v = &c07viol{"Subsequence/valid-window-refused", fmt.Sprintf("Subsequence(%d,%d,%v) of %q: %v", st.F, st.T, st.Circ, arg.m.seq, err)}
				return
			}
			if e := w.existing(r, -1); e >= 0 {
				v = &c07viol{"Subsequence/returns-existing-object", fmt.Sprintf("Subsequence(obj%d) returned the object obj%d", st.A, e)}
				return
			}
			nm := c07windowVal(arg.m, st.F, st.T, st.Circ)
			nm.feat = r.Features()
			nm.ann = c07annCanon(r)
			nm.pm = c07pmSub(arg.m.pm, st.F, st.T, st.Circ, len(arg.m.seq))
			result = w.newObj(r, nm)
		case "MutSeq":
			nb := byte('g')
			if arg.m.seq[0] == 'g' {
				nb = 't'
			}
			arg.impl.Sequence()[0] = nb
			arg.m.seq[0] = nb
			result = st.A
		case "MutQual":
			nb := byte(77)
			if arg.m.qual[0] == 77 {
				nb = 66
			}
			arg.impl.Qualities()[0] = nb
			arg.m.qual[0] = nb
			result = st.A
		case "SetQual":
			base := byte(50)
			if arg.m.qual != nil && arg.m.qual[0] == 50 {
				base = 60
			}
			nq := make([]byte, len(arg.m.seq))
			for i := range nq {
				nq[i] = base + byte(i)
			}
			arg.impl.SetQualities(append([]byte{}, nq...))
			arg.m.qual = nq
			result = st.A
		case "SetSeq":
			ch := byte('t')
			if arg.m.seq[0] == 't' {
				ch = 'c'
			}
			ns := bytes.Repeat([]byte{ch}, len(arg.m.seq))
			ns[len(ns)-1] = 'a'
			arg.impl.SetSequence(append([]byte{}, ns...))
			arg.m.seq = ns
			result = st.A
		case "SetFeatBig", "SetFeatSmall":
			txt := "F1"
			if strings.HasPrefix(arg.m.feat, "F1") {
				txt = "F2"
			}
			var f []byte
			if st.Op == "SetFeatBig" {
				txt += "b"
				f = make([]byte, 0, 300)
			} else {
				txt += "s"
				f = make([]byte, 0, 3)
			}
			f = append(f, txt...)
			arg.impl.SetFeatures(f)
			arg.m.feat = txt
			result = st.A
		case "SetAttr":
			nv := 2
			if x, ok := arg.impl.GetIntAttribute("k"); ok && x == 2 {
				nv = 1
			}
			arg.impl.SetAttribute("k", nv)
			arg.m.ann = c07annCanon(arg.impl)
			result = st.A
		case "MutNested":
			mm, _ := arg.impl.GetIntMap("m")
			if mm["x"] == 1 {
				mm["x"] = 2
			} else {
				mm["x"] = 1
			}
			arg.m.ann = c07annCanon(arg.impl)
			result = st.A
		case "Recycle":
			arg.impl.Recycle()
			arg.alive = false
		case "Join", "JoinIn":
			other := w.objs[st.B]
			nm := c07val{seq: append(append([]byte{}, arg.m.seq...), other.m.seq...)}
			r := arg.impl.Join(other.impl, st.Op == "JoinIn")
			if st.Op == "JoinIn" {
				if r != arg.impl {
					v = &c07viol{"Join/inplace-returns-other-object", "Join(inplace=true) returned a different object"}
					return
				}
				nm.feat, nm.ann, nm.pm = arg.m.feat, arg.m.ann, arg.m.pm
				arg.m = nm
				result = st.A
			} else {
				if e := w.existing(r, -1); e >= 0 {
					v = &c07viol{"Join/returns-existing-object", fmt.Sprintf("Join(obj%d,obj%d,false) returned the object obj%d", st.A, st.B, e)}
					return
				}
				nm.feat = r.Features()
				nm.ann = c07annCanon(r)
				nm.pm = c07annGet(r) // Join is not part of the statement: tracked by value from here on
				result = w.newObj(r, nm)
				w.copyLink(st.A, result)
			}
		// ---- E3: operations that empty an object (the buffer keeps its capacity) and that extend it in place ----
		case "Clear":
			arg.impl.Clear()
			arg.m.seq = []byte{}
			result = st.A
		case "ClearQual":
			arg.impl.ClearQualities()
			arg.m.qual = nil // no quality left: Qualities() answers with the default ones
			result = st.A
		case "SetSeqE":
			w.cbUsed = true
			arg.impl.SetSequence(w.cb[0][:0])
			arg.m.seq = []byte{}
			result = st.A
		case "SetQualE":
			w.cbUsed = true
			arg.impl.SetQualities(w.cb[1][:0])
			arg.m.qual = nil
			result = st.A
		case "SetQualOwnE":
			arg.impl.SetQualities(arg.impl.Qualities()[:0])
			arg.m.qual = nil
			result = st.A
		case "Write":
			x := "acgt"[st.A%4]
			arg.impl.Write([]byte{x})
			arg.impl.WriteByte(x)
			arg.m.seq = append(append([]byte{}, arg.m.seq...), x, x)
			result = st.A
		case "WriteQual":
			x := byte(70 + st.A)
			arg.impl.WriteQualities([]byte{x})
			arg.impl.WriteByteQualities(x)
			arg.m.qual = append(append([]byte{}, arg.m.qual...), x, x)
			result = st.A
		case "New":
			w.cbUsed = true
			r := NewBioSequenceWithQualities("n", w.cb[0][:0], "", w.cb[1][:0])
			if e := w.existing(r, -1); e >= 0 {
				v = &c07viol{"NewBioSequenceWithQualities/returns-existing-object", fmt.Sprintf("returned the object obj%d", e)}
				return
			}
			result = w.newObj(r, c07val{seq: []byte{}, feat: r.Features(), ann: c07annCanon(r)})
		case "TGet":
			t := &c07tp{held: true}
			t.b = GetSlice(3)
			t.b = t.b[:cap(t.b)]
			for i := range t.b {
				t.b[i] = 'Z'
			}
			w.tps = append(w.tps, t)
		case "TPut":
			t := w.tps[st.A]
			RecycleSlice(&t.b)
			t.held = false
		default:
			panic("c07: unknown op " + st.Op)
		}
	}()
	st.Ch = append([]int{}, w.used...)
	w.enum = false
	w.tag(opName)
	if panicked != nil {
		if s, ok := panicked.(string); ok && strings.HasPrefix(s, c07replayMismatch) {
			// the same history, replayed, finds other pool contents: the implementation is not a function of the history
			return &c07viol{"control-run/history-does-not-replay:pool-content-differs", fmt.Sprintf("%s: %s (the same steps were executed before with that pool answer available)", st.Op, s)}
		}
		if s, ok := panicked.(string); ok && strings.HasPrefix(s, "c07:") {
			panic(panicked)
		}
		return &c07viol{opName + "/panic", fmt.Sprintf("%s panicked: %v", st.Op, panicked)}
	}
	if v != nil {
		return v
	}
	if !check {
		return nil // replayed prefix: this step was fully checked when it was the last one
	}

	// ---- oracle: every live object equals its value-semantics model ----
	for i, o := range w.objs {
		if !o.alive {
			continue
		}
		field, d := w.diff(i)
		if field == "" {
			continue
		}
		switch {
		case len(w.events) > 0:
			return &c07viol{"pool/" + w.events[0], fmt.Sprintf("%s; during %s GetSlice was answered with a pooled pointer to a slice that is still in use (%s)", d, st.Op, strings.Join(w.events, ", "))}
		case i == result && opName == "ReverseComplement" && cachedPath && rcDoc:
			key := "ReverseComplement/cached-original:stale-value"
			if prevMod == "RCin" {
				key += ":receiver-reverse-complemented-in-place"
			}
			return &c07viol{key, fmt.Sprintf("ReverseComplement(obj%d) answered from the cached link: %s", st.A, d)}
		case i == result:
			return &c07viol{opName + "/wrong-result:" + field, d}
		default:
			return &c07viol{opName + "/changes-other-object:" + field, fmt.Sprintf("%s on obj%d: %s", st.Op, st.A, d)}
		}
	}
	if d := w.cbDiff(); d != "" {
		if len(w.events) > 0 {
			return &c07viol{"pool/" + w.events[0], fmt.Sprintf("%s; during %s GetSlice was answered with a pooled pointer to a slice that is still in use (%s)", d, st.Op, strings.Join(w.events, ", "))}
		}
		return &c07viol{opName + "/writes-into-caller-buffer", fmt.Sprintf("%s on obj%d: %s", st.Op, st.A, d)}
	}
	// ---- probe: flip every byte / annotation of every live object; nobody else may move ----
	if pv := w.probe(st, opName, result); pv != nil {
		return pv
	}
	return nil
}

func (w *c07world) role(i int, st *c07step, result int) string {
	switch {
	case i == result && i != st.A:
		return "result"
	case i == st.A && st.Op != "TGet" && st.Op != "TPut" && st.Op != "New":
		return "receiver"
	case i == st.B && strings.HasPrefix(st.Op, "Join"):
		return "argument"
	}
	return "bystander"
}

func (w *c07world) probe(st *c07step, opName string, result int) *c07viol {
	check := func(who int, field string, k int) *c07viol {
		what := 1
		if strings.HasPrefix(field, "annotations") {
			what = 2
		}
		for j, o := range w.objs {
			if !o.alive {
				continue
			}
			if f2, d := w.diffw(j, what); f2 != "" {
				if len(w.events) > 0 {
					return &c07viol{"pool/" + w.events[0], fmt.Sprintf("after %s, writing %s[%d] of obj%d changes another value: %s (GetSlice handed out a slice still in use: %s)", st.Op, field, k, who, d, strings.Join(w.events, ", "))}
				}
				whoRole, whoName := "caller-buffer", "the caller's buffer"
				if who >= 0 {
					whoRole, whoName = w.role(who, st, result)+"."+field, fmt.Sprintf("obj%d", who)
				}
				return &c07viol{fmt.Sprintf("%s/shared-mutable-state:%s~%s.%s", opName, whoRole, w.role(j, st, result), f2),
					fmt.Sprintf("after %s(obj%d), writing %s[%d] of %s changes another value: %s", st.Op, st.A, field, k, whoName, d)}
			}
		}
		if who >= 0 {
			if d := w.cbDiff(); d != "" {
				return &c07viol{fmt.Sprintf("%s/shared-mutable-state:%s.%s~caller-buffer", opName, w.role(who, st, result), field),
					fmt.Sprintf("after %s(obj%d), writing %s[%d] of obj%d changes the buffer of the caller: %s", st.Op, st.A, field, k, who, d)}
			}
		}
		return nil
	}
	// the first byte of the spare capacity of a field: what the next append (Write, WriteByte, WriteQualities,
	// Join in place) of its owner writes
	spare := func(i int, b []byte, field string) *c07viol {
		if len(b) >= cap(b) {
			return nil
		}
		ext := b[:len(b)+1]
		k := len(b)
		old := ext[k]
		ext[k] = 'w'
		v := check(i, field+"(spare-capacity)", k)
		ext[k] = old
		return v
	}
	// the caller refills its reused buffers with the next record
	if w.cbUsed {
		for c := range w.cb {
			for k := range w.cb[c] {
				w.cb[c][k] = 'w'
				v := check(-1, c07cbName(c), k)
				w.cb[c][k] = 'Z'
				if v != nil {
					return v
				}
			}
		}
	}
	for i, o := range w.objs {
		if !o.alive {
			continue
		}
		for k := range o.impl.sequence {
			old := o.impl.sequence[k]
			o.impl.sequence[k] = 'w'
			om := o.m.seq[k]
			o.m.seq[k] = 'w'
			v := check(i, "sequence", k)
			o.impl.sequence[k] = old
			o.m.seq[k] = om
			if v != nil {
				return v
			}
		}
		if o.m.qual != nil {
			for k := range o.impl.qualities {
				if k >= len(o.m.qual) {
					break
				}
				old := o.impl.qualities[k]
				o.impl.qualities[k] = 91
				om := o.m.qual[k]
				o.m.qual[k] = 91
				v := check(i, "qualities", k)
				o.impl.qualities[k] = old
				o.m.qual[k] = om
				if v != nil {
					return v
				}
			}
		}
		if v := spare(i, o.impl.sequence, "sequence"); v != nil {
			return v
		}
		if v := spare(i, o.impl.qualities, "qualities"); v != nil {
			return v
		}
		if v := spare(i, o.impl.feature, "feature"); v != nil {
			return v
		}
		for k := range o.impl.feature {
			old := o.impl.feature[k]
			o.impl.feature[k] = '#'
			fm := o.m.feat
			o.m.feat = fm[:k] + "#" + fm[k+1:]
			v := check(i, "feature", k)
			o.impl.feature[k] = old
			o.m.feat = fm
			if v != nil {
				return v
			}
		}
		if o.impl.HasAnnotation() {
			a := o.impl.Annotations()
			a["c07probe"] = 1
			am := o.m.ann
			o.m.ann = c07annCanon(o.impl)
			v := check(i, "annotations", 0)
			delete(a, "c07probe")
			o.m.ann = am
			if v != nil {
				return v
			}
			// every nested map (m, pairing_mismatches in either Go representation): write an entry
			nested := make([]string, 0, 2)
			for k := range a {
				nested = append(nested, k)
			}
			sort.Strings(nested)
			for _, k := range nested {
				var set, unset func()
				switch mm := a[k].(type) {
				case map[string]int:
					set, unset = func() { mm["C07PROBE"] = 99 }, func() { delete(mm, "C07PROBE") }
				case map[string]interface{}:
					set, unset = func() { mm["C07PROBE"] = float64(99) }, func() { delete(mm, "C07PROBE") }
				default:
					continue
				}
				set()
				o.m.ann = c07annCanon(o.impl)
				pmm := o.m.pm
				if k == "pairing_mismatches" {
					o.m.pm = c07pmClone(pmm)
					o.m.pm["C07PROBE"] = 99
				}
				v := check(i, "annotations(nested map)", 0)
				unset()
				o.m.ann = am
				o.m.pm = pmm
				if v != nil {
					return v
				}
			}
		}
	}
	return nil
}

// ops enabled in the current (model) state
func (w *c07world) enabled(maxObj int, reduced bool) []c07step {
	var out []c07step
	room := len(w.objs) < maxObj
	for i, o := range w.objs {
		if !o.alive {
			continue
		}
		n := len(o.m.seq)
		if room {
			out = append(out, c07step{Op: "Copy", A: i}, c07step{Op: "RC", A: i})
			if !reduced || n == 1 {
				out = append(out, c07step{Op: "Sub", A: i, F: 0, T: n})
			}
			if n > 1 {
				out = append(out, c07step{Op: "Sub", A: i, F: 1, T: n}, c07step{Op: "Sub", A: i, F: 0, T: n - 1},
					c07step{Op: "Sub", A: i, F: n - 1, T: 1, Circ: true})
			}
		}
		out = append(out, c07step{Op: "RCin", A: i}, c07step{Op: "MutSeq", A: i}, c07step{Op: "SetQual", A: i},
			c07step{Op: "SetSeq", A: i}, c07step{Op: "SetFeatBig", A: i}, c07step{Op: "SetFeatSmall", A: i},
			c07step{Op: "Recycle", A: i})
		if !reduced {
			out = append(out, c07step{Op: "SetAttr", A: i})
		}
		if o.m.qual != nil && !reduced {
			out = append(out, c07step{Op: "MutQual", A: i})
		}
		if o.impl.HasAnnotation() {
			if _, ok := o.impl.Annotations()["m"].(map[string]int); ok {
				out = append(out, c07step{Op: "MutNested", A: i})
			}
		}
		if o.m.qual == nil {
			for j, p := range w.objs {
				if j != i && p.alive && len(o.m.seq)+len(p.m.seq) <= 6 {
					if room {
						out = append(out, c07step{Op: "Join", A: i, B: j})
					}
					out = append(out, c07step{Op: "JoinIn", A: i, B: j})
				}
			}
		}
	}
	held := 0
	for j, t := range w.tps {
		if t.held {
			held++
			out = append(out, c07step{Op: "TPut", A: j})
		}
	}
	if held < c07maxTP && len(w.tps) < 2 {
		out = append(out, c07step{Op: "TGet"})
	}
	return out
}

// E3 alphabet: operations that empty an object while its buffers keep their capacity (Clear, ClearQualities,
// SetSequence / SetQualities of an empty view of a buffer the caller keeps or of the object's own vector, empty
// records built from the caller's reused buffers), Copy / ReverseComplement of such objects, and operations that
// extend an object in place (Write + WriteByte, WriteQualities + WriteByteQualities), Recycle.
// ReverseComplement only on objects whose qualities (if any) are as long as the sequence (anything else is not a
// sequence the statement speaks about) and that are not empty.
func (w *c07world) enabledEmpty(maxObj int, deep bool) []c07step {
	var out []c07step
	room := len(w.objs) < maxObj
	for i, o := range w.objs {
		if !o.alive {
			continue
		}
		n := len(o.m.seq)
		wf := n > 0 && (o.m.qual == nil || len(o.m.qual) == n)
		if room {
			out = append(out, c07step{Op: "Copy", A: i})
			if wf {
				out = append(out, c07step{Op: "RC", A: i})
				if deep && n > 1 {
					out = append(out, c07step{Op: "Sub", A: i, F: 1, T: n}, c07step{Op: "Sub", A: i, F: n - 1, T: 1, Circ: true})
				}
			}
		}
		if wf {
			out = append(out, c07step{Op: "RCin", A: i})
		}
		if n > 0 {
			out = append(out, c07step{Op: "Clear", A: i})
		}
		if o.m.qual != nil {
			out = append(out, c07step{Op: "ClearQual", A: i})
		}
		out = append(out, c07step{Op: "SetSeqE", A: i}, c07step{Op: "SetQualE", A: i}, c07step{Op: "SetQualOwnE", A: i})
		if n+2 <= c07cbLen-2 {
			out = append(out, c07step{Op: "Write", A: i})
		}
		if len(o.m.qual)+2 <= c07cbLen-2 {
			out = append(out, c07step{Op: "WriteQual", A: i})
		}
		out = append(out, c07step{Op: "Recycle", A: i})
	}
	if room {
		out = append(out, c07step{Op: "New"})
	}
	return out
}

// canonical state: values of the live objects + aliasing structure of all backing arrays + pool content
func (w *c07world) canon() string {
	ids := map[unsafe.Pointer]int{}
	aid := func(b []byte) string {
		if b == nil {
			return "nil"
		}
		p := c07data(b)
		if p == nil {
			return "e"
		}
		id, ok := ids[p]
		if !ok {
			id = len(ids)
			ids[p] = id
		}
		return fmt.Sprintf("%d:%d:%d", id, len(b), cap(b))
	}
	var sb strings.Builder
	var descObj func(s *BioSequence, depth int)
	descObj = func(s *BioSequence, depth int) {
		fmt.Fprintf(&sb, "[%s|%s|%s|", aid(s.sequence), aid(s.qualities), aid(s.feature))
		if c := c07cachePtr(s); c != nil {
			if e := w.existing(c, -1); e >= 0 {
				fmt.Fprintf(&sb, "rc=obj%d", e)
			} else if depth < 3 {
				seq, qual, feat, ann := c07observe(c)
				fmt.Fprintf(&sb, "rc=hidden(%s,%v,%s,%s)", seq, qual, feat, ann)
				descObj(c, depth+1)
			}
		}
		sb.WriteString("]")
	}
	for i, o := range w.objs {
		fmt.Fprintf(&sb, "o%d:", i)
		if o.alive {
			fmt.Fprintf(&sb, "%s/%v/%s/%s/%s", o.m.seq, o.m.qual, o.m.feat, o.m.ann, c07pmString(o.m.pm))
		} else {
			sb.WriteString("dead")
		}
		descObj(o.impl, 0)
		sb.WriteString(";")
	}
	for j, t := range w.tps {
		fmt.Fprintf(&sb, "tp%d:%v:%s;", j, t.held, aid(t.b))
	}
	if w.cbUsed {
		fmt.Fprintf(&sb, "cb:%s,%s;", aid(w.cb[0]), aid(w.cb[1]))
	}
	var items []string
	type pi struct {
		label string
		p     *[]byte
	}
	var pis []pi
	for k, it := range c07bytePool().Items {
		bp, ok := it.(*[]byte)
		if !ok {
			continue
		}
		label := fmt.Sprintf("zz%d", k)
		for i, o := range w.objs {
			switch bp {
			case &o.impl.sequence:
				label = fmt.Sprintf("o%d.s", i)
			case &o.impl.qualities:
				label = fmt.Sprintf("o%d.q", i)
			case &o.impl.feature:
				label = fmt.Sprintf("o%d.f", i)
			}
		}
		for j, t := range w.tps {
			if bp == &t.b {
				label = fmt.Sprintf("tp%d", j)
			}
		}
		if strings.HasPrefix(label, "zz") {
			label = "zz" // pointer to a variable nobody else can reach: only its pointee matters
		}
		pis = append(pis, pi{label, bp})
	}
	sort.SliceStable(pis, func(a, b int) bool { return pis[a].label < pis[b].label })
	for _, x := range pis {
		items = append(items, x.label+"="+aid(*x.p))
	}
	fmt.Fprintf(&sb, "pool:%s;", strings.Join(items, ","))
	na := 0
	for _, it := range BioSequenceAnnotationPool.Items {
		if ap, ok := it.(*Annotation); ok && ap != nil && *ap != nil {
			na++
		}
	}
	fmt.Fprintf(&sb, "apool:%d/%d", len(BioSequenceAnnotationPool.Items), na)
	return sb.String()
}

// c07exec replays a history from the root; returns the world, the violation (if any) and the index of the failing step.
func c07exec(root string, steps []c07step, checkAll bool) (w *c07world, v *c07viol, at int) {
	if msg := c07try(func() { w = c07root(root) }); msg != "" {
		return &c07world{}, &c07viol{"control-run/source-object-cannot-be-built/panic", "building the source object of the histories panicked: " + msg}, -1
	}
	for i := range steps {
		// (apply guards the operation itself; this guard is for the accessors used by the oracle and the probe)
		if msg := c07try(func() { v = w.apply(&steps[i], checkAll || i == len(steps)-1) }); msg != "" {
			v = &c07viol{w.curOp + "/panic:while-observing-the-objects", fmt.Sprintf("after %s, reading / probing the live objects panicked: %s", steps[i].Op, msg)}
		}
		if v != nil {
			return w, v, i
		}
	}
	return w, nil, -1
}

func c07histString(root string, steps []c07step) string {
	var sb strings.Builder
	if root[:1] == "q" {
		sb.WriteString("obj0=NewBioSequenceWithQualities(acg,[10 20 30])")
	} else {
		sb.WriteString("obj0=NewBioSequence(acg)")
	}
	for _, s := range steps {
		sb.WriteString("; ")
		switch s.Op {
		case "Sub":
			fmt.Fprintf(&sb, "Subsequence(obj%d,%d,%d,circular=%v)", s.A, s.F, s.T, s.Circ)
		case "RC":
			fmt.Fprintf(&sb, "ReverseComplement(obj%d,false)", s.A)
		case "RCin":
			fmt.Fprintf(&sb, "obj%d=ReverseComplement(obj%d,true)", s.A, s.A)
		case "Join", "JoinIn":
			fmt.Fprintf(&sb, "%s(obj%d,obj%d)", s.Op, s.A, s.B)
		case "SetSeqE":
			fmt.Fprintf(&sb, "SetSequence(obj%d,callerSeqBuf[:0])", s.A)
		case "SetQualE":
			fmt.Fprintf(&sb, "SetQualities(obj%d,callerQualBuf[:0])", s.A)
		case "SetQualOwnE":
			fmt.Fprintf(&sb, "SetQualities(obj%d,obj%d.Qualities()[:0])", s.A, s.A)
		case "Write":
			fmt.Fprintf(&sb, "Write+WriteByte(obj%d,%q)", s.A, strings.Repeat("acgt"[s.A%4:s.A%4+1], 2))
		case "WriteQual":
			fmt.Fprintf(&sb, "WriteQualities+WriteByteQualities(obj%d,[%d %d])", s.A, 70+s.A, 70+s.A)
		case "ClearQual":
			fmt.Fprintf(&sb, "ClearQualities(obj%d)", s.A)
		case "New":
			sb.WriteString("NewBioSequenceWithQualities(n,callerSeqBuf[:0],callerQualBuf[:0])")
		case "TGet":
			sb.WriteString("thirdparty:b=GetSlice(3);fill(b)")
		case "TPut":
			sb.WriteString("thirdparty:RecycleSlice(&b)")
		default:
			fmt.Fprintf(&sb, "%s(obj%d)", s.Op, s.A)
		}
		if len(s.Ch) > 0 {
			fmt.Fprintf(&sb, "{pool answers %v}", s.Ch)
		}
	}
	return sb.String()
}

func c07hash(s string) uint64 {
	h := fnv.New64a()
	h.Write([]byte(s))
	return h.Sum64()
}

func c07cloneSteps(s []c07step) []c07step {
	o := make([]c07step, len(s))
	for i := range s {
		o[i] = s[i]
		o[i].Ch = append([]int{}, s[i].Ch...)
	}
	return o
}

type c07node struct {
	root  string
	steps []c07step
}

func c07e2(r *verifkit.Result, pfx string, depth, maxObj, split int, reduced bool, roots []string) {
	empty := strings.HasPrefix(pfx, "e3") // E3: the alphabet of emptied / extended objects
	kind := strings.ToUpper(pfx[:2])
	visited := map[uint64]struct{}{}
	var frontier []c07node
	report := func(root string, steps []c07step, v *c07viol) {
		r.Violate(v.key, c07histString(root, steps)+" ==> "+v.desc, c07case{Kind: kind, Root: root, Steps: steps})
	}
	for _, root := range roots {
		w, v, _ := c07exec(root, nil, false)
		cn := ""
		if v == nil {
			if msg := c07try(func() { cn = w.canon() }); msg != "" {
				v = &c07viol{"control-run/source-object-cannot-be-built/panic", "reading the source object of the histories panicked: " + msg}
			}
		}
		if v != nil {
			// the histories of this root cannot start: that is a verdict on the tree, the other roots go on
			if r.Shard == 0 {
				report(root, nil, v)
			}
			continue
		}
		visited[c07hash(root+"|"+cn)] = struct{}{}
		frontier = append(frontier, c07node{root: root})
	}
	for d := 1; d <= depth; d++ {
		var next []c07node
		counted := d > split || r.Shard == 0
		for k, nd := range frontier {
			if d == split+1 && !r.Mine(k) {
				continue
			}
			if r.Expired() {
				return
			}
			w, v, _ := c07exec(nd.root, c07cloneSteps(nd.steps), false)
			if v != nil {
				// a history that was clean when it was found fails when it is executed again: the implementation is
				// not deterministic (the harness is: same steps, same pool answers). Its extensions are skipped.
				r.Violate("control-run/history-does-not-replay/"+v.key, c07histString(nd.root, nd.steps)+" ==> was clean when first executed; executed again: "+v.desc,
					c07case{Kind: kind, Root: nd.root, Steps: nd.steps})
				continue
			}
			ops := w.enabled(maxObj, reduced)
			if empty {
				ops = w.enabledEmpty(maxObj, reduced)
			}
			for _, op := range ops {
				// DFS over the pool answers of this op
				stack := [][]int{{}}
				for len(stack) > 0 {
					pre := stack[len(stack)-1]
					stack = stack[:len(stack)-1]
					steps := append(c07cloneSteps(nd.steps), op)
					steps[len(steps)-1].Ch = pre
					w2, v, at := c07exec(nd.root, steps, false)
					last := &steps[len(steps)-1]
					if v != nil && at != len(steps)-1 {
						r.Violate("control-run/history-does-not-replay/"+v.key, c07histString(nd.root, steps[:at+1])+" ==> was clean when first executed; executed again as a prefix: "+v.desc,
							c07case{Kind: kind, Root: nd.root, Steps: steps[:at+1]})
						continue
					}
					used, ar := last.Ch, w2.arity
					for i := len(pre); i < len(used); i++ {
						for c := 1; c < ar[i]; c++ {
							alt := append(append([]int{}, used[:i]...), c)
							stack = append(stack, alt)
						}
					}
					if counted {
						r.Eval(1)
						r.Trans(1)
						r.Count(fmt.Sprintf("%s_histories_depth%d", pfx, d), 1)
						r.Count(pfx+"_histories", 1)
						if empty {
							c07e3count(r, w2, last)
						}
						r.Count("e2_pool_gets", int64(len(used)))
						for _, c := range used {
							if c > 0 {
								r.Count("e2_pool_gets_answered_with_pooled_item", 1)
							}
						}
					}
					if v != nil {
						if counted {
							r.Count("e2_violating_histories", 1)
							report(nd.root, steps, v)
						}
						continue
					}
					cn := nd.root + "|"
					if msg := c07try(func() { cn += w2.canon() }); msg != "" {
						if counted {
							report(nd.root, steps, &c07viol{w2.curOp + "/panic:while-observing-the-objects", "reading the state reached panicked: " + msg})
						}
						continue
					}
					h := c07hash(cn)
					if _, ok := visited[h]; ok {
						continue
					}
					visited[h] = struct{}{}
					if counted {
						r.State(cn)
						r.Count(fmt.Sprintf("%s_states_depth%d", pfx, d), 1)
					}
					next = append(next, c07node{root: nd.root, steps: steps})
				}
			}
		}
		frontier = next
	}
	r.Count(pfx+"_frontier_left_at_depth_bound", int64(len(frontier)))
}

// what makes an E3 history interesting: an append executed while another live object (or the caller's buffer) is empty,
// and appends on objects that were emptied
func c07e3count(r *verifkit.Result, w *c07world, last *c07step) {
	switch last.Op {
	case "Clear", "ClearQual", "SetQualOwnE":
		r.Count("e3_emptying_operations", 1)
	case "SetSeqE", "SetQualE", "New":
		r.Count("e3_emptying_operations", 1)
		r.Count("e3_empty_views_of_the_callers_buffers_passed", 1)
	}
	if last.Op != "Write" && last.Op != "WriteQual" {
		return
	}
	r.Count("e3_appends", 1)
	emptyLive := 0
	for i, o := range w.objs {
		if i != last.A && o.alive && (len(o.m.seq) == 0 || (last.Op == "WriteQual" && o.m.qual == nil)) {
			emptyLive++
		}
	}
	if emptyLive > 0 {
		r.Count("e3_appends_while_another_live_object_is_empty", 1)
	}
	if w.cbUsed {
		r.Count("e3_appends_after_an_empty_view_of_the_callers_buffer_was_passed", 1)
	}
}

// ------------------------------------------------------------------------------------------------

func TestVerifC07(t *testing.T) {
	log.SetOutput(io.Discard)
	c07installExit()
	r := verifkit.New("C07")
	defer r.Write()
	C07PoolChoose = c07choose
	defer func() { C07PoolChoose = nil; c07cur = nil }()

	fail := func(c c07case) c07fail {
		return func(key, desc string) { r.Violate(key, desc, c) }
	}

	if rc := r.ReplayCase(); rc != nil {
		var c c07case
		if err := json.Unmarshal(rc, &c); err != nil {
			t.Fatal(err)
		}
		r.Eval(1)
		switch c.Kind {
		case "E1":
			c07cur = nil
			c07resetPools()
			c07e1(c, fail(c))
		case "E1ann":
			c07cur = nil
			c07resetPools()
			c07e1ann(c, fail(c))
		case "E2", "E3":
			_, v, at := c07exec(c.Root, c.Steps, true)
			if v != nil {
				r.Violate(v.key, c07histString(c.Root, c.Steps[:at+1])+" ==> "+v.desc, c)
			}
		}
		return
	}

	thorough := verifkit.Thorough()
	maxLen := 3
	if thorough {
		maxLen = 4
	}
	r.Bound("e1_alphabet", c07Alphabet)
	r.Bound("e1_max_length", maxLen)
	r.Bound("e1_quality_vectors", "none, q[i]=i, q[i]=93-i")

	// development only: VERIF_C07_SECTIONS=e1,e2,e3 restricts the run to the named sections
	section := func(name string) bool {
		sel := os.Getenv("VERIF_C07_SECTIONS")
		return sel == "" || strings.Contains(","+sel+",", ","+name+",")
	}

	// ---- E1 ----
	c07cur = nil
	k := 0
	verifkit.Strings(c07Alphabet, 1, maxLen, func(s string) {
		k++
		if !section("e1") || !r.Mine(k) || r.Expired() {
			return
		}
		r.State("E1:" + s)
		for _, up := range []bool{false, true} {
			if up && strings.ToUpper(s) == s {
				continue
			}
			for q := 0; q <= 2; q++ {
				c := c07case{Kind: "E1", S: s, Upper: up, Q: q}
				c07resetPools()
				n := c07e1(c, fail(c))
				r.Eval(1)
				r.Trans(n)
				r.Count("e1_law_instances", n)
				r.Count("e1_string_variants", 1)
			}
		}
	})
	// pairing_mismatches: every non-empty subset of positions, every length 1..6
	for L := 1; L <= 6; L++ {
		for mask := 1; mask < 1<<L; mask++ {
			k++
			if !section("e1") || !r.Mine(k) {
				continue
			}
			var pos []int
			for p := 1; p <= L; p++ {
				if mask&(1<<(p-1)) != 0 {
					pos = append(pos, p)
				}
			}
			for rep := range c07annReps {
				c := c07case{Kind: "E1ann", S: "acgtac"[:L], Pos: pos, Rep: rep}
				c07resetPools()
				n := c07e1ann(c, fail(c))
				r.Eval(1)
				r.Trans(n)
				r.Count("e1_annotation_law_instances", n)
				r.State(fmt.Sprintf("E1ann:%d:%d:%d", L, mask, rep))
			}
		}
	}
	r.Sample(c07case{Kind: "E1", S: "r[n", Upper: true, Q: 2})
	r.Sample(c07case{Kind: "E1ann", S: "acgt", Pos: []int{1, 3}})

	// ---- E2 ----
	roots := []string{"q", "n"}
	r.Bound("e2_source", "acg, with qualities [10 20 30] and without; annotations k=1, m={x:1}")
	r.Bound("e2_third_party_buffers_held", c07maxTP)
	r.Bound("e2_full_op_set", "depth 4, at most 3 objects: Copy, ReverseComplement(false|true), Subsequence x4 windows, MutSeq, MutQual, SetQualities, SetSequence, SetFeatures(cap 300|cap 3), SetAttribute, nested-map write, Recycle, Join(false|true), third-party GetSlice / RecycleSlice")
	if section("e2") {
		c07e2(r, "e2", 4, 3, 2, false, roots)
	}
	if thorough && section("e2") {
		r.Bound("e2deep_reduced_op_set", "source with qualities only, depth 5, at most 4 objects: as above without MutQual, SetAttribute and the full-length Subsequence window (the probe after every step still flips every quality byte and annotation)")
		c07e2(r, "e2deep", 5, 4, 2, true, []string{"q"})
	}
	// ---- E3: emptied objects (the buffer keeps its capacity), copies of them, appends on both sides ----
	r.Bound("e3_op_set", "sources acg with / without qualities (no positional annotation); depth 4, at most 3 objects (thorough: depth 5; + 2 Subsequence windows): Copy, ReverseComplement(false|true) of non-empty objects, Clear, ClearQualities, SetSequence(callerBuf[:0]), SetQualities(callerBuf[:0]), SetQualities(own Qualities()[:0]), NewBioSequenceWithQualities(callerSeqBuf[:0], callerQualBuf[:0]), Write+WriteByte (2 bytes, length <= 6), WriteQualities+WriteByteQualities, Recycle; every pool answer")
	if section("e3") {
		if thorough {
			c07e2(r, "e3", 5, 3, 2, true, []string{"qx", "nx"})
		} else {
			c07e2(r, "e3", 4, 3, 2, false, []string{"qx", "nx"})
		}
	}
	r.Sample(c07case{Kind: "E3", Root: "nx", Steps: []c07step{{Op: "Clear", A: 0}, {Op: "Copy", A: 0, Ch: []int{0, 0, 0}}, {Op: "Write", A: 0}, {Op: "Write", A: 1}}})
	r.Sample(c07case{Kind: "E2", Root: "q", Steps: []c07step{{Op: "SetQual", A: 0, Ch: []int{0}}, {Op: "Copy", A: 0, Ch: []int{1, 0, 0}}}})
	if os.Getenv("VERIF_C07_SECTIONS") != "" {
		return
	}
	// guards on what the harness did: strings submitted, histories executed (e2_pool_gets_answered_with_pooled_item and
	// e1_law_instances depend on what the implementation puts into its pools / on calls that return: reported only)
	r.RequireNonVacuous("e1_string_variants")
	r.RequireNonVacuous("e2_histories")
	r.RequireNonVacuous("e3_histories")
	// guards on what is executed whatever the implementation answers (the finer counters e3_appends_while_... /
	// e3_appends_after_... tell how many appends met an emptied object: they drop when violations cut the search)
	r.RequireNonVacuous("e3_emptying_operations")
	r.RequireNonVacuous("e3_empty_views_of_the_callers_buffers_passed")
	r.RequireNonVacuous("e3_appends")
}
