//go:build verif

package obiseq

// C03 (engine B) — the pure worker combinators of pkg/obiseq/worker.go every record-wise command is built
// from: SeqToSliceWorker, SeqToSliceConditionalWorker, SeqWorker.ChainWorkers, AnnotatorToSeqWorker,
// NilSeqWorker. They are the "parallel workers" of the property seen from inside one batch: the slice
// they return IS the batch pushed downstream (MakeISliceWorker stores it in the batch unchanged), so a
// record dropped, duplicated, reordered, or a nil slice (IBioSequence.Push panics on a nil batch) is a
// violation of C03 whatever the scheduling.
//
// Exhaustive: every input slice of n <= 4 (quick 3) records x every assignment of a behaviour to each
// record from {keep, drop (empty slice), nil slice, 1->2, 1->3 (forces the output buffer to grow), error,
// error with a non-empty result} x breakOnError x (conditional worker) every predicate value per record
// and the nil predicate / nil worker forms x (chains) every pair / triple of such workers incl. nil
// members and a nil sequence. Each combinator closure is called on a HISTORY of two slices (the second
// call must not disturb the result of the first: the first batch is already downstream).
//
// Reference model: flat-map over the records whose call did not fail.
//   - no failing call: result == flat-map, error nil, result slice not nil;
//   - failing call, breakOnError false: result == flat-map over the other records, error nil;
//   - failing call, breakOnError true: the error is returned (the result is then unconstrained);
//   - chain: a failure of the FIRST worker is returned; records on a path where a LATER worker fails are
//     not delivered (whether that failure is also returned is left open: ChainWorkers documents nothing).

import (
	"encoding/json"
	"errors"
	"fmt"
	"io"
	"strings"
	"testing"

	"git.metabarcoding.org/obitools/obitools4/obitools4/pkg/verifkit"
	log "github.com/sirupsen/logrus"
)

type c03wCase struct {
	Fn    string `json:"fn"`             // slice, cond, chain2, chain3, annot
	Beh   string `json:"beh"`            // behaviour of the (first) worker per record: K D N T X E F ; "" = nil worker
	Beh2  string `json:"beh2,omitempty"` // chain: second worker ("-" = nil worker)
	Beh3  string `json:"beh3,omitempty"` // chain3: third worker
	Cond  string `json:"cond,omitempty"` // cond: '1'/'0' per record, "nil" = nil predicate
	Break bool   `json:"break_on_error"`
	N     int    `json:"n"`
}

const c03wAlphabet = "KDNTXEF"

// index of the source record an id derives from: "r2", "r2b", "r2bc" -> 2
func c03wIndex(id string) int {
	var k int
	fmt.Sscanf(id[1:], "%d", &k)
	return k
}

func c03wWorker(beh string, calls *int) SeqWorker {
	if beh == "" || beh == "-" {
		return nil
	}
	return func(s *BioSequence) (BioSequenceSlice, error) {
		*calls++
		b := beh[c03wIndex(s.Id())%len(beh)]
		mk := func(suffix string) *BioSequence {
			c := s.Copy()
			c.SetId(s.Id() + suffix)
			return c
		}
		switch b {
		case 'K':
			return BioSequenceSlice{s}, nil
		case 'D':
			return BioSequenceSlice{}, nil
		case 'N':
			return nil, nil
		case 'T':
			return BioSequenceSlice{s, mk("b")}, nil
		case 'X':
			return BioSequenceSlice{s, mk("b"), mk("c")}, nil
		case 'E':
			return nil, errors.New("failure on " + s.Id())
		case 'F':
			return BioSequenceSlice{s}, errors.New("failure (with a result) on " + s.Id())
		}
		panic("harness: behaviour " + string(b))
	}
}

// model of one worker application to one id: (result ids, failed)
func c03wApply(beh string, id string) ([]string, bool) {
	if beh == "" || beh == "-" {
		return []string{id}, false
	}
	switch beh[c03wIndex(id)%len(beh)] {
	case 'K':
		return []string{id}, false
	case 'D', 'N':
		return nil, false
	case 'T':
		return []string{id, id + "b"}, false
	case 'X':
		return []string{id, id + "b", id + "c"}, false
	}
	return nil, true
}

func c03wInput(prefix string, n int) BioSequenceSlice {
	sl := make(BioSequenceSlice, 0, n)
	for i := 0; i < n; i++ {
		sl = append(sl, NewBioSequence(fmt.Sprintf("%s%d", prefix, i), []byte("acgt"), ""))
	}
	return sl
}

func c03wIds(sl BioSequenceSlice) []string {
	out := []string{}
	for _, s := range sl {
		if s == nil {
			out = append(out, "<nil>")
		} else {
			out = append(out, s.Id())
		}
	}
	return out
}

func c03wClass(got, want []string) string {
	if strings.Join(got, ",") == strings.Join(want, ",") {
		return ""
	}
	cnt := map[string]int{}
	for _, w := range want {
		cnt[w]++
	}
	for _, g := range got {
		cnt[g]--
	}
	lost, extra := false, false
	for _, v := range cnt {
		lost = lost || v > 0
		extra = extra || v < 0
	}
	switch {
	case lost && extra:
		return "wrong-records"
	case lost:
		return "record-lost"
	case extra:
		return "record-duplicated-or-added"
	}
	return "reordered"
}

// c03wCheckSlice checks one call of a slice worker against the model (want, failed).
func c03wCheckSlice(site string, brk bool, got BioSequenceSlice, err error, want []string, failed bool) (string, string) {
	if failed && brk {
		if err == nil {
			return site + "/error-swallowed:breakOnError", fmt.Sprintf("a call failed and breakOnError is true, but no error is returned (result %v)", c03wIds(got))
		}
		return "", ""
	}
	if err != nil {
		if failed {
			return site + "/error-returned:continue-on-error", fmt.Sprintf("breakOnError is false but the error is returned: %v", err)
		}
		return site + "/spurious-error", fmt.Sprintf("no call failed but an error is returned: %v", err)
	}
	if got == nil {
		return site + "/nil-slice", "the result slice is nil (pushing it downstream panics)"
	}
	if c := c03wClass(c03wIds(got), want); c != "" {
		sub := ""
		if failed {
			sub = ":after-a-failed-record"
		}
		return site + "/" + c + sub, fmt.Sprintf("result %v, expected %v", c03wIds(got), want)
	}
	return "", ""
}

// c03wExit is what the logrus ExitFunc of the test panics with: a log.Fatal inside a combinator is an outcome
// of the case (recovered in c03wRun), not the end of the shard.
type c03wExit struct{ code int }

func c03wRun(c c03wCase) (key, desc string) {
	defer func() {
		if e := recover(); e != nil {
			if x, ok := e.(c03wExit); ok {
				key, desc = c.Fn+"/log-fatal", fmt.Sprintf("the combinator ends the program (log.Fatal, exit status %d)", x.code)
				return
			}
			key, desc = c.Fn+"/panic", fmt.Sprint(e)
		}
	}()
	calls := 0
	in1 := c03wInput("r", c.N)
	in2 := c03wInput("s", c.N) // second call of the history: same behaviours (index based), other records
	model := func(prefix string, first func(i int) bool, behs ...string) ([]string, bool, bool) {
		// returns (want, a first-stage call failed, a later-stage call failed)
		var want []string
		f1, fl := false, false
		for i := 0; i < c.N; i++ {
			if first != nil && !first(i) {
				continue
			}
			cur := []string{fmt.Sprintf("%s%d", prefix, i)}
			for stage, b := range behs {
				var next []string
				for _, id := range cur {
					r, failed := c03wApply(b, id)
					if failed {
						if stage == 0 {
							f1 = true
						} else {
							fl = true
						}
						continue
					}
					next = append(next, r...)
				}
				cur = next
			}
			want = append(want, cur...)
		}
		return want, f1, fl
	}
	switch c.Fn {
	case "slice", "cond":
		var f SeqSliceWorker
		var first func(i int) bool
		site := "SeqToSliceWorker"
		if c.Fn == "slice" {
			f = SeqToSliceWorker(c03wWorker(c.Beh, &calls), c.Break)
		} else {
			site = "SeqToSliceConditionalWorker"
			var pred SequencePredicate
			if c.Cond != "nil" {
				pred = func(s *BioSequence) bool { return c.Cond[c03wIndex(s.Id())] == '1' }
				first = func(i int) bool { return c.Cond[i] == '1' }
				if c.Beh == "" {
					site += "(nil worker)"
				}
			} else {
				site += "(nil predicate)"
			}
			f = SeqToSliceConditionalWorker(pred, c03wWorker(c.Beh, &calls), c.Break)
		}
		if c.Beh == "" && c.Fn == "slice" {
			site += "(nil worker)"
		}
		// expected result(s) of one call. Conditional worker: the records that do not satisfy the
		// predicate are either left out or passed on unchanged — the documentation fixes neither (C16
		// checks what obiannotate does with them); both are accepted, but the same one for both calls
		expected := func(prefix string) ([][]string, bool) {
			want, failed, _ := model(prefix, first, c.Beh)
			if first == nil {
				return [][]string{want}, failed
			}
			var alt []string
			for i := 0; i < c.N; i++ {
				id := fmt.Sprintf("%s%d", prefix, i)
				if first(i) {
					if r, bad := c03wApply(c.Beh, id); !bad {
						alt = append(alt, r...)
					}
				} else {
					alt = append(alt, id)
				}
			}
			return [][]string{want, alt}, failed
		}
		out1, err1 := f(in1)
		snap := c03wIds(out1)
		wants1, failed := expected("r")
		variant := -1
		var k1, d1 string
		for v, w := range wants1 {
			if k1, d1 = c03wCheckSlice(site, c.Break, out1, err1, w, failed); k1 == "" {
				variant = v
				break
			}
		}
		if variant < 0 {
			k1, d1 = c03wCheckSlice(site, c.Break, out1, err1, wants1[0], failed)
			return k1, d1
		}
		out2, err2 := f(in2)
		wants2, failed2 := expected("s")
		if k, d := c03wCheckSlice(site+"/second-call", c.Break, out2, err2, wants2[variant], failed2); k != "" {
			return k, d
		}
		if !(failed && c.Break) && strings.Join(c03wIds(out1), ",") != strings.Join(snap, ",") {
			return site + "/first-result-changed-by-second-call", fmt.Sprintf("result of the first call was %v, is %v after the second call", snap, c03wIds(out1))
		}
	case "chain2", "chain3":
		w := c03wWorker(c.Beh, &calls).ChainWorkers(c03wWorker(c.Beh2, &calls))
		behs := []string{c.Beh, c.Beh2}
		if c.Fn == "chain3" {
			w = w.ChainWorkers(c03wWorker(c.Beh3, &calls))
			behs = append(behs, c.Beh3)
		}
		// nil members vanish from the chain
		var eff []string
		for _, b := range behs {
			if b != "" && b != "-" {
				eff = append(eff, b)
			}
		}
		if len(eff) == 0 {
			if w != nil {
				return "ChainWorkers/nil-chain-not-nil", "a chain of nil workers is not nil"
			}
			return "", ""
		}
		if w == nil {
			return "ChainWorkers/nil-result", fmt.Sprintf("chain %v is nil", behs)
		}
		if len(eff) > 1 {
			if r, err := w(nil); err != nil || len(r) != 0 {
				return "ChainWorkers/nil-sequence", fmt.Sprintf("chain applied to a nil sequence returns (%v, %v)", c03wIds(r), err)
			}
		}
		for i := 0; i < c.N; i++ {
			id := fmt.Sprintf("r%d", i)
			got, err := w(in1[i])
			one := func(k int) bool { return k == i }
			want, f1, fl := model("r", one, eff...)
			if f1 {
				if err == nil {
					return "ChainWorkers/error-swallowed:first-worker", fmt.Sprintf("chain %v on %s: the first worker failed, no error returned (result %v)", behs, id, c03wIds(got))
				}
				continue
			}
			if err != nil {
				if fl {
					continue // left open
				}
				return "ChainWorkers/spurious-error", fmt.Sprintf("chain %v on %s: %v", behs, id, err)
			}
			if c := c03wClass(c03wIds(got), want); c != "" {
				sub := ""
				if fl {
					sub = ":after-a-failed-record"
				}
				return "ChainWorkers/" + c + sub, fmt.Sprintf("chain %v on %s: result %v, expected %v", behs, id, c03wIds(got), want)
			}
		}
		// the chain as the commands use it: through SeqToSliceWorker on the whole slice
		f := SeqToSliceWorker(w, c.Break)
		got, err := f(in2)
		want, f1, _ := model("s", nil, eff...)
		if f1 && c.Break {
			if err == nil {
				return "SeqToSliceWorker(chain)/error-swallowed:breakOnError", fmt.Sprintf("chain %v: no error returned (result %v)", behs, c03wIds(got))
			}
		} else if err == nil {
			if c := c03wClass(c03wIds(got), want); c != "" {
				return "SeqToSliceWorker(chain)/" + c, fmt.Sprintf("chain %v: result %v, expected %v", behs, c03wIds(got), want)
			}
		} else if !c.Break || !strings.ContainsAny(strings.Join(eff[1:], ""), "EF") {
			return "SeqToSliceWorker(chain)/spurious-error", fmt.Sprintf("chain %v: %v", behs, err)
		}
	case "annot":
		seen := []string{}
		w := AnnotatorToSeqWorker(func(s *BioSequence) { seen = append(seen, s.Id()); s.SetAttribute("seen", true) })
		for i := 0; i < c.N; i++ {
			got, err := w(in1[i])
			if err != nil || len(got) != 1 || got[0] != in1[i] {
				return "AnnotatorToSeqWorker/wrong-records", fmt.Sprintf("result (%v, %v) for %s", c03wIds(got), err, in1[i].Id())
			}
			got, err = NilSeqWorker(in1[i])
			if err != nil || len(got) != 1 || got[0] != in1[i] {
				return "NilSeqWorker/wrong-records", fmt.Sprintf("result (%v, %v) for %s", c03wIds(got), err, in1[i].Id())
			}
		}
		if c := c03wClass(seen, c03wIds(in1)); c != "" {
			return "AnnotatorToSeqWorker/" + c, fmt.Sprintf("annotator called on %v, expected %v", seen, c03wIds(in1))
		}
	default:
		panic("harness: unknown fn " + c.Fn)
	}
	return "", ""
}

func TestVerifC03W(t *testing.T) {
	log.SetOutput(io.Discard)
	log.StandardLogger().ExitFunc = func(code int) { panic(c03wExit{code}) }
	r := verifkit.New("C03")
	defer r.Write()

	if rc := r.ReplayCase(); rc != nil {
		var c c03wCase
		if err := json.Unmarshal(rc, &c); err != nil {
			t.Fatal(err)
		}
		k, d := c03wRun(c)
		r.Eval(1)
		if k != "" {
			r.Violate("obiseq/"+k, d, c)
		}
		fmt.Println("replay:", k, d)
		return
	}

	maxN := 3
	if verifkit.Thorough() {
		maxN = 4
	}
	r.Bound("records", maxN)
	r.Bound("behaviours", c03wAlphabet)
	k := 0
	do := func(c c03wCase) {
		k++
		if !r.Mine(k) || r.Expired() {
			return
		}
		if k < 4 {
			r.Sample(c)
		}
		key, desc := c03wRun(c)
		r.Eval(1)
		r.Trans(int64(2 * c.N))
		r.Count("fn_"+c.Fn, 1)
		if strings.ContainsAny(c.Beh+c.Beh2+c.Beh3, "EF") {
			r.Count("cases_with_a_failing_call", 1)
		}
		if strings.ContainsAny(c.Beh+c.Beh2+c.Beh3, "X") {
			r.Count("cases_growing_the_output", 1)
		}
		r.State(fmt.Sprintf("%s|%s|%s|%s|%s|%v|%d", c.Fn, c.Beh, c.Beh2, c.Beh3, c.Cond, c.Break, c.N))
		if key != "" {
			r.Violate("obiseq/"+key, fmt.Sprintf("%+v: %s", c, desc), c)
		}
	}
	for n := 0; n <= maxN; n++ {
		var behs []string
		if n == 0 {
			behs = []string{"K"}
		} else {
			behs = verifkit.AllStrings(c03wAlphabet, n, n)
		}
		for _, brk := range []bool{false, true} {
			do(c03wCase{Fn: "slice", Beh: "", Break: brk, N: n})
			do(c03wCase{Fn: "annot", Break: brk, N: n})
			for _, b := range behs {
				do(c03wCase{Fn: "slice", Beh: b, Break: brk, N: n})
				do(c03wCase{Fn: "cond", Beh: b, Cond: "nil", Break: brk, N: n})
			}
			// conditional worker: every predicate value per record
			conds := []string{""}
			if n > 0 {
				conds = verifkit.AllStrings("01", n, n)
			}
			for _, cd := range conds {
				do(c03wCase{Fn: "cond", Beh: "", Cond: cd, Break: brk, N: n})
				for _, b := range behs {
					do(c03wCase{Fn: "cond", Beh: b, Cond: cd, Break: brk, N: n})
				}
			}
		}
	}
	// chains: behaviours per record for every member (n <= 2, thorough 3 for pairs), nil members included
	chainN := 2
	for n := 1; n <= chainN; n++ {
		behs := append([]string{"-"}, verifkit.AllStrings(c03wAlphabet, n, n)...)
		for _, brk := range []bool{false, true} {
			for _, b1 := range behs {
				for _, b2 := range behs {
					do(c03wCase{Fn: "chain2", Beh: b1, Beh2: b2, Break: brk, N: n})
				}
			}
		}
	}
	// triples: one behaviour per member (all records alike) x n = 1..2
	single := append([]string{"-"}, strings.Split(c03wAlphabet, "")...)
	for n := 1; n <= 2; n++ {
		for _, brk := range []bool{false, true} {
			for _, b1 := range single {
				for _, b2 := range single {
					for _, b3 := range single {
						do(c03wCase{Fn: "chain3", Beh: b1, Beh2: b2, Beh3: b3, Break: brk, N: n})
					}
				}
			}
		}
	}
	r.RequireNonVacuous("cases_with_a_failing_call")
	r.RequireNonVacuous("cases_growing_the_output")
}
