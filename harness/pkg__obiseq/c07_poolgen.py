#!/usr/bin/env python3
"""C07 overlay generator (called by /verif/check: c07_poolgen.py <workdir>).

Reads the CURRENT $VERIF_REPO/pkg/obiseq/pool.go (default /repo) and writes, into <workdir>/c07gen/pool.go,
a copy in which every `sync.Pool` is replaced by `C07CtlPool`, a pool whose Get answers are chosen by the
harness (any previously Put item, or New()). Nothing else of the file is touched. Without a chooser installed
the replacement behaves as a plain LIFO pool, so unrelated code keeps working.
Prints the go-build overlay fragment {"Replace": {<repo>/pkg/obiseq/pool.go: <generated file>}} on stdout.
"""
import os, re, sys, json

repo = os.environ.get("VERIF_REPO", "/repo")
workdir = sys.argv[-1]
src = os.path.join(repo, "pkg", "obiseq", "pool.go")
text = open(src).read()

new, n = re.subn(r"\bsync\s*\.\s*Pool\b", "C07CtlPool", text)
if n == 0:
    sys.stderr.write("c07_poolgen: no sync.Pool found in %s — the pool seam moved, adapt the generator\n" % src)
    sys.exit(1)

support = '''

// ---- appended by /verif/harness/pkg__obiseq/c07_poolgen.py (verification overlay, not part of /repo) ----

// C07CtlPool has the API of sync.Pool (New, Get, Put). Which pooled item a Get returns is decided by
// C07PoolChoose; sync.Pool's contract ("Get selects an arbitrary item ... may choose to ignore the
// pool and treat it as empty") allows every such answer.
type C07CtlPool struct {
	New   func() interface{}
	mu    sync.Mutex
	Items []interface{}
}

// C07PoolChoose, when set, is asked for the answer of a Get on a pool holding n items:
// 0..n-1 = that item (in Put order), n = ignore the pool and call New.
var C07PoolChoose func(p *C07CtlPool, n int) int

// C07PoolSeen lists every pool that was ever used (so that a harness can reset them).
var C07PoolSeen []*C07CtlPool
var c07PoolSeenMu sync.Mutex

func (p *C07CtlPool) c07see() {
	c07PoolSeenMu.Lock()
	for _, q := range C07PoolSeen {
		if q == p {
			c07PoolSeenMu.Unlock()
			return
		}
	}
	C07PoolSeen = append(C07PoolSeen, p)
	c07PoolSeenMu.Unlock()
}

func (p *C07CtlPool) Put(x interface{}) {
	if x == nil {
		return
	}
	p.c07see()
	p.mu.Lock()
	p.Items = append(p.Items, x)
	p.mu.Unlock()
}

func (p *C07CtlPool) Get() interface{} {
	p.c07see()
	p.mu.Lock()
	n := len(p.Items)
	k := n - 1 // default: LIFO, New when empty
	if n == 0 {
		k = n
	}
	if C07PoolChoose != nil {
		k = C07PoolChoose(p, n)
	}
	if k >= 0 && k < n {
		x := p.Items[k]
		p.Items = append(p.Items[:k:k], p.Items[k+1:]...)
		p.mu.Unlock()
		return x
	}
	p.mu.Unlock()
	if p.New != nil {
		return p.New()
	}
	return nil
}
'''
if not re.search(r'^\s*(import\s+)?"sync"\s*$', new, re.M):
    sys.stderr.write("c07_poolgen: pool.go does not import sync any more\n")
    sys.exit(1)

outdir = os.path.join(workdir, "c07gen")
os.makedirs(outdir, exist_ok=True)
out = os.path.join(outdir, "pool.go")
with open(out, "w") as f:
    f.write(new + support)
print(json.dumps({"Replace": {src: out}}))
