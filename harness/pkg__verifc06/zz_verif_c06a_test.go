//go:build verif

package verifc06

// C06 (engine A, in-memory mode) — obichunk.IUniqueSequence with 1..3 workers runs under the
// controlled scheduler on every small multiset of records: whatever the interleaving, the output is
// exactly one record per key (sequence + category value, NA when missing) whose count is the sum of
// the input counts and whose merged_<attribute> map holds the summed weights; the total count is
// conserved.

import (
	"encoding/json"
	"fmt"
	"io"
	"sort"
	"strings"
	"testing"

	"git.metabarcoding.org/obitools/obitools4/obitools4/pkg/obichunk"
	"git.metabarcoding.org/obitools/obitools4/obitools4/pkg/obiiter"
	"git.metabarcoding.org/obitools/obitools4/obitools4/pkg/obiseq"
	"git.metabarcoding.org/obitools/obitools4/obitools4/pkg/verifkit"
	"git.metabarcoding.org/obitools/obitools4/obitools4/pkg/vsched"
	log "github.com/sirupsen/logrus"
)

type rec struct {
	Seq   string `json:"seq"`
	Cat   string `json:"cat"` // "" = attribute absent
	Count int    `json:"count"`
	Tag   string `json:"tag"`
	// audit extension: a second category attribute, and records that are already the result of a merge
	// (merged_tag map instead of the scalar tag; Count must be the sum of the map)
	Cat2   string         `json:"cat2,omitempty"`
	Merged map[string]int `json:"merged,omitempty"`
}

type param struct {
	Recs      []rec `json:"records"`
	Workers   int   `json:"workers"`
	Chunks    int   `json:"chunks"`
	Batch     int   `json:"batch"`
	NoSingle  bool  `json:"no_singleton"`
	Policy    int   `json:"policy"`
	Bound     int   `json:"bound"`
	Choices   []int `json:"choices,omitempty"`
	WithCateg bool  `json:"with_category"`
	Categ2    bool  `json:"two_categories,omitempty"` // -c cat -c cat2 (needs WithCateg)
}

func source(p param) obiiter.IBioSequence {
	it := obiiter.MakeIBioSequence()
	it.Add(1)
	vsched.Go(func() { it.WaitAndClose() })
	sl := obiseq.MakeBioSequenceSlice()
	for i, r := range p.Recs {
		s := obiseq.NewBioSequence(fmt.Sprintf("s%d", i), []byte(r.Seq), "")
		if r.Cat != "" {
			s.SetAttribute("cat", r.Cat)
		}
		if r.Cat2 != "" {
			s.SetAttribute("cat2", r.Cat2)
		}
		if r.Merged != nil {
			m := obiseq.StatsOnValues{}
			for k, v := range r.Merged {
				m[k] = v
			}
			s.SetAttribute("merged_tag", m)
		} else {
			s.SetAttribute("tag", r.Tag)
		}
		s.SetCount(r.Count)
		sl = append(sl, s)
	}
	vsched.Go(func() {
		k := 0
		for i := 0; i < len(sl); i += p.Batch {
			j := min(i+p.Batch, len(sl))
			it.Push(obiiter.MakeBioSequenceBatch("src", k, append(obiseq.BioSequenceSlice{}, sl[i:j]...)))
			k++
		}
		it.Done()
	})
	return it
}

func body(p param) string {
	opts := []obichunk.WithOption{obichunk.OptionSortOnMemory(), obichunk.OptionsParallelWorkers(p.Workers),
		obichunk.OptionBatchCount(p.Chunks), obichunk.OptionNAValue("NA"), obichunk.OptionStatOn("tag")}
	if p.WithCateg {
		opts = append(opts, obichunk.OptionSubCategory("cat"))
		if p.Categ2 {
			opts = append(opts, obichunk.OptionSubCategory("cat2"))
		}
	}
	if p.NoSingle {
		opts = append(opts, obichunk.OptionsNoSingleton())
	}
	out, err := obichunk.IUniqueSequence(source(p), opts...)
	if err != nil {
		return "error: " + err.Error()
	}
	var lines []string
	for out.Next() {
		for _, s := range out.Get().Slice() {
			cat := "NA"
			if v, ok := s.GetAttribute("cat"); ok {
				cat = fmt.Sprint(v)
			}
			if !p.WithCateg {
				cat = "-"
			} else if p.Categ2 {
				c2 := "NA"
				if v, ok := s.GetAttribute("cat2"); ok {
					c2 = fmt.Sprint(v)
				}
				cat += "/" + c2
			}
			merged := "absent"
			if v, ok := s.GetAttribute("merged_tag"); ok {
				m := map[string]int{}
				b, _ := json.Marshal(v)
				json.Unmarshal(b, &m)
				var ks []string
				for k := range m {
					ks = append(ks, k)
				}
				sort.Strings(ks)
				var ps []string
				for _, k := range ks {
					ps = append(ps, fmt.Sprintf("%s:%d", k, m[k]))
				}
				merged = strings.Join(ps, ",")
			}
			lines = append(lines, fmt.Sprintf("%s|%s|count=%d|merged_tag=%s", s.String(), cat, s.Count(), merged))
		}
	}
	sort.Strings(lines)
	return strings.Join(lines, "\n")
}

func expected(p param) string {
	type cls struct {
		count int
		tags  map[string]int
	}
	m := map[string]*cls{}
	for _, r := range p.Recs {
		cat := "-"
		if p.WithCateg {
			cat = r.Cat
			if cat == "" {
				cat = "NA"
			}
			if p.Categ2 {
				if r.Cat2 == "" {
					cat += "/NA"
				} else {
					cat += "/" + r.Cat2
				}
			}
		}
		k := r.Seq + "|" + cat
		c := m[k]
		if c == nil {
			c = &cls{tags: map[string]int{}}
			m[k] = c
		}
		c.count += r.Count
		if r.Merged != nil {
			for t, n := range r.Merged {
				c.tags[t] += n
			}
			continue
		}
		c.tags[r.Tag] += r.Count
	}
	var lines []string
	for k, c := range m {
		if p.NoSingle && c.count == 1 {
			continue
		}
		var ks []string
		for t := range c.tags {
			ks = append(ks, t)
		}
		sort.Strings(ks)
		var ps []string
		for _, t := range ks {
			ps = append(ps, fmt.Sprintf("%s:%d", t, c.tags[t]))
		}
		lines = append(lines, fmt.Sprintf("%s|count=%d|merged_tag=%s", k, c.count, strings.Join(ps, ",")))
	}
	sort.Strings(lines)
	return strings.Join(lines, "\n")
}

func multisets(types []rec, maxSize int) [][]rec {
	var out [][]rec
	var recf func(start int, cur []rec)
	recf = func(start int, cur []rec) {
		if len(cur) > 0 {
			out = append(out, append([]rec{}, cur...))
		}
		if len(cur) == maxSize {
			return
		}
		for i := start; i < len(types); i++ {
			recf(i, append(cur, types[i]))
		}
	}
	recf(0, nil)
	return out
}

func TestVerifC06A(t *testing.T) {
	log.SetOutput(io.Discard)
	log.StandardLogger().ExitFunc = vsched.Exit
	r := verifkit.New("C06")
	defer r.Write()

	check := func(p param) func(x *vsched.Exec) string {
		want := expected(p)
		return func(x *vsched.Exec) string {
			if x.Outcome() != "" {
				return x.Outcome() + "|" + x.Detail()
			}
			got, _ := x.Obs.(string)
			if got != want {
				return "differs|output classes differ from the reference model\n--- got\n" + got + "\n--- expected\n" + want
			}
			return ""
		}
	}

	if rc := r.ReplayCase(); rc != nil {
		var p param
		if err := json.Unmarshal(rc, &p); err != nil {
			t.Fatal(err)
		}
		x := vsched.RunOncePolicy(p.Policy, p.Choices, 30000, nil, nil, func(x *vsched.Exec) { x.Obs = body(p) })
		msg := check(p)(x)
		r.Eval(1)
		if msg != "" {
			r.Violate("IUniqueSequence/replay", msg, p)
		}
		fmt.Println("replay:", msg)
		return
	}

	var types []rec
	for _, s := range []string{"acgt", "ttgg"} {
		for _, c := range []string{"a", "b", ""} {
			for _, n := range []int{1, 2} {
				for _, tg := range []string{"x", "y"} {
					types = append(types, rec{Seq: s, Cat: c, Count: n, Tag: tg})
				}
			}
		}
	}
	// quick: all multisets of <= 2 records over the 12 types with a fixed tag per count; thorough: all
	// multisets of <= 2 over the 24 types and of <= 3 over the 12
	var small []rec
	for _, t := range types {
		if (t.Count == 1) == (t.Tag == "x") && (verifkit.Thorough() || t.Cat != "b") {
			small = append(small, t)
		}
	}
	ms := multisets(small, 2)
	if verifkit.Thorough() {
		ms = append(multisets(types, 2), multisets(small, 3)...)
	}
	// plus a fixed family of 3- and 4-record multisets forcing every kind of collision
	ms = append(ms,
		[]rec{{Seq: "acgt", Cat: "a", Count: 1, Tag: "x"}, {Seq: "acgt", Cat: "a", Count: 2, Tag: "y"}, {Seq: "acgt", Cat: "b", Count: 1, Tag: "x"}},
		[]rec{{Seq: "acgt", Cat: "a", Count: 1, Tag: "x"}, {Seq: "acgt", Cat: "", Count: 1, Tag: "x"}, {Seq: "ttgg", Cat: "", Count: 1, Tag: "y"}, {Seq: "acgt", Cat: "a", Count: 1, Tag: "x"}},
		[]rec{{Seq: "acgt", Cat: "a", Count: 1, Tag: "x"}, {Seq: "ttgg", Cat: "a", Count: 1, Tag: "x"}, {Seq: "acgt", Cat: "a", Count: 1, Tag: "y"}, {Seq: "ttgg", Cat: "a", Count: 2, Tag: "y"}})
	var jobs []param
	// audit extension (these jobs come first: a run cut by its deadline has done them): two category
	// levels (the recursion of IUniqueSequence's sub-classification goes one level deeper, every level
	// with its own goroutine and classifier), already merged input records, and the fixed collision
	// families with 1 and 3 chunks
	mg := func(seq, cat string, m map[string]int) rec {
		n := 0
		for _, v := range m {
			n += v
		}
		return rec{Seq: seq, Cat: cat, Count: n, Merged: m}
	}
	extra := [][]rec{
		{{Seq: "acgt", Cat: "a", Cat2: "p", Count: 1, Tag: "x"}, {Seq: "acgt", Cat: "a", Cat2: "q", Count: 1, Tag: "x"}, {Seq: "acgt", Cat: "a", Cat2: "p", Count: 2, Tag: "y"}},
		{{Seq: "acgt", Cat: "a", Cat2: "p", Count: 1, Tag: "x"}, {Seq: "acgt", Cat2: "p", Count: 1, Tag: "x"}, {Seq: "acgt", Cat: "a", Count: 1, Tag: "y"}, {Seq: "acgt", Cat: "a", Cat2: "p", Count: 1, Tag: "x"}},
		{{Seq: "acgt", Cat: "a", Count: 1, Tag: "x"}, mg("acgt", "a", map[string]int{"x": 1, "y": 2}), mg("ttgg", "a", map[string]int{"x": 2})},
		{mg("acgt", "a", map[string]int{"x": 1, "y": 1}), {Seq: "acgt", Cat: "a", Cat2: "p", Count: 1, Tag: "y"}, {Seq: "acgt", Cat: "b", Cat2: "p", Count: 1, Tag: "y"}, mg("acgt", "a", map[string]int{"y": 1})},
	}
	for _, m := range extra {
		for _, w := range []int{2, 3} {
			if w == 3 && !verifkit.Thorough() {
				continue
			}
			for pol := 0; pol <= 1; pol++ {
				jobs = append(jobs, param{Recs: m, Workers: w, Chunks: 2, Batch: 1 + len(m)/2, NoSingle: len(m)%2 == 0, Policy: pol, Bound: 1, WithCateg: true, Categ2: true})
			}
		}
	}
	for _, m := range ms[len(ms)-3:] {
		for _, ch := range []int{1, 3} {
			jobs = append(jobs, param{Recs: m, Workers: 2, Chunks: ch, Batch: 1, Policy: ch / 2, Bound: 1, WithCateg: true})
		}
	}
	for _, m := range ms {
		for _, w := range []int{2, 3} {
			if w == 3 && !verifkit.Thorough() {
				continue
			}
			for _, categ := range []bool{true, false} {
				for pol := 0; pol <= 1; pol++ {
					bound := 1
					jobs = append(jobs, param{Recs: m, Workers: w, Chunks: 2, Batch: 1 + len(m)/2, NoSingle: len(m)%2 == 0 && categ, Policy: pol, Bound: bound, WithCateg: categ})
				}
			}
		}
	}
	r.Bound("extra_scenarios", "4 fixed multisets with two category attributes and/or already merged records (merged_tag maps) x policies; the 3 fixed collision families with chunk counts 1 and 3, batch size 1")
	r.Bound("multisets", len(ms)+len(extra))
	r.Bound("jobs", len(jobs))
	r.Bound("exploration", "delay bound 1 from two default schedulers, happens-before state caching, L2 conflict sites to fixpoint")
	for k, p := range jobs {
		if !r.Mine(k) {
			continue
		}
		if r.Expired() {
			break
		}
		if k < 2 {
			r.Sample(map[string]any{"param": p, "expected": expected(p)})
		}
		r.State(fmt.Sprint(p.Recs))
		cfg := vsched.Config{Name: "uniq", Preemptions: p.Bound, DelayBounding: true, Policy: p.Policy, Horizon: 30000,
			MaxExec: 60000, Expired: r.Expired, Check: check(p)}
		st := vsched.Explore(cfg, func(x *vsched.Exec) { x.Obs = body(p) })
		r.Eval(st.Executions)
		r.Trace(st.Executions)
		r.Trans(st.Points)
		r.Replayed(st.ReplaysChecked)
		r.Count("hb_states", st.States)
		for o, n := range st.Outcomes {
			r.Count("outcome_"+o, n)
		}
		for h := range st.TraceHashes {
			r.StateH(h)
		}
		if st.Capped {
			r.Cap("execution cap / deadline reached")
		}
		seen := map[string]bool{}
		for _, v := range st.Violations {
			parts := strings.SplitN(v.Desc, "|", 2)
			key := "IUniqueSequence(memory)/" + parts[0]
			if seen[key] {
				continue
			}
			seen[key] = true
			q := p
			q.Choices = v.Choices
			r.Violate(key, fmt.Sprintf("records=%v workers=%d chunks=%d batch=%d nosingleton=%v category=%v policy=%d schedule=%v: %s", p.Recs, p.Workers, p.Chunks, p.Batch, p.NoSingle, p.WithCateg, p.Policy, v.Choices, parts[1]), q)
		}
	}
	r.RequireNonVacuous("outcome_completed")
}
