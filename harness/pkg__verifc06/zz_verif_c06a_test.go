//go:build verif

package verifc06

// C06 (engine A, in-memory mode) — obichunk.IUniqueSequence with 1..3 workers runs under the
// controlled scheduler on every small multiset of records: whatever the interleaving, the output is
// exactly one record per key (sequence + category value, NA when missing) whose count is the sum of
// the input counts and whose merged_<attribute> map holds the summed weights; the total count is
// conserved.
//
// Cross-worker family ("wide" jobs): the first-level workers of IUniqueSequence run side by side only
// when at least two hash chunks reach them, and they do something on a chunk (reset of the classifier,
// one code per record, sort, cut into classes) only when it holds more than one record. Under both
// default schedulers of vsched the worker that took a chunk runs its whole coding loop, and takes the next
// chunk as well: a second worker being handed a chunk while the first one is in the middle of its loop
// costs two deviations (leave the first worker between two records; give the pending chunk to the other
// worker instead of the preferred one). These jobs therefore use inputs with >= 2 hash chunks of >= 2
// records (chunk count 3: the hash separates the sequences) and delay bound 2; the counter
// jobs_with_2+_coded_chunks guards their non-vacuity with the real hash classifier.

import (
	"encoding/json"
	"fmt"
	"io"
	"sort"
	"strings"
	"testing"

	"git.metabarcoding.org/obitools/obitools4/obitools4/pkg/obichunk"
	"git.metabarcoding.org/obitools/obitools4/obitools4/pkg/obiiter"
	"git.metabarcoding.org/obitools/obitools4/obitools4/pkg/obiseq"
	"git.metabarcoding.org/obitools/obitools4/obitools4/pkg/verifkit"
	"git.metabarcoding.org/obitools/obitools4/obitools4/pkg/vsched"
	log "github.com/sirupsen/logrus"
)

type rec struct {
	Seq   string `json:"seq"`
	Cat   string `json:"cat"` // "" = attribute absent
	Count int    `json:"count"`
	Tag   string `json:"tag"`
	// audit extension: a second category attribute, and records that are already the result of a merge
	// (merged_tag map instead of the scalar tag; Count must be the sum of the map)
	Cat2   string         `json:"cat2,omitempty"`
	Merged map[string]int `json:"merged,omitempty"`
}

type param struct {
	Recs      []rec    `json:"records"`
	Workers   int      `json:"workers"`
	Chunks    int      `json:"chunks"`
	Batch     int      `json:"batch"`
	NoSingle  bool     `json:"no_singleton"`
	Policy    int      `json:"policy"`
	Bound     int      `json:"bound"`
	Choices   []int    `json:"choices,omitempty"`
	WithCateg bool     `json:"with_category"`
	Categ2    bool     `json:"two_categories,omitempty"` // -c cat -c cat2 (needs WithCateg)
	MaxExec   int64    `json:"max_exec,omitempty"`       // execution cap of the exploration (0: 60000)
	Family    string   `json:"family,omitempty"`         // "" = general enumeration, "cross-worker" = wide jobs
	Conflicts []string `json:"conflicts,omitempty"`      // racy-access sites that were scheduling points (replay)
}

// codedChunks: number of hash chunks (real obiseq.HashClassifier of the tree under test) that hold more
// than one record, i.e. the number of batches a first-level worker resets its classifier for and codes.
func codedChunks(p param) (k int) {
	// (a classifier of the tree under test that panics or calls log.Fatal here only loses this informative count)
	defer func() {
		if recover() != nil {
			k = 0
		}
	}()
	h := obiseq.HashClassifier(p.Chunks)
	n := map[int]int{}
	for _, r := range p.Recs {
		n[h.Code(obiseq.NewBioSequence("h", []byte(r.Seq), ""))]++
	}
	for _, c := range n {
		if c > 1 {
			k++
		}
	}
	return k
}

func source(p param) obiiter.IBioSequence {
	it := obiiter.MakeIBioSequence()
	it.Add(1)
	vsched.Go(func() { it.WaitAndClose() })
	sl := obiseq.MakeBioSequenceSlice()
	for i, r := range p.Recs {
		s := obiseq.NewBioSequence(fmt.Sprintf("s%d", i), []byte(r.Seq), "")
		if r.Cat != "" {
			s.SetAttribute("cat", r.Cat)
		}
		if r.Cat2 != "" {
			s.SetAttribute("cat2", r.Cat2)
		}
		if r.Merged != nil {
			m := obiseq.StatsOnValues{}
			for k, v := range r.Merged {
				m[k] = v
			}
			s.SetAttribute("merged_tag", m)
		} else {
			s.SetAttribute("tag", r.Tag)
		}
		s.SetCount(r.Count)
		sl = append(sl, s)
	}
	vsched.Go(func() {
		k := 0
		for i := 0; i < len(sl); i += p.Batch {
			j := min(i+p.Batch, len(sl))
			it.Push(obiiter.MakeBioSequenceBatch("src", k, append(obiseq.BioSequenceSlice{}, sl[i:j]...)))
			k++
		}
		it.Done()
	})
	return it
}

func body(p param) string {
	opts := []obichunk.WithOption{obichunk.OptionSortOnMemory(), obichunk.OptionsParallelWorkers(p.Workers),
		obichunk.OptionBatchCount(p.Chunks), obichunk.OptionNAValue("NA"), obichunk.OptionStatOn("tag")}
	if p.WithCateg {
		opts = append(opts, obichunk.OptionSubCategory("cat"))
		if p.Categ2 {
			opts = append(opts, obichunk.OptionSubCategory("cat2"))
		}
	}
	if p.NoSingle {
		opts = append(opts, obichunk.OptionsNoSingleton())
	}
	out, err := obichunk.IUniqueSequence(source(p), opts...)
	if err != nil {
		return "error: " + err.Error()
	}
	var lines []string
	for out.Next() {
		for _, s := range out.Get().Slice() {
			cat := "NA"
			if v, ok := s.GetAttribute("cat"); ok {
				cat = fmt.Sprint(v)
			}
			if !p.WithCateg {
				cat = "-"
			} else if p.Categ2 {
				c2 := "NA"
				if v, ok := s.GetAttribute("cat2"); ok {
					c2 = fmt.Sprint(v)
				}
				cat += "/" + c2
			}
			merged := "absent"
			if v, ok := s.GetAttribute("merged_tag"); ok {
				m := map[string]int{}
				b, _ := json.Marshal(v)
				json.Unmarshal(b, &m)
				var ks []string
				for k := range m {
					ks = append(ks, k)
				}
				sort.Strings(ks)
				var ps []string
				for _, k := range ks {
					ps = append(ps, fmt.Sprintf("%s:%d", k, m[k]))
				}
				merged = strings.Join(ps, ",")
			}
			lines = append(lines, fmt.Sprintf("%s|%s|count=%d|merged_tag=%s", s.String(), cat, s.Count(), merged))
		}
	}
	sort.Strings(lines)
	return strings.Join(lines, "\n")
}

func expected(p param) string {
	type cls struct {
		count int
		tags  map[string]int
	}
	m := map[string]*cls{}
	for _, r := range p.Recs {
		cat := "-"
		if p.WithCateg {
			cat = r.Cat
			if cat == "" {
				cat = "NA"
			}
			if p.Categ2 {
				if r.Cat2 == "" {
					cat += "/NA"
				} else {
					cat += "/" + r.Cat2
				}
			}
		}
		k := r.Seq + "|" + cat
		c := m[k]
		if c == nil {
			c = &cls{tags: map[string]int{}}
			m[k] = c
		}
		c.count += r.Count
		if r.Merged != nil {
			for t, n := range r.Merged {
				c.tags[t] += n
			}
			continue
		}
		c.tags[r.Tag] += r.Count
	}
	var lines []string
	for k, c := range m {
		if p.NoSingle && c.count == 1 {
			continue
		}
		var ks []string
		for t := range c.tags {
			ks = append(ks, t)
		}
		sort.Strings(ks)
		var ps []string
		for _, t := range ks {
			ps = append(ps, fmt.Sprintf("%s:%d", t, c.tags[t]))
		}
		lines = append(lines, fmt.Sprintf("%s|count=%d|merged_tag=%s", k, c.count, strings.Join(ps, ",")))
	}
	sort.Strings(lines)
	return strings.Join(lines, "\n")
}

func multisets(types []rec, maxSize int) [][]rec {
	var out [][]rec
	var recf func(start int, cur []rec)
	recf = func(start int, cur []rec) {
		if len(cur) > 0 {
			out = append(out, append([]rec{}, cur...))
		}
		if len(cur) == maxSize {
			return
		}
		for i := start; i < len(types); i++ {
			recf(i, append(cur, types[i]))
		}
	}
	recf(0, nil)
	return out
}

// explore runs vsched.Explore. div != "": the explorer found that one schedule, executed twice, does not give the same
// execution (its own "replay ... diverged" panics): the code under test keeps state from one execution to the next or is
// not deterministic. That is a verdict on the tree (reported by the caller), not an engine error; the explorer is not
// used any further by this shard.
func explore(cfg vsched.Config, body func(x *vsched.Exec)) (st *vsched.Stats, div string) {
	defer func() {
		if e := recover(); e != nil {
			s, ok := e.(string)
			if !ok || !strings.HasPrefix(s, "vsched: replay") {
				panic(e)
			}
			st, div = nil, s
		}
	}()
	return vsched.Explore(cfg, body), ""
}

func TestVerifC06A(t *testing.T) {
	log.SetOutput(io.Discard)
	log.StandardLogger().ExitFunc = vsched.Exit
	r := verifkit.New("C06")
	defer r.Write()

	check := func(p param) func(x *vsched.Exec) string {
		want := expected(p)
		return func(x *vsched.Exec) string {
			if x.Outcome() != "" {
				return x.Outcome() + "|" + x.Detail()
			}
			got, _ := x.Obs.(string)
			if got != want {
				return "differs|output classes differ from the reference model\n--- got\n" + got + "\n--- expected\n" + want
			}
			return ""
		}
	}

	if rc := r.ReplayCase(); rc != nil {
		var p param
		if err := json.Unmarshal(rc, &p); err != nil {
			t.Fatal(err)
		}
		x := vsched.RunOncePolicy(p.Policy, p.Choices, 30000, vsched.ConflictSet(p.Conflicts), nil, func(x *vsched.Exec) { x.Obs = body(p) })
		msg := check(p)(x)
		r.Eval(1)
		if msg == "" || strings.Contains(msg, "replay divergence") {
			// the stored choice list indexes the decision points of the exploration round that found it (the
			// racy access sites known in that round are scheduling points too): when the plain re-execution
			// does not follow it, the job is explored again and its first violating schedule is shown
			cfg := vsched.Config{Name: "uniq", Preemptions: p.Bound, DelayBounding: true, Policy: p.Policy, Horizon: 30000,
				MaxExec: max(p.MaxExec, 60000), Check: check(p)}
			st, div := explore(cfg, func(x *vsched.Exec) { x.Obs = body(p) })
			if div != "" {
				r.Violate("IUniqueSequence(memory)/control-run/execution-not-reproducible", div, p)
				return
			}
			r.Eval(st.Executions)
			msg = ""
			if len(st.Violations) > 0 {
				msg = fmt.Sprintf("(found again by exploring the job, schedule %v) %s", st.Violations[0].Choices, st.Violations[0].Desc)
			}
		}
		if msg != "" {
			r.Violate("IUniqueSequence/replay", msg, p)
		}
		fmt.Println("replay:", msg)
		return
	}

	var types []rec
	for _, s := range []string{"acgt", "ttgg"} {
		for _, c := range []string{"a", "b", ""} {
			for _, n := range []int{1, 2} {
				for _, tg := range []string{"x", "y"} {
					types = append(types, rec{Seq: s, Cat: c, Count: n, Tag: tg})
				}
			}
		}
	}
	// quick: all multisets of <= 2 records over the 12 types with a fixed tag per count; thorough: all
	// multisets of <= 2 over the 24 types and of <= 3 over the 12
	var small []rec
	for _, t := range types {
		if (t.Count == 1) == (t.Tag == "x") && (verifkit.Thorough() || t.Cat != "b") {
			small = append(small, t)
		}
	}
	ms := multisets(small, 2)
	if verifkit.Thorough() {
		ms = append(multisets(types, 2), multisets(small, 3)...)
	}
	// plus a fixed family of 3- and 4-record multisets forcing every kind of collision
	ms = append(ms,
		[]rec{{Seq: "acgt", Cat: "a", Count: 1, Tag: "x"}, {Seq: "acgt", Cat: "a", Count: 2, Tag: "y"}, {Seq: "acgt", Cat: "b", Count: 1, Tag: "x"}},
		[]rec{{Seq: "acgt", Cat: "a", Count: 1, Tag: "x"}, {Seq: "acgt", Cat: "", Count: 1, Tag: "x"}, {Seq: "ttgg", Cat: "", Count: 1, Tag: "y"}, {Seq: "acgt", Cat: "a", Count: 1, Tag: "x"}},
		[]rec{{Seq: "acgt", Cat: "a", Count: 1, Tag: "x"}, {Seq: "ttgg", Cat: "a", Count: 1, Tag: "x"}, {Seq: "acgt", Cat: "a", Count: 1, Tag: "y"}, {Seq: "ttgg", Cat: "a", Count: 2, Tag: "y"}})
	var jobs []param
	// audit extension (these jobs come first: a run cut by its deadline has done them): two category
	// levels (the recursion of IUniqueSequence's sub-classification goes one level deeper, every level
	// with its own goroutine and classifier), already merged input records, and the fixed collision
	// families with 1 and 3 chunks
	mg := func(seq, cat string, m map[string]int) rec {
		n := 0
		for _, v := range m {
			n += v
		}
		return rec{Seq: seq, Cat: cat, Count: n, Merged: m}
	}
	extra := [][]rec{
		{{Seq: "acgt", Cat: "a", Cat2: "p", Count: 1, Tag: "x"}, {Seq: "acgt", Cat: "a", Cat2: "q", Count: 1, Tag: "x"}, {Seq: "acgt", Cat: "a", Cat2: "p", Count: 2, Tag: "y"}},
		{{Seq: "acgt", Cat: "a", Cat2: "p", Count: 1, Tag: "x"}, {Seq: "acgt", Cat2: "p", Count: 1, Tag: "x"}, {Seq: "acgt", Cat: "a", Count: 1, Tag: "y"}, {Seq: "acgt", Cat: "a", Cat2: "p", Count: 1, Tag: "x"}},
		{{Seq: "acgt", Cat: "a", Count: 1, Tag: "x"}, mg("acgt", "a", map[string]int{"x": 1, "y": 2}), mg("ttgg", "a", map[string]int{"x": 2})},
		{mg("acgt", "a", map[string]int{"x": 1, "y": 1}), {Seq: "acgt", Cat: "a", Cat2: "p", Count: 1, Tag: "y"}, {Seq: "acgt", Cat: "b", Cat2: "p", Count: 1, Tag: "y"}, mg("acgt", "a", map[string]int{"y": 1})},
	}
	for _, m := range extra {
		for _, w := range []int{2, 3} {
			if w == 3 && !verifkit.Thorough() {
				continue
			}
			for pol := 0; pol <= 1; pol++ {
				jobs = append(jobs, param{Recs: m, Workers: w, Chunks: 2, Batch: 1 + len(m)/2, NoSingle: len(m)%2 == 0, Policy: pol, Bound: 1, WithCateg: true, Categ2: true})
			}
		}
	}
	for _, m := range ms[len(ms)-3:] {
		for _, ch := range []int{1, 3} {
			jobs = append(jobs, param{Recs: m, Workers: 2, Chunks: ch, Batch: 1, Policy: ch / 2, Bound: 1, WithCateg: true})
		}
	}
	for _, m := range ms {
		for _, w := range []int{2, 3} {
			if w == 3 && !verifkit.Thorough() {
				continue
			}
			for _, categ := range []bool{true, false} {
				for pol := 0; pol <= 1; pol++ {
					bound := 1
					jobs = append(jobs, param{Recs: m, Workers: w, Chunks: 2, Batch: 1 + len(m)/2, NoSingle: len(m)%2 == 0 && categ, Policy: pol, Bound: bound, WithCateg: categ})
				}
			}
		}
	}
	// cross-worker family (see the head of the file): >= 2 hash chunks of >= 2 records each (chunk count 3
	// separates acgt|gggg, ttgg and cccc), delay bound 2. S1: two chunks of one repeated sequence (a worker
	// must give both records of its chunk the same code); S3: a chunk with a second sequence between the two
	// copies; S6: three coded chunks. Category values differ between the chunks (the second-level
	// classifiers see different values). quick: S1, 2 workers, one default scheduler, no category;
	// thorough: both default schedulers, with a category level, 3 workers, S3 and S6.
	s1 := []rec{{Seq: "acgt", Cat: "a", Count: 1, Tag: "x"}, {Seq: "ttgg", Cat: "b", Count: 1, Tag: "x"}, {Seq: "acgt", Cat: "a", Count: 1, Tag: "y"}, {Seq: "ttgg", Cat: "b", Count: 2, Tag: "y"}}
	s3 := []rec{{Seq: "acgt", Cat: "a", Count: 1, Tag: "x"}, {Seq: "gggg", Cat: "a", Count: 1, Tag: "x"}, {Seq: "ttgg", Cat: "b", Count: 1, Tag: "x"}, {Seq: "acgt", Cat: "a", Count: 1, Tag: "y"}, {Seq: "ttgg", Cat: "b", Count: 2, Tag: "y"}}
	s6 := append(append([]rec{}, s1...), rec{Seq: "cccc", Cat: "", Count: 1, Tag: "x"}, rec{Seq: "cccc", Cat: "", Count: 1, Tag: "x"})
	wideJob := func(m []rec, w, pol int, categ bool) param {
		return param{Recs: m, Workers: w, Chunks: 3, Batch: len(m), Policy: pol, Bound: 2, WithCateg: categ, MaxExec: 3000000, Family: "cross-worker"}
	}
	wide := []param{wideJob(s1, 2, 0, false)}
	if verifkit.Thorough() {
		// the most expensive first (they go to the shards with the lightest share of the enumeration)
		wide = append(wide, wideJob(s1, 2, 1, true), wideJob(s6, 3, 0, false), wideJob(s1, 2, 0, true), wideJob(s1, 3, 0, false),
			wideJob(s6, 2, 0, false), wideJob(s3, 2, 1, false), wideJob(s1, 2, 1, false), wideJob(s3, 2, 0, false))
	}
	r.Bound("extra_scenarios", "4 fixed multisets with two category attributes and/or already merged records (merged_tag maps) x policies; the 3 fixed collision families with chunk counts 1 and 3, batch size 1")
	r.Bound("cross_worker_jobs", fmt.Sprintf("%d jobs with >= 2 hash chunks of >= 2 records (chunk count 3), delay bound 2: S1 = 2 chunks x 2 copies of one sequence, S3 = S1 + another sequence of the first chunk, S6 = 3 chunks x 2 copies; quick: S1 / 2 workers / default scheduler 0 / no category; thorough: + default scheduler 1, category level, 3 workers, S3, S6", len(wide)))
	r.Bound("multisets", len(ms)+len(extra))
	r.Bound("jobs", len(jobs)+len(wide))
	r.Bound("exploration", "delay bound 1 (cross-worker jobs: 2) from two default schedulers, happens-before state caching, L2 conflict sites to fixpoint")
	// run explores one job; false: the explorer cannot be used any further (reported), the shard stops
	run := func(p param) bool {
		r.State(fmt.Sprint(p.Recs))
		r.Count("jobs_explored", 1)
		if p.Bound >= 2 {
			r.Count("jobs_explored_at_delay_bound_2", 1)
		}
		if codedChunks(p) >= 2 && p.Workers >= 2 {
			r.Count("jobs_with_2+_coded_chunks", 1)
			if p.Bound >= 2 {
				r.Count("jobs_with_2+_coded_chunks_at_delay_bound_2", 1)
			}
		}
		maxExec := int64(60000)
		if p.MaxExec > 0 {
			maxExec = p.MaxExec
		}
		cfg := vsched.Config{Name: "uniq", Preemptions: p.Bound, DelayBounding: true, Policy: p.Policy, Horizon: 30000,
			MaxExec: maxExec, Expired: r.Expired, Check: check(p)}
		st, div := explore(cfg, func(x *vsched.Exec) { x.Obs = body(p) })
		if div != "" {
			r.Eval(1)
			r.Violate("IUniqueSequence(memory)/control-run/execution-not-reproducible", fmt.Sprintf("records=%v workers=%d chunks=%d batch=%d nosingleton=%v category=%v policy=%d: the same schedule executed twice does not give the same execution: %s", p.Recs, p.Workers, p.Chunks, p.Batch, p.NoSingle, p.WithCateg, p.Policy, div), p)
			r.Cap("executions of the tree under test are not reproducible: the exploration of this shard stops")
			return false
		}
		r.Eval(st.Executions)
		r.Trace(st.Executions)
		r.Trans(st.Points)
		r.Replayed(st.ReplaysChecked)
		r.Count("hb_states", st.States)
		for o, n := range st.Outcomes {
			r.Count("outcome_"+o, n)
		}
		if p.Family != "" {
			r.Count("executions:"+p.Family, st.Executions)
			r.Count("completed:"+p.Family, st.Outcomes["completed"])
		}
		for h := range st.TraceHashes {
			r.StateH(h)
		}
		if st.Capped {
			r.Cap("execution cap / deadline reached")
		}
		seen := map[string]bool{}
		for _, v := range st.Violations {
			parts := strings.SplitN(v.Desc, "|", 2)
			key := "IUniqueSequence(memory)/" + parts[0]
			if p.Family != "" {
				// a failure met only when several first-level workers code a chunk at the same time
				key += "@" + p.Family
			}
			if seen[key] {
				continue
			}
			seen[key] = true
			q := p
			q.Choices = v.Choices
			q.Conflicts = v.Conflicts
			r.Violate(key, fmt.Sprintf("records=%v workers=%d chunks=%d batch=%d nosingleton=%v category=%v policy=%d delay bound=%d schedule=%v: %s", p.Recs, p.Workers, p.Chunks, p.Batch, p.NoSingle, p.WithCateg, p.Policy, p.Bound, v.Choices, parts[1]), q)
		}
		return true
	}
	// the wide jobs first (a run cut by its deadline has done them). With enough shards (quick tier) every
	// wide job has a shard of its own and the general enumeration is spread over the other shards; otherwise
	// they share, the wide jobs starting with the shards that get the lightest part of the enumeration.
	lightFirst := []int{8, 9, 0, 1, 12, 13, 4, 5, 14, 15, 2, 3, 10, 11, 6, 7}
	dedicated := r.NShards >= 2*len(wide)
	general := r.NShards
	if dedicated {
		general -= len(wide)
	}
	for j, p := range wide {
		sh := lightFirst[j%len(lightFirst)] % r.NShards
		if dedicated {
			sh = r.NShards - 1 - j
		}
		if sh != r.Shard {
			continue
		}
		if r.Expired() {
			break
		}
		if !run(p) {
			return
		}
	}
	for k, p := range jobs {
		if k%general != r.Shard {
			continue
		}
		if r.Expired() {
			break
		}
		if k < 2 {
			r.Sample(map[string]any{"param": p, "expected": expected(p)})
		}
		if !run(p) {
			return
		}
	}
	// guards on what the harness did (jobs_with_2+_coded_chunks* and outcome_* depend on the hash classifier and on the
	// executions of the tree under test: they are reported, not required)
	r.RequireNonVacuous("jobs_explored_at_delay_bound_2")
	r.RequireNonVacuous("jobs_explored")
}
