//go:build verif

package obipairing

// C08 (part 3, package obipairing) — the obipairing COMMAND path.
//
// Parts 0 and 1 judge PEAlign / BuildQualityConsensus / AssemblePESequences call by call, each call on a
// fresh arena sized for its reads, inplace=false.  The command does not work that way:
// IAssemblePESequencesBatch reverse-complements the mate IN PLACE, assembles with inplace=true, and each
// worker pushes every pair of every batch it takes through ONE arena made for 150 + 150 bases and ONE
// 4-mer shift map; main() feeds it the values of ten command line options through the CLI getters.
//
//   (b) IAssemblePESequencesBatch in process: a set of 14 read pairs (all geometries, substitution and
//       indel errors, IUPAC, reads of 156 and 170 bases that outgrow the 150+150 arena, overlaps of 19 and
//       20, identity just below 0.9) is streamed in an order that holds EVERY ORDERED TRIPLE of the set as
//       three consecutive pairs (de Bruijn sequence: every call history of length 3 on a worker's arena),
//       x 7 alignment configurations x 3 threshold settings x withStats {true,false} x {1 batch / 1
//       worker, batches of 97 / 2 workers, batches of 97 / 3 workers, batches of 500 / default workers}.
//   (c) the real obipairing BINARY (built from the tree under test) on FASTQ files holding the same
//       set in an order with every ordered pair (thorough: triple) + every overlap geometry of a 26 base
//       fragment (error free, one substitution, one deletion) x option sets covering each of
//       --delta --min-overlap --min-identity --gap-penality --penality-scale --without-stat --exact-mode
//       --fast-absolute (long and short names), alone and combined, default and small batches.
//
// Oracle: record k of the output must be what ONE call of AssemblePESequences gives for pair k (mate
// reverse-complemented by the harness) with the parameter values the options stand for, fresh arena, fresh
// shift map, inplace=false: sequence, qualities, mode, ali_length, seq_a_single, seq_b_single, score.
// That single call is itself judged against the model of part 1 (c08peval: path, columns, thresholds,
// reassembly of error-free reads).  Nothing else of the records is constrained (order of the records in
// the output file, other annotations).

import (
	"bytes"
	"encoding/json"
	"fmt"
	"io"
	"os"
	"os/exec"
	"path/filepath"
	"sort"
	"strconv"
	"strings"
	"testing"
	"time"

	"git.metabarcoding.org/obitools/obitools4/obitools4/pkg/obialign"
	"git.metabarcoding.org/obitools/obitools4/obitools4/pkg/obiiter"
	"git.metabarcoding.org/obitools/obitools4/obitools4/pkg/obiseq"
	"git.metabarcoding.org/obitools/obitools4/obitools4/pkg/verifkit"
	log "github.com/sirupsen/logrus"
)

// ---- read pairs ----

// c08cpair: A = forward read, B = the mate as AssemblePESequences must receive it (already in the
// orientation of the fragment).  The reverse read of the input files / batches is revcomp(B).
type c08cpair struct {
	Name   string
	A, B   string
	QA, QB []int
	U      string // fragment the two reads are error-free cuts of ("" = no such claim)
	A0, B0 int
}

func c08ccomp(b byte) byte {
	switch b {
	case 'a':
		return 't'
	case 'c':
		return 'g'
	case 'g':
		return 'c'
	case 't':
		return 'a'
	case 'r':
		return 'y'
	case 'y':
		return 'r'
	}
	return b // n
}

func c08crevcomp(s string) string {
	out := make([]byte, len(s))
	for i := range out {
		out[i] = c08ccomp(s[len(s)-1-i])
	}
	return string(out)
}

func c08crevq(q []int) []int {
	out := make([]int, len(q))
	for i := range out {
		out[i] = q[len(q)-1-i]
	}
	return out
}

func c08cdel(s string, p int) string { return s[:p] + s[p+1:] }

// qualities of a read of the command part: the patterns of part 1 + "mix" (20..41, period 7)
func c08cquals(pat string, n int, isB bool) []int {
	if pat == "mix" {
		q := make([]int, n)
		for i := range q {
			q[i] = 20 + (i*5+3)%22
			if isB {
				q[i] = 20 + (i*11+7)%22
			}
		}
		return q
	}
	return c08pquals(pat, n, isB)
}

func c08cset() []c08cpair {
	u := c08pdeBruijn() // 256 bases, all 4-mers distinct
	s2 := "gattacctgattacaaaagcatgcgattacgt"
	var out []c08cpair
	add := func(name, a, b, pat, frag string, a0, b0 int) {
		out = append(out, c08cpair{Name: name, A: a, B: b, QA: c08cquals(pat, len(a), false), QB: c08cquals(pat, len(b), true), U: frag, A0: a0, B0: b0})
	}
	sub3 := func(s string, ps ...int) string {
		for _, p := range ps {
			s = c08psubst(s, p)
		}
		return s
	}
	add("left-overlap30", u[:100], u[70:160], "mix", u[:160], 0, 70)
	add("right-overlap30", u[70:160], u[:100], "ramp", u[:160], 70, 0)
	add("containment", u[:120], u[40:70], "alt", "", 0, 0)
	add("identical", u[:40], u[:40], "u40", u[:40], 0, 0)
	add("one-substitution", u[:60], c08psubst(u[30:100], 10), "mix", "", 0, 0)
	add("one-deletion", u[:60], c08cdel(u[30:100], 12), "alt", "", 0, 0)
	add("tiny", "ac", "gt", "u40", "", 0, 0)
	add("longer-than-the-arena", u[:170], u[100:256], "mix", u, 0, 100)
	add("unrelated", s2[:20], u[200:230], "alt", "", 0, 0)
	add("overlap19", u[:50], u[31:90], "mix", u[:90], 0, 31)
	add("overlap20", u[:50], u[30:90], "ramp", u[:90], 0, 30)
	add("iupac", u[:25]+"n"+u[26:40], u[20:70], "u40", "", 0, 0)
	add("repeats", s2[:24], s2[8:32], "alt", s2, 0, 8)
	add("identity-0.88", u[:60], sub3(u[35:100], 3, 11, 19), "u40", "", 0, 0)
	return out
}

// c08call geometries of a fragment (as in part 1, ii)
func c08cgeometries(L int) [][4]int {
	var geos [][4]int
	for la := 1; la <= L; la++ {
		if la < L {
			for b0 := 0; b0 <= la; b0++ {
				geos = append(geos, [4]int{0, la, b0, L - b0})
			}
		} else {
			for b0 := 0; b0 < L; b0++ {
				for lb := 1; lb <= L-b0; lb++ {
					geos = append(geos, [4]int{0, la, b0, lb})
				}
			}
		}
	}
	for lb := 1; lb <= L; lb++ {
		if lb < L {
			for a0 := 1; a0 <= lb; a0++ {
				geos = append(geos, [4]int{a0, L - a0, 0, lb})
			}
		} else {
			for a0 := 1; a0 < L; a0++ {
				for la := 1; la <= L-a0; la++ {
					geos = append(geos, [4]int{a0, la, 0, lb})
				}
			}
		}
	}
	return geos
}

// c08cfamily: every geometry of the 26 base fragment, error free; for overlaps >= 8 of the left / right
// geometries also one substitution and one deletion in the middle of the overlap (in B)
func c08cfamily() []c08cpair {
	u := c08pdeBruijn()[10:36]
	var out []c08cpair
	for gi, g := range c08cgeometries(len(u)) {
		a0, la, b0, lb := g[0], g[1], g[2], g[3]
		a, b := u[a0:a0+la], u[b0:b0+lb]
		pat := []string{"alt", "ramp", "mix"}[gi%3]
		out = append(out, c08cpair{Name: fmt.Sprintf("geom(%d,%d,%d,%d)", a0, la, b0, lb), A: a, B: b,
			QA: c08cquals(pat, la, false), QB: c08cquals(pat, lb, true), U: u, A0: a0, B0: b0})
		ovl := min(a0+la, b0+lb) - max(a0, b0)
		if ovl >= 8 && (a0 == 0 && b0+lb == len(u) || b0 == 0 && a0+la == len(u)) {
			p := max(a0, b0) + ovl/2 - b0 // middle of the overlap, in B coordinates
			vb := c08psubst(b, p)
			out = append(out, c08cpair{Name: fmt.Sprintf("geom(%d,%d,%d,%d)+sub", a0, la, b0, lb), A: a, B: vb,
				QA: c08cquals(pat, la, false), QB: c08cquals(pat, len(vb), true)})
			vb = c08cdel(b, p)
			out = append(out, c08cpair{Name: fmt.Sprintf("geom(%d,%d,%d,%d)+del", a0, la, b0, lb), A: a, B: vb,
				QA: c08cquals(pat, la, false), QB: c08cquals(pat, len(vb), true)})
		}
	}
	return out
}

// c08cdeBruijnOrder: a sequence over 0..n-1 in which every word of length `order` occurs as consecutive
// symbols (de Bruijn sequence B(n, order) unrolled by order-1 symbols)
func c08cdeBruijnOrder(n, order int) []int {
	a := make([]int, n*order)
	var seq []int
	var db func(t, p int)
	db = func(t, p int) {
		if t > order {
			if order%p == 0 {
				seq = append(seq, a[1:p+1]...)
			}
			return
		}
		a[t] = a[t-p]
		db(t+1, p)
		for j := a[t-p] + 1; j < n; j++ {
			a[t] = j
			db(t+1, t)
		}
	}
	db(1, 1)
	return append(seq, seq[:order-1]...)
}

// ---- parameters, reference call, record comparison ----

type c08cparams struct {
	Fast        bool    `json:"fast"`
	Rel         bool    `json:"rel"`
	Delta       int     `json:"delta"`
	Gap         float64 `json:"gap"`
	Scale       float64 `json:"scale"`
	MinOverlap  int     `json:"min_overlap"`
	MinIdentity float64 `json:"min_identity"`
	NoStats     bool    `json:"no_stats"`
}

func (p c08cparams) String() string {
	return fmt.Sprintf("fast=%v rel=%v delta=%d gap=%g scale=%g minOverlap=%d minIdentity=%g withStats=%v", p.Fast, p.Rel, p.Delta, p.Gap, p.Scale, p.MinOverlap, p.MinIdentity, !p.NoStats)
}

func (p c08cparams) pcase(pr *c08cpair) c08pcase {
	return c08pcase{Kind: "cmd", A: pr.A, B: pr.B, QA: pr.QA, QB: pr.QB, Fast: p.Fast, Rel: p.Rel, Delta: p.Delta, Gap: p.Gap, Scale: p.Scale,
		MinOverlap: p.MinOverlap, MinIdentity: p.MinIdentity, U: pr.U, A0: pr.A0, B0: pr.B0, NoStats: p.NoStats}
}

// the fields of a record the statement talks about
var c08cfieldNames = []string{"mode", "ali_length", "seq_a_single", "seq_b_single", "score"}

type c08crec struct {
	Seq    string
	Qual   string // raw phred values
	Fields map[string]string
	Panic  string
}

func c08ccanon(v any) string {
	switch x := v.(type) {
	case int:
		return strconv.FormatFloat(float64(x), 'g', -1, 64)
	case int64:
		return strconv.FormatFloat(float64(x), 'g', -1, 64)
	case float64:
		return strconv.FormatFloat(x, 'g', -1, 64)
	case string:
		return x
	}
	return fmt.Sprint(v)
}

func c08cfields(annot map[string]any) map[string]string {
	out := map[string]string{}
	for _, f := range c08cfieldNames {
		if v, ok := annot[f]; ok {
			out[f] = c08ccanon(v)
		}
	}
	return out
}

// c08cref: ONE call on fresh everything, inplace=false
func c08cref(pr *c08cpair, p c08cparams) (rec c08crec) {
	defer func() {
		if e := recover(); e != nil {
			rec.Panic = fmt.Sprint(e)
		}
	}()
	shifts := map[int]int{}
	cons := AssemblePESequences(c08pmkseq("x", pr.A, pr.QA), c08pmkseq("x", pr.B, pr.QB), p.Gap, p.Scale, p.Delta, p.MinOverlap, p.MinIdentity,
		!p.NoStats, false, p.Fast, p.Rel, obialign.MakePEAlignArena(len(pr.A), len(pr.B)), &shifts)
	rec.Seq = string(cons.Sequence())
	rec.Qual = string(cons.Qualities())
	rec.Fields = c08cfields(cons.Annotations())
	return
}

// c08cdiff: first field in which got differs from want ("" = same)
func c08cdiff(got, want *c08crec) (field, detail string) {
	if got.Seq != want.Seq {
		return "sequence", fmt.Sprintf("sequence %q, single call %q", got.Seq, want.Seq)
	}
	if got.Qual != want.Qual {
		return "qualities", fmt.Sprintf("qualities %v, single call %v", []byte(got.Qual), []byte(want.Qual))
	}
	for _, f := range c08cfieldNames {
		g, gok := got.Fields[f]
		w, wok := want.Fields[f]
		if gok != wok || g != w {
			return f, fmt.Sprintf("%s=%q (present %v), single call %q (present %v)", f, g, gok, w, wok)
		}
	}
	return "", ""
}

// c08cfieldRank: when several fields differ in one run, the key names the first of this order
func c08cfieldRank(f string) int {
	for i, n := range []string{"mode", "sequence", "qualities", "ali_length", "seq_a_single", "seq_b_single", "score"} {
		if n == f {
			return i
		}
	}
	return 99
}

type c08crefs struct {
	r     *verifkit.Result
	cache map[string]*c08crec
}

// ref returns the single-call record of a pair under the parameters; the first time it also judges that
// single call against the model of part 1
func (x *c08crefs) ref(pr *c08cpair, p c08cparams) *c08crec {
	key := pr.Name + "|" + p.String()
	if rec, ok := x.cache[key]; ok {
		return rec
	}
	pc := p.pcase(pr)
	for _, v := range c08peval(x.r, &pc) {
		x.r.Violate(v.key, v.desc, pc)
	}
	rec := c08cref(pr, p)
	x.cache[key] = &rec
	return &rec
}

// ---- (b) IAssemblePESequencesBatch in process ----

type c08cbatchCase struct {
	Kind      string     `json:"kind"` // "batch"
	Params    c08cparams `json:"params"`
	Order     int        `json:"order"`      // every ordered word of this length of the pair set is a call history
	BatchSize int        `json:"batch_size"` // pairs per batch
	Workers   int        `json:"workers"`    // 0 = argument omitted
}

func c08crunBatch(r *verifkit.Result, refs *c08crefs, set []c08cpair, c c08cbatchCase) {
	idxs := c08cdeBruijnOrder(len(set), c.Order)
	r.Eval(1)
	r.Count("batch_scenarios", 1)
	for _, k := range idxs {
		if max(len(set[k].A), len(set[k].B)) > 150 {
			r.Count("batch_pairs_longer_than_the_arena_submitted", 1)
		}
	}
	desc := fmt.Sprintf("IAssemblePESequencesBatch(%s, workers=%d) on %d pairs (every ordered %d-tuple of %d pairs) in batches of %d", c.Params, c.Workers, len(idxs), c.Order, len(set), c.BatchSize)
	it := obiiter.MakeIBioSequence()
	it.MarkAsPaired()
	it.Add(1)
	go func() {
		it.WaitAndClose()
	}()
	go func() {
		order := 0
		for lo := 0; lo < len(idxs); lo += c.BatchSize {
			hi := min(lo+c.BatchSize, len(idxs))
			sl := make(obiseq.BioSequenceSlice, 0, hi-lo)
			for pos := lo; pos < hi; pos++ {
				pr := &set[idxs[pos]]
				a := c08pmkseq(fmt.Sprintf("r%d", pos), pr.A, pr.QA)
				a.PairTo(c08pmkseq(fmt.Sprintf("r%d", pos), c08crevcomp(pr.B), c08crevq(pr.QB)))
				sl = append(sl, a)
			}
			it.Push(obiiter.MakeBioSequenceBatch("c08", order, sl))
			order++
		}
		it.Done()
	}()
	var out obiiter.IBioSequence
	pmsg := ""
	got := map[int]*c08crec{}
	func() {
		defer func() {
			if e := recover(); e != nil {
				pmsg = fmt.Sprint(e)
			}
		}()
		p := c.Params
		if c.Workers > 0 {
			out = IAssemblePESequencesBatch(it, p.Gap, p.Scale, p.Delta, p.MinOverlap, p.MinIdentity, p.Fast, p.Rel, !p.NoStats, c.Workers)
		} else {
			out = IAssemblePESequencesBatch(it, p.Gap, p.Scale, p.Delta, p.MinOverlap, p.MinIdentity, p.Fast, p.Rel, !p.NoStats)
		}
		for out.Next() {
			b := out.Get()
			for i, s := range b.Slice() {
				pos := b.Order()*c.BatchSize + i
				rec := c08crec{Seq: string(s.Sequence()), Qual: string(s.Qualities()), Fields: c08cfields(s.Annotations())}
				if _, dup := got[pos]; dup || s.Id() != fmt.Sprintf("r%d", pos) {
					r.Violate("IAssemblePESequencesBatch/records-lost-or-duplicated", fmt.Sprintf("%s: batch %d record %d has id %s (duplicate position: %v)", desc, b.Order(), i, s.Id(), dup), c)
					return
				}
				got[pos] = &rec
			}
		}
	}()
	if pmsg != "" {
		// a panic inside a worker goroutine kills the process; this catches panics of the calling goroutine only
		r.Violate("IAssemblePESequencesBatch/panic", desc+": "+pmsg, c)
		return
	}
	if len(got) != len(idxs) {
		r.Violate("IAssemblePESequencesBatch/records-lost-or-duplicated", fmt.Sprintf("%s: %d records out", desc, len(got)), c)
		return
	}
	// compare; a pair whose record is right somewhere and wrong elsewhere depends on what its worker did before
	okSomewhere := map[int]bool{}
	type bad struct {
		pos           int
		field, detail string
	}
	var bads []bad
	for pos, k := range idxs {
		want := refs.ref(&set[k], c.Params)
		r.Trans(1)
		if want.Panic != "" {
			continue // judged by c08peval
		}
		if f, d := c08cdiff(got[pos], want); f != "" {
			bads = append(bads, bad{pos, f, d})
		} else {
			okSomewhere[k] = true
			r.Count("batch_records_equal_to_single_call", 1)
			if max(len(set[k].A), len(set[k].B)) > 150 {
				r.Count("batch_records_longer_than_the_arena", 1)
			}
		}
	}
	// one violation per scenario and class, named after the most significant differing field
	best := map[string]bad{}
	nbad := map[string]int{}
	for _, b := range bads {
		cls := ":every-occurrence-of-the-pair"
		if okSomewhere[idxs[b.pos]] {
			cls = ":depends-on-the-earlier-pairs-of-the-worker"
		}
		nbad[cls]++
		if cur, ok := best[cls]; !ok || c08cfieldRank(b.field) < c08cfieldRank(cur.field) {
			best[cls] = b
		}
	}
	for cls, b := range best {
		k := idxs[b.pos]
		prev := "first of the stream"
		if b.pos > 0 {
			prev = "after " + set[idxs[b.pos-1]].Name
		}
		r.Violate("IAssemblePESequencesBatch/record-differs-from-single-call:"+b.field+cls,
			fmt.Sprintf("%s: %d records differ, e.g. record %d (pair %s, %s): %s", desc, nbad[cls], b.pos, set[k].Name, prev, b.detail), c)
	}
}

// ---- (c) the binary ----

type c08ccliCase struct {
	Kind string   `json:"kind"` // "cli"
	Args []string `json:"args"`
	Tier string   `json:"tier"`
}

// c08cmodel: the parameter values an option list stands for (defaults and meanings as documented by
// `obipairing --help`)
func c08cmodel(args []string) (p c08cparams, names []string) {
	p = c08cparams{Fast: true, Rel: true, Delta: 5, Gap: 2, Scale: 1, MinOverlap: 20, MinIdentity: 0.9}
	for i := 0; i < len(args); i++ {
		a := args[i]
		val := func() string { i++; return args[i] }
		f := func() float64 { v, _ := strconv.ParseFloat(val(), 64); return v }
		n := func() int { v, _ := strconv.Atoi(val()); return v }
		switch a {
		case "--delta", "-D":
			p.Delta = n()
			names = append(names, "--delta")
		case "--min-overlap":
			p.MinOverlap = n()
			names = append(names, a)
		case "--min-identity", "-X":
			p.MinIdentity = f()
			names = append(names, "--min-identity")
		case "--gap-penality", "-G":
			p.Gap = f()
			names = append(names, "--gap-penality")
		case "--penality-scale":
			p.Scale = f()
			names = append(names, a)
		case "--without-stat", "-S":
			p.NoStats = true
			names = append(names, "--without-stat")
		case "--exact-mode":
			p.Fast = false
			names = append(names, a)
		case "--fast-absolute":
			p.Rel = false
			names = append(names, a)
		case "--batch-size", "--max-cpu":
			val() // no meaning for the records
		}
	}
	sort.Strings(names)
	return
}

func c08cwriteFastq(path string, ids []string, seqs []string, quals [][]int) error {
	var b bytes.Buffer
	for i := range ids {
		b.WriteString("@" + ids[i] + "\n" + seqs[i] + "\n+\n")
		for _, q := range quals[i] {
			b.WriteByte(byte(q + 33))
		}
		b.WriteByte('\n')
	}
	return os.WriteFile(path, b.Bytes(), 0o644)
}

// c08cparseFastq: 4-line FASTQ records with a JSON object after the identifier
func c08cparseFastq(data []byte) (map[string]*c08crec, []string, error) {
	out := map[string]*c08crec{}
	var order []string
	lines := strings.Split(strings.TrimRight(string(data), "\n"), "\n")
	if len(lines) == 1 && lines[0] == "" {
		return out, nil, nil
	}
	if len(lines)%4 != 0 {
		return nil, nil, fmt.Errorf("%d lines", len(lines))
	}
	for i := 0; i < len(lines); i += 4 {
		h := lines[i]
		if !strings.HasPrefix(h, "@") || !strings.HasPrefix(lines[i+2], "+") {
			return nil, nil, fmt.Errorf("record at line %d: %q / %q", i+1, h, lines[i+2])
		}
		id, rest, _ := strings.Cut(h[1:], " ")
		annot := map[string]any{}
		if rest = strings.TrimSpace(rest); rest != "" {
			if err := json.Unmarshal([]byte(rest), &annot); err != nil {
				return nil, nil, fmt.Errorf("record %s: annotations %q: %v", id, rest, err)
			}
		}
		q := []byte(lines[i+3])
		for k := range q {
			q[k] -= 33
		}
		if _, dup := out[id]; dup {
			return nil, nil, fmt.Errorf("record %s twice", id)
		}
		out[id] = &c08crec{Seq: lines[i+1], Qual: string(q), Fields: c08cfields(annot)}
		order = append(order, id)
	}
	return out, order, nil
}

func c08croot() string {
	d, err := os.Getwd()
	if err != nil {
		panic(err)
	}
	for {
		if _, err := os.Stat(filepath.Join(d, "go.mod")); err == nil {
			return d
		}
		p := filepath.Dir(d)
		if p == d {
			panic("c08: module root not found")
		}
		d = p
	}
}

type c08ccli struct {
	defaultsDiffer bool // the control run without any option already differs
	r        *verifkit.Result
	refs     *c08crefs
	work     string
	bin      string
	pairs    []*c08cpair // record k of the files
	fwd, rev string
}

func (x *c08ccli) setup(t *testing.T, set, family []c08cpair, order int) {
	work := os.Getenv("VERIF_WORKDIR")
	if work == "" {
		var err error
		if work, err = os.MkdirTemp("", "c08cli"); err != nil {
			t.Fatal(err)
		}
	}
	shard, _ := verifkit.Shard()
	x.work = filepath.Join(work, fmt.Sprintf("cli%d", shard))
	os.RemoveAll(x.work)
	if err := os.MkdirAll(x.work, 0o755); err != nil {
		t.Fatal(err)
	}
	x.bin = filepath.Join(x.work, "obipairing")
	cmd := exec.Command("go", "build", "-o", x.bin, "./cmd/obitools/obipairing")
	cmd.Dir = c08croot()
	if b, err := cmd.CombinedOutput(); err != nil {
		if _, serr := os.Stat(x.bin); serr != nil {
			t.Fatalf("c08: cannot build obipairing from %s: %v\n%s", cmd.Dir, err, b)
		}
	}
	for _, k := range c08cdeBruijnOrder(len(set), order) {
		x.pairs = append(x.pairs, &set[k])
	}
	for i := range family {
		x.pairs = append(x.pairs, &family[i])
	}
	var ids, fs, rs []string
	var fq, rq [][]int
	for i, pr := range x.pairs {
		ids = append(ids, fmt.Sprintf("r%d", i))
		fs, fq = append(fs, pr.A), append(fq, pr.QA)
		rs, rq = append(rs, c08crevcomp(pr.B)), append(rq, c08crevq(pr.QB))
	}
	x.fwd, x.rev = filepath.Join(x.work, "forward.fastq"), filepath.Join(x.work, "reverse.fastq")
	if err := c08cwriteFastq(x.fwd, ids, fs, fq); err != nil {
		t.Fatal(err)
	}
	if err := c08cwriteFastq(x.rev, ids, rs, rq); err != nil {
		t.Fatal(err)
	}
}

// run executes one option set; control = the run without options made first by every shard (not reported,
// unless it is the case itself): when it already differs, every option set is filed under "defaults"
func (x *c08ccli) run(c c08ccliCase, control bool) (differs bool) {
	r := x.r
	p, names := c08cmodel(c.Args)
	cls := strings.Join(names, ",")
	if cls == "" || x.defaultsDiffer {
		cls = "defaults"
	}
	if control {
		r = verifkit.New("C08-control") // counts and violations of the control run are dropped
	}
	out := filepath.Join(x.work, "out.fastq")
	os.Remove(out)
	args := append([]string{"-F", x.fwd, "-R", x.rev, "--no-progressbar", "-o", out}, c.Args...)
	cmd := exec.Command(x.bin, args...)
	var errb bytes.Buffer
	cmd.Stderr = &errb
	cmd.Stdout = io.Discard
	done := make(chan error, 1)
	if err := cmd.Start(); err != nil {
		panic(err)
	}
	go func() { done <- cmd.Wait() }()
	var err error
	select {
	case err = <-done:
	case <-time.After(5 * time.Minute):
		cmd.Process.Kill()
		err = fmt.Errorf("still running after 5 minutes")
	}
	r.Eval(1)
	r.Count("cli_runs", 1)
	differs = true
	desc := fmt.Sprintf("obipairing %s on %d pairs (read as %s)", strings.Join(c.Args, " "), len(x.pairs), p)
	tail := errb.String()
	if len(tail) > 600 {
		tail = tail[len(tail)-600:]
	}
	if err != nil {
		r.Violate("obipairing(cli)/exit-status:"+cls, fmt.Sprintf("%s: %v; stderr: %s", desc, err, tail), c)
		return
	}
	data, rerr := os.ReadFile(out)
	if rerr != nil {
		r.Violate("obipairing(cli)/no-output:"+cls, fmt.Sprintf("%s: %v; stderr: %s", desc, rerr, tail), c)
		return
	}
	got, _, perr := c08cparseFastq(data)
	if perr != nil {
		r.Violate("obipairing(cli)/output-not-fastq-with-json-annotations", fmt.Sprintf("%s: %v", desc, perr), c)
		return
	}
	if len(got) != len(x.pairs) {
		r.Violate("obipairing(cli)/records-lost-or-duplicated:"+cls, fmt.Sprintf("%s: %d records out", desc, len(got)), c)
		return
	}
	nbad, bestField, bestDesc := 0, "", ""
	defer func() {
		if nbad > 0 {
			r.Violate("obipairing(cli)/record-differs-from-single-call:"+bestField+":"+cls, fmt.Sprintf("%s: %d records differ, e.g. %s", desc, nbad, bestDesc), c)
		}
	}()
	differs = false
	for i, pr := range x.pairs {
		rec, ok := got[fmt.Sprintf("r%d", i)]
		if !ok {
			r.Violate("obipairing(cli)/records-lost-or-duplicated:"+cls, fmt.Sprintf("%s: no record r%d", desc, i), c)
			return true
		}
		want := x.refs.ref(pr, p)
		r.Trans(1)
		if want.Panic != "" {
			continue
		}
		if f, d := c08cdiff(rec, want); f != "" {
			differs = true
			nbad++
			if bestField == "" || c08cfieldRank(f) < c08cfieldRank(bestField) {
				bestField, bestDesc = f, fmt.Sprintf("record r%d (pair %s: A=%s B=%s): %s", i, pr.Name, pr.A, pr.B, d)
			}
		} else {
			r.Count("cli_records_equal_to_single_call", 1)
			if rec.Fields["mode"] == "alignment" {
				r.Count("cli_records_alignment", 1)
			} else {
				r.Count("cli_records_join", 1)
			}
		}
	}
	return differs
}

func c08ccliOptionSets(thorough bool) [][]string {
	sets := [][]string{
		{},
		{"--exact-mode"},
		{"--fast-absolute"},
		{"--without-stat"},
		{"--delta", "0"},
		{"-D", "2", "--min-overlap", "4"},
		{"--min-overlap", "1", "--min-identity", "0"},
		{"--min-identity", "1"},
		{"-X", "0.5", "--min-overlap", "8", "--batch-size", "61", "--max-cpu", "3"},
		{"--gap-penality", "0.5", "--penality-scale", "0.5", "--exact-mode"},
		{"-G", "1", "--delta", "2", "--fast-absolute", "--batch-size", "50"},
		{"--penality-scale", "0.5"},
		{"-S", "--exact-mode", "--min-overlap", "3", "--min-identity", "0.75"},
		{"--fast-absolute", "--delta", "9", "--min-overlap", "12", "-X", "0.8", "-G", "3", "--penality-scale", "2", "--batch-size", "500"},
	}
	if thorough {
		sets = append(sets,
			[]string{"--gap-penality", "1"},
			[]string{"--min-overlap", "30"},
			[]string{"--delta", "20"},
			[]string{"--exact-mode", "--fast-absolute"},
			[]string{"-S", "--fast-absolute", "-D", "1"},
			[]string{"--exact-mode", "--without-stat", "--gap-penality", "0.5", "--penality-scale", "2", "--min-overlap", "2", "--min-identity", "0.6", "--delta", "3", "--batch-size", "17"},
		)
	}
	return sets
}

func TestVerifC08CLI(t *testing.T) {
	log.SetOutput(io.Discard)
	log.SetLevel(log.PanicLevel)
	c08pinstallExit()
	r := verifkit.New("C08")
	defer r.Write()
	thorough := verifkit.Thorough()
	set := c08cset()
	family := c08cfamily()
	refs := &c08crefs{r: r, cache: map[string]*c08crec{}}
	cliOrder := 2
	if thorough {
		cliOrder = 3
	}

	if rc := r.ReplayCase(); rc != nil {
		var probe struct {
			Kind string `json:"kind"`
		}
		if err := json.Unmarshal(rc, &probe); err != nil {
			t.Fatal(err)
		}
		switch probe.Kind {
		case "batch":
			var c c08cbatchCase
			json.Unmarshal(rc, &c)
			c08crunBatch(r, refs, set, c)
		case "cli":
			var c c08ccliCase
			json.Unmarshal(rc, &c)
			x := &c08ccli{r: r, refs: refs}
			o := 2
			if c.Tier == "thorough" {
				o = 3
			}
			x.setup(t, set, family, o)
			defer os.RemoveAll(x.work)
			if len(c.Args) > 0 {
				x.defaultsDiffer = x.run(c08ccliCase{Kind: "cli", Tier: c.Tier}, true)
			}
			x.run(c, false)
		default: // a single call judged by the model of part 1
			var c c08pcase
			json.Unmarshal(rc, &c)
			for _, v := range c08peval(r, &c) {
				r.Violate(v.key, v.desc, c)
			}
		}
		return
	}

	names := make([]string, len(set))
	for i := range set {
		names[i] = fmt.Sprintf("%s(%d,%d)", set[i].Name, len(set[i].A), len(set[i].B))
	}
	r.Bound("c_pair_set", names)
	r.Bound("c_family", fmt.Sprintf("%d pairs: every geometry of a 26 base fragment; + one substitution / one deletion in the middle of overlaps >= 8", len(family)))
	k := 0

	// (b) in process
	cfgs := []c08pcfg{{false, false, 0, 2, 1}, {true, true, 5, 2, 1}, {true, true, 0, 2, 1}, {true, false, 5, 2, 1}, {true, false, 2, 2, 1},
		{false, false, 0, 0.5, 0.5}, {true, true, 2, 1, 0.5}}
	thresholds := []struct {
		mo int
		mi float64
	}{{20, 0.9}, {1, 0}, {4, 1}}
	shapes := []struct{ bs, workers int }{{1 << 20, 1}, {97, 2}, {97, 3}, {500, 0}}
	r.Bound("c_batch_scenarios", "exact / fast-rel delta 5, 0 / fast-abs delta 5, 2 at gap 2 scale 1; exact at gap 0.5 scale 0.5; fast-rel delta 2 at gap 1 scale 0.5  x  (min overlap, min identity) (20,0.9) (1,0) (4,1)  x  withStats  x  {one batch, 1 worker; batches of 97, 2 / 3 workers; batches of 500, default workers}; stream = every ordered triple of the pair set")
	for _, cf := range cfgs {
		for _, th := range thresholds {
			for _, noStats := range []bool{false, true} {
				for _, sh := range shapes {
					if r.Mine(k) {
						c08crunBatch(r, refs, set, c08cbatchCase{Kind: "batch", Order: 3, BatchSize: sh.bs, Workers: sh.workers,
							Params: c08cparams{Fast: cf.Fast, Rel: cf.Rel, Delta: cf.Delta, Gap: cf.Gap, Scale: cf.Scale, MinOverlap: th.mo, MinIdentity: th.mi, NoStats: noStats}})
					}
					k++
				}
			}
			if r.Expired() {
				return
			}
		}
	}

	// (c) the binary
	sets := c08ccliOptionSets(thorough)
	r.Bound("c_cli_option_sets", sets)
	r.Bound("c_cli_input", fmt.Sprintf("every ordered %d-tuple of the pair set, then the family", cliOrder))
	var x *c08ccli
	for _, args := range sets {
		if r.Mine(k) {
			if x == nil {
				x = &c08ccli{r: r, refs: refs}
				x.setup(t, set, family, cliOrder)
				defer os.RemoveAll(x.work)
				if len(args) > 0 {
					x.defaultsDiffer = x.run(c08ccliCase{Kind: "cli", Tier: verifkit.Tier()}, true)
				}
			}
			if d := x.run(c08ccliCase{Kind: "cli", Args: args, Tier: verifkit.Tier()}, false); len(args) == 0 {
				x.defaultsDiffer = d
			}
		}
		k++
		if r.Expired() {
			return
		}
	}
	// guards on what the harness did (batch_records_*, cli_records_* count records of the implementation that equal
	// the single call: reported in the evidence, not required)
	r.RequireNonVacuous("batch_scenarios")
	r.RequireNonVacuous("batch_pairs_longer_than_the_arena_submitted")
	r.RequireNonVacuous("cli_runs")
}
