//go:build verif

package obipairing

// C08 (part 1, package obipairing) — AssemblePESequences: the returned record (sequence, qualities,
// mode, ali_length, seq_a_single, seq_b_single) is consistent with the alignment path of
// obialign.PEAlign and with the thresholds; error-free reads are reassembled into their fragment in
// fast mode whenever the true offset strictly maximises the harness's own 4-mer diagonal score.
//
// The path itself (validity, score, optimum) is judged by part 0 in package obialign; cases whose path
// is not well formed are skipped here (counted), they are violations of part 0.

import (
	"encoding/json"
	"fmt"
	"io"
	"strings"
	"testing"

	"git.metabarcoding.org/obitools/obitools4/obitools4/pkg/obialign"
	"git.metabarcoding.org/obitools/obitools4/obitools4/pkg/obiseq"
	"git.metabarcoding.org/obitools/obitools4/obitools4/pkg/verifkit"
	log "github.com/sirupsen/logrus"
)

type c08pcase struct {
	Kind        string  `json:"kind"`
	A           string  `json:"a"`
	B           string  `json:"b"`
	QA          []int   `json:"qa"`
	QB          []int   `json:"qb"`
	Fast        bool    `json:"fast"`
	Rel         bool    `json:"rel"`
	Delta       int     `json:"delta"`
	Gap         float64 `json:"gap"`
	Scale       float64 `json:"scale"`
	MinOverlap  int     `json:"min_overlap"`
	MinIdentity float64 `json:"min_identity"`
	U           string  `json:"u,omitempty"`
	A0          int     `json:"a0,omitempty"`
	B0          int     `json:"b0,omitempty"`
	NoStats     bool    `json:"no_stats,omitempty"` // withStats=false
	Inplace     bool    `json:"inplace,omitempty"`  // inplace=true: the two reads are given up to the callee
}

func c08pbytes(q []int) []byte {
	out := make([]byte, len(q))
	for i, v := range q {
		out[i] = byte(v)
	}
	return out
}

func c08pmkseq(id, s string, q []int) *obiseq.BioSequence {
	return obiseq.NewBioSequenceWithQualities(id, []byte(s), "", c08pbytes(q))
}

func c08pdesc(c *c08pcase) string {
	return fmt.Sprintf("A=%s qA=%v B=%s qB=%v fast=%v rel=%v delta=%d gap=%g scale=%g minOverlap=%d minIdentity=%g withStats=%v inplace=%v",
		c.A, c.QA, c.B, c.QB, c.Fast, c.Rel, c.Delta, c.Gap, c.Scale, c.MinOverlap, c.MinIdentity, !c.NoStats, c.Inplace)
}

func c08pwalk(path []int, la, lb int) bool {
	if len(path)%2 != 0 || len(path) == 0 {
		return false
	}
	ca, cb := 0, 0
	for p := 0; p < len(path); p += 2 {
		in, dg := path[p], path[p+1]
		if dg < 0 {
			return false
		}
		if in < 0 {
			ca -= in
		} else {
			cb += in
		}
		ca += dg
		cb += dg
		if ca > la || cb > lb {
			return false
		}
	}
	return ca == la && cb == lb
}

// columns of the alignment: base of A / base of B (0 = absent) and their qualities
func c08pcolumns(c *c08pcase, path []int) (colA, colB, cqa, cqb []byte) {
	i, j := 0, 0
	for p := 0; p < len(path); p += 2 {
		in, dg := path[p], path[p+1]
		for k := 0; k < -in; k++ {
			colA, colB, cqa, cqb = append(colA, c.A[i]), append(colB, 0), append(cqa, byte(c.QA[i])), append(cqb, 0)
			i++
		}
		for k := 0; k < in; k++ {
			colA, colB, cqa, cqb = append(colA, 0), append(colB, c.B[j]), append(cqa, 0), append(cqb, byte(c.QB[j]))
			j++
		}
		for k := 0; k < dg; k++ {
			colA, colB, cqa, cqb = append(colA, c.A[i]), append(colB, c.B[j]), append(cqa, byte(c.QA[i])), append(cqb, byte(c.QB[j]))
			i++
			j++
		}
	}
	return
}

func c08pisACGT(s string) bool {
	for i := 0; i < len(s); i++ {
		switch s[i] {
		case 'a', 'c', 'g', 't':
		default:
			return false
		}
	}
	return true
}

// own 4-mer diagonal statistics: is d0 (= posA - posB) the STRICT maximiser of the diagonal score
func c08pfourmerStrict(a, b string, rel bool, d0 int) bool {
	la, lb := len(a), len(b)
	cnt := map[int]int{}
	for i := 0; i+4 <= la; i++ {
		for j := 0; j+4 <= lb; j++ {
			if a[i:i+4] == b[j:j+4] {
				cnt[i-j]++
			}
		}
	}
	sc := func(d int) float64 {
		n, ok := cnt[d]
		if !ok {
			return -1
		}
		if !rel {
			return float64(n)
		}
		lo, hi := d, d+lb
		if lo < 0 {
			lo = 0
		}
		if hi > la {
			hi = la
		}
		return float64(n) / float64(hi-lo-3)
	}
	s0 := sc(d0)
	if s0 <= 0 {
		return false
	}
	for d := range cnt {
		if d != d0 && sc(d) >= s0 {
			return false
		}
	}
	return true
}

// IUPAC set of a symbol (to compare consensus symbols whatever their case / u vs t)
func c08pset(b byte) int {
	switch b | 32 {
	case 'a':
		return 1
	case 'c':
		return 2
	case 'g':
		return 4
	case 't', 'u':
		return 8
	case 'r':
		return 5
	case 'y':
		return 10
	case 'n':
		return 15
	case 'm':
		return 3
	case 'k':
		return 12
	case 's':
		return 6
	case 'w':
		return 9
	case 'b':
		return 14
	case 'd':
		return 13
	case 'h':
		return 11
	case 'v':
		return 7
	}
	return 0
}

type c08pviol struct{ key, desc string }

func c08pint(annot obiseq.Annotation, key string) (int, bool) {
	v, ok := annot[key]
	if !ok {
		return 0, false
	}
	switch x := v.(type) {
	case int:
		return x, true
	case int64:
		return int(x), true
	case float64:
		return int(x), true
	}
	return 0, false
}

func c08peval(r *verifkit.Result, c *c08pcase) (out []c08pviol) {
	ovf := c08poverflowClass(c)
	add := func(key, format string, a ...any) {
		if ovf {
			// same defect, same key as in part 0: every sum through a column of two differing
			// quality-0 bases wraps around (mismatch table entry not finite)
			format = "[" + key + "] " + format
			key = "PEAlign/score-overflow:two-quality-0-bases-mismatch"
		}
		out = append(out, c08pviol{key, c08pdesc(c) + " :: " + fmt.Sprintf(format, a...)})
	}
	la, lb := len(c.A), len(c.B)
	mode := "exact"
	if c.Fast {
		mode = "fast"
	}
	r.Eval(1)
	// what is submitted (vacuity guards: counted whatever the implementation answers)
	r.Count("cases_submitted", 1)
	if c.NoStats {
		r.Count("cases_submitted_without_stats", 1)
	}
	if c.Inplace {
		r.Count("cases_submitted_inplace", 1)
	}
	if c.MinIdentity > 0 && c.MinIdentity < 1 {
		r.Count("cases_submitted_with_fractional_min_identity", 1)
	}
	if c.U != "" {
		r.Count("cases_submitted_error_free_fragment_"+mode, 1)
	}
	// reading the record that AssemblePESequences returned (nil record, accessors that panic or call log.Fatal) is
	// part of the behaviour under test: a verdict, not the end of the shard
	defer func() {
		if e := recover(); e != nil {
			add("AssemblePESequences/"+mode+"/panic-while-reading-the-result", "the returned record cannot be read: %v", e)
		}
	}()
	// 1. the path AssemblePESequences will work on (PEAlign is a function of its arguments; part 0 checks that)
	var path []int
	var isLeft bool
	var alignScore int
	panicked := false
	func() {
		defer func() {
			if e := recover(); e != nil {
				panicked = true
			}
		}()
		shifts := map[int]int{}
		l, sc, p, _, _, _ := obialign.PEAlign(c08pmkseq("A", c.A, c.QA), c08pmkseq("B", c.B, c.QB), c.Gap, c.Scale, c.Fast, c.Delta, c.Rel,
			obialign.MakePEAlignArena(la, lb), &shifts)
		isLeft, alignScore = l, sc
		path = append([]int(nil), p...)
	}()
	if panicked {
		r.Count("skipped_pealign_panics(part0)", 1)
		return
	}
	if !c08pwalk(path, la, lb) {
		r.Count("skipped_invalid_path(part0)", 1)
		return
	}
	// 2. the real thing
	sa, sb := c08pmkseq("A", c.A, c.QA), c08pmkseq("B", c.B, c.QB)
	var cons *obiseq.BioSequence
	var pmsg string
	func() {
		defer func() {
			if e := recover(); e != nil {
				pmsg = fmt.Sprint(e)
			}
		}()
		shifts := map[int]int{}
		cons = AssemblePESequences(sa, sb, c.Gap, c.Scale, c.Delta, c.MinOverlap, c.MinIdentity, !c.NoStats, c.Inplace, c.Fast, c.Rel,
			obialign.MakePEAlignArena(la, lb), &shifts)
	}()
	r.Trans(1)
	if pmsg != "" {
		add("AssemblePESequences/"+mode+"/panic", "panics on valid path %v: %s", path, pmsg)
		return
	}
	if cons == nil {
		add("AssemblePESequences/"+mode+"/nil-result", "returns no record (valid path %v)", path)
		return
	}
	r.Count("assembled", 1)
	if c.NoStats {
		r.Count("assembled_without_stats", 1)
	}
	if c.Inplace {
		r.Count("assembled_inplace", 1)
	}
	seq := string(cons.Sequence())
	qual := cons.Qualities()
	annot := cons.Annotations()
	gotMode, _ := annot["mode"].(string)

	colA, colB, cqa, cqb := c08pcolumns(c, path)
	ncol := len(colA)
	// leading / trailing overhang: maximal run of columns holding the same single read
	lead, trail := 0, 0
	for lead < ncol && (colA[lead] == 0) != (colB[lead] == 0) && (colA[lead] == 0) == (colA[0] == 0) {
		lead++
	}
	for trail < ncol-lead && (colA[ncol-1-trail] == 0) != (colB[ncol-1-trail] == 0) && (colA[ncol-1-trail] == 0) == (colA[ncol-1] == 0) {
		trail++
	}
	aSingle, bSingle := 0, 0
	for k := 0; k < ncol; k++ {
		if k < lead || k >= ncol-trail {
			if colB[k] == 0 {
				aSingle++
			} else {
				bSingle++
			}
		}
	}
	ali := ncol - lead - trail
	geom := fmt.Sprintf("path %v isLeft=%v: %d columns = %d leading + %d aligned + %d trailing; %d A-only, %d B-only overhang columns", path, isLeft, ncol, lead, ali, trail, aSingle, bSingle)

	gotAli, okAli := c08pint(annot, "ali_length")
	if !okAli {
		if !c.NoStats { // without statistics the statement demands no annotation but mode
			add("AssemblePESequences/ali_length-missing", "no integer ali_length annotation (%v)", annot)
		}
	} else if gotAli != ali {
		add("AssemblePESequences/"+mode+"/ali_length", "ali_length=%d, %s", gotAli, geom)
	}

	// the score annotation is the score of the alignment the record was built from
	if gotScore, okScore := c08pint(annot, "score"); okScore {
		r.Count("score_annotations_compared", 1)
		if gotScore != alignScore {
			add("AssemblePESequences/"+mode+"/score-annotation", "score=%d but PEAlign reports %d for the same arguments; %s", gotScore, alignScore, geom)
		}
	} else if !c.NoStats {
		add("AssemblePESequences/score-missing", "no integer score annotation (%v)", annot)
	}

	// expected mode from the thresholds, when the statement leaves no doubt
	region := true // every aligned column holds two identical plain bases with non-zero qualities
	differs := false
	unclear := false
	paired, same, unclearN := 0, 0, 0 // columns holding two bases; of which surely identical; of which open
	for k := lead; k < ncol-trail; k++ {
		switch {
		case colA[k] == 0 || colB[k] == 0:
			region, differs = false, true
		case !c08pisACGT(string([]byte{colA[k], colB[k]})) || cqa[k] == 0 || cqb[k] == 0:
			unclear = true
			paired++
			unclearN++
		case colA[k] != colB[k]:
			region, differs = false, true
			paired++
		default:
			paired++
			same++
		}
	}
	wantMode := ""
	switch {
	case ali < c.MinOverlap:
		wantMode = "join"
	case c.MinIdentity <= 0:
		wantMode = "alignment"
	case ali == 0:
		wantMode = ""
	case c.MinIdentity >= 1:
		switch {
		case unclear:
		case differs:
			wantMode = "join"
		case region:
			wantMode = "alignment"
		}
	default:
		// fractional threshold: the statement does not say whether inner gap columns count in the
		// denominator nor how IUPAC / quality-0 columns count: the mode is demanded only when the lowest
		// reading (gaps counted, open columns as mismatches) and the highest reading (gaps not counted,
		// open columns as matches) of the identity fall on the same side of the threshold
		idMin := float64(same) / float64(ali)
		idMax := 0.0
		if paired > 0 {
			idMax = float64(same+unclearN) / float64(paired)
		}
		switch {
		case idMin >= c.MinIdentity:
			wantMode = "alignment"
			r.Count("mode_decided_by_fractional_identity", 1)
			if idMin == c.MinIdentity {
				r.Count("mode_decided_identity_equal_to_threshold", 1)
			}
		case idMax < c.MinIdentity:
			wantMode = "join"
			r.Count("mode_decided_by_fractional_identity", 1)
		}
	}
	if gotMode != "alignment" && gotMode != "join" {
		add("AssemblePESequences/mode-missing", "mode annotation is %v", annot["mode"])
		return
	}
	if wantMode != "" {
		r.Count("mode_decided_"+wantMode, 1)
		if gotMode != wantMode {
			add("AssemblePESequences/"+mode+"/mode-vs-thresholds", "mode=%s but %d aligned columns (min overlap %d), identical=%v (min identity %g); %s",
				gotMode, ali, c.MinOverlap, region, c.MinIdentity, geom)
		}
	}

	if gotMode == "join" {
		want := c.A + ".........." + c.B
		wq := append(append(append([]byte{}, c08pbytes(c.QA)...), make([]byte, 10)...), c08pbytes(c.QB)...)
		if seq != want || string(qual) != string(wq) {
			add("AssemblePESequences/"+mode+"/join-record", "mode=join but sequence %q qualities %v (want %q %v)", seq, []byte(qual), want, wq)
		}
		r.Count("join_records", 1)
	} else {
		r.Count("alignment_records", 1)
		if len(seq) != ncol || len(qual) != ncol {
			add("AssemblePESequences/"+mode+"/consensus-column-count", "%d bases and %d qualities; %s", len(seq), len(qual), geom)
		} else {
			for k := 0; k < ncol; k++ {
				got := seq[k]
				switch {
				case colA[k] != 0 && colB[k] != 0:
					if cqa[k] > cqb[k] && got != colA[k] || cqb[k] > cqa[k] && got != colB[k] {
						add("AssemblePESequences/"+mode+"/higher-quality-base-loses", "column %d: A=%c q%d, B=%c q%d, consensus %c (%s, sequence %s)",
							k, colA[k], cqa[k], colB[k], cqb[k], got, geom, seq)
					}
				default:
					only := colA[k] | colB[k]
					if c08pset(got) != c08pset(only) {
						add("AssemblePESequences/"+mode+"/single-read-column-base", "column %d holds only %c but the sequence has %q (%s, sequence %q)", k, only, got, geom, seq)
					}
				}
			}
			gotA, okA := c08pint(annot, "seq_a_single")
			gotB, okB := c08pint(annot, "seq_b_single")
			if !okA || !okB {
				if !c.NoStats {
					add("AssemblePESequences/seq_single-missing", "seq_a_single / seq_b_single missing (%v)", annot)
				}
			} else {
				if okAli && gotA+gotB+gotAli != len(seq) {
					add("AssemblePESequences/"+mode+"/single+ali!=length", "seq_a_single=%d seq_b_single=%d ali_length=%d, sequence length %d; %s", gotA, gotB, gotAli, len(seq), geom)
				}
				if gotA != aSingle || gotB != bSingle {
					cls := "seq_single-attribution"
					if aSingle*bSingle == 0 && lead > 0 && trail > 0 {
						cls += ":both-overhangs-of-one-read"
					}
					add("AssemblePESequences/"+mode+"/"+cls, "seq_a_single=%d seq_b_single=%d; %s", gotA, gotB, geom)
				}
			}
		}
	}

	// reassembly of error-free reads (same conditions as part 0: the true alignment is the unique
	// optimum of the harness's own DP; fast mode: and its offset strictly maximises the 4-mer score)
	if c.U != "" && c08pisACGT(c.U) {
		d0 := c.B0 - c.A0
		ovl := min(c.A0+la, c.B0+lb) - max(c.A0, c.B0)
		leftGeom := c.A0 == 0 && c.B0+lb == len(c.U)
		rightGeom := c.B0 == 0 && c.A0+la == len(c.U)
		if ovl >= 1 && ovl >= c.MinOverlap && (leftGeom || rightGeom) && (!c.Fast || c08pfourmerStrict(c.A, c.B, c.Rel, d0)) {
			noq0 := true
			for _, q := range append(append([]int{}, c.QA...), c.QB...) {
				if q == 0 {
					noq0 = false
				}
			}
			if (noq0 || c.MinIdentity <= 0) && c08punique(c, d0) {
				r.Count("reassembly_demanded_"+mode, 1)
				if gotMode != "alignment" || seq != c.U {
					g := ":A-starts-first"
					if d0 < 0 {
						g = ":B-starts-first"
					} else if d0 == 0 {
						g = ":identical-starts"
					}
					add("AssemblePESequences/"+mode+"/reassembly"+g, "error-free reads cut from %s (A at %d, B at %d, overlap %d) give mode=%s sequence %s (%s)",
						c.U, c.A0, c.B0, ovl, gotMode, seq, geom)
				}
			}
		}
	}
	return
}

// ---- independent DP on the package's scoring tables (read through the verif hook of obialign) ----

func c08pclamp(v int) int {
	if v < -(1 << 40) {
		return -(1 << 40)
	}
	if v > 1<<40 {
		return 1 << 40
	}
	return v
}

// c08poverflowClass: the pair can put two differing bases in one column whose mismatch table entry
// is not a finite score (NaN converted to int): the implementation's sums wrap around.
func c08poverflowClass(c *c08pcase) bool {
	_, mst, pmt := obialign.VerifC08Tables()
	for i, qa := range c.QA {
		for j, qb := range c.QB {
			v := mst[qa][qb]
			if (v < -(1<<40) || v > 1<<40) && int(pmt[c.A[i]&31][c.B[j]&31]*100) != 100 {
				return true
			}
		}
	}
	return false
}

func c08ppair(a, qa, b, qb byte, scale float64) int {
	mt, mst, pmt := obialign.VerifC08Tables()
	pm := pmt[a&31][b&31]
	mm := c08pclamp(mt[qa][qb])
	mis := c08pclamp(mst[qa][qb])
	switch int(pm * 100) {
	case 100:
		return mm
	case 0:
		return int(float64(mis)*scale + 0.5)
	}
	return int(pm*float64(mm) + (1-pm)*float64(mis)*scale + 0.5)
}

func c08pgap(gap, scale float64) int {
	_, mst, _ := obialign.VerifC08Tables()
	return int(scale*gap*float64(mst[40][40]) + 0.5)
}

// optimum and number of optimal alignments under the left / right end-gap-free scheme
func c08pdp(c *c08pcase, isLeft bool) (int, int) {
	la, lb := len(c.A), len(c.B)
	gp := c08pgap(c.Gap, c.Scale)
	const neg = -1 << 60
	S := make([][]int, la+1)
	N := make([][]int, la+1)
	for i := range S {
		S[i] = make([]int, lb+1)
		N[i] = make([]int, lb+1)
		for j := range S[i] {
			S[i][j] = neg
		}
	}
	S[0][0], N[0][0] = 0, 1
	upd := func(i, j, v, n int) {
		if v > S[i][j] {
			S[i][j], N[i][j] = v, n
		} else if v == S[i][j] {
			N[i][j] = min(N[i][j]+n, 1000000)
		}
	}
	for i := 0; i <= la; i++ {
		for j := 0; j <= lb; j++ {
			if S[i][j] == neg {
				continue
			}
			v, n := S[i][j], N[i][j]
			if i < la {
				cost := gp
				if (isLeft && j == 0) || (!isLeft && j == lb) {
					cost = 0
				}
				upd(i+1, j, v+cost, n)
			}
			if j < lb {
				cost := gp
				if (isLeft && i == la) || (!isLeft && i == 0) {
					cost = 0
				}
				upd(i, j+1, v+cost, n)
			}
			if i < la && j < lb {
				upd(i+1, j+1, v+c08ppair(c.A[i], byte(c.QA[i]), c.B[j], byte(c.QB[j]), c.Scale), n)
			}
		}
	}
	return S[la][lb], N[la][lb]
}

// score of the gap-free alignment putting B at offset d0 of A, under one scheme
func c08ptrueScore(c *c08pcase, d0 int, isLeft bool) int {
	la, lb := len(c.A), len(c.B)
	gp := c08pgap(c.Gap, c.Scale)
	i, j, s := 0, 0, 0
	if d0 > 0 { // A-only columns first: free in the left scheme
		if !isLeft {
			s += d0 * gp
		}
		i = d0
	} else if d0 < 0 { // B-only columns first: free in the right scheme
		if isLeft {
			s += -d0 * gp
		}
		j = -d0
	}
	for i < la && j < lb {
		s += c08ppair(c.A[i], byte(c.QA[i]), c.B[j], byte(c.QB[j]), c.Scale)
		i++
		j++
	}
	if i < la && isLeft { // A-only tail: free in the right scheme
		s += (la - i) * gp
	}
	if j < lb && !isLeft { // B-only tail: free in the left scheme
		s += (lb - j) * gp
	}
	return s
}

// is the true alignment THE unique optimum over both schemes
func c08punique(c *c08pcase, d0 int) bool {
	optL, cntL := c08pdp(c, true)
	optR, cntR := c08pdp(c, false)
	opt := max(optL, optR)
	if optL == opt && (c08ptrueScore(c, d0, true) != opt || cntL != 1) {
		return false
	}
	if optR == opt && (c08ptrueScore(c, d0, false) != opt || cntR != 1) {
		return false
	}
	return true
}

func c08pquals(pat string, n int, isB bool) []int {
	q := make([]int, n)
	for i := range q {
		switch pat {
		case "u40":
			q[i] = 40
		case "alt":
			if (i%2 == 0) != isB {
				q[i] = 10
			} else {
				q[i] = 40
			}
		case "ramp":
			if !isB {
				q[i] = 38 - (i*30)/max(n-1, 1)
			} else {
				q[i] = 8 + (i*30)/max(n-1, 1)
			}
		case "zero":
			q[i] = 30
			if (!isB && i == 0) || (isB && i == n-1) {
				q[i] = 0
			}
		}
	}
	return q
}

func c08pdeBruijn() string {
	k, n := 4, 4
	a := make([]int, k*n)
	var seq []int
	var db func(t, p int)
	db = func(t, p int) {
		if t > n {
			if n%p == 0 {
				seq = append(seq, a[1:p+1]...)
			}
			return
		}
		a[t] = a[t-p]
		db(t+1, p)
		for j := a[t-p] + 1; j < k; j++ {
			a[t] = j
			db(t+1, t)
		}
	}
	db(1, 1)
	var sb strings.Builder
	for _, v := range seq {
		sb.WriteByte("acgt"[v])
	}
	return sb.String()
}

func c08psubst(s string, p int) string {
	b := []byte(s)
	switch b[p] {
	case 'a':
		b[p] = 'c'
	case 'c':
		b[p] = 'g'
	case 'g':
		b[p] = 't'
	default:
		b[p] = 'a'
	}
	return string(b)
}

// c08pinstallExit: a logrus Fatal on the calling goroutine unwinds like a panic (and is judged as one by the guards
// around the calls) instead of ending the process.
func c08pinstallExit() {
	log.StandardLogger().ExitFunc = func(code int) { panic(fmt.Sprintf("log.Fatal (exit status %d)", code)) }
}

type c08pcfg struct {
	Fast, Rel bool
	Delta     int
	Gap       float64
	Scale     float64
}

func TestVerifC08P(t *testing.T) {
	log.SetOutput(io.Discard)
	log.SetLevel(log.PanicLevel)
	c08pinstallExit()
	r := verifkit.New("C08")
	defer r.Write()

	run := func(c c08pcase) {
		for _, v := range c08peval(r, &c) {
			r.Violate(v.key, v.desc, c)
		}
	}
	if rc := r.ReplayCase(); rc != nil {
		var c c08pcase
		if err := json.Unmarshal(rc, &c); err != nil {
			t.Fatal(err)
		}
		run(c)
		return
	}
	thorough := verifkit.Thorough()
	cfgs := []c08pcfg{{false, false, 0, 2, 1}, {true, true, 0, 2, 1}, {true, true, 2, 2, 1}, {true, false, 0, 2, 1}, {true, false, 2, 2, 1},
		{false, false, 0, 1, 0.5}, {true, true, 2, 1, 0.5}}
	r.Bound("p_configs", "exact, fast{rel,abs} x delta{0,2} at gap 2 scale 1; exact and fast-rel-delta2 at gap 1 scale 0.5")
	k := 0
	// withStats=false and/or inplace=true (everything else runs with withStats=true, inplace=false)
	flagSets := [][2]bool{{true, false}, {false, true}, {true, true}}
	r.Bound("p_flags", "withStats=false / inplace=true / both: every read pair and configuration at one threshold setting (min overlap 1, min identity 0.5 in i; 4, 0.9 in ii)")

	// (i) all short pairs
	lmax := 3
	if thorough {
		lmax = 4
	}
	r.Bound("p_i_lengths", fmt.Sprintf("acgt, 1..%d x 1..%d; min overlap {1,3} x min identity {0,0.5,1}", lmax, lmax))
	reads := verifkit.AllStrings("acgt", 1, lmax)
	for _, a := range reads {
		for _, b := range reads {
			if !r.Mine(k) {
				k++
				continue
			}
			k++
			r.State("pair:" + a + "|" + b)
			for _, pat := range []string{"u40", "alt"} {
				qa, qb := c08pquals(pat, len(a), false), c08pquals(pat, len(b), true)
				for _, cf := range cfgs {
					for _, mo := range []int{1, 3} {
						for _, mi := range []float64{0, 0.5, 1} {
							run(c08pcase{Kind: "pair", A: a, B: b, QA: qa, QB: qb, Fast: cf.Fast, Rel: cf.Rel, Delta: cf.Delta, Gap: cf.Gap, Scale: cf.Scale,
								MinOverlap: mo, MinIdentity: mi})
						}
					}
					for _, fl := range flagSets {
						run(c08pcase{Kind: "pair", A: a, B: b, QA: qa, QB: qb, Fast: cf.Fast, Rel: cf.Rel, Delta: cf.Delta, Gap: cf.Gap, Scale: cf.Scale,
							MinOverlap: 1, MinIdentity: 0.5, NoStats: fl[0], Inplace: fl[1]})
					}
				}
			}
		}
		if r.Expired() {
			return
		}
	}

	// (ii) all overlap geometries
	db := c08pdeBruijn()
	srcs := []string{db[100:140], "gattacctgattacaaaagcatgcgattacgt"}
	lmin, lmaxU := 8, 12
	if thorough {
		lmaxU = 22
	}
	r.Bound("p_ii_sources", srcs)
	r.Bound("p_ii_fragment_lengths", fmt.Sprintf("%d..%d; min overlap {1,4,8} x min identity {0,0.5,0.9,1}", lmin, lmaxU))
	pats := []string{"u40", "alt"}
	if thorough {
		pats = []string{"u40", "alt", "ramp", "zero"}
	}
	r.Bound("p_ii_quality_patterns", pats)
	for _, src := range srcs {
		for L := lmin; L <= lmaxU; L++ {
			u := src[:L]
			type geo struct{ a0, la, b0, lb int }
			var geos []geo
			for la := 1; la <= L; la++ {
				if la < L {
					for b0 := 0; b0 <= la; b0++ {
						geos = append(geos, geo{0, la, b0, L - b0})
					}
				} else {
					for b0 := 0; b0 < L; b0++ {
						for lb := 1; lb <= L-b0; lb++ {
							geos = append(geos, geo{0, la, b0, lb})
						}
					}
				}
			}
			for lb := 1; lb <= L; lb++ {
				if lb < L {
					for a0 := 1; a0 <= lb; a0++ {
						geos = append(geos, geo{a0, L - a0, 0, lb})
					}
				} else {
					for a0 := 1; a0 < L; a0++ {
						for la := 1; la <= L-a0; la++ {
							geos = append(geos, geo{a0, la, 0, lb})
						}
					}
				}
			}
			for _, g := range geos {
				if !r.Mine(k) {
					k++
					continue
				}
				k++
				a, b := u[g.a0:g.a0+g.la], u[g.b0:g.b0+g.lb]
				r.State(fmt.Sprintf("geom:%s:%d:%d:%d:%d", u, g.a0, g.la, g.b0, g.lb))
				r.Count("geometries", 1)
				nvar := 1 + g.la + g.lb
				for v := 0; v < nvar; v++ {
					va, vb, vu := a, b, u
					if v >= 1 {
						vu = ""
						if p := v - 1; p < g.la {
							va = c08psubst(a, p)
						} else {
							vb = c08psubst(b, p-g.la)
						}
					}
					vp := pats
					if v >= 1 {
						vp = pats[:2]
						if !thorough {
							vp = pats[1:2]
						}
					}
					for _, pat := range vp {
						qa, qb := c08pquals(pat, len(va), false), c08pquals(pat, len(vb), true)
						for _, cf := range cfgs {
							for _, mo := range []int{1, 4, 8} {
								for _, mi := range []float64{0, 0.5, 0.9, 1} {
									run(c08pcase{Kind: "geom", A: va, B: vb, QA: qa, QB: qb, Fast: cf.Fast, Rel: cf.Rel, Delta: cf.Delta, Gap: cf.Gap, Scale: cf.Scale,
										MinOverlap: mo, MinIdentity: mi, U: vu, A0: g.a0, B0: g.b0})
								}
							}
							for _, fl := range flagSets {
								run(c08pcase{Kind: "geom", A: va, B: vb, QA: qa, QB: qb, Fast: cf.Fast, Rel: cf.Rel, Delta: cf.Delta, Gap: cf.Gap, Scale: cf.Scale,
									MinOverlap: 4, MinIdentity: 0.9, U: vu, A0: g.a0, B0: g.b0, NoStats: fl[0], Inplace: fl[1]})
							}
						}
					}
				}
				if r.Expired() {
					return
				}
			}
		}
	}
	// guards on what the harness submitted.  The counters that need answers of the implementation (assembled*,
	// alignment_records, join_records, mode_decided_*, reassembly_demanded_*, score_annotations_compared) are reported in
	// the evidence, not required.
	r.RequireNonVacuous("cases_submitted")
	r.RequireNonVacuous("cases_submitted_without_stats")
	r.RequireNonVacuous("cases_submitted_inplace")
	r.RequireNonVacuous("cases_submitted_with_fractional_min_identity")
	r.RequireNonVacuous("cases_submitted_error_free_fragment_exact")
	r.RequireNonVacuous("cases_submitted_error_free_fragment_fast")
}
