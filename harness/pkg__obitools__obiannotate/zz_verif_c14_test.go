//go:build verif

package obiannotate

// C14, part 4 — the taxonomy annotations of obiannotate as the command builds them:
//
//	obiannotate -t DIR [--with-taxon-at-rank RANK]... [--taxonomic-path] [--taxonomic-rank] [--scientific-name]
//	            [--add-lca-in SLOT [--lca-error 0]]  [-r TAXID | --ignore-taxon TAXID | -v -r TAXID | --require-rank RANK]
//
// For EVERY rooted labelled tree with n <= 4 nodes (thorough: n <= 5), written as a synthetic NCBI dump and
// loaded by the command's own loader (obigrep.CLILoadSelectedTaxonomy), the command line is parsed by the
// real option parser (obiannotate.OptionSet = obiconvert + obigrep selection + annotation options) for
//
//	block A1: every --with-taxon-at-rank list of the enumerated family (0, 1, 2 ranks in every order, 3 ranks in
//	          three rotations, two lists of 4 and 5, one list naming a rank twice; the rank alphabet is
//	          {species, genus, family, no rank} + one rank absent from the taxonomy) x every --add-lca-in slot
//	          of {none, lca, lca_taxid, taxid, best};
//	block A2: every combination of --taxonomic-path / --taxonomic-rank / --scientific-name x every slot x three
//	          --with-taxon-at-rank lists (none, one, two);
//	block B : every selection of {-r X, --ignore-taxon X, -v -r X : X a taxid or a merged-id alias} and
//	          {--require-rank R : R a rank of the taxonomy} x four sets of annotation options.
//
// Each command line is run twice on a sequence of every taxid / alias (the unknown taxid where the command
// is constrained on it; merged_taxid maps over every pair of taxids+aliases and one triple when an LCA is
// asked): (1) the selection predicate (obigrep.CLISequenceSelectionPredicate) and the annotation worker
// (CLIAnnotationWorker) called in this goroutine, so that a panic / log.Fatal is caught and keyed; (2) the
// real CLIAnnotationPipeline() on a hand-fed iterator. Oracle: ancestor sets computed from the parent array:
//
//	selected sequences carry, for every requested rank, the taxid and name of an ancestor-or-self of that
//	rank (or an annotation that designates no taxon when there is none), the path taxon -> root (either
//	direction) with the taxids, names and ranks of the tree, the rank and the scientific name of their taxon,
//	the LCA of the taxids of merged_taxid (their own taxon without it) in the slot;
//	sequences that are not selected are not annotated (dropping them or passing them on is not constrained).

import (
	"encoding/json"
	"fmt"
	"io"
	"os"
	"path/filepath"
	"runtime"
	"runtime/debug"
	"sort"
	"strconv"
	"strings"
	"sync/atomic"
	"testing"
	"time"

	"git.metabarcoding.org/obitools/obitools4/obitools4/pkg/obiiter"
	"git.metabarcoding.org/obitools/obitools4/obitools4/pkg/obiseq"
	"git.metabarcoding.org/obitools/obitools4/obitools4/pkg/obitools/obigrep"
	"git.metabarcoding.org/obitools/obitools4/obitools4/pkg/verifkit"
	"github.com/DavidGamba/go-getoptions"
	log "github.com/sirupsen/logrus"
)

type c14anSel struct {
	Kind  string `json:"kind"` // "", "r" (-r X), "i" (--ignore-taxon X), "vr" (-v -r X), "k" (--require-rank R)
	Taxid int    `json:"taxid"`
	Rank  string `json:"rank"`
}

type c14anCase struct {
	Scheme  int      `json:"scheme"`
	Parent  []int    `json:"parent"`
	Ranks   []string `json:"ranks"`
	AtRank  []string `json:"at_rank"`
	Path    bool     `json:"path"`
	Rank    bool     `json:"rank"`
	SciName bool     `json:"sciname"`
	LCASlot string   `json:"lca_slot"`
	LCAErr  bool     `json:"lca_error_0"` // --lca-error 0 given explicitly
	Sel     c14anSel `json:"sel"`
}

type c14anFatal struct{}

var c14anSelNames = map[string]string{"": "no-selection", "r": "-r", "i": "--ignore-taxon", "vr": "-v+-r", "k": "--require-rank"}

var c14anRanks = []string{"species", "genus", "family", "no rank"}

const c14anAbsentRank = "order"

// ---------------------------------------------------------------------------------------------
// reference model: nothing but the parent array

type c14anModel struct {
	n       int
	parent  []int
	ranks   []string
	ids     []int
	alias   []int
	unknown int
	names   []string
	anc     [][]int
	isAnc   [][]bool
	nodeOf  map[int]int
}

func c14anNewModel(scheme int, parent []int, ranks []string) *c14anModel {
	n := len(parent)
	m := &c14anModel{n: n, parent: parent, ranks: ranks, nodeOf: map[int]int{}}
	m.ids = make([]int, n)
	m.alias = make([]int, n)
	m.names = make([]string, n)
	for i := 0; i < n; i++ {
		if scheme == 0 {
			m.ids[i], m.alias[i], m.unknown = i+1, 10000+i, 9999
		} else {
			m.ids[i], m.alias[i], m.unknown = 100000-37*i, i+1, 50000
		}
		m.names[i] = fmt.Sprintf("Taxon %d", m.ids[i])
		m.nodeOf[m.ids[i]] = i
		m.nodeOf[m.alias[i]] = i
	}
	m.anc = make([][]int, n)
	m.isAnc = make([][]bool, n)
	for i := 0; i < n; i++ {
		m.isAnc[i] = make([]bool, n)
		x := i
		for {
			m.anc[i] = append(m.anc[i], x)
			m.isAnc[i][x] = true
			if parent[x] == x {
				break
			}
			x = parent[x]
		}
	}
	return m
}

func (m *c14anModel) lca(a, b int) int {
	for _, x := range m.anc[a] {
		if m.isAnc[b][x] {
			return x
		}
	}
	panic("c14an harness: not a tree")
}

func (m *c14anModel) atRank(a int, rank string) []int {
	var out []int
	for _, x := range m.anc[a] {
		if m.ranks[x] == rank {
			out = append(out, x)
		}
	}
	return out
}

func (m *c14anModel) inClade(taxid, clade int) bool {
	a, ok1 := m.nodeOf[taxid]
	b, ok2 := m.nodeOf[clade]
	return ok1 && ok2 && m.isAnc[a][b]
}

func c14anWriteDump(m *c14anModel, dir string) error {
	var nodes, names, merged strings.Builder
	for i := 0; i < m.n; i++ {
		fmt.Fprintf(&nodes, "%d\t|\t%d\t|\t%s\t|\t\t|\t8\t|\t0\t|\t1\t|\t0\t|\t0\t|\t0\t|\t0\t|\t0\t|\t\t|\n",
			m.ids[i], m.ids[m.parent[i]], m.ranks[i])
		fmt.Fprintf(&names, "%d\t|\tsyn %d\t|\t\t|\tsynonym\t|\n", m.ids[i], m.ids[i])
		fmt.Fprintf(&names, "%d\t|\t%s\t|\t\t|\tscientific name\t|\n", m.ids[i], m.names[i])
		fmt.Fprintf(&merged, "%d\t|\t%d\t|\n", m.alias[i], m.ids[i])
	}
	for fn, s := range map[string]string{"nodes.dmp": nodes.String(), "names.dmp": names.String(), "merged.dmp": merged.String()} {
		if err := os.WriteFile(filepath.Join(dir, fn), []byte(s), 0o644); err != nil {
			return err
		}
	}
	return nil
}

func c14anTrees(n int, f func(parent []int)) {
	p := make([]int, n)
	var rec func(i, root int)
	valid := func(root int) bool {
		for i := 0; i < n; i++ {
			x, steps := i, 0
			for x != root {
				x = p[x]
				steps++
				if steps > n {
					return false
				}
			}
		}
		return true
	}
	rec = func(i, root int) {
		if i == n {
			if valid(root) {
				f(p)
			}
			return
		}
		if i == root {
			p[i] = i
			rec(i+1, root)
			return
		}
		for q := 0; q < n; q++ {
			if q != i {
				p[i] = q
				rec(i+1, root)
			}
		}
	}
	for root := 0; root < n; root++ {
		rec(0, root)
	}
}

// ---------------------------------------------------------------------------------------------
// the sequences a command line is run on

type c14anSeq struct {
	id      string
	taxid   int
	keys    []int // keys of merged_taxid (nil: no such attribute)
	weights []int
}

func (q c14anSeq) build() *obiseq.BioSequence {
	s := obiseq.NewBioSequence(q.id, []byte("acgt"), "")
	s.SetAttribute("taxid", q.taxid)
	if q.keys != nil {
		st := map[string]int{}
		for i, k := range q.keys {
			st[strconv.Itoa(k)] = q.weights[i]
		}
		s.SetAttribute("merged_taxid", st)
	}
	return s
}

func c14anSeqs(m *c14anModel, withLCA, withUnknown bool) []c14anSeq {
	known := append(append([]int{}, m.ids...), m.alias...)
	var out []c14anSeq
	for _, S := range known {
		out = append(out, c14anSeq{id: fmt.Sprintf("t%d", S), taxid: S})
	}
	if withUnknown {
		out = append(out, c14anSeq{id: "unknown", taxid: m.unknown})
	}
	if withLCA {
		for a := 0; a < len(known); a++ {
			for b := a + 1; b < len(known); b++ {
				out = append(out, c14anSeq{id: fmt.Sprintf("m%d_%d", known[a], known[b]), taxid: known[a],
					keys: []int{known[a], known[b]}, weights: []int{1 + a%2, 2}})
			}
		}
		if len(known) >= 3 {
			out = append(out, c14anSeq{id: "m3", taxid: known[len(known)-1],
				keys: []int{known[len(known)-1], known[0], known[len(known)/2]}, weights: []int{1, 1, 4}})
		}
	}
	return out
}

// ---------------------------------------------------------------------------------------------
// option combinations

func c14anAtRankLists() [][]string {
	al := append(append([]string{}, c14anRanks...), c14anAbsentRank)
	out := [][]string{nil}
	for _, a := range al {
		out = append(out, []string{a})
	}
	for i, a := range al {
		for j, b := range al {
			if i != j {
				out = append(out, []string{a, b})
			}
		}
	}
	for i := range al {
		for j := i + 1; j < len(al); j++ {
			for k := j + 1; k < len(al); k++ {
				a, b, c := al[i], al[j], al[k]
				out = append(out, []string{a, b, c}, []string{b, c, a}, []string{c, a, b})
			}
		}
	}
	out = append(out,
		[]string{"species", "genus", "family", "no rank"},
		[]string{c14anAbsentRank, "no rank", "family", "genus", "species"},
		[]string{"species", "genus", "species"})
	return out
}

var c14anSlots = []string{"", "lca", "lca_taxid", "taxid", "best"}

func c14anCombos(m *c14anModel, base c14anCase) []c14anCase {
	var out []c14anCase
	add := func(c c14anCase) {
		if len(c.AtRank) == 0 && !c.Path && !c.Rank && !c.SciName && c.LCASlot == "" {
			return // no taxonomy annotation asked
		}
		out = append(out, c)
	}
	k := 0
	// block A1
	for _, L := range c14anAtRankLists() {
		for _, slot := range c14anSlots {
			c := base
			c.AtRank, c.LCASlot = L, slot
			k++
			c.LCAErr = slot != "" && k%2 == 0
			add(c)
		}
	}
	// block A2
	for flags := 1; flags < 8; flags++ {
		for _, slot := range c14anSlots {
			for _, L := range [][]string{nil, {"species"}, {"genus", "family"}} {
				c := base
				c.Path, c.Rank, c.SciName = flags&1 != 0, flags&2 != 0, flags&4 != 0
				c.AtRank, c.LCASlot = L, slot
				add(c)
			}
		}
	}
	// block B
	var sels []c14anSel
	for _, X := range append(append([]int{}, m.ids...), m.alias...) {
		sels = append(sels, c14anSel{Kind: "r", Taxid: X}, c14anSel{Kind: "i", Taxid: X}, c14anSel{Kind: "vr", Taxid: X})
	}
	for _, rk := range c14anRanks {
		for _, have := range m.ranks {
			if have == rk {
				sels = append(sels, c14anSel{Kind: "k", Rank: rk})
				break
			}
		}
	}
	for _, sel := range sels {
		for set := 0; set < 4; set++ {
			c := base
			c.Sel = sel
			switch set {
			case 0:
				c.AtRank = []string{"species", "genus", "family"}
			case 1:
				c.Path, c.Rank, c.SciName = true, true, true
			case 2:
				c.LCASlot = "lca"
			default:
				c.AtRank = []string{"family", "no rank"}
				c.Path, c.Rank, c.SciName = true, true, true
				c.LCASlot = "best"
			}
			add(c)
		}
	}
	return out
}

func (c c14anCase) args(dir string) []string {
	args := []string{"-t", dir}
	for _, r := range c.AtRank {
		args = append(args, "--with-taxon-at-rank", r)
	}
	if c.Path {
		args = append(args, "--taxonomic-path")
	}
	if c.Rank {
		args = append(args, "--taxonomic-rank")
	}
	if c.SciName {
		args = append(args, "--scientific-name")
	}
	if c.LCASlot != "" {
		args = append(args, "--add-lca-in", c.LCASlot)
		if c.LCAErr {
			args = append(args, "--lca-error", "0")
		}
	}
	switch c.Sel.Kind {
	case "r":
		args = append(args, "-r", strconv.Itoa(c.Sel.Taxid))
	case "i":
		args = append(args, "--ignore-taxon", strconv.Itoa(c.Sel.Taxid))
	case "vr":
		args = append(args, "-v", "-r", strconv.Itoa(c.Sel.Taxid))
	case "k":
		args = append(args, "--require-rank", c.Sel.Rank)
	}
	return args
}

// parse runs the real option parser of the command after putting the option variables back to their
// start-up values (the parser appends to lists and takes current values as defaults)
func c14anParse(args []string) error {
	_taxonAtRank = make([]string, 0)
	_taxonomicPath, _withRank, _withScientificName = false, false, false
	_lcaSlot, _lcaError = "", 0.0
	obigrep.VerifC14ResetSelection()
	opt := getoptions.New()
	opt.SetMode(getoptions.Bundling)
	opt.SetUnknownMode(getoptions.Fail)
	OptionSet(opt)
	_, err := opt.Parse(args)
	return err
}

// ---------------------------------------------------------------------------------------------

type c14anRun struct {
	r   *verifkit.Result
	dir string

	// progress watch (a query that does not terminate must end as a finding, not as a stuck shard)
	progress atomic.Int64
	cur      atomic.Pointer[c14anCase]
	curSite  atomic.Pointer[string]
}

const c14anStall = 20 // seconds without a single record judged

// guarded runs evalTaxonomy in its own goroutine and watches its progress; returns true when it hung
// c14anGoID: number of the calling goroutine (first line of its stack: "goroutine 17 [running]:").
func c14anGoID() string {
	b := make([]byte, 64)
	f := strings.Fields(string(b[:runtime.Stack(b, false)]))
	if len(f) > 1 {
		return f[1]
	}
	return "?"
}

// c14anNet: in the goroutine that evaluates a taxonomy (where every implementation call of the harness is made,
// under its guards) a log.Fatal* becomes the panic c14anFatal and a log.Panic* is a panic already. Raised in a
// goroutine the implementation started (the workers of the annotation pipeline) neither can be caught by any guard
// and the process ends: the tree under test does that, not the harness. It is recorded as a violation, the shard
// writes what it has found and stops there.
type c14anNet struct {
	r   *verifkit.Result
	cur *atomic.Value // goroutine of the evaluation in progress (string)
	h   *c14anRun
}

func (n c14anNet) Levels() []log.Level { return []log.Level{log.PanicLevel} }

func (n c14anNet) Fire(e *log.Entry) error {
	n.end("log.Panic", e.Message)
	return nil
}

func (n c14anNet) end(what, msg string) {
	if g, _ := n.cur.Load().(string); g == c14anGoID() {
		return
	}
	stack := make([]byte, 3000)
	stack = stack[:runtime.Stack(stack, false)]
	var c any
	cmd := ""
	if p := n.h.cur.Load(); p != nil {
		c, cmd = *p, "obiannotate "+strings.Join(p.args("DIR"), " ")+": "
	}
	n.r.Violate("obiannotate.CLIAnnotationPipeline/"+what+"-in-a-goroutine-of-the-pipeline", fmt.Sprintf("%s%s %q in a goroutine started by the implementation; the shard stops here\n%s", cmd, what, msg, stack), c)
	n.r.Cap("a log.Fatal / log.Panic in a goroutine of the implementation ended a shard: its remaining cases were not run")
	n.r.Write()
	os.Exit(0)
}

var c14anEvalGo atomic.Value

func (h *c14anRun) guarded(scheme int, parent []int, ranks []string, only *c14anCase) bool {
	done := make(chan struct{})
	go func() {
		defer close(done)
		c14anEvalGo.Store(c14anGoID())
		h.evalTaxonomy(scheme, parent, ranks, only)
	}()
	tick := time.NewTicker(time.Second)
	defer tick.Stop()
	last, same := h.progress.Load(), 0
	for {
		select {
		case <-done:
			return false
		case <-tick.C:
			if now := h.progress.Load(); now != last {
				last, same = now, 0
			} else if same++; same >= c14anStall {
				site, c := "obiannotate", c14anCase{Scheme: scheme, Parent: parent, Ranks: ranks}
				if p := h.curSite.Load(); p != nil {
					site = *p
				}
				if p := h.cur.Load(); p != nil {
					c = *p
				}
				h.r.Violate(site+"/hang", fmt.Sprintf("obiannotate %s: no record judged within %d s; tree parent=%v ranks=%q scheme=%d",
					strings.Join(c.args("DIR"), " "), c14anStall, parent, ranks, scheme), c)
				h.r.Cap("a command line of obiannotate did not terminate: the remaining work of this shard was skipped")
				return true
			}
		}
	}
}

// selected: what the tree implies for the selection; constrained=false when the statement leaves it open
func (c c14anCase) selected(m *c14anModel, S int) (sel, constrained bool) {
	_, known := m.nodeOf[S]
	switch c.Sel.Kind {
	case "r":
		return known && m.inClade(S, c.Sel.Taxid), true
	case "i", "vr":
		return !m.inClade(S, c.Sel.Taxid), known
	case "k":
		return known && len(m.atRank(m.nodeOf[S], c.Sel.Rank)) > 0, true
	}
	return true, true
}

func (c c14anCase) lcaSlotAttr() string {
	if strings.HasSuffix(c.LCASlot, "taxid") {
		return c.LCASlot
	}
	return c.LCASlot + "_taxid"
}

// judge compares one output record (nil: the sequence is not in the output) with the tree
func (h *c14anRun) judge(site string, c c14anCase, m *c14anModel, q c14anSeq, out *obiseq.BioSequence) (good bool) {
	good = true
	selName := c14anSelNames[c.Sel.Kind]
	bad := func(key, format string, a ...any) {
		good = false
		h.r.Violate(site+"/"+key, fmt.Sprintf("obiannotate %s on sequence %s (taxid=%d merged_taxid keys=%v weights=%v): ",
			strings.Join(c.args("DIR"), " "), q.id, q.taxid, q.keys, q.weights)+fmt.Sprintf(format, a...)+
			fmt.Sprintf("; tree parent=%v ids=%v alias=%v ranks=%q", m.parent, m.ids, m.alias, m.ranks), c)
	}
	sel, constrained := c.selected(m, q.taxid)
	if !constrained {
		return
	}
	node, known := m.nodeOf[q.taxid]
	if !sel {
		if out == nil {
			return
		}
		var extra []string
		for k := range out.Annotations() {
			if k != "taxid" && k != "merged_taxid" {
				extra = append(extra, k)
			}
		}
		sort.Strings(extra)
		if t, _ := out.GetIntAttribute("taxid"); len(extra) > 0 || t != q.taxid {
			bad("annotated-though-not-selected:"+selName, "attributes %v added, taxid=%d", extra, t)
		}
		return
	}
	if out == nil {
		bad("selected-sequence-missing:"+selName, "the sequence is selected by the tree and absent from the output")
		return
	}
	h.r.Count("annotate_selected_records", 1)

	// LCA first: with the slot "taxid" the annotation replaces the taxid the other annotations are computed
	// from; the order of the two is not constrained, so the others are judged only when both agree
	lcaNode := -1
	if c.LCASlot != "" {
		nodes := []int{node}
		if q.keys != nil {
			nodes = nodes[:0]
			for _, k := range q.keys {
				nodes = append(nodes, m.nodeOf[k])
			}
		}
		lcaNode = nodes[0]
		for _, x := range nodes[1:] {
			lcaNode = m.lca(lcaNode, x)
		}
		class := fmt.Sprintf("%d-taxids", len(nodes))
		if q.keys == nil {
			class = "taxid-only"
		}
		g, has := out.GetIntAttribute(c.lcaSlotAttr())
		if !has {
			g, has = out.GetIntAttribute(c.LCASlot)
		}
		h.r.Count("annotate_lca", 1)
		if len(nodes) > 1 && lcaNode != nodes[0] {
			h.r.Count("annotate_lca_above_first_key", 1)
		}
		switch {
		case !has:
			bad("--add-lca-in/missing", "no attribute %s, want %d", c.lcaSlotAttr(), m.ids[lcaNode])
		case g != m.ids[lcaNode]:
			bad("--add-lca-in/wrong-taxid:"+class, "%s=%d want %d", c.lcaSlotAttr(), g, m.ids[lcaNode])
		default:
			nameAttr := strings.Replace(c.lcaSlotAttr(), "taxid", "name", 1)
			if nm, hasName := out.GetStringAttribute(nameAttr); hasName && nm != m.names[lcaNode] {
				bad("--add-lca-in/wrong-name", "%s=%q want %q", nameAttr, nm, m.names[lcaNode])
			}
		}
		if c.lcaSlotAttr() == "taxid" && lcaNode != node {
			return
		}
	}

	for _, rank := range c.AtRank {
		var cand []int
		if known {
			cand = m.atRank(node, rank)
		}
		inSet := func(x int) bool {
			for _, y := range cand {
				if m.ids[y] == x {
					return true
				}
			}
			return false
		}
		how := "one-rank"
		if len(c.AtRank) > 1 {
			how = "several-ranks"
		}
		g, has := out.GetIntAttribute(rank + "_taxid")
		nm, hasName := out.GetStringAttribute(rank + "_name")
		_, designates := m.nodeOf[g]
		designates = designates && has
		h.r.Count("annotate_taxon_at_rank", 1)
		if len(cand) > 0 {
			h.r.Count("annotate_taxon_at_rank_found", 1)
		}
		switch {
		case len(cand) == 0:
			if designates {
				bad("--with-taxon-at-rank/taxon-for-absent-rank:"+how, "%s_taxid=%d but the tree has no such taxon above %d", rank, g, q.taxid)
			}
		case !has:
			bad("--with-taxon-at-rank/missed:"+how, "no %s_taxid, want %d", rank, m.ids[cand[0]])
		case !inSet(g):
			bad("--with-taxon-at-rank/wrong-taxon:"+how, "%s_taxid=%d want %d", rank, g, m.ids[cand[0]])
		case !hasName || nm != m.names[m.nodeOf[g]]:
			bad("--with-taxon-at-rank/wrong-name:"+how, "%s_name=%q (present=%v) want %q", rank, nm, hasName, m.names[m.nodeOf[g]])
		}
	}
	if !known {
		return // only rank annotations are run on the unknown taxid
	}
	if c.Path {
		h.r.Count("annotate_path", 1)
		if len(m.anc[node]) > 1 {
			h.r.Count("annotate_path_longer_than_1", 1)
		}
		p, has := out.GetStringAttribute("taxonomic_path")
		if !has {
			bad("--taxonomic-path/missing", "no taxonomic_path attribute")
		} else {
			var gotIDs []int
			wellFormed, fieldsOK := true, true
			for _, item := range strings.Split(p, "|") {
				f := strings.Split(item, "@")
				id, err := strconv.Atoi(f[0])
				if len(f) != 3 || err != nil {
					wellFormed = false
					break
				}
				gotIDs = append(gotIDs, id)
				if x, ok := m.nodeOf[id]; !ok || m.ids[x] != id || f[1] != m.names[x] || f[2] != m.ranks[x] {
					fieldsOK = false
				}
			}
			var down, up []int // root -> taxon, taxon -> root
			for _, x := range m.anc[node] {
				up = append(up, m.ids[x])
				down = append([]int{m.ids[x]}, down...)
			}
			switch {
			case !wellFormed:
				bad("--taxonomic-path/malformed", "taxonomic_path=%q is not a list of taxid@name@rank", p)
			case fmt.Sprint(gotIDs) != fmt.Sprint(down) && fmt.Sprint(gotIDs) != fmt.Sprint(up):
				bad("--taxonomic-path/wrong-taxa", "taxonomic_path=%q, want the taxa %v (root first) or %v", p, down, up)
			case !fieldsOK:
				bad("--taxonomic-path/wrong-name-or-rank", "taxonomic_path=%q: a name or a rank is not the one of the taxid", p)
			}
		}
	}
	if c.Rank {
		if g, has := out.GetStringAttribute("taxonomic_rank"); !has {
			bad("--taxonomic-rank/missing", "no taxonomic_rank attribute")
		} else if g != m.ranks[node] {
			bad("--taxonomic-rank/wrong", "taxonomic_rank=%q want %q", g, m.ranks[node])
		}
	}
	if c.SciName && c.lcaSlotAttr() != "taxid" { // the slot "taxid" writes the name of the LCA in scientific_name
		g, has := out.GetStringAttribute("scientific_name")
		if !has {
			g, has = out.GetStringAttribute("scienctific_name") // the spelling of the attribute is not constrained
		}
		if !has {
			bad("--scientific-name/missing", "no scientific_name attribute")
		} else if g != m.names[node] {
			bad("--scientific-name/wrong", "scientific name %q want %q", g, m.names[node])
		}
	}
	return
}

// evalTaxonomy loads the dump of one tree through the command's loader and checks every command line
// (or only `only` when replaying).
func (h *c14anRun) evalTaxonomy(scheme int, parent []int, ranks []string, only *c14anCase) {
	r := h.r
	m := c14anNewModel(scheme, parent, ranks)
	if err := c14anWriteDump(m, h.dir); err != nil {
		panic("c14an harness: cannot write dump: " + err.Error())
	}
	base := c14anCase{Scheme: scheme, Parent: append([]int{}, parent...), Ranks: append([]string{}, ranks...)}
	guard := func(key string, c c14anCase, f func()) (ok bool) {
		defer func() {
			if rec := recover(); rec != nil {
				ok = false
				if _, fatal := rec.(c14anFatal); fatal {
					r.Violate(key+"/fatal", fmt.Sprintf("log.Fatal on obiannotate %s", strings.Join(c.args("DIR"), " ")), c)
				} else {
					msg := fmt.Sprint(rec)
					class := strings.Map(func(x rune) rune {
						if x >= '0' && x <= '9' {
							return -1
						}
						return x
					}, msg)
					if len(class) > 40 {
						class = class[:40]
					}
					r.Violate(key+"/panic:"+strings.ReplaceAll(strings.TrimSpace(class), " ", "-"),
						fmt.Sprintf("panic %v on obiannotate %s; tree parent=%v ids=%v alias=%v ranks=%q", rec,
							strings.Join(c.args("DIR"), " "), m.parent, m.ids, m.alias, m.ranks), c)
				}
			}
		}()
		f()
		return true
	}

	obigrep.VerifC14ForgetTaxonomy()
	combos := c14anCombos(m, base)
	if only != nil {
		combos = []c14anCase{*only}
	}
	r.Count("annotate_taxonomies", 1)
	r.State(fmt.Sprintf("annotate|%d|%v|%v", scheme, parent, ranks))

	siteWorker, sitePipeline := "obiannotate.CLIAnnotationWorker", "obiannotate.CLIAnnotationPipeline"
	for _, c := range combos {
		c := c
		h.cur.Store(&c)
		h.curSite.Store(&siteWorker)
		h.progress.Add(1)
		args := c.args(h.dir)
		// the command's OptionSet and option getters are code of the tree under test: called under the guard
		var perr error
		lost := ""
		if !guard("obiannotate.OptionSet", c, func() {
			if perr = c14anParse(args); perr != nil {
				return
			}
			if len(CLITaxonAtRank()) != len(c.AtRank) || CLISetTaxonomicPath() != c.Path || CLISetTaxonomicRank() != c.Rank ||
				CLISetScientificName() != c.SciName || CLILCASlotName() != c.LCASlot {
				lost = fmt.Sprintf("%v parsed as at-rank=%v path=%v rank=%v sciname=%v lca=%q",
					args, CLITaxonAtRank(), CLISetTaxonomicPath(), CLISetTaxonomicRank(), CLISetScientificName(), CLILCASlotName())
			}
		}) {
			continue
		}
		if perr != nil {
			r.Violate("obiannotate.OptionSet/parse-error", fmt.Sprintf("%v: %v", args, perr), c)
			continue
		}
		if lost != "" {
			r.Violate("obiannotate.OptionSet/options-lost", lost, c)
			continue
		}
		onlyRanks := !c.Path && !c.Rank && !c.SciName && c.LCASlot == ""
		withUnknown := onlyRanks && (c.Sel.Kind == "" || c.Sel.Kind == "r" || c.Sel.Kind == "k")
		seqs := c14anSeqs(m, c.LCASlot != "", withUnknown)
		r.Count("annotate_command_lines", 1)
		if c.Sel.Kind != "" {
			r.Count("annotate_command_lines_with_selection", 1)
		}
		if len(c.AtRank) >= 3 {
			r.Count("annotate_command_lines_3+_ranks", 1)
		}

		// (1) predicate and worker called here: a panic or a log.Fatal is caught and keyed
		var pred obiseq.SequencePredicate
		var worker obiseq.SeqWorker
		if !guard("obiannotate.CLIAnnotationWorker", c, func() {
			pred = obigrep.CLISequenceSelectionPredicate()
			worker = CLIAnnotationWorker()
		}) {
			continue
		}
		if worker == nil {
			r.Violate("obiannotate.CLIAnnotationWorker/no-worker", fmt.Sprintf("no annotation worker for %v", args), c)
			continue
		}
		good := true
		for _, q := range seqs {
			s := q.build()
			var out *obiseq.BioSequence
			if !guard("obiannotate.CLIAnnotationWorker(seq)", c, func() {
				if pred == nil || pred(s) {
					res, err := worker(s)
					if err == nil && len(res) == 1 {
						out = res[0]
					}
				}
			}) {
				good = false
				break // the same panic would kill the pipeline's worker goroutine
			}
			r.Eval(1)
			r.Trans(1)
			h.progress.Add(1)
			good = h.judge("obiannotate.CLIAnnotationWorker", c, m, q, out) && good
		}
		if !good {
			continue // the pipeline would only repeat the finding (or crash on the same panic)
		}

		// (2) the pipeline the command runs
		h.curSite.Store(&sitePipeline)
		h.progress.Add(1)
		input := make(obiseq.BioSequenceSlice, len(seqs))
		for i, q := range seqs {
			input[i] = q.build()
		}
		got := map[string]*obiseq.BioSequence{}
		extra := 0
		if !guard("obiannotate.CLIAnnotationPipeline", c, func() {
			res := obiiter.IBatchOver("c14", input, len(input)+1).Pipe(CLIAnnotationPipeline())
			for res.Next() {
				for _, s := range res.Get().Slice() {
					if _, dup := got[s.Id()]; dup {
						extra++
					}
					got[s.Id()] = s
				}
			}
		}) {
			continue
		}
		if extra > 0 {
			r.Violate("obiannotate.CLIAnnotationPipeline/duplicated-records", fmt.Sprintf("%d records delivered twice for %v", extra, args), c)
		}
		for _, q := range seqs {
			r.Eval(1)
			r.Trans(1)
			h.judge("obiannotate.CLIAnnotationPipeline", c, m, q, got[q.id])
		}
		r.Count("annotate_pipelines", 1)
	}
}

func TestVerifC14Annotate(t *testing.T) {
	log.SetOutput(io.Discard)
	r := verifkit.New("C14")
	defer r.Write()
	debug.SetGCPercent(1600) // millions of short-lived records on a live heap of a few MiB: collect less often

	base := ""
	if st, err := os.Stat("/dev/shm"); err == nil && st.IsDir() {
		base = "/dev/shm"
	}
	dir, err := os.MkdirTemp(base, "c14an-")
	if err != nil && base != "" {
		dir, err = os.MkdirTemp("", "c14an-")
	}
	if err != nil {
		t.Fatal(err)
	}
	defer os.RemoveAll(dir)
	h := &c14anRun{r: r, dir: dir}
	net := c14anNet{r, &c14anEvalGo, h}
	log.AddHook(net)
	log.StandardLogger().ExitFunc = func(int) { net.end("log.Fatal", ""); panic(c14anFatal{}) }

	if rc := r.ReplayCase(); rc != nil {
		var c c14anCase
		if err := json.Unmarshal(rc, &c); err != nil {
			t.Fatal(err)
		}
		if len(c.Parent) == 0 || len(c.Ranks) != len(c.Parent) {
			t.Fatal("c14an: malformed replay case")
		}
		h.guarded(c.Scheme, c.Parent, c.Ranks, &c)
		r.Replayed(1)
		return
	}

	maxN := 4
	if verifkit.Thorough() {
		maxN = 5
	}
	r.Bound("annotate_max_nodes", maxN)
	r.Bound("annotate_variants", "2 taxid numberings x 2 rank vectors for n <= 4, 2 x 1 for n = 5 (thorough tier)")
	r.Bound("annotate_at_rank_lists", len(c14anAtRankLists()))
	r.Bound("annotate_lca_slots", c14anSlots)
	k := 0
	hung := false
	for n := 1; n <= maxN && !hung; n++ {
		stop := false
		c14anTrees(n, func(parent []int) {
			if stop {
				return
			}
			depth := make([]int, n)
			for i := range parent {
				for x := i; parent[x] != x; x = parent[x] {
					depth[i]++
				}
			}
			byDepth := []string{"no rank", "family", "genus", "species", "no rank"}
			rv1 := make([]string, n)
			rv2 := make([]string, n)
			for i := 0; i < n; i++ {
				rv1[i] = byDepth[depth[i]%len(byDepth)]
				rv2[i] = c14anRanks[i%len(c14anRanks)]
			}
			rvs := [][]string{rv1, rv2}
			schemes := []int{0, 1}
			if n == 5 { // thorough tier only: one rank vector (the option product is large)
				rvs = rvs[:1]
			}
			for _, scheme := range schemes {
				for _, rv := range rvs {
					mine := r.Mine(k)
					k++
					if !mine {
						continue
					}
					if h.guarded(scheme, append([]int{}, parent...), rv, nil) {
						hung = true
						stop = true
						return
					}
					if r.Expired() {
						stop = true
						return
					}
				}
			}
		})
	}
	if hung {
		return
	}
	r.RequireNonVacuous("annotate_pipelines")
	r.RequireNonVacuous("annotate_command_lines_with_selection")
	r.RequireNonVacuous("annotate_command_lines_3+_ranks")
	r.RequireNonVacuous("annotate_taxon_at_rank_found")
	r.RequireNonVacuous("annotate_path_longer_than_1")
	r.RequireNonVacuous("annotate_lca_above_first_key")
}
